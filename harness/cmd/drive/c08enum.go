package main

import (
	"fmt"
	"runtime"
	"sync"

	"github.com/protobom/protobom/pkg/sbom"

	"verifharness/coqfmt"
	"verifharness/gen"
	"verifharness/graphops"
	"verifharness/props"
)

// Exhaustive small-scope search over pool histories (support for the correspondence, not a proof):
// every history of `depth` menu operations over three small live lists, each operation on any list
// with any other live list as argument. Storage sharing between lists only shows on such histories
// (one call makes two lists share a slice, a second extends it through one list, a third through the
// other), and random histories rarely line the three up.

func enumPool(variant int) []*sbom.NodeList {
	mk := func(ids []string, roots []string, edges [][]string) *sbom.NodeList {
		nl := &sbom.NodeList{}
		for k, id := range ids {
			// package urls of every spelling the purl-type extraction has a rule for (and "pkg://host/...": an empty type)
			purl := []string{"pkg://github.com/example/" + id + "@v1", "pkg:npm/" + id + "@1", "pkg:/npm/" + id + "@1", ""}[k%4]
			nd := &sbom.Node{Id: id, Name: "n-" + id}
			if purl != "" {
				nd.Identifiers = map[int32]string{int32(sbom.SoftwareIdentifierType_PURL): purl}
			}
			nl.AddNode(nd)
		}
		for _, r := range roots { // grown by append, as AddRootNode and the decoders grow it
			nl.RootElements = append(nl.RootElements, r)
		}
		for _, e := range edges {
			nl.AddEdge(&sbom.Edge{Type: sbom.Edge_dependsOn, From: e[0], To: append([]string{}, e[1:]...)})
		}
		return nl
	}
	switch variant {
	case 0: // disjoint identifiers
		return []*sbom.NodeList{
			mk([]string{"a1", "a2"}, []string{"a1"}, [][]string{{"a1", "a2"}}),
			mk([]string{"b1", "b2", "b3"}, []string{"b1", "b2", "b3"}, [][]string{{"b1", "b2"}}),
			mk([]string{"c1", "c2"}, []string{"c1", "c2"}, nil),
		}
	default: // overlapping identifiers
		return []*sbom.NodeList{
			mk([]string{"x", "a2", "y"}, []string{"x"}, [][]string{{"x", "a2", "y"}}),
			mk([]string{"y", "b2", "x"}, []string{"y", "b2", "x"}, [][]string{{"y", "b2"}, {"b2", "x"}}),
			mk([]string{"c1", "y"}, []string{"c1"}, [][]string{{"c1", "y"}}),
		}
	}
}

type enumOp struct {
	recv, arg, dst int // arg = -1: none
	kind           graphops.Kind
	sel            int // which node of the receiver an id argument names: 0 first node, 1 last node, 2 first root
}

func enumMenu() []enumOp {
	var m []enumOp
	for r := 0; r < 3; r++ {
		o1, o2 := (r+1)%3, (r+2)%3
		for _, a := range []int{o1, o2} {
			m = append(m,
				enumOp{r, a, r, graphops.RelateList, 0},
				enumOp{r, a, r, graphops.Add, 0},
				enumOp{r, a, a, graphops.Union, 0},
				enumOp{r, a, r, graphops.Intersect, 0})
		}
		// a list as its own argument
		m = append(m,
			enumOp{r, r, r, graphops.Add, 0},
			enumOp{r, r, o1, graphops.Union, 0},
			enumOp{r, r, r, graphops.RelateList, 0},
			enumOp{r, r, o2, graphops.Intersect, 0})
		m = append(m,
			enumOp{r, -1, r, graphops.RelateNode, 0},
			enumOp{r, -1, r, graphops.RelateNode, 3}, // the node related at itself
			enumOp{r, -1, r, graphops.Remove, 2},
			enumOp{r, -1, r, graphops.Remove, 1},
			enumOp{r, -1, o1, graphops.Descendants, 2},
			enumOp{r, -1, o2, graphops.ByPurlType, 0},
			enumOp{r, -1, o1, graphops.ByPurlType, 1},
			enumOp{r, -1, o2, graphops.Graph, 1})
	}
	return m
}

func (e enumOp) build(pool []*sbom.NodeList, step int) *graphops.Op {
	cur := pool[e.recv]
	id := "no-such-node"
	switch {
	case e.sel == 2 && len(cur.RootElements) > 0:
		id = cur.RootElements[0]
	case e.sel == 1 && len(cur.Nodes) > 0:
		id = cur.Nodes[len(cur.Nodes)-1].Id
	case len(cur.Nodes) > 0:
		id = cur.Nodes[0].Id
	}
	op := &graphops.Op{Kind: e.kind}
	if e.arg >= 0 {
		op.L2 = pool[e.arg]
	}
	switch e.kind {
	case graphops.RelateList:
		op.At, op.T = id, sbom.Edge_dependsOn
	case graphops.RelateNode:
		op.At, op.T = id, sbom.Edge_dependsOn
		nid := fmt.Sprintf("n%d", step)
		if e.sel == 3 {
			nid = id
		}
		op.Node = &sbom.Node{Id: nid, Name: "n-" + nid}
	case graphops.Remove:
		op.IDs = []string{id}
	case graphops.Descendants:
		op.ID, op.Depth = id, 2
	case graphops.Graph:
		op.ID = id
	case graphops.ByPurlType:
		op.Purl = []string{"", "npm"}[e.sel%2]
	}
	return op
}

type structView struct {
	ids, roots []string
	edges      map[props.Triple]bool
}

func viewOf(l *sbom.NodeList) structView {
	v := structView{edges: props.TripleSet(l)}
	for _, n := range l.Nodes {
		v.ids = append(v.ids, n.Id)
	}
	v.roots = append(v.roots, l.RootElements...)
	return v
}

func sameStrs(a, b []string) bool {
	if len(a) != len(b) {
		return false
	}
	for i := range a {
		if a[i] != b[i] {
			return false
		}
	}
	return true
}

func (v structView) same(w structView) bool {
	return sameStrs(v.ids, w.ids) && sameStrs(v.roots, w.roots) && props.SameTripleSet(v.edges, w.edges)
}

// runC08Enum runs every history of the given depth; one history in `sample` also goes to the Coq evaluator.
// The histories are split by variant and first operation into independent tasks run on all cores; the
// results are merged in task order, so a run is reproducible from its seed.
type enumEmit struct {
	c     string
	input map[string]any
}

type enumResult struct {
	evals, histories, failures int
	fails                      []Failure
	emits                      []enumEmit
}

func enumTask(menu []enumOp, variant, first, depth, sample int, rng *gen.G) enumResult {
	var res enumResult
	idx := make([]int, depth)
	idx[0] = first
	for {
		res.histories++
		emit := rng.Int(sample) == 0
		pool := enumPool(variant)
		initial := []any{graphops.PJ(pool[0]), graphops.PJ(pool[1]), graphops.PJ(pool[2])}
		var history []any
		for s := 0; s < depth; s++ {
			e := menu[idx[s]]
			op := e.build(pool, s)
			views := []structView{viewOf(pool[0]), viewOf(pool[1]), viewOf(pool[2])}
			var beforeCoq []string
			var opCoq string
			if emit {
				beforeCoq = []string{coqfmt.NodeList(pool[0]), coqfmt.NodeList(pool[1]), coqfmt.NodeList(pool[2])}
				opCoq = op.Coq()
			}
			d := op.Describe()
			delete(d, "arg_nodelist")
			d["receiver"], d["argument_slot"], d["result_slot"] = e.recv, e.arg, e.dst
			history = append(history, d)
			after, outcome, pv := op.Apply(pool[e.recv])
			dst := e.dst
			if outcome == graphops.OK {
				pool[dst] = after
			} else {
				dst = e.recv
			}
			res.evals++
			bad := ""
			if outcome == graphops.Panic {
				bad = "operation panicked: " + fmt.Sprint(pv)
			}
			for i, l := range pool {
				if bad != "" {
					break
				}
				if err := props.WellFormed(l); err != nil {
					bad = fmt.Sprintf("after %s on live list %d (argument %d), live list %d is not well-formed: %v", op.Kind, e.recv, e.arg, i, err)
				} else if i != dst && !viewOf(l).same(views[i]) {
					bad = fmt.Sprintf("after %s on live list %d (argument %d, result to %d), live list %d changed although the call neither received nor returned it as its result", op.Kind, e.recv, e.arg, dst, i)
				}
			}
			if emit && outcome != graphops.Panic {
				input := map[string]any{"initial_pool": initial, "history": append([]any{}, history...)}
				for i, l := range pool {
					var c string
					if i == dst && e.arg == e.recv && e.kind == graphops.RelateList {
						c = fmt.Sprintf("(SelfRel %s %s %s %d %s)", beforeCoq[e.recv], coqfmt.Str(op.At), coqfmt.Z(int64(op.T)), outcome, coqfmt.NodeList(l))
					} else if i == dst {
						c = fmt.Sprintf("(One (mk_case08 %s %s %d %s))", beforeCoq[e.recv], opCoq, outcome, coqfmt.NodeList(l))
					} else {
						c = fmt.Sprintf("(Frame %s %s)", beforeCoq[i], coqfmt.NodeList(l))
					}
					res.emits = append(res.emits, enumEmit{c, input})
				}
			}
			if bad != "" {
				res.failures++
				if len(res.fails) < 2 {
					res.fails = append(res.fails, Failure{What: "a history of editing operations over several live lists breaks one of them", Detail: bad,
						Input: map[string]any{"initial_pool": initial, "history": history, "pool_after": []any{graphops.PJ(pool[0]), graphops.PJ(pool[1]), graphops.PJ(pool[2])}}})
				}
				break
			}
		}
		// next history of this task (the first operation is fixed)
		k := depth - 1
		for k >= 1 {
			idx[k]++
			if idx[k] < len(menu) {
				break
			}
			idx[k] = 0
			k--
		}
		if k < 1 {
			break
		}
	}
	return res
}

func runC08Enum(g *gen.G, rep *Report, cfx *CasesFile, depth, sample int) {
	menu := enumMenu()
	rep.Rule += fmt.Sprintf("; plus every history of %d operations from a menu of %d (receiver x operation x live argument, the list itself included) over two fixed pools of three lists, all live lists checked after each step, one history in %d also evaluated by the model", depth, len(menu), sample)
	type task struct {
		variant, first int
		rng            *gen.G
	}
	var tasks []task
	for variant := 0; variant < 2; variant++ {
		for first := range menu {
			tasks = append(tasks, task{variant, first, gen.New(int64(g.Int(1 << 30)))})
		}
	}
	results := make([]enumResult, len(tasks))
	var wg sync.WaitGroup
	sem := make(chan struct{}, runtime.NumCPU())
	for ti := range tasks {
		wg.Add(1)
		sem <- struct{}{}
		go func(ti int) {
			defer wg.Done()
			defer func() { <-sem }()
			results[ti] = enumTask(menu, tasks[ti].variant, tasks[ti].first, depth, sample, tasks[ti].rng)
		}(ti)
	}
	wg.Wait()
	histories, failures := 0, 0
	for _, r := range results {
		histories += r.histories
		failures += r.failures
		rep.OracleEvals += r.evals
		for _, f := range r.fails {
			if len(rep.OracleFails) < 5 {
				rep.Fail(f)
			}
		}
		for _, e := range r.emits {
			cfx.Add(e.c)
			rep.NoteCase(e.c, true, e.input)
		}
	}
	rep.Count(fmt.Sprintf("enumerated_histories=%d", histories))
	rep.Count(fmt.Sprintf("enumerated_histories_failing=%d", failures))
}
