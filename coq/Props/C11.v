(* C11 — Queries and value-returning operations leave their operands unchanged.  Statements only;
   proofs in Proofs/HeapFacts.v.  What a theorem can carry here: the operations that build a new
   value from their operands by copying (Copy of every message type; Union and Intersect assemble
   their result from such copies) only allocate — the heap their operands live in is extended,
   never written — so every snapshot of an operand taken after the call equals the one taken
   before, and snapshots are blind to stores outside what they reach.  Comparing, hashing,
   diffing, looking up, traversing and serializing are functions of the operand graph in the value
   models (C13, C14, C15, C16, C07); that the real code does not write while computing them is
   observed, not proved: the harness records the operands' object graph by pointer identity before
   and after every such call and the evaluator checks it is the same graph (values, shape and
   sharing; HUnchanged cases), and a race-detector build runs them concurrently on one document. *)
From Coq Require Import Lia.
From Verif Require Import Model.Base Model.Heap Proofs.HeapFacts Proofs.ParseFacts.
Open Scope list_scope.

(* copying leaves every location of the source heap as it was *)
Theorem C11_copy_does_not_write : forall h v v' h',
  dense h -> closed_heap h -> (forall m, ptr_of v = Some m -> 0 <= m < Z.of_nat (length h)) ->
  copy_value h v = (v', h') ->
  forall l c, hget h l = Some c -> hget h' l = Some c.
Proof. exact copy_does_not_write. Qed.
Print Assumptions C11_copy_does_not_write.

(* hence the operand's snapshot after the call is the snapshot before it *)
Theorem C11_operand_snapshot_unchanged : forall fuel h v v' h' w,
  dense h -> closed_heap h -> (forall m, ptr_of v = Some m -> 0 <= m < Z.of_nat (length h)) ->
  copy_value h v = (v', h') ->
  (forall l, Reach h w l -> hget h l <> None) ->
  tree_of fuel h' w = tree_of fuel h w.
Proof. exact operand_snapshot_unchanged. Qed.
Print Assumptions C11_operand_snapshot_unchanged.

(* what one caller stores into its own result cannot be seen through a shared operand *)
Theorem C11_private_stores_invisible : forall fuel h v l c,
  ~ Reach h v l -> tree_of fuel (hset h l c) v = tree_of fuel h v.
Proof. exact store_elsewhere_keeps_snapshot. Qed.
Print Assumptions C11_private_stores_invisible.

Example C11_example :
  let h := [ (0, HMsg K_Edge [HZ 5; HS "a"; HSl 1 2]); (1, HArr [HS "b"; HS "c"]) ] in
  let '(v', h') := copy_value h (HPtr 0) in
  (same_graph h [HPtr 0] h' [HPtr 0] && negb (same_graph h [HPtr 0] (hset h' 1 (HArr [HS "c"; HS "b"])) [HPtr 0]))%bool = true.
Proof. vm_compute. reflexivity. Qed.
