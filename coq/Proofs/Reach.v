(* Sub-graph extraction computes bounded reachability (C15). *)
From Coq Require Import Lia Permutation.
From Verif Require Import Model.Base Model.Node Model.Graph Proofs.ListFacts Proofs.GraphFacts Proofs.OpsWf Proofs.SetLaws.
Open Scope list_scope.

(* one hop: an edge out of x names y and y is a present node *)
Definition hop (l : nodelist) (x y : string) : Prop :=
  (exists t, Eset l x t y) /\ Nset l y.

Lemma succs_spec l x y : In y (succs l x) <-> hop l x y.
Proof.
  unfold succs, hop, Eset, InE, out_edges, Nset, has.
  rewrite filter_In, dedup_In, in_flat_map, mem_In. split.
  - intros [[e [He Hy]] Hn]. apply filter_In in He as [He Hf]. apply String.eqb_eq in Hf.
    split; [|assumption]. exists (e_type e), e. auto.
  - intros [[t [e [He [Hf [_ Hy]]]]] Hn]. split; [|assumption]. exists e. split; [|assumption].
    apply filter_In. split; [assumption|]. apply String.eqb_eq. assumption.
Qed.

(* ---- NodeDescendants ---------------------------------------------------------------- *)
(* a node is traversed through when it is the start node or not a root element *)
Definition through (l : nodelist) (s x : string) : Prop := x = s \/ ~ Rset l x.

Lemma through_b l s x : (String.eqb x s || negb (is_root l x)) = true <-> through l s x.
Proof.
  unfold through, is_root, Rset. rewrite orb_true_iff, String.eqb_eq, negb_true_iff, mem_false. tauto.
Qed.

(* dpath l s x k y: y is reached from x in exactly k hops, every node that is left being
   the start s or a non-root; the last node may be a root *)
Inductive dpath (l : nodelist) (s : string) : string -> nat -> string -> Prop :=
  | dpath_0 x : dpath l s x 0 x
  | dpath_S x z y k : through l s x -> hop l x z -> dpath l s z k y -> dpath l s x (S k) y.

Lemma desc_round_In l s seen z :
  In z (desc_round l s seen) <-> In z seen \/ exists x, In x seen /\ through l s x /\ hop l x z.
Proof.
  unfold desc_round. rewrite dedup_In, in_app_iff, in_flat_map. split.
  - intros [H|[x [Hx Hz]]]; [left; assumption|right].
    destruct (String.eqb x s || negb (is_root l x)) eqn:E; [|contradiction].
    exists x. rewrite <- through_b, <- succs_spec. auto.
  - intros [H|[x [Hx [Ht Hh]]]]; [left; assumption|right].
    exists x. split; [assumption|]. apply through_b in Ht. rewrite Ht. apply succs_spec. assumption.
Qed.

Theorem desc_rounds_spec l s k : forall seen y,
  In y (desc_rounds k l s seen) <-> exists x m, In x seen /\ (m <= k)%nat /\ dpath l s x m y.
Proof.
  induction k as [|k IH]; intros seen y; simpl.
  - split.
    + intros H. exists y, 0%nat. split; [assumption|]. split; [lia|constructor].
    + intros [x [m [Hx [Hm Hp]]]]. assert (m = 0%nat) by lia. subst. inversion Hp; subst. assumption.
  - rewrite IH. split.
    + intros [z [m [Hz [Hm Hp]]]]. apply desc_round_In in Hz as [Hz|[x [Hx [Ht Hh]]]].
      * exists z, m. split; [assumption|]. split; [lia|assumption].
      * exists x, (S m). split; [assumption|]. split; [lia|]. econstructor; eassumption.
    + intros [x [m [Hx [Hm Hp]]]]. destruct (Nat.eq_dec m (S k)) as [->|Hne].
      * inversion Hp as [|? z ? ? Ht Hh Hp']; subst. exists z, k. split; [|split; [lia|assumption]].
        apply desc_round_In. right. exists x. auto.
      * exists x, m. split; [apply desc_round_In; left; assumption|]. split; [lia|assumption].
Qed.

Lemma nodes_of_Nset l seen y :
  (forall j, In j seen -> In j (ids l)) ->
  (In y (map n_id (nodes_of l seen)) <-> In y seen).
Proof. intros H. rewrite nodes_of_ids by assumption. tauto. Qed.

(* the nodes of NodeDescendants(s, d), d >= 1: exactly those within d-1 hops *)
Theorem descendants_nodes l s d y :
  Nset l s ->
  (Nset (node_descendants l s (S d)) y <-> exists m, (m <= d)%nat /\ dpath l s s m y).
Proof.
  intros Hs. unfold Nset at 1, node_descendants.
  destruct (first_node_In s (nl_nodes l) Hs) as [n [Hn _]]. rewrite Hn.
  unfold ids; simpl.
  destruct (desc_rounds_inv d l s [s]) as [_ [H2 _]].
  { repeat constructor. intros []. }
  { intros j [<-|[]]. assumption. }
  rewrite (nodes_of_Nset l _ y H2), desc_rounds_spec. split.
  - intros [x [m [[<-|[]] [Hm Hp]]]]. exists m. auto.
  - intros [m [Hm Hp]]. exists s, m. split; [left; reflexivity|auto].
Qed.

Theorem descendants_absent l s d : ~ Nset l s -> node_descendants l s d = empty_nl.
Proof.
  intros Hs. unfold node_descendants. apply first_node_None in Hs. rewrite Hs. reflexivity.
Qed.

Theorem descendants_mono l s d y :
  Nset (node_descendants l s (S d)) y -> Nset (node_descendants l s (S (S d))) y.
Proof.
  destruct (in_dec string_dec s (ids l)) as [Hs|Hs].
  - rewrite !descendants_nodes by assumption. intros [m [Hm Hp]]. exists m. split; [lia|assumption].
  - rewrite descendants_absent by assumption. intros [].
Qed.

Theorem descendants_edges l s d f t x :
  Nset l s ->
  (Eset (node_descendants l s (S d)) f t x <->
   Eset l f t x /\ Nset (node_descendants l s (S d)) f /\ Nset (node_descendants l s (S d)) x).
Proof.
  intros Hs. unfold Eset at 1, Nset at 1 2, node_descendants.
  destruct (first_node_In s (nl_nodes l) Hs) as [n [Hn _]]. rewrite Hn. unfold ids; simpl.
  destruct (desc_rounds_inv d l s [s]) as [_ [H2 _]].
  { repeat constructor. intros []. }
  { intros j [<-|[]]. assumption. }
  rewrite clean_edges_InE, !mem_In, !(nodes_of_Nset l _ _ H2). unfold Eset. tauto.
Qed.

Theorem descendants_roots l s d : Nset l s -> nl_root_elements (node_descendants l s d) = [s].
Proof.
  intros Hs. unfold node_descendants. destruct (first_node_In s (nl_nodes l) Hs) as [n [Hn _]]. rewrite Hn. reflexivity.
Qed.

(* ---- NodeSiblings ------------------------------------------------------------------------ *)
Theorem siblings_nodes l s l' y :
  node_siblings l s = Ok l' -> Nset l s -> (Nset l' y <-> y = s \/ hop l s y).
Proof.
  unfold node_siblings. destruct (String.eqb s ""); [discriminate|]. intros H Hs.
  destruct (first_node_In s (nl_nodes l) Hs) as [n [Hn _]]. rewrite Hn in H.
  assert (Hin : forall j, In j (dedup (s :: succs l s)) -> In j (ids l)).
  { intros j Hj. apply (proj1 (dedup_In _ _)) in Hj. destruct Hj as [<-|Hj]; [assumption|].
    eapply succs_in; eassumption. }
  revert H. generalize (nodes_of_Nset l (dedup (s :: succs l s)) y Hin).
  generalize (dedup_In y (s :: succs l s)).
  generalize (dedup (s :: succs l s)) as seen. intros seen H1 H2 H. injection H as <-.
  unfold Nset, ids; simpl. rewrite H2, H1. simpl. rewrite succs_spec. split; intros [E|E]; auto.
Qed.

Theorem siblings_edges l s l' f t x :
  node_siblings l s = Ok l' -> Nset l s ->
  (Eset l' f t x <-> f = s /\ Eset l s t x /\ Nset l' x).
Proof.
  unfold node_siblings. destruct (String.eqb s ""); [discriminate|]. intros H Hs.
  destruct (first_node_In s (nl_nodes l) Hs) as [n [Hn _]]. rewrite Hn in H.
  assert (Hin : forall j, In j (dedup (s :: succs l s)) -> In j (ids l)).
  { intros j Hj. apply (proj1 (dedup_In _ _)) in Hj. destruct Hj as [<-|Hj]; [assumption|].
    eapply succs_in; eassumption. }
  assert (Hs' : In s (dedup (s :: succs l s))) by (apply dedup_In; left; reflexivity).
  revert H Hs'. generalize (fun y => nodes_of_Nset l (dedup (s :: succs l s)) y Hin).
  generalize (dedup (s :: succs l s)) as seen. intros seen H2 H Hs'. injection H as <-.
  unfold Eset at 1, Nset at 1, ids; simpl. rewrite clean_edges_InE, !mem_In, H2.
  unfold Eset, InE, out_edges. split.
  - intros [[e [He [Hf [Ht Hx]]]] [Hfs Hxs]]. apply filter_In in He as [He Hfe]. apply String.eqb_eq in Hfe.
    split; [congruence|]. split; [|assumption]. exists e. subst. auto.
  - intros [-> [[e [He [Hf [Ht Hx]]]] Hxs]]. split; [|auto]. exists e. split; [|auto].
    apply filter_In. split; [assumption|]. apply String.eqb_eq. assumption.
Qed.

Theorem siblings_roots l s l' : node_siblings l s = Ok l' -> Nset l s -> nl_root_elements l' = [s].
Proof.
  unfold node_siblings. destruct (String.eqb s ""); [discriminate|]. intros H Hs.
  destruct (first_node_In s (nl_nodes l) Hs) as [n [Hn _]]. rewrite Hn in H.
  injection H as <-. reflexivity.
Qed.

(* ---- NodeGraph ------------------------------------------------------------------------------ *)
(* gpath l x k y: k hops from x to y, every node reached being a non-root; the node with the
   empty identifier is never traversed through (NodeSiblings refuses it) *)
Inductive gpath (l : nodelist) : string -> nat -> string -> Prop :=
  | gpath_0 x : gpath l x 0 x
  | gpath_S x z y k : x <> "" -> hop l x z -> ~ Rset l z -> gpath l z k y -> gpath l x (S k) y.

Lemma graph_round_In l s seen z :
  In z (graph_round l s seen) <->
  In z seen \/ exists x, In x seen /\ x <> "" /\ hop l x z /\ ~ Rset l z.
Proof.
  unfold graph_round. rewrite dedup_In, in_app_iff, filter_In, in_flat_map, negb_true_iff.
  unfold is_root. rewrite mem_false. split.
  - intros [H|[[x [Hx Hz]] Hr]]; [left; assumption|right].
    destruct (String.eqb_spec x ""); [contradiction|]. exists x. rewrite <- succs_spec. auto.
  - intros [H|[x [Hx [Hne [Hh Hr]]]]]; [left; assumption|right]. split; [|assumption].
    exists x. split; [assumption|]. destruct (String.eqb_spec x ""); [contradiction|].
    apply succs_spec. assumption.
Qed.

Theorem graph_rounds_spec l s k : forall seen y,
  In y (graph_rounds k l s seen) <-> exists x m, In x seen /\ (m <= k)%nat /\ gpath l x m y.
Proof.
  induction k as [|k IH]; intros seen y; simpl.
  - split.
    + intros H. exists y, 0%nat. split; [assumption|]. split; [lia|constructor].
    + intros [x [m [Hx [Hm Hp]]]]. assert (m = 0%nat) by lia. subst. inversion Hp; subst. assumption.
  - rewrite IH. split.
    + intros [z [m [Hz [Hm Hp]]]]. apply graph_round_In in Hz as [Hz|[x [Hx [Hne [Hh Hr]]]]].
      * exists z, m. split; [assumption|]. split; [lia|assumption].
      * exists x, (S m). split; [assumption|]. split; [lia|]. econstructor; eassumption.
    + intros [x [m [Hx [Hm Hp]]]]. destruct (Nat.eq_dec m (S k)) as [->|Hne].
      * inversion Hp as [|? z ? ? Hne' Hh Hr Hp']; subst. exists z, k. split; [|split; [lia|assumption]].
        apply graph_round_In. right. exists x. auto.
      * exists x, m. split; [apply graph_round_In; left; assumption|]. split; [lia|assumption].
Qed.

(* ---- the fuel (number of nodes) is never exhausted: simple paths suffice ---------------------- *)
(* gtr l x p y: a path from x to y visiting exactly the nodes p after x *)
Inductive gtr (l : nodelist) : string -> list string -> string -> Prop :=
  | gtr_0 x : gtr l x [] x
  | gtr_S x z p y : x <> "" -> hop l x z -> ~ Rset l z -> gtr l z p y -> gtr l x (z :: p) y.

Lemma gpath_gtr l x k y : gpath l x k y -> exists p, length p = k /\ gtr l x p y.
Proof.
  induction 1 as [x|x z y k Hne Hh Hr Hp [p [Hl Ht]]].
  - exists []. split; [reflexivity|constructor].
  - exists (z :: p). split; [simpl; lia|]. constructor; assumption.
Qed.

Lemma gtr_gpath l x p y : gtr l x p y -> gpath l x (length p) y.
Proof.
  induction 1 as [x|x z p y Hne Hh Hr Ht IH]; simpl; [constructor|]. econstructor; eassumption.
Qed.

Lemma gtr_in_ids l x p y : Nset l x -> gtr l x p y -> forall z, In z (x :: p) -> Nset l z.
Proof.
  intros Hx Ht. induction Ht as [x|x z p y Hne Hh Hr Ht IH]; intros w Hw.
  - destruct Hw as [<-|[]]. assumption.
  - destruct Hw as [<-|Hw]; [assumption|]. apply IH; [apply Hh|assumption].
Qed.

(* the part of a duplicate-free path that starts at one of its nodes *)
Lemma gtr_suffix l z q y x :
  gtr l z q y -> NoDup (z :: q) -> In x (z :: q) ->
  exists q', gtr l x q' y /\ NoDup (x :: q') /\ incl q' q.
Proof.
  intros Ht. induction Ht as [z|z z' p y Hne Hh Hr Ht IH]; intros Hnd Hin.
  - destruct Hin as [<-|[]]. exists []. split; [constructor|]. split; [assumption|apply incl_refl].
  - destruct Hin as [<-|Hin].
    + exists (z' :: p). split; [constructor; assumption|]. split; [assumption|apply incl_refl].
    + inversion Hnd as [|? ? _ Hnd']; subst. destruct (IH Hnd' Hin) as [q' [H1 [H2 H3]]].
      exists q'. split; [assumption|]. split; [assumption|]. intros w Hw. right. apply H3. assumption.
Qed.

(* every path can be replaced by a duplicate-free one with the same endpoints *)
Lemma gtr_simple l x p y :
  gtr l x p y -> exists q, gtr l x q y /\ NoDup (x :: q) /\ incl q p.
Proof.
  induction 1 as [x|x z p y Hne Hh Hr Ht [q [Hq [Hnd Hi]]]].
  - exists []. split; [constructor|]. split; [repeat constructor; intros []|apply incl_refl].
  - destruct (in_dec string_dec x (z :: q)) as [Hin|Hnin].
    + destruct (gtr_suffix l z q y x Hq Hnd Hin) as [q' [H1 [H2 H3]]].
      exists q'. split; [assumption|]. split; [assumption|]. intros w Hw. right. apply Hi, H3. assumption.
    + exists (z :: q). split; [constructor; assumption|]. split; [constructor; assumption|].
      intros w [<-|Hw]; [left; reflexivity|right; apply Hi; assumption].
Qed.

Theorem gpath_bounded l s m y :
  Nset l s -> gpath l s m y -> exists m', (m' < length (nl_nodes l))%nat /\ gpath l s m' y.
Proof.
  intros Hs Hp. apply gpath_gtr in Hp as [p [_ Ht]].
  destruct (gtr_simple l s p y Ht) as [q [Hq [Hnd _]]].
  exists (length q). split; [|apply gtr_gpath; assumption].
  assert (Hincl : incl (s :: q) (ids l)).
  { intros z Hz. apply (gtr_in_ids l s q y Hs Hq). assumption. }
  pose proof (NoDup_incl_length Hnd Hincl) as Hlen. simpl in Hlen.
  unfold ids in Hlen. rewrite map_length in Hlen. lia.
Qed.

(* the nodes of NodeGraph(s): s and everything reachable from it through non-root nodes —
   an unbounded statement: the fuel `number of nodes` always suffices *)
Theorem graph_nodes l s l' y :
  node_graph l s = Ok l' -> (Nset l' y <-> exists m, gpath l s m y).
Proof.
  unfold node_graph. destruct (first_node s (nl_nodes l)) as [n|] eqn:E; [|discriminate].
  apply first_node_Some in E as [E1 E2].
  assert (Hs : Nset l s) by (apply in_map_iff; exists n; auto).
  destruct (graph_rounds_inv (length (nl_nodes l)) l s [s]) as [_ [H2 _]].
  { repeat constructor. intros []. }
  { intros j [<-|[]]. assumption. }
  pose proof (nodes_of_Nset l _ y H2) as HN.
  pose proof (graph_rounds_spec l s (length (nl_nodes l)) [s] y) as HS.
  revert HN HS. generalize (graph_rounds (length (nl_nodes l)) l s [s]) as seen. intros seen HN HS H.
  injection H as <-. unfold Nset at 1, ids; simpl. rewrite HN, HS. split.
  - intros [x [m [[<-|[]] [_ Hp]]]]. exists m. assumption.
  - intros [m Hp]. destruct (gpath_bounded l s m y Hs Hp) as [m' [Hm' Hp']].
    exists s, m'. split; [left; reflexivity|]. split; [lia|assumption].
Qed.

Theorem graph_edges l s l' f t x :
  node_graph l s = Ok l' -> (Eset l' f t x <-> Eset l f t x /\ Nset l' f /\ Nset l' x).
Proof.
  unfold node_graph. destruct (first_node s (nl_nodes l)) as [n|] eqn:E; [|discriminate].
  apply first_node_Some in E as [E1 E2].
  assert (Hs : Nset l s) by (apply in_map_iff; exists n; auto).
  destruct (graph_rounds_inv (length (nl_nodes l)) l s [s]) as [_ [H2 _]].
  { repeat constructor. intros []. }
  { intros j [<-|[]]. assumption. }
  pose proof (fun y => nodes_of_Nset l _ y H2) as HN.
  revert HN. generalize (graph_rounds (length (nl_nodes l)) l s [s]) as seen. intros seen HN H.
  injection H as <-. unfold Eset at 1, Nset, ids; simpl. rewrite clean_edges_InE, !mem_In, !HN.
  unfold Eset, InE. split.
  - intros [[e [He [Hf [Ht Hx]]]] [Hfs Hxs]]. apply filter_In in He as [He _]. split; [|auto]. exists e. auto.
  - intros [[e [He [Hf [Ht Hx]]]] [Hfs Hxs]]. split; [|auto]. exists e. split; [|auto].
    apply filter_In. split; [assumption|]. apply mem_In. rewrite Hf. assumption.
Qed.

Theorem graph_roots l s l' : node_graph l s = Ok l' -> nl_root_elements l' = [s].
Proof.
  unfold node_graph. destruct (first_node s (nl_nodes l)); [|discriminate]. intros H. injection H as <-. reflexivity.
Qed.

Theorem graph_absent l s : ~ Nset l s -> node_graph l s = Err.
Proof. intros Hs. unfold node_graph. apply first_node_None in Hs. rewrite Hs. reflexivity. Qed.

(* ---- independence of node and edge order ------------------------------------------------------- *)
(* the characterisations above mention the list only through membership of identifiers, edges and
   roots; two lists with the same members therefore extract the same node sets *)
Definition same_members (l l' : nodelist) : Prop :=
  (forall i, Nset l i <-> Nset l' i) /\ (forall r, Rset l r <-> Rset l' r) /\
  (forall f t x, Eset l f t x <-> Eset l' f t x).

Lemma same_members_perm l l' :
  Permutation (nl_nodes l) (nl_nodes l') -> Permutation (nl_edges l) (nl_edges l') ->
  Permutation (nl_root_elements l) (nl_root_elements l') -> same_members l l'.
Proof.
  intros Hn He Hr. split; [|split].
  - intros i. unfold Nset, ids. split; apply Permutation_in; [apply Permutation_map|apply Permutation_map, Permutation_sym]; assumption.
  - intros r. unfold Rset. split; apply Permutation_in; [|apply Permutation_sym]; assumption.
  - intros f t x. unfold Eset, InE. split; intros [e [H1 H2]]; exists e; split; auto.
    + apply (Permutation_in e He H1).
    + apply (Permutation_in e (Permutation_sym He) H1).
Qed.

Lemma hop_same l l' x y : same_members l l' -> hop l x y -> hop l' x y.
Proof. intros [HN [_ HE]] [[t Ht] Hy]. split; [exists t; apply HE; assumption|apply HN; assumption]. Qed.

Lemma dpath_same l l' s x k y : same_members l l' -> dpath l s x k y -> dpath l' s x k y.
Proof.
  intros Hs. induction 1 as [x|x z y k Ht Hh Hp IH]; [constructor|].
  econstructor; [|eapply hop_same; eassumption|exact IH].
  destruct Ht as [Ht|Ht]; [left; assumption|right]. intros Hr. apply Ht. apply Hs. assumption.
Qed.

Lemma gpath_same l l' x k y : same_members l l' -> gpath l x k y -> gpath l' x k y.
Proof.
  intros Hs. induction 1 as [x|x z y k Hne Hh Hr Hp IH]; [constructor|].
  econstructor; [assumption|eapply hop_same; eassumption| |exact IH].
  intros Hr'. apply Hr. apply Hs. assumption.
Qed.

Lemma same_members_sym l l' : same_members l l' -> same_members l' l.
Proof.
  intros [H1 [H2 H3]]. split; [|split]; intros; symmetry; auto.
Qed.

Theorem descendants_order_independent l l' s d y :
  same_members l l' ->
  (Nset (node_descendants l s (S d)) y <-> Nset (node_descendants l' s (S d)) y).
Proof.
  intros Hs. pose proof (same_members_sym _ _ Hs) as Hs'.
  destruct (in_dec string_dec s (ids l)) as [H|H].
  - assert (H' : Nset l' s) by (apply Hs; assumption).
    rewrite !descendants_nodes by assumption.
    split; intros [m [Hm Hp]]; exists m; split; auto; eapply dpath_same; eauto.
  - assert (H' : ~ Nset l' s) by (intros Hx; apply H; apply Hs; assumption).
    rewrite !descendants_absent by assumption. tauto.
Qed.

Theorem graph_order_independent l l' s r r' y :
  same_members l l' -> node_graph l s = Ok r -> node_graph l' s = Ok r' -> (Nset r y <-> Nset r' y).
Proof.
  intros Hs H1 H2. pose proof (same_members_sym _ _ Hs) as Hs'.
  rewrite (graph_nodes _ _ _ _ H1), (graph_nodes _ _ _ _ H2).
  split; intros [m Hp]; exists m; eapply gpath_same; eauto.
Qed.
