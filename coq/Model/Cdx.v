(* Model of the CycloneDX translation: pkg/native/serializers/serializer_cdx.go (document -> native
   BOM, including the two-pass assembly of the component tree) and
   pkg/native/unserializers/unserializer_cdx.go (native BOM -> document, built with the graph
   operations of Model/Graph.v).  The native structure carries the fields protobom touches. *)
From Verif Require Import Model.Base Model.Node Model.Graph Model.Match Model.Flat Model.Sniff Model.Spdx Gen.Tables.
Open Scope list_scope.

Record cxref := mk_cxref { cx_url : string; cx_comment : string; cx_type : string; cx_hashes : list (string * string) }.

(* a licence choice: expression, whether a license object is present, and its id *)
Record clic := mk_clic { cl_expression : string; cl_has_license : bool; cl_id : string }.

Inductive comp := mk_comp {
  c_ref : string; c_type : string; c_name : string; c_version : string; c_description : string;
  c_copyright : string; c_licenses : list clic; c_hashes : list (string * string);
  c_xrefs : list cxref; c_purl : string; c_cpe : string;
  c_supplier : option (string * list (string * string * string));   (* name, contacts (name,email,phone) *)
  c_sub : list comp }.

Record cbom := mk_cbom {
  b_serial : string; b_version : Z;
  b_has_metadata : bool; b_meta_comp : option comp;
  b_lifecycles : list (string * string * string);     (* phase, name, description *)
  b_components : list comp;
  b_deps : list (string * list string) }.

Definition set_sub (c : comp) (subs : list comp) : comp :=
  {| c_ref := c_ref c; c_type := c_type c; c_name := c_name c; c_version := c_version c;
     c_description := c_description c; c_copyright := c_copyright c; c_licenses := c_licenses c;
     c_hashes := c_hashes c; c_xrefs := c_xrefs c; c_purl := c_purl c; c_cpe := c_cpe c;
     c_supplier := c_supplier c; c_sub := subs |}.
Definition set_ref (c : comp) (r : string) : comp :=
  {| c_ref := r; c_type := c_type c; c_name := c_name c; c_version := c_version c;
     c_description := c_description c; c_copyright := c_copyright c; c_licenses := c_licenses c;
     c_hashes := c_hashes c; c_xrefs := c_xrefs c; c_purl := c_purl c; c_cpe := c_cpe c;
     c_supplier := c_supplier c; c_sub := c_sub c |}.
Definition set_name (c : comp) (nm : string) : comp :=
  {| c_ref := c_ref c; c_type := c_type c; c_name := nm; c_version := c_version c;
     c_description := c_description c; c_copyright := c_copyright c; c_licenses := c_licenses c;
     c_hashes := c_hashes c; c_xrefs := c_xrefs c; c_purl := c_purl c; c_cpe := c_cpe c;
     c_supplier := c_supplier c; c_sub := c_sub c |}.

Definition empty_comp : comp :=
  {| c_ref := ""; c_type := ""; c_name := ""; c_version := ""; c_description := ""; c_copyright := "";
     c_licenses := []; c_hashes := []; c_xrefs := []; c_purl := ""; c_cpe := ""; c_supplier := None; c_sub := [] |}.

(* ---- serializer: one node --------------------------------------------------------------------- *)
Definition cdx_hashes (hs : list (Z * string)) : list (string * string) :=
  flat_map (fun kv => match zassoc (fst kv) hash_to_cdx_tab with Some a => [(a, snd kv)] | None => [] end) hs.

Definition node_to_comp (n : node) : comp :=
  {| c_ref := n_id n;
     c_type := if Z.eqb (n_type n) Node_NodeType_FILE then "file"
               else match n_primary_purpose n with
                    | p :: _ => match zassoc p purpose_to_cdx_tab with Some t => t | None => "" end
                    | [] => ""
                    end;
     c_name := n_name n; c_version := n_version n; c_description := n_description n;
     c_copyright := n_copyright n;
     c_licenses := map (fun l => {| cl_expression := ""; cl_has_license := true; cl_id := l |}) (n_licenses n);
     c_hashes := cdx_hashes (n_hashes n);
     c_xrefs := map (fun x => {| cx_url := x_url x; cx_comment := x_comment x;
                                 cx_type := zlook extref_to_cdx_tab extref_to_cdx_default (x_type x);
                                 cx_hashes := cdx_hashes (x_hashes x) |}) (n_external_references n);
     c_purl := match zassoc SoftwareIdentifierType_PURL (n_identifiers n) with Some s => s | None => "" end;
     c_cpe := match zassoc SoftwareIdentifierType_CPE23 (n_identifiers n) with
              | Some s => s
              | None => match zassoc SoftwareIdentifierType_CPE22 (n_identifiers n) with Some s => s | None => "" end
              end;
     c_supplier := match n_suppliers n with
                   | p :: _ => Some (p_name p, if p_contacts_nil p then [] else map (fun c => (p_name c, p_email c, p_phone c)) (p_contacts p))
                   | [] => None
                   end;
     c_sub := [] |}.

(* ---- serializer: the containment tree --------------------------------------------------------- *)
(* first pass over the edges: parent of each contained component (first containing edge wins; the
   root is never nested, nothing contains itself) and the ordered children of each component *)
Definition record_contains (root : string) (par : list (string * string)) (e : edge) : list (string * string) :=
  fold_left (fun p x => if (String.eqb x root || String.eqb x (e_from e))%bool then p
                        else match sassoc x p with Some _ => p | None => p ++ [(x, e_from e)] end)
            (e_to e) par.

Definition parents (root : string) (es : list edge) : list (string * string) :=
  fold_left (fun p e => if Z.eqb (e_type e) Edge_Type_contains then record_contains root p e else p) es [].

Definition children_of (par : list (string * string)) (i : string) : list string :=
  map fst (filter (fun xp => String.eqb (snd xp) i) par).

(* second pass: nest, every component at most once; fuel bounds the nesting depth *)
Definition build_step (rec : list string -> string -> comp * list string) (st : list comp * list string) (c : string)
  : list comp * list string :=
  let '(acc, pl) := st in
  if mem c pl then st else let '(sc, pl') := rec pl c in (acc ++ [sc], pl').

Fixpoint build (fuel : nat) (cd : string -> comp) (ch : string -> list string) (placed : list string) (i : string)
  : comp * list string :=
  match fuel with
  | O => (cd i, i :: placed)
  | S f =>
      let '(subs, placed') := fold_left (build_step (build f cd ch)) (ch i) ([], i :: placed) in
      (match subs with [] => cd i | _ => set_sub (cd i) subs end, placed')
  end.

(* one step of the walk over the node order: the root is never a component; in the first walk only
   components directly under the root (or under nothing) start a tree, the second walk picks up
   whatever a cycle kept out of reach *)
Definition top_step (fuel : nat) (root : string) (cd : string -> comp) (par : list (string * string)) (only_toplevel : bool)
  (st : list comp * list string) (i : string) : list comp * list string :=
  let '(acc, pl) := st in
  if (String.eqb i root || mem i pl)%bool then st
  else if (only_toplevel && match sassoc i par with Some p => negb (String.eqb p root) | None => false end)%bool then st
  else let '(c, pl') := build fuel cd (children_of par) pl i in (acc ++ [c], pl').

Definition assemble_with (fuel : nat) (order : list string) (root : string) (cd : string -> comp) (par : list (string * string)) : list comp :=
  fst (fold_left (top_step fuel root cd par false) order
         (fold_left (top_step fuel root cd par true) order ([], []))).

Definition assemble (order : list string) (root : string) (cd : string -> comp) (par : list (string * string)) : list comp :=
  assemble_with (S (length order)) order root cd par.

(* clearAutoRefs: identifiers that protobom generated on reading are blanked again *)
Fixpoint before_dashdash (s : string) : string :=
  match s with
  | String "-" (String "-" _) => ""
  | String c r => String c (before_dashdash r)
  | EmptyString => ""
  end.
Definition is_auto_ref (r : string) : bool :=
  (String.prefix "protobom-" r && contains "-auto" (before_dashdash r))%bool.
Fixpoint clear_auto (c : comp) : comp :=
  set_sub (if is_auto_ref (c_ref c) then set_ref c "" else c) (map clear_auto (c_sub c)).

(* ---- serializer: the document ------------------------------------------------------------------ *)
Definition phase_of (dt : doctype) : result (string * string * string) :=
  match dt_type dt with
  | None => Ok ("", match dt_name dt with Some s => s | None => "" end, match dt_description dt with Some s => s | None => "" end)
  | Some t =>
      let nm := match dt_name dt with Some s => s | None => "" end in
      if Z.eqb t DocumentType_SBOMType_BUILD then Ok ("build", "", "")
      else if Z.eqb t DocumentType_SBOMType_DESIGN then Ok ("design", "", "")
      else if Z.eqb t DocumentType_SBOMType_ANALYZED then Ok ("post-build", "", "")
      else if Z.eqb t DocumentType_SBOMType_SOURCE then Ok ("pre-build", "", "")
      else if Z.eqb t DocumentType_SBOMType_DECOMISSION then Ok ("decommission", "", "")
      else if Z.eqb t DocumentType_SBOMType_DEPLOYED then Ok ("operations", "", "")
      else if Z.eqb t DocumentType_SBOMType_DISCOVERY then Ok ("discovery", "", "")
      else if Z.eqb t DocumentType_SBOMType_OTHER then Ok (to_lower nm, "", "")
      else Err
  end.

Definition first_occurrences (is_ : list string) : list string := dedup is_.

Definition last_comp (nodes : list node) (i : string) : comp :=
  match last_node i nodes with Some n => node_to_comp n | None => empty_comp end.

Definition dep_of (known : string -> bool) (e : edge) : result (string * list string) :=
  if forallb known (e_to e) then Ok (e_from e, dedup (e_to e)) else Err.

Definition parse_int (s : string) : option Z :=
  (* strconv.Atoi on the decimal spellings the harness uses; anything else is "not a number" *)
  let fix go (acc : Z) (s : string) : option Z :=
      match s with
      | EmptyString => Some acc
      | String c r => let n := nat_of_ascii c in
                      if (Nat.leb 48 n && Nat.leb n 57)%bool then go (acc * 10 + Z.of_nat (n - 48)) r else None
      end in
  match s with EmptyString => None | _ => go 0 s end.

Definition cdx_ser (d : document) : result cbom :=
  match d_metadata d, d_node_list d with
  | Some md, Some nl =>
      let version := match parse_int (md_version md) with Some v => v | None => 1 end in
      match nl_root_elements nl with
      | [] => match nl_nodes nl with
              | [] => Ok {| b_serial := md_id md; b_version := version; b_has_metadata := true; b_meta_comp := Some empty_comp;
                            b_lifecycles := []; b_components := []; b_deps := [] |}
              | _ => Err
              end
      | [root] =>
          match first_node root (nl_nodes nl) with
          | None => Err
          | Some rn =>
              let known := fun i => mem i (ids nl) in
              let cd := last_comp (nl_nodes nl) in
              match all_ok phase_of (md_documentTypes md) with
              | Ok lcs =>
                  if negb (forallb (fun e => known (e_from e)) (nl_edges nl)) then Err
                  else if negb (forallb (fun e => negb (Z.eqb (e_type e) Edge_Type_contains || Z.eqb (e_type e) Edge_Type_dependsOn)
                                                  || forallb known (e_to e))%bool (nl_edges nl)) then Err
                  else
                    let deps := flat_map (fun e => if Z.eqb (e_type e) Edge_Type_dependsOn then [(e_from e, dedup (e_to e))] else []) (nl_edges nl) in
                    let comps := assemble (first_occurrences (ids nl)) root cd (parents root (nl_edges nl)) in
                    let mc := node_to_comp rn in
                    Ok {| b_serial := md_id md; b_version := version; b_has_metadata := true;
                          b_meta_comp := Some (if (String.eqb (md_name md) "" || negb (String.eqb (c_name mc) ""))%bool then mc else set_name mc (md_name md));
                          b_lifecycles := lcs; b_components := map clear_auto comps; b_deps := deps |}
              | _ => Err
              end
          end
      | _ => Err
      end
  | _, _ => Err
  end.

(* ---- unserializer -------------------------------------------------------------------------------- *)
Definition pad9 (n : Z) : string :=
  let s := dec n in
  let fix zeros (k : nat) : string := match k with O => "" | S k' => String "0" (zeros k') end in
  (zeros (9 - String.length s)%nat ++ s)%string.

Definition auto_id (cc : Z) : string := ("protobom-auto--" ++ pad9 cc)%string.

Definition lic_list (ls : list clic) : list string :=
  (* returns after the first usable entry (the code returns from inside its loop) *)
  match filter (fun l => negb (String.eqb (cl_expression l) "" && (negb (cl_has_license l) || String.eqb (cl_id l) ""))%bool) ls with
  | l :: _ => [if String.eqb (cl_expression l) "" then cl_id l else cl_expression l]
  | [] => []
  end.

Definition lic_string (ls : list clic) : string :=
  fold_left (fun s l =>
     if (String.eqb (cl_expression l) "" && (negb (cl_has_license l) || String.eqb (cl_id l) ""))%bool then s
     else let nw := if String.eqb (cl_expression l) "" then cl_id l else cl_expression l in
          if String.eqb s "" then nw
          else (s ++ "(" ++ s ++ ") OR " ++ " (" ++ nw ++ ")")%string) ls "".

Definition comp_hashes (hs : list (string * string)) : list (Z * string) :=
  (* the first hash of an algorithm is kept, unknown algorithms are skipped *)
  kvsort (fold_left (fun acc h => let a := slook cdx_hash_to_algo_tab 0 (fst h) in
                                  if Z.eqb a 0 then acc
                                  else match zassoc a acc with Some _ => acc | None => acc ++ [(a, snd h)] end) hs []).

Definition xref_hashes (hs : list (string * string)) : list (Z * string) :=
  (* later entries overwrite, unknown algorithms land on key 0 *)
  kvsort (fold_left (fun acc h => let a := slook cdx_hash_to_algo_tab 0 (fst h) in
                                  (a, snd h) :: filter (fun kv => negb (Z.eqb (fst kv) a)) acc) hs []).

Definition comp_to_node (c : comp) (cc : Z) : node :=
  let purpose := slook cdx_type_to_purpose_tab 0 (c_type c) in
  {| n_id := if String.eqb (c_ref c) "" then auto_id cc else c_ref c;
     n_type := if Z.eqb purpose Purpose_FILE then Node_NodeType_FILE else Node_NodeType_PACKAGE;
     n_name := c_name c; n_version := c_version c; n_file_name := ""; n_url_home := ""; n_url_download := "";
     n_licenses := lic_list (c_licenses c); n_license_concluded := lic_string (c_licenses c);
     n_license_comments := ""; n_copyright := c_copyright c; n_source_info := ""; n_comment := "";
     n_summary := ""; n_description := c_description c; n_attribution := []; n_suppliers := []; n_originators := [];
     n_release_date := None; n_build_date := None; n_valid_until_date := None;
     n_external_references :=
       map (fun x => {| x_url := cx_url x; x_comment := cx_comment x; x_authority := "";
                        x_hashes := xref_hashes (cx_hashes x);
                        x_type := slook cdx_extref_to_type_tab cdx_extref_to_type_default (cx_type x) |}) (c_xrefs c);
     n_file_types := [];
     n_identifiers := kvsort ((if String.eqb (c_cpe c) "" then []
                               else [(if String.prefix "cpe:2.3" (c_cpe c) then SoftwareIdentifierType_CPE23 else SoftwareIdentifierType_CPE22, c_cpe c)])
                              ++ (if String.eqb (c_purl c) "" then [] else [(SoftwareIdentifierType_PURL, c_purl c)]));
     n_hashes := comp_hashes (c_hashes c);
     n_primary_purpose := [purpose] |}.

(* componentToNodeList: the graph fragment of a component and everything nested in it; the counter
   numbers components in traversal order *)
Fixpoint comp_to_nl (c : comp) (cc : Z) : nodelist * Z :=
  let cc1 := cc + 1 in
  let n := comp_to_node c cc1 in
  let nl0 := {| nl_nodes := [n]; nl_edges := []; nl_root_elements := [n_id n] |} in
  fold_left (fun st sub => let '(nl, k) := st in
                           let '(snl, k') := comp_to_nl sub k in
                           (or_keep nl (relate_list_at nl snl (n_id n) Edge_Type_contains), k'))
            (c_sub c) (nl0, cc1).

Definition cdx_unser_nl (b : cbom) : nodelist :=
  let st0 := match (if b_has_metadata b then b_meta_comp b else None) with
             | Some mc => let '(nl, k) := comp_to_nl mc 0 in (add empty_nl nl, k)
             | None => (empty_nl, 0)
             end in
  fst (fold_left (fun st c => let '(doc, k) := st in
                              let '(nl, k') := comp_to_nl c k in
                              (match nl_root_elements doc with
                               | [] => add doc nl
                               | r :: _ => or_keep doc (relate_list_at doc nl r Edge_Type_contains)
                               end, k'))
                 (b_components b) st0).

Definition cdx_doctypes (b : cbom) : list (string * string * option Z) :=
  map (fun l => let '(ph, nm, ds) := l in
                (if String.eqb nm "" then ph else nm, ds, sassoc ph phase_to_sbomtype_tab)) (b_lifecycles b).
