(* Correspondence evaluator for the SPDX translation, at three seams:
   A  Serialize: document -> native structure (the *spdx.Document the real serializer returns)
   C  JSON layer: native structure -> Render -> tools-golang decoder -> native structure
   B  Unserialize: decoded native structure -> node list of the parsed document *)
From Verif Require Import Model.Base Model.Node Model.Graph Model.Flat Model.Spdx Corr.Canon.
Open Scope list_scope.

Inductive case_spdx :=
  | SSer (d : document) (times : list (ts * string)) (self : string) (observed : option sdoc)
  | SChan (s : sdoc) (observed : option sdoc)
  | SUnser (s : sdoc) (ptimes : list (string * option ts)) (observed : nodelist).

Definition fmt_of (tab : list (ts * string)) (t : ts) : string :=
  match find (fun row => ts_eqb (fst row) t) tab with Some row => snd row | None => "?" end.
Definition parse_of (tab : list (string * option ts)) (s : string) : option ts :=
  match sassoc s tab with Some o => o | None => None end.

(* ---- canonical forms: what the code obtains from map iteration is sorted ------------------------ *)
Definition pair_leb (a b : string * string) : bool :=
  match String.compare (fst a) (fst b) with Lt => true | Gt => false | Eq => String.leb (snd a) (snd b) end.
Fixpoint pins (x : string * string) (l : list (string * string)) :=
  match l with [] => [x] | y :: r => if pair_leb x y then x :: l else y :: pins x r end.
Definition psort (l : list (string * string)) := fold_right pins [] l.

Definition ref_key (r : sref) : string := (xr_category r ++ "|" ++ xr_type r ++ "|" ++ xr_locator r ++ "|" ++ xr_comment r)%string.
Fixpoint rins (x : sref) (l : list sref) :=
  match l with [] => [x] | y :: r => if String.leb (ref_key x) (ref_key y) then x :: l else y :: rins x r end.
Definition rsort (l : list sref) := fold_right rins [] l.

Definition pair_eqb (a b : string * string) : bool := String.eqb (fst a) (fst b) && String.eqb (snd a) (snd b).
Definition actor_eqb := opt_eqb pair_eqb.
Definition sref_eqb (a b : sref) : bool :=
  String.eqb (xr_category a) (xr_category b) && String.eqb (xr_type a) (xr_type b)
  && String.eqb (xr_locator a) (xr_locator b) && String.eqb (xr_comment a) (xr_comment b).

Definition spkg_eqb (a b : spkg) : bool :=
  String.eqb (sp_id a) (sp_id b) && String.eqb (sp_name a) (sp_name b) && String.eqb (sp_version a) (sp_version b)
  && String.eqb (sp_file_name a) (sp_file_name b) && actor_eqb (sp_supplier a) (sp_supplier b)
  && actor_eqb (sp_originator a) (sp_originator b) && String.eqb (sp_download a) (sp_download b)
  && list_eqb pair_eqb (psort (sp_checksums a)) (psort (sp_checksums b))
  && String.eqb (sp_home a) (sp_home b) && String.eqb (sp_source_info a) (sp_source_info b)
  && String.eqb (sp_lic_concluded a) (sp_lic_concluded b) && String.eqb (sp_lic_comments a) (sp_lic_comments b)
  && String.eqb (sp_copyright a) (sp_copyright b) && String.eqb (sp_summary a) (sp_summary b)
  && String.eqb (sp_description a) (sp_description b) && String.eqb (sp_comment a) (sp_comment b)
  && list_eqb sref_eqb (rsort (sp_extrefs a)) (rsort (sp_extrefs b))
  && list_eqb String.eqb (sp_attribution a) (sp_attribution b) && String.eqb (sp_purpose a) (sp_purpose b)
  && String.eqb (sp_release a) (sp_release b) && String.eqb (sp_built a) (sp_built b) && String.eqb (sp_valid a) (sp_valid b).

Definition sfile_eqb (a b : sfile) : bool :=
  String.eqb (sf_id a) (sf_id b) && String.eqb (sf_name a) (sf_name b) && list_eqb String.eqb (sf_types a) (sf_types b)
  && list_eqb pair_eqb (psort (sf_checksums a)) (psort (sf_checksums b))
  && String.eqb (sf_lic_concluded a) (sf_lic_concluded b) && list_eqb String.eqb (sf_lic_info a) (sf_lic_info b)
  && String.eqb (sf_lic_comments a) (sf_lic_comments b) && String.eqb (sf_copyright a) (sf_copyright b)
  && String.eqb (sf_comment a) (sf_comment b) && list_eqb String.eqb (sf_attribution a) (sf_attribution b).

Definition srel_eqb (a b : srel) : bool :=
  String.eqb (rl_a a) (rl_a b) && String.eqb (rl_b a) (rl_b b) && String.eqb (rl_special a) (rl_special b)
  && String.eqb (rl_type a) (rl_type b).

Definition sdoc_eqb (a b : sdoc) : bool :=
  String.eqb (sd_name a) (sd_name b) && String.eqb (sd_namespace a) (sd_namespace b) && String.eqb (sd_id a) (sd_id b)
  && String.eqb (sd_comment a) (sd_comment b) && list_eqb pair_eqb (sd_creators a) (sd_creators b)
  && list_eqb spkg_eqb (sd_packages a) (sd_packages b) && list_eqb sfile_eqb (sd_files a) (sd_files b)
  && list_eqb srel_eqb (sd_rels a) (sd_rels b).

Definition res_sdoc_ok (r : result sdoc) (o : option sdoc) : bool :=
  match r, o with
  | Ok a, Some b => sdoc_eqb a b
  | Err, None => true
  | _, _ => false
  end.

(* parsed node lists are compared node by node in order (the parser appends in document order),
   external references and map-valued attributes in canonical order *)
Definition xref_key (x : extref) : string := extref_flat x.
Fixpoint xins (x : extref) (l : list extref) :=
  match l with [] => [x] | y :: r => if String.leb (xref_key x) (xref_key y) then x :: l else y :: xins x r end.
Definition norm_node (n : node) : node :=
  {| n_id := n_id n; n_type := n_type n; n_name := n_name n; n_version := n_version n;
     n_file_name := n_file_name n; n_url_home := n_url_home n; n_url_download := n_url_download n;
     n_licenses := n_licenses n; n_license_concluded := n_license_concluded n;
     n_license_comments := n_license_comments n; n_copyright := n_copyright n;
     n_source_info := n_source_info n; n_comment := n_comment n; n_summary := n_summary n;
     n_description := n_description n; n_attribution := n_attribution n; n_suppliers := n_suppliers n;
     n_originators := n_originators n; n_release_date := n_release_date n; n_build_date := n_build_date n;
     n_valid_until_date := n_valid_until_date n;
     n_external_references := fold_right xins [] (n_external_references n);
     n_file_types := n_file_types n; n_identifiers := kvsort (n_identifiers n);
     n_hashes := kvsort (n_hashes n); n_primary_purpose := n_primary_purpose n |}.

Definition parsed_same (a b : nodelist) : bool :=
  list_eqb node_eqb (map norm_node (nl_nodes a)) (map norm_node (nl_nodes b))
  && list_eqb edge_eqb (nl_edges a) (nl_edges b)
  && list_eqb String.eqb (nl_root_elements a) (nl_root_elements b).

Definition case_ok (c : case_spdx) : bool :=
  match c with
  | SSer d times self obs => res_sdoc_ok (spdx_ser (fmt_of times) self d) obs
  | SChan s obs => res_sdoc_ok (spdx_chan s) obs
  | SUnser s ptimes obs => parsed_same (spdx_unser_nl (parse_of ptimes) s) obs
  end.

Definition mismatches (cs : list case_spdx) : list nat := failing case_ok cs.
