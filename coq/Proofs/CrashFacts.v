(* Storing a document is atomic with respect to crashes (C20). *)
From Coq Require Import Lia.
From Verif Require Import Model.Base Model.Store Proofs.ListFacts Proofs.StoreFacts.
Open Scope list_scope.

Section Crash.
  Variable D : Type.
  Variable doc_id : D -> option string.
  Variable marshal : D -> string.
  Variable unmarshal : string -> option D.
  Variable fname : string -> string.

  Lemma sassoc_dput_same n f dk : sassoc n (dput n f dk) = Some f.
  Proof. unfold dput. simpl. rewrite String.eqb_refl. reflexivity. Qed.

  Lemma sassoc_dput_other n m f dk : m <> n -> sassoc m (dput n f dk) = sassoc m dk.
  Proof.
    intros Hne. unfold dput. simpl. destruct (String.eqb_spec m n); [congruence|].
    apply sassoc_filter_ne. assumption.
  Qed.

  Lemma sassoc_dremove_other n m dk : m <> n -> sassoc m (dremove n dk) = sassoc m dk.
  Proof. intros Hne. unfold dremove. apply sassoc_filter_ne. assumption. Qed.

  (* what a post-crash view shows for a name, given the disk *)
  Lemma views_lookup dk : forall v, In v (crash_views dk) -> forall n,
    match sassoc n dk with
    | None => sassoc n v = None
    | Some f => if df_synced f then sassoc n v = Some (df_data f)
                else exists p, In p (prefixes (df_data f)) /\ sassoc n v = Some p
    end.
  Proof.
    induction dk as [|[m f] r IH]; intros v Hv n; simpl in Hv.
    - destruct Hv as [<-|[]]. reflexivity.
    - simpl. destruct (df_synced f) eqn:Es.
      + apply in_map_iff in Hv as [v' [<- Hv']]. simpl.
        destruct (String.eqb n m); [rewrite Es; reflexivity|]. apply IH. exact Hv'.
      + apply in_flat_map in Hv as [p [Hp Hv]]. apply in_map_iff in Hv as [v' [<- Hv']]. simpl.
        destruct (String.eqb n m); [rewrite Es; exists p; auto|]. apply IH. exact Hv'.
  Qed.

  Definition all_synced (dk : disk) : Prop := forall n f, sassoc n dk = Some f -> df_synced f = true.

  Variable dk : disk.
  Variable tmp final data : string.
  Hypothesis dk_synced : all_synced dk.
  Hypothesis tmp_not_final : tmp <> final.

  (* every disk state reachable by a crash during the store: all names but the temporary one and
     the entry itself are as before; the entry is as before or complete and durable *)
  Definition crash_ok (x : disk) : Prop :=
    (forall n, n <> tmp -> n <> final -> sassoc n x = sassoc n dk) /\
    (sassoc final x = sassoc final dk \/ sassoc final x = Some (mk_dfile data true)).

  Lemma crash_ok_tmp_only x f :
    crash_ok x -> crash_ok (dput tmp f x).
  Proof.
    intros [H1 H2]. split.
    - intros n Hn Hf. rewrite sassoc_dput_other by assumption. apply H1; assumption.
    - rewrite sassoc_dput_other by (intros E; apply tmp_not_final; congruence). exact H2.
  Qed.

  Lemma crash_ok_base : crash_ok dk.
  Proof. split; [reflexivity|left; reflexivity]. Qed.

  Lemma crash_disks_ok x :
    In x (crash_disks dk (store_ops tmp final data)) -> crash_ok x.
  Proof.
    unfold store_ops. cbn [crash_disks apply_fsop].
    set (d1 := dput tmp (mk_dfile "" true) dk).
    assert (O1 : crash_ok d1) by (apply crash_ok_tmp_only, crash_ok_base).
    assert (S1 : sassoc tmp d1 = Some (mk_dfile "" true)) by apply sassoc_dput_same.
    intros H. destruct H as [<-|H]; [apply crash_ok_base|].
    destruct H as [<-|H]; [exact O1|].
    apply in_app_or in H as [H|H].
    - apply in_map_iff in H as [p [<- _]]. cbn [apply_fsop]. rewrite S1. apply crash_ok_tmp_only. exact O1.
    - rewrite S1 in H. cbn [df_data] in H.
      set (d2 := dput tmp (mk_dfile ("" ++ data) false) d1) in H.
      assert (O2 : crash_ok d2) by (apply crash_ok_tmp_only; exact O1).
      assert (S2 : sassoc tmp d2 = Some (mk_dfile ("" ++ data) false)) by apply sassoc_dput_same.
      cbn [crash_disks apply_fsop] in H. rewrite S2 in H. cbn [df_data] in H.
      set (d3 := dput tmp (mk_dfile ("" ++ data) true) d2) in H.
      assert (O3 : crash_ok d3) by (apply crash_ok_tmp_only; exact O2).
      assert (S3 : sassoc tmp d3 = Some (mk_dfile ("" ++ data) true)) by apply sassoc_dput_same.
      rewrite S3 in H.
      destruct H as [<-|[<-|[<-|[<-|[<-|[]]]]]]; try assumption.
      (* after the rename *)
      destruct O3 as [H1 H2]. split.
      + intros n Hn Hf. rewrite sassoc_dput_other by assumption. rewrite sassoc_dremove_other by assumption. apply H1; assumption.
      + right. rewrite sassoc_dput_same. reflexivity.
  Qed.

  (* the views: what a later process can read *)
  Theorem store_crash_views v :
    In v (crash_states dk (store_ops tmp final data)) ->
    (forall n, n <> tmp -> n <> final -> sassoc n v = option_map df_data (sassoc n dk)) /\
    (sassoc final v = option_map df_data (sassoc final dk) \/ sassoc final v = Some data).
  Proof.
    unfold crash_states. intros H. apply in_flat_map in H as [x [Hx Hv]].
    destruct (crash_disks_ok x Hx) as [H1 H2]. pose proof (views_lookup x v Hv) as L. split.
    - intros n Hn Hf. specialize (L n). rewrite (H1 n Hn Hf) in L.
      destruct (sassoc n dk) as [f|] eqn:E; simpl; [|exact L]. rewrite (dk_synced n f E) in L. exact L.
    - specialize (L final). destruct H2 as [H2|H2]; rewrite H2 in L.
      + left. destruct (sassoc final dk) as [f|] eqn:E; simpl; [|exact L]. rewrite (dk_synced final f E) in L. exact L.
      + right. simpl in L. exact L.
  Qed.
End Crash.

(* ---- in terms of Retrieve -------------------------------------------------------------------------- *)
Section CrashRetrieve.
  Variable D : Type.
  Variable doc_id : D -> option string.
  Variable marshal : D -> string.
  Variable unmarshal : string -> option D.
  Variable fname : string -> string.
  Hypothesis codec_roundtrip : forall d, unmarshal (marshal d) = Some d.
  Hypothesis fname_injective : forall i j, fname i = fname j -> i = j.

  Notation retrieve_view := (retrieve_view D doc_id unmarshal fname).

  Lemma lookup_view v n :
    Store.lookup n (map (fun kv : string * string => (fst kv, mk_file (snd kv) true)) v)
    = option_map (fun c => mk_file c true) (sassoc n v).
  Proof.
    unfold Store.lookup. induction v as [|[k c] r IH]; simpl; [reflexivity|].
    destruct (String.eqb n k); [reflexivity|exact IH].
  Qed.

  Lemma retrieve_view_ext v v' i : sassoc (fname i) v = sassoc (fname i) v' -> retrieve_view v i = retrieve_view v' i.
  Proof.
    intros H. unfold Store.retrieve_view, Store.retrieve. simpl. destruct (String.eqb i ""); [reflexivity|].
    rewrite !lookup_view, H. reflexivity.
  Qed.

  Definition view_of (dk : disk) : list (string * string) := map (fun kv => (fst kv, df_data (snd kv))) dk.

  Lemma sassoc_view_of dk n : sassoc n (view_of dk) = option_map df_data (sassoc n dk).
  Proof.
    unfold view_of. induction dk as [|[k f] r IH]; simpl; [reflexivity|].
    destruct (String.eqb n k); [reflexivity|exact IH].
  Qed.

  (* If the process dies at any instant during a store of document d under identifier i, a later
     retrieve of i returns what it returned before the store, or d; entries stored under other
     identifiers are unaffected. *)
  Theorem store_atomic dk tmp d i v :
    all_synced dk -> (forall j, tmp <> fname j) ->
    doc_id d = Some i -> i <> "" ->
    In v (crash_states dk (store_ops tmp (fname i) (marshal d))) ->
    (retrieve_view v i = retrieve_view (view_of dk) i \/ retrieve_view v i = Ok d) /\
    (forall j, j <> i -> retrieve_view v j = retrieve_view (view_of dk) j).
  Proof.
    intros Hs Ht Hid Hne Hv.
    destruct (store_crash_views dk tmp (fname i) (marshal d) Hs (Ht i) v Hv) as [H1 H2]. split.
    - destruct H2 as [H2|H2].
      + left. apply retrieve_view_ext. rewrite H2, sassoc_view_of. reflexivity.
      + right. unfold Store.retrieve_view, Store.retrieve. simpl. destruct (String.eqb_spec i ""); [congruence|].
        rewrite lookup_view, H2. simpl. rewrite codec_roundtrip, Hid, String.eqb_refl. reflexivity.
    - intros j Hj. apply retrieve_view_ext. rewrite sassoc_view_of. apply H1.
      + intros E. symmetry in E. apply (Ht j E).
      + intros E. apply fname_injective in E. congruence.
  Qed.

  (* consequently the result is the old document, the new document, or an error — never a truncated,
     empty or mixed document *)
  Corollary store_atomic_outcomes dk tmp d i v r :
    all_synced dk -> (forall j, tmp <> fname j) ->
    doc_id d = Some i -> i <> "" ->
    In v (crash_states dk (store_ops tmp (fname i) (marshal d))) ->
    retrieve_view v i = r ->
    r = retrieve_view (view_of dk) i \/ r = Ok d.
  Proof. intros Hs Ht Hid Hne Hv <-. apply (store_atomic dk tmp d i v Hs Ht Hid Hne Hv). Qed.
End CrashRetrieve.
