(* C18 — reader and writer configuration is isolated per instance. Statements only; proofs in
   Proofs/OptsFacts.v.  The model keeps Go's reference structure: a heap of option objects, the
   package-level defaults at address 0, each instance holding the address of its object, functional
   options writing through that reference (Model/Opts.v). *)
From Verif Require Import Model.Base Model.Opts Proofs.OptsFacts.
Open Scope list_scope.

(* for every history of constructor calls and calls: the configuration of the i-th instance is a
   function of the library defaults and of the options passed to its own constructor only *)
Theorem C18_config_isolated : forall defaults h i os,
  nth_error (ctor_opts h) i = Some os -> config (run defaults h) i = apply_opts defaults os.
Proof. exact config_isolated. Qed.
Print Assumptions C18_config_isolated.

Theorem C18_defaults_untouched : forall defaults h, nth 0 (heap (run defaults h)) [] = defaults.
Proof. exact defaults_untouched. Qed.
Print Assumptions C18_defaults_untouched.

Theorem C18_new_without_options : forall defaults h i,
  nth_error (ctor_opts h) i = Some [] -> config (run defaults h) i = defaults.
Proof. exact new_without_options. Qed.
Print Assumptions C18_new_without_options.

(* options given to a single call override for that call only: removing the call from any history
   changes no instance's configuration *)
Theorem C18_percall_local : forall defaults h1 i pc h2 j,
  config (run defaults (h1 ++ HCall i pc :: h2)) j = config (run defaults (h1 ++ h2)) j.
Proof. exact percall_local_history. Qed.
Print Assumptions C18_percall_local.

(* non-vacuity: two instances, the second constructed with options after the first was created *)
Example C18_nonvacuous :
  let d := [("indent", "4"); ("format", "")] in
  let h := [HNew []; HNew [OSet "format" "spdx"; OSet "indent" "2"]; HCall 0 (Some [("format", "cdx")]); HNew [ONop]] in
  aget "format" (config (run d h) 0) = "" /\ aget "indent" (config (run d h) 0) = "4" /\
  aget "format" (config (run d h) 1) = "spdx" /\ aget "indent" (config (run d h) 2) = "4" /\
  length (ctor_opts h) = 3%nat.
Proof. vm_compute. repeat split. Qed.
