(* Model of the file-system store (pkg/storage/filesystem.go) and of its crash behaviour.

   The configured directory is the only part of the file system the code touches.  Its state:
   absent, not a directory, or a directory with a flag "usable by this caller" (search+write
   permission, always true for root) and a finite map from entry names to (content, readable).
   Documents are abstract (a type D with an identifier); protobuf encoding, SHA-256 naming and
   the kernel are Section variables with explicitly stated hypotheses. *)
From Verif Require Import Model.Base.
Open Scope list_scope.

Section Store.
  Variable D : Type.                          (* documents *)
  Variable doc_id : D -> option string.       (* Metadata.Id, None when there is no metadata *)
  Variable marshal : D -> string.
  Variable unmarshal : string -> option D.
  Variable fname : string -> string.          (* hex(sha256(id)) ++ ".protobom" *)

  Record file := mk_file { f_data : string; f_readable : bool }.
  Inductive dirstate :=
    | DAbsent (can_create : bool)             (* the path does not exist; whether MkdirAll can succeed *)
    | DNotDir                                 (* something else is there *)
    | DDir (usable : bool) (files : list (string * file)).

  Definition lookup (n : string) (fs : list (string * file)) : option file := sassoc n fs.
  Definition put (n : string) (f : file) (fs : list (string * file)) : list (string * file) :=
    (n, f) :: filter (fun kv => negb (String.eqb (fst kv) n)) fs.

  (* Store(doc, NoClobber): outcome and new directory state *)
  Definition store (s : dirstate) (d : option D) (noclobber : bool) : result unit * dirstate :=
    let s1 := match s with
              | DAbsent true => Some (DDir true [])
              | DAbsent false => None
              | DNotDir => None
              | DDir u fs => Some (DDir u fs)
              end in
    match s1 with
    | None => (Err, s)
    | Some (DDir u fs) =>
        match d with
        | None => (Err, DDir u fs)
        | Some doc =>
            match doc_id doc with
            | None => (Err, DDir u fs)
            | Some i =>
                if String.eqb i "" then (Err, DDir u fs)
                else if noclobber && match lookup (fname i) fs with Some _ => u | None => false end
                then (Err, DDir u fs)
                else if u then (Ok tt, DDir u (put (fname i) (mk_file (marshal doc) true) fs))
                else (Err, DDir u fs)
            end
        end
    | Some other => (Err, other)
    end.

  (* Retrieve(id) *)
  Definition retrieve (s : dirstate) (path_set : bool) (i : string) : result D :=
    if negb path_set then Err
    else if String.eqb i "" then Err
    else match s with
         | DDir true fs =>
             match lookup (fname i) fs with
             | Some f =>
                 if f_readable f then
                   match unmarshal (f_data f) with
                   | Some d => match doc_id d with
                               | Some j => if String.eqb j i then Ok d else Err
                               | None => Err
                               end
                   | None => Err
                   end
                 else Err
             | None => Err
             end
         | _ => Err
         end.

  (* ---- operation sequences ------------------------------------------------------------------ *)
  Inductive sop := SStore (d : option D) (noclobber : bool) | SRetrieve (i : string).
  Inductive sout := OStore (r : result unit) | ORetrieve (r : result D).

  Definition sstep (s : dirstate) (o : sop) : sout * dirstate :=
    match o with
    | SStore d nc => let '(r, s') := store s d nc in (OStore r, s')
    | SRetrieve i => (ORetrieve (retrieve s true i), s)
    end.

  Fixpoint srun (s : dirstate) (os : list sop) : list sout * dirstate :=
    match os with
    | [] => ([], s)
    | o :: r => let '(x, s1) := sstep s o in let '(xs, s2) := srun s1 r in (x :: xs, s2)
    end.

  (* ---- crash semantics of one store into a usable directory ----------------------------------- *)
  (* the file-system calls of the atomic write, in order *)
  Inductive fsop :=
    | FTruncOpen (n : string)                 (* open(O_TRUNC): what os.WriteFile does *)
    | FCreateTemp (t : string)
    | FWrite (t : string) (data : string)
    | FChmod (t : string)
    | FFsync (t : string)
    | FClose (t : string)
    | FRename (t : string) (final : string).

  (* the in-place write the code used before the repair *)
  Definition inplace_ops (final data : string) : list fsop :=
    [FTruncOpen final; FWrite final data; FClose final].

  Definition store_ops (tmp final data : string) : list fsop :=
    [FCreateTemp tmp; FWrite tmp data; FChmod tmp; FFsync tmp; FClose tmp; FRename tmp final].

  (* on-disk view: each file has durable content and a flag saying the content written since the
     last fsync is still volatile *)
  Record dfile := mk_dfile { df_data : string; df_synced : bool }.
  Definition disk := list (string * dfile).

  Definition dput (n : string) (f : dfile) (dk : disk) : disk :=
    (n, f) :: filter (fun kv => negb (String.eqb (fst kv) n)) dk.
  Definition dremove (n : string) (dk : disk) : disk :=
    filter (fun kv => negb (String.eqb (fst kv) n)) dk.

  Definition apply_fsop (dk : disk) (o : fsop) : disk :=
    match o with
    | FTruncOpen n => dput n (mk_dfile "" true) dk
    | FCreateTemp t => dput t (mk_dfile "" true) dk
    | FWrite t data => match sassoc t dk with
                       | Some f => dput t (mk_dfile (df_data f ++ data) false) dk
                       | None => dk
                       end
    | FChmod _ => dk
    | FFsync t => match sassoc t dk with
                  | Some f => dput t (mk_dfile (df_data f) true) dk
                  | None => dk
                  end
    | FClose _ => dk
    | FRename t final => match sassoc t dk with
                         | Some f => dput final f (dremove t dk)
                         | None => dk
                         end
    end.

  (* all prefixes of a string *)
  Fixpoint prefixes (s : string) : list string :=
    match s with
    | EmptyString => [EmptyString]
    | String c r => EmptyString :: map (String c) (prefixes r)
    end.

  (* what can be found on disk after a crash: un-synced content of a file may be any prefix of it *)
  Fixpoint crash_views (dk : disk) : list (list (string * string)) :=
    match dk with
    | [] => [[]]
    | (n, f) :: r =>
        let rest := crash_views r in
        if df_synced f then map (fun v => (n, df_data f) :: v) rest
        else flat_map (fun p => map (fun v => (n, p) :: v) rest) (prefixes (df_data f))
    end.

  (* disk states reachable when the process dies during the op sequence: after any prefix of the
     calls, and inside a write after any prefix of its data *)
  Fixpoint crash_disks (dk : disk) (ops : list fsop) : list disk :=
    dk ::
    match ops with
    | [] => []
    | FWrite t data :: r =>
        map (fun p => apply_fsop dk (FWrite t p)) (prefixes data) ++ crash_disks (apply_fsop dk (FWrite t data)) r
    | o :: r => crash_disks (apply_fsop dk o) r
    end.

  Definition crash_states (dk : disk) (ops : list fsop) : list (list (string * string)) :=
    flat_map crash_views (crash_disks dk ops).

  (* Retrieve on a post-crash directory listing *)
  Definition retrieve_view (v : list (string * string)) (i : string) : result D :=
    retrieve (DDir true (map (fun kv => (fst kv, mk_file (snd kv) true)) v)) true i.
End Store.
