package main

import (
	"bytes"
	"fmt"
	"strings"

	cdx "github.com/CycloneDX/cyclonedx-go"
	"github.com/protobom/protobom/pkg/native"
	"github.com/protobom/protobom/pkg/native/unserializers"
	"github.com/protobom/protobom/pkg/sbom"
	spdxjson "github.com/spdx/tools-golang/json"
	"github.com/spdx/tools-golang/spdx"

	"verifharness/coqfmt"
	"verifharness/nativefmt"
)

// docTypesCoq prints the parsed document types as (name, description, type) triples.
func docTypesCoq(d *sbom.Document) string {
	var dts []string
	if d.Metadata != nil {
		for _, dt := range d.Metadata.DocumentTypes {
			t := "None"
			if dt.Type != nil {
				t = fmt.Sprintf("(Some %d)", *dt.Type)
			}
			dts = append(dts, fmt.Sprintf("(%s, %s, %s)", coqfmt.Str(dt.GetName()), coqfmt.Str(dt.GetDescription()), t))
		}
	}
	return "[" + strings.Join(dts, "; ") + "]"
}

// cdxUnserSeam: when the third-party decoder accepts the bytes, the real CycloneDX unserializer's
// node list (and document types) next to the decoded BOM. Returns the parsed document, if any.
func cdxUnserSeam(rep *Report, cf caseAdder, data []byte, kind string, in map[string]any) *sbom.Document {
	decoded := new(cdx.BOM)
	ok := false
	func() {
		defer func() { _ = recover() }()
		ok = cdx.NewBOMDecoder(bytes.NewReader(data), cdx.BOMFileFormatJSON).Decode(decoded) == nil
	}()
	if !ok {
		return nil
	}
	var doc2 *sbom.Document
	var uerr error
	var pv any
	func() {
		defer func() { pv = recover() }()
		doc2, uerr = unserializers.NewCDX("1.5", "json").Unserialize(bytes.NewReader(data), &native.UnserializeOptions{}, nil)
	}()
	if pv != nil {
		rep.Fail(Failure{What: "the CycloneDX unserializer panicked", Detail: fmt.Sprint(pv), Input: in})
		return nil
	}
	if uerr != nil || doc2 == nil || doc2.NodeList == nil {
		rep.Count("seam=B:cdx-rejected:" + kind)
		return nil
	}
	c := fmt.Sprintf("(CUnser %s %s %s)", nativefmt.CBom(decoded), coqfmt.NodeList(doc2.NodeList), docTypesCoq(doc2))
	if !tooLarge(rep, c) {
		cf.Add(c)
		rep.NoteCase(c, len(doc2.NodeList.Nodes) >= 3, map[string]any{"seam": "Unserialize(cdx)", "kind": kind, "input": in})
		rep.Count("seam=B:cdx:" + kind)
	}
	return doc2
}

// spdxUnserSeam: the same for SPDX 2.3.
func spdxUnserSeam(rep *Report, cf caseAdder, data []byte, kind string, in map[string]any) *sbom.Document {
	var decoded *spdx.Document
	func() {
		defer func() {
			if r := recover(); r != nil {
				decoded = nil
			}
		}()
		d, err := spdxjson.Read(bytes.NewReader(data))
		if err == nil {
			decoded = d
		}
	}()
	if decoded == nil {
		return nil
	}
	var doc2 *sbom.Document
	var uerr error
	var pv any
	func() {
		defer func() { pv = recover() }()
		doc2, uerr = unserializers.NewSPDX23().Unserialize(bytes.NewReader(data), &native.UnserializeOptions{}, nil)
	}()
	if pv != nil {
		rep.Fail(Failure{What: "the SPDX unserializer panicked", Detail: fmt.Sprint(pv), Input: in})
		return nil
	}
	if uerr != nil || doc2 == nil || doc2.NodeList == nil {
		rep.Count("seam=B:spdx-rejected:" + kind)
		return nil
	}
	c := fmt.Sprintf("(SUnser %s %s %s)", nativefmt.SDoc(decoded), parseTimes(decoded), coqfmt.NodeList(doc2.NodeList))
	if !tooLarge(rep, c) {
		cf.Add(c)
		rep.NoteCase(c, len(doc2.NodeList.Nodes) >= 3, map[string]any{"seam": "Unserialize(spdx)", "kind": kind, "input": in})
		rep.Count("seam=B:spdx:" + kind)
	}
	return doc2
}
