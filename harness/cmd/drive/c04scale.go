package main

import (
	"fmt"
	"strings"
	"time"

	"google.golang.org/protobuf/proto"
)

// scaling probes for "within time polynomial in the input size": valid documents grown along one
// dimension; the parsed document's size and the parse time must not grow faster than the cube of the
// growth of the input. Each probe: name, sizes, generator.
type scaleProbe struct {
	name  string
	sizes []int
	gen   func(n int) []byte
	// finder names a known finding that this dimension is recorded under, if any
	finder string
}

func cdxDoc(components string) []byte {
	return []byte(`{"bomFormat":"CycloneDX","specVersion":"1.5","version":1,"metadata":{"component":{"type":"application","name":"root","bom-ref":"root"}},"components":[` + components + `]}`)
}

func repeatJoin(n int, f func(i int) string) string {
	parts := make([]string, n)
	for i := range parts {
		parts[i] = f(i)
	}
	return strings.Join(parts, ",")
}

var scaleProbes = []scaleProbe{
	{name: "cdx licences of one component", sizes: []int{4, 8, 12, 16}, finder: "cdx_licence_expression_doubling", gen: func(n int) []byte {
		return cdxDoc(`{"type":"library","name":"x","bom-ref":"x","licenses":[` + repeatJoin(n, func(i int) string { return fmt.Sprintf(`{"license":{"id":"L%d"}}`, i) }) + `]}`)
	}},
	{name: "cdx flat components", sizes: []int{50, 100, 200, 400}, gen: func(n int) []byte {
		return cdxDoc(repeatJoin(n, func(i int) string { return fmt.Sprintf(`{"type":"library","name":"c%d","bom-ref":"c%d"}`, i, i) }))
	}},
	{name: "cdx nesting depth", sizes: []int{25, 50, 100, 200}, gen: func(n int) []byte {
		s := ""
		for i := n - 1; i >= 0; i-- {
			sub := ""
			if s != "" {
				sub = `,"components":[` + s + `]`
			}
			s = fmt.Sprintf(`{"type":"library","name":"d%d","bom-ref":"d%d"%s}`, i, i, sub)
		}
		return cdxDoc(s)
	}},
	{name: "cdx hashes and external references of one component", sizes: []int{50, 100, 200, 400}, gen: func(n int) []byte {
		return cdxDoc(`{"type":"library","name":"x","bom-ref":"x","hashes":[` + repeatJoin(n, func(i int) string { return `{"alg":"SHA-256","content":"aa"}` }) +
			`],"externalReferences":[` + repeatJoin(n, func(i int) string { return fmt.Sprintf(`{"type":"website","url":"https://e/%d"}`, i) }) + `]}`)
	}},
	{name: "cdx components without bom-ref", sizes: []int{50, 100, 200, 400}, gen: func(n int) []byte {
		return cdxDoc(repeatJoin(n, func(i int) string { return fmt.Sprintf(`{"type":"library","name":"c%d"}`, i) }))
	}},
	{name: "spdx packages and relationships", sizes: []int{50, 100, 200, 400}, gen: func(n int) []byte {
		pk := repeatJoin(n, func(i int) string {
			return fmt.Sprintf(`{"SPDXID":"SPDXRef-p%d","name":"p%d","downloadLocation":"NOASSERTION"}`, i, i)
		})
		rl := repeatJoin(n, func(i int) string {
			return fmt.Sprintf(`{"spdxElementId":"SPDXRef-p0","relationshipType":"CONTAINS","relatedSpdxElement":"SPDXRef-p%d"}`, i)
		})
		return []byte(`{"spdxVersion":"SPDX-2.3","dataLicense":"CC0-1.0","SPDXID":"SPDXRef-DOCUMENT","name":"x","documentNamespace":"https://e/ns","creationInfo":{"created":"2023-01-02T03:04:05Z","creators":["Tool: t"]},"packages":[` + pk + `],"relationships":[` + rl + `]}`)
	}},
}

func runScaleProbes(rep *Report) {
	for _, p := range scaleProbes {
		var outSize []int
		var dur []time.Duration
		var inSize []int
		ok := true
		for _, n := range p.sizes {
			data := p.gen(n)
			best := time.Duration(0)
			size := 0
			for k := 0; k < 3; k++ {
				po := parseOnce(data, "")
				rep.OracleEvals++
				if po.kind != "doc" {
					ok = false
					rep.Fail(Failure{What: "a scaling probe (valid document) was not parsed", Detail: p.name + ": " + po.kind + " " + po.err, Input: map[string]any{"probe": p.name, "size": n}})
					break
				}
				if best == 0 || po.dur < best {
					best = po.dur
				}
				size = proto.Size(po.doc)
			}
			if !ok {
				break
			}
			inSize, outSize, dur = append(inSize, len(data)), append(outSize, size), append(dur, best)
		}
		if !ok {
			continue
		}
		last := len(p.sizes) - 1
		growIn := float64(inSize[last]) / float64(inSize[0])
		cube := growIn * growIn * growIn
		growOut := float64(outSize[last]) / float64(outSize[0])
		growT := float64(dur[last]) / float64(dur[0]+time.Microsecond)
		rep.Count("scale:" + p.name)
		rep.Notes = append(rep.Notes, fmt.Sprintf("scaling %s: input bytes %v, parsed size %v, time %v", p.name, inSize, outSize, dur))
		in := map[string]any{"probe": p.name, "sizes": p.sizes, "input_bytes": inSize, "parsed_bytes": outSize, "seconds": fmt.Sprint(dur)}
		if growOut > cube*2 || (dur[last] > 200*time.Millisecond && growT > cube*4) {
			rep.Fail(Failure{What: "parsing does not stay within polynomial size/time of the input", Detail: fmt.Sprintf("%s: input grew %.1fx, parsed document %.0fx, time %.0fx", p.name, growIn, growOut, growT), Input: in, Finder: p.finder})
		}
	}
}
