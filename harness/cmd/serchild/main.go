// Command serchild serializes one document (binary protobuf in a file) in one format and reports
// the outcome on stdout; a crash of the serializer (stack overflow, runtime abort) ends this process,
// not the caller.
//
//	serchild <document.pb> <format>
package main

import (
	"bytes"
	"fmt"
	"io"
	"os"
	"runtime/debug"

	"github.com/protobom/protobom/pkg/formats"
	"github.com/protobom/protobom/pkg/sbom"
	"github.com/protobom/protobom/pkg/writer"
	"github.com/sirupsen/logrus"
	"google.golang.org/protobuf/proto"
)

type nopCloser struct{ io.Writer }

func (nopCloser) Close() error { return nil }

func main() {
	logrus.SetOutput(io.Discard)
	debug.SetMaxStack(64 << 20) // fail fast on runaway recursion
	data, err := os.ReadFile(os.Args[1])
	if err != nil {
		fmt.Println("harness-error", err)
		os.Exit(3)
	}
	d := &sbom.Document{}
	if err := proto.Unmarshal(data, d); err != nil {
		fmt.Println("harness-error", err)
		os.Exit(3)
	}
	defer func() {
		if r := recover(); r != nil {
			fmt.Println("panic", r)
			os.Exit(0)
		}
	}()
	var buf bytes.Buffer
	if err := writer.New(writer.WithFormat(formats.Format(os.Args[2]))).WriteStream(d, nopCloser{&buf}); err != nil {
		fmt.Println("err", err)
		return
	}
	fmt.Println("ok", buf.Len())
}
