package gen

import (
	"bytes"
	"encoding/json"
	"fmt"
	"sort"
	"strings"

	cdx "github.com/CycloneDX/cyclonedx-go"
	spdxjson "github.com/spdx/tools-golang/json"
	"github.com/spdx/tools-golang/spdx"
	"github.com/spdx/tools-golang/spdx/v2/common"
)

// ---- native CycloneDX BOMs -------------------------------------------------------------------------

var cdxTypes = []cdx.ComponentType{"application", "library", "file", "container", "firmware", "framework", "operating-system", "device", "platform", "data", "", "unheard-of"}
var cdxAlgos = []cdx.HashAlgorithm{"MD5", "SHA-1", "SHA-256", "SHA-384", "SHA-512", "SHA3-256", "SHA3-512", "BLAKE2b-256", "BLAKE3", "WHIRLPOOL"}
var cdxRefTypes = []cdx.ExternalReferenceType{"vcs", "website", "issue-tracker", "bom", "other", "distribution", "license", "build-meta", "odd"}

// NativeOpts steers how regular the generated native document is.
type NativeOpts struct {
	MissingRefs   float64 // components without bom-ref
	DuplicateRefs float64 // components reusing an earlier ref (self-containment included)
	MaxDepth      int
	MaxComps      int
}

type cdxGen struct {
	g     *G
	o     NativeOpts
	refs  []string
	count int
}

func (c *cdxGen) comp(depth int) cdx.Component {
	g := c.g
	c.count++
	co := cdx.Component{Type: Pick(g, cdxTypes), Name: g.Text(), Version: Pick(g, []string{"", "1.0", "2"}), Description: g.Text(), Copyright: g.Text()}
	switch {
	case g.Chance(c.o.MissingRefs):
	case len(c.refs) > 0 && g.Chance(c.o.DuplicateRefs):
		co.BOMRef = Pick(g, c.refs)
	default:
		co.BOMRef = fmt.Sprintf("%s%d", Pick(g, []string{"ref-", "pkg:npm/x@", "c", "protobom-auto--00000000"}), c.count)
		c.refs = append(c.refs, co.BOMRef)
	}
	if g.Chance(0.4) {
		co.PackageURL = Pick(g, purls)
	}
	if g.Chance(0.3) {
		co.CPE = Pick(g, []string{"cpe:2.3:a:x:y:1:*:*:*:*:*:*:*", "cpe:/a:x:y:1", "odd"})
	}
	if g.Chance(0.4) {
		var hs []cdx.Hash
		for k := 1 + g.Int(3); k > 0; k-- {
			hs = append(hs, cdx.Hash{Algorithm: Pick(g, cdxAlgos), Value: Pick(g, []string{"aa", "bb", "deadbeef"})})
		}
		co.Hashes = &hs
	}
	if g.Chance(0.4) {
		var ls cdx.Licenses
		for k := 1 + g.Int(3); k > 0; k-- {
			switch g.Int(4) {
			case 0:
				ls = append(ls, cdx.LicenseChoice{Expression: Pick(g, []string{"MIT OR Apache-2.0", "GPL-2.0-only"})})
			case 1:
				ls = append(ls, cdx.LicenseChoice{License: &cdx.License{ID: Pick(g, []string{"MIT", "Apache-2.0", ""})}})
			case 2:
				ls = append(ls, cdx.LicenseChoice{License: &cdx.License{Name: "named licence"}})
			default:
				ls = append(ls, cdx.LicenseChoice{})
			}
		}
		co.Licenses = &ls
	}
	if g.Chance(0.3) {
		var xs []cdx.ExternalReference
		for k := 1 + g.Int(2); k > 0; k-- {
			x := cdx.ExternalReference{URL: Pick(g, []string{"https://e.example/1", "git+https://x", ""}), Comment: g.Text(), Type: Pick(g, cdxRefTypes)}
			if g.Chance(0.4) {
				hs := []cdx.Hash{{Algorithm: Pick(g, cdxAlgos), Value: "aa"}, {Algorithm: Pick(g, cdxAlgos), Value: "bb"}}
				x.Hashes = &hs
			}
			xs = append(xs, x)
		}
		co.ExternalReferences = &xs
	}
	if g.Chance(0.2) {
		co.Supplier = &cdx.OrganizationalEntity{Name: g.Text()}
	}
	if depth < c.o.MaxDepth && c.count < c.o.MaxComps && g.Chance(0.55) {
		var subs []cdx.Component
		for k := 1 + g.Int(3); k > 0 && c.count < c.o.MaxComps; k-- {
			subs = append(subs, c.comp(depth+1))
		}
		co.Components = &subs
	}
	return co
}

// NativeCDX: a native BOM with arbitrary nesting; refs unique, missing or repeated as o says; the
// metadata component may be absent or carry sub-components; dependencies name known and unknown refs.
func (g *G) NativeCDX(o NativeOpts) *cdx.BOM {
	c := &cdxGen{g: g, o: o}
	b := cdx.NewBOM()
	b.SerialNumber = Pick(g, []string{"urn:uuid:3e671687-395b-41f5-a30f-a58921a69b79", ""})
	b.Version = 1 + g.Int(3)
	if g.Chance(0.85) {
		b.Metadata = &cdx.Metadata{}
		if g.Chance(0.8) {
			mc := c.comp(o.MaxDepth - 1)
			b.Metadata.Component = &mc
		}
		if g.Chance(0.4) {
			lcs := []cdx.Lifecycle{}
			for k := 1 + g.Int(2); k > 0; k-- {
				if g.Chance(0.7) {
					lcs = append(lcs, cdx.Lifecycle{Phase: Pick(g, []cdx.LifecyclePhase{"build", "design", "post-build", "pre-build", "decommission", "operations", "discovery"})})
				} else {
					lcs = append(lcs, cdx.Lifecycle{Name: "custom", Description: g.Text()})
				}
			}
			b.Metadata.Lifecycles = &lcs
		}
	}
	if g.Chance(0.9) {
		comps := []cdx.Component{}
		for k := g.Int(4); k > 0 && c.count < o.MaxComps; k-- {
			comps = append(comps, c.comp(0))
		}
		b.Components = &comps
	}
	if len(c.refs) > 0 && g.Chance(0.5) {
		deps := []cdx.Dependency{}
		for k := 1 + g.Int(3); k > 0; k-- {
			ds := []string{Pick(g, c.refs)}
			if g.Chance(0.2) {
				ds = append(ds, "nowhere")
			}
			deps = append(deps, cdx.Dependency{Ref: Pick(g, c.refs), Dependencies: &ds})
		}
		b.Dependencies = &deps
	}
	return b
}

func EncodeCDX(b *cdx.BOM, version cdx.SpecVersion) []byte {
	var buf bytes.Buffer
	cp := *b
	if err := cdx.NewBOMEncoder(&buf, cdx.BOMFileFormatJSON).SetPretty(true).EncodeVersion(&cp, version); err != nil {
		return nil
	}
	return buf.Bytes()
}

// ---- native SPDX documents -------------------------------------------------------------------------

// NativeSPDX: packages, files and relationships; identifiers unique or repeated, relationship
// endpoints resolving or (dangling > 0) not.
func (g *G) NativeSPDX(maxElems int, duplicate, dangling float64) *spdx.Document {
	d := &spdx.Document{SPDXVersion: "SPDX-2.3", DataLicense: "CC0-1.0", SPDXIdentifier: "DOCUMENT", DocumentName: g.NonEmptyText(),
		DocumentNamespace: "https://example.com/ns", CreationInfo: &spdx.CreationInfo{Created: "2023-01-02T03:04:05Z", Creators: []common.Creator{{Creator: "t", CreatorType: "Tool"}}}}
	var idsUsed []string
	newID := func(i int) common.ElementID {
		if len(idsUsed) > 0 && g.Chance(duplicate) {
			return common.ElementID(Pick(g, idsUsed))
		}
		id := fmt.Sprintf("%s%d", Pick(g, []string{"Package-", "File-", "e", "spdxref-", "Ref-"}), i)
		idsUsed = append(idsUsed, id)
		return common.ElementID(id)
	}
	n := 1 + g.Int(maxElems)
	for i := 0; i < n; i++ {
		if g.Chance(0.65) {
			p := &spdx.Package{PackageSPDXIdentifier: newID(i), PackageName: g.NonEmptyText(), PackageVersion: Pick(g, []string{"", "1.0"}), PackageDownloadLocation: Pick(g, []string{"NOASSERTION", "https://x/y"}),
				PackageLicenseConcluded: Pick(g, []string{"MIT", "NOASSERTION", ""}), PackageCopyrightText: Pick(g, []string{"NOASSERTION", "(c) x"}), PrimaryPackagePurpose: Pick(g, []string{"", "LIBRARY", "APPLICATION", "ODD"})}
			if g.Chance(0.3) {
				p.PackageChecksums = []common.Checksum{{Algorithm: common.SHA256, Value: "aa"}, {Algorithm: common.SHA1, Value: "bb"}}
			}
			if g.Chance(0.3) {
				p.PackageExternalReferences = []*spdx.PackageExternalReference{{Category: "PACKAGE-MANAGER", RefType: "purl", Locator: Pick(g, purls)}, {Category: "SECURITY", RefType: "cpe23Type", Locator: "cpe:2.3:a:x:y:1:*:*:*:*:*:*:*"}}
			}
			if g.Chance(0.2) {
				p.PackageSupplier = &common.Supplier{Supplier: "ACME", SupplierType: "Organization"}
			}
			if g.Chance(0.2) {
				p.ReleaseDate = Pick(g, []string{"2023-01-02T03:04:05Z", "not a date"})
			}
			d.Packages = append(d.Packages, p)
		} else {
			f := &spdx.File{FileSPDXIdentifier: newID(i), FileName: "./" + g.NonEmptyText(), Checksums: []common.Checksum{{Algorithm: common.SHA1, Value: "cc"}}, LicenseConcluded: "NOASSERTION", FileCopyrightText: "NOASSERTION"}
			d.Files = append(d.Files, f)
		}
	}
	pick := func() common.DocElementID {
		if g.Chance(dangling) {
			return common.MakeDocElementID("", "Nowhere-"+fmt.Sprint(g.Int(3)))
		}
		return common.MakeDocElementID("", Pick(g, idsUsed))
	}
	for k := g.Int(2*n + 1); k > 0; k-- {
		d.Relationships = append(d.Relationships, &spdx.Relationship{RefA: pick(), RefB: pick(), Relationship: Pick(g, []string{"CONTAINS", "DEPENDS_ON", "CONTAINS", "GENERATES", "OTHER", "DEPENDENCY_OF"})})
	}
	for k := g.Int(3); k > 0; k-- {
		d.Relationships = append(d.Relationships, &spdx.Relationship{RefA: common.MakeDocElementID("", "DOCUMENT"), RefB: pick(), Relationship: "DESCRIBES"})
	}
	return d
}

func EncodeSPDX(d *spdx.Document) []byte {
	var buf bytes.Buffer
	if err := spdxjson.Write(d, &buf); err != nil {
		return nil
	}
	return buf.Bytes()
}

// ---- another layout of the same JSON value ---------------------------------------------------------

type jmember struct {
	k string
	v any
}
type jobject []jmember

func decodeOrdered(dec *json.Decoder) (any, error) {
	t, err := dec.Token()
	if err != nil {
		return nil, err
	}
	switch d := t.(type) {
	case json.Delim:
		switch d {
		case '{':
			var o jobject
			for dec.More() {
				kt, err := dec.Token()
				if err != nil {
					return nil, err
				}
				v, err := decodeOrdered(dec)
				if err != nil {
					return nil, err
				}
				o = append(o, jmember{kt.(string), v})
			}
			_, err := dec.Token()
			if o == nil {
				o = jobject{}
			}
			return o, err
		case '[':
			a := []any{}
			for dec.More() {
				v, err := decodeOrdered(dec)
				if err != nil {
					return nil, err
				}
				a = append(a, v)
			}
			_, err := dec.Token()
			return a, err
		}
	}
	return t, nil
}

func (g *G) ws() string {
	return Pick(g, []string{"", "", " ", "\n", "\t", "  \n ", "\r\n"})
}

// jstr spells a string; with escapes, some characters come as \/ or \uXXXX (the random choices
// are made either way, so two runs from one seed differ in the spelling only).
func (g *G) jstr(s string, escapes bool) string {
	var b strings.Builder
	b.WriteByte('"')
	for _, r := range s {
		alt := g.Chance(0.2)
		switch {
		case r == '"' || r == '\\':
			b.WriteByte('\\')
			b.WriteRune(r)
		case r < 0x20:
			fmt.Fprintf(&b, "\\u%04x", r)
		case r == '/' && alt && escapes:
			b.WriteString("\\/")
		case r < 0x10000 && r != 0xFFFD && alt && escapes:
			fmt.Fprintf(&b, "\\u%04X", r)
		default:
			b.WriteRune(r)
		}
	}
	b.WriteByte('"')
	return b.String()
}

// SPDXRawKeys: members whose string values tools-golang decodes with its own UnmarshalJSON.
var SPDXRawKeys = map[string]bool{"SPDXID": true, "spdxElementId": true, "relatedSpdxElement": true, "creators": true, "supplier": true,
	"originator": true, "annotator": true, "documentDescribes": true, "hasFiles": true, "snippetFromFile": true}

type layout struct {
	g       *G
	escapes bool
	plain   map[string]bool // members whose values keep the plain spelling
}

func (l *layout) emit(b *strings.Builder, v any, plain bool) {
	g := l.g
	switch x := v.(type) {
	case jobject:
		idx := g.R.Perm(len(x))
		b.WriteString("{" + g.ws())
		for i, j := range idx {
			if i > 0 {
				b.WriteString("," + g.ws())
			}
			b.WriteString(g.jstr(x[j].k, l.escapes) + g.ws() + ":" + g.ws())
			l.emit(b, x[j].v, l.plain[x[j].k])
		}
		b.WriteString(g.ws() + "}")
	case []any:
		b.WriteString("[" + g.ws())
		for i, e := range x {
			if i > 0 {
				b.WriteString(g.ws() + "," + g.ws())
			}
			l.emit(b, e, plain)
		}
		b.WriteString(g.ws() + "]")
	case string:
		b.WriteString(g.jstr(x, l.escapes && !plain))
	case json.Number:
		b.WriteString(string(x))
	case bool:
		b.WriteString(fmt.Sprint(x))
	case nil:
		b.WriteString("null")
	default:
		b.WriteString(fmt.Sprint(x))
	}
}

// Relayout re-encodes the same JSON value with other whitespace, member order and string escapes.
// ok is false when the input is not one JSON value or has repeated members (whose meaning depends on order).
func (g *G) Relayout(data []byte, escapes bool, plain map[string]bool) (out []byte, ok bool) {
	dec := json.NewDecoder(bytes.NewReader(data))
	dec.UseNumber()
	v, err := decodeOrdered(dec)
	if err != nil || dec.More() {
		return nil, false
	}
	if hasRepeatedMembers(v) {
		return nil, false
	}
	var b strings.Builder
	b.WriteString(g.ws())
	(&layout{g, escapes, plain}).emit(&b, v, false)
	b.WriteString(g.ws())
	return []byte(b.String()), true
}

func hasRepeatedMembers(v any) bool {
	switch x := v.(type) {
	case jobject:
		ks := make([]string, len(x))
		for i, m := range x {
			ks[i] = m.k
			if hasRepeatedMembers(m.v) {
				return true
			}
		}
		sort.Strings(ks)
		for i := 1; i < len(ks); i++ {
			if ks[i] == ks[i-1] {
				return true
			}
		}
	case []any:
		for _, e := range x {
			if hasRepeatedMembers(e) {
				return true
			}
		}
	}
	return false
}
