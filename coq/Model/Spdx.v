(* Model of the SPDX 2.3 translation: pkg/native/serializers/serializer_spdx23.go (document ->
   native SPDX structure), the JSON layer of spdx/tools-golang (what encoding and decoding does to
   that structure) and pkg/native/unserializers/unserializer_spdx23.go (native structure ->
   document).  The native structure carries exactly the fields protobom touches.
   RFC 3339 formatting/parsing of timestamps is an oracle (a table per case in the correspondence,
   a Section variable with a stated hypothesis in the theorems). *)
From Verif Require Import Model.Base Model.Node Model.Graph Model.Match Model.Flat Gen.Tables.
Open Scope list_scope.

Record sref := mk_sref { xr_category : string; xr_type : string; xr_locator : string; xr_comment : string }.

Definition actor := (string * string)%type.     (* (name, type) with type "Organization" | "Person" *)

Record spkg := mk_spkg {
  sp_id : string; sp_name : string; sp_version : string; sp_file_name : string;
  sp_supplier : option actor; sp_originator : option actor;
  sp_download : string; sp_checksums : list (string * string);
  sp_home : string; sp_source_info : string; sp_lic_concluded : string; sp_lic_comments : string;
  sp_copyright : string; sp_summary : string; sp_description : string; sp_comment : string;
  sp_extrefs : list sref; sp_attribution : list string; sp_purpose : string;
  sp_release : string; sp_built : string; sp_valid : string }.

Record sfile := mk_sfile {
  sf_id : string; sf_name : string; sf_types : list string; sf_checksums : list (string * string);
  sf_lic_concluded : string; sf_lic_info : list string; sf_lic_comments : string;
  sf_copyright : string; sf_comment : string; sf_attribution : list string }.

(* a relationship: element ids of both ends; rl_special is "NONE"/"NOASSERTION" when the second
   end is one of the special values (its element id is then empty) *)
Record srel := mk_srel { rl_a : string; rl_b : string; rl_special : string; rl_type : string }.

Record sdoc := mk_sdoc {
  sd_name : string; sd_namespace : string; sd_id : string; sd_comment : string;
  sd_creators : list (string * string);      (* (creator, type) *)
  sd_packages : list spkg; sd_files : list sfile; sd_rels : list srel }.

(* ---- table lookups --------------------------------------------------------------------------- *)
Definition zlook (tab : list (Z * string)) (def : string) (k : Z) : string :=
  match zassoc k tab with Some s => s | None => def end.
Definition slook (tab : list (string * Z)) (def : Z) (k : string) : Z :=
  match sassoc k tab with Some z => z | None => def end.

Definition edge_to_spdx2 (t : Z) : string := zlook edge_to_spdx2_tab "" t.
Definition edge_from_spdx2 (s : string) : Z := slook edge_from_spdx2_tab 0 (map_string
  (fun c => let n := nat_of_ascii c in if (Nat.leb 97 n && Nat.leb n 122)%bool then ascii_of_nat (n - 32) else c) s).
Definition hash_to_spdx (a : Z) : string := zlook hash_to_spdx_tab "" a.
Definition hash_from_spdx (s : string) : Z := slook hash_from_spdx_tab 0 s.

(* strings.TrimSpace (ASCII) *)
Definition trim := trim_space.

Definition DOCUMENT := "DOCUMENT".
Definition NOASSERTION := "NOASSERTION".
Definition NONE := "NONE".

Section Spdx.
  (* oracles: RFC 3339 rendering of a timestamp, parsing back, and the tool-version creator string *)
  Variable fmt_time : ts -> string.
  Variable parse_time : string -> option ts.
  Variable self_creator : string.

  (* ---- serializer ------------------------------------------------------------------------------ *)
  Definition checksums_of (hs : list (Z * string)) : list (string * string) :=
    flat_map (fun kv => if zmem (fst kv) HashAlgorithm_values
                        then match hash_to_spdx (fst kv) with
                             | "" => []
                             | a => [(a, snd kv)]
                             end
                        else []) hs.

  Definition client_string (p : person) : string :=
    if String.eqb (p_email p) "" then p_name p else (p_name p ++ " (" ++ p_email p ++ ")")%string.
  Definition client_org (p : person) : string := if p_is_org p then "Organization" else "Person".
  Definition actor_of (ps : list person) : option actor :=
    match ps with p :: _ => Some (client_string p, client_org p) | [] => None end.

  Definition date_str (d : option ts) : string := match d with Some t => fmt_time t | None => "" end.

  Definition node_to_pkg (n : node) : spkg :=
    {| sp_id := n_id n; sp_name := n_name n; sp_version := n_version n; sp_file_name := n_file_name n;
       sp_supplier := actor_of (n_suppliers n); sp_originator := actor_of (n_originators n);
       sp_download := if String.eqb (n_url_download n) "" then NOASSERTION else n_url_download n;
       sp_checksums := checksums_of (n_hashes n);
       sp_home := n_url_home n; sp_source_info := n_source_info n;
       sp_lic_concluded := n_license_concluded n; sp_lic_comments := n_license_comments n;
       sp_copyright := trim (n_copyright n); sp_summary := n_summary n;
       sp_description := n_description n; sp_comment := n_comment n;
       sp_extrefs :=
         flat_map (fun x => if String.eqb (x_url x) "" then []
                            else [ {| xr_category := zlook extref_to_spdx_cat_tab extref_to_spdx_cat_default (x_type x);
                                      xr_type := zlook extref_to_spdx_type_tab extref_to_spdx_type_default (x_type x);
                                      xr_locator := x_url x; xr_comment := x_comment x |} ])
                  (n_external_references n)
         ++ map (fun kv => {| xr_category := zlook ident_to_spdx2_category_tab ident_to_spdx2_category_default (fst kv);
                              xr_type := zlook ident_to_spdx2_type_tab ident_to_spdx2_type_default (fst kv);
                              xr_locator := snd kv; xr_comment := "" |}) (n_identifiers n);
       sp_attribution := n_attribution n;
       sp_purpose := match n_primary_purpose n with p :: _ => zlook purpose_to_spdx_tab "" p | [] => "" end;
       sp_release := date_str (n_release_date n); sp_built := date_str (n_build_date n);
       sp_valid := date_str (n_valid_until_date n) |}.

  Definition node_to_file (n : node) : sfile :=
    {| sf_id := n_id n; sf_name := n_name n; sf_types := n_file_types n;
       sf_checksums := checksums_of (n_hashes n);
       sf_lic_concluded := n_license_concluded n; sf_lic_info := [];
       sf_lic_comments := n_license_comments n;
       sf_copyright := (let c := trim (n_copyright n) in if String.eqb c "" then NONE else c);
       sf_comment := n_comment n; sf_attribution := n_attribution n |}.

  Definition edge_rels (e : edge) : list srel :=
    map (fun x => {| rl_a := e_from e; rl_b := x; rl_special := ""; rl_type := edge_to_spdx2 (e_type e) |}) (e_to e).

  Definition root_rel (r : string) : srel :=
    {| rl_a := DOCUMENT; rl_b := r; rl_special := ""; rl_type := "DESCRIBES" |}.

  Definition tool_creator (t : tool) : string * string :=
    (if String.eqb (t_version t) "" then t_name t else (t_name t ++ "-" ++ t_version t)%string, "Tool").

  (* SPDX23.Serialize.  A node is a package unless its kind is FILE, and a file unless its kind is
     PACKAGE (so an unknown kind number is emitted twice, as the code does). *)
  Definition spdx_ser (d : document) : result sdoc :=
    match d_metadata d, d_node_list d with
    | Some md, Some nl =>
        Ok {| sd_name := md_name md; sd_namespace := "https://spdx.org/spdxdocs/"; sd_id := DOCUMENT;
              sd_comment := md_comment md;
              sd_creators := (self_creator, "Tool") :: map tool_creator (md_tools md);
              sd_packages := map node_to_pkg (filter (fun n => negb (Z.eqb (n_type n) Node_NodeType_FILE)) (nl_nodes nl));
              sd_files := map node_to_file (filter (fun n => negb (Z.eqb (n_type n) Node_NodeType_PACKAGE)) (nl_nodes nl));
              sd_rels := flat_map edge_rels (nl_edges nl) ++ map root_rel (nl_root_elements nl) |}
    | _, _ => Err
    end.

  (* ---- the JSON layer (encode with tools-golang, decode with tools-golang) -------------------- *)
  Definition SPDXRef := "SPDXRef-".
  (* an element id is written with the SPDXRef- prefix unless it already has it, and the prefix is
     cut on reading *)
  Fixpoint drop (n : nat) (s : string) : string :=
    match n, s with O, _ => s | S m, String _ r => drop m r | S _, EmptyString => EmptyString end.
  Definition chan_id (i : string) : string := if String.prefix SPDXRef i then drop 8 i else i.

  (* "Type: name" one-liners; NOASSERTION is kept bare; an actor without name cannot be written *)
  Definition chan_actor (a : option actor) : result (option actor) :=
    match a with
    | None => Ok None
    | Some (nm, ty) =>
        if String.eqb nm NOASSERTION then Ok (Some (NOASSERTION, ""))
        else if (negb (String.eqb ty "") && negb (String.eqb nm ""))%bool then Ok (Some (nm, ty))
        else Err
    end.

  Definition chan_pkg (p : spkg) : result spkg :=
    match chan_actor (sp_supplier p), chan_actor (sp_originator p) with
    | Ok s, Ok o =>
        Ok {| sp_id := chan_id (sp_id p); sp_name := sp_name p; sp_version := sp_version p; sp_file_name := sp_file_name p;
              sp_supplier := s; sp_originator := o; sp_download := sp_download p; sp_checksums := sp_checksums p;
              sp_home := sp_home p; sp_source_info := sp_source_info p; sp_lic_concluded := sp_lic_concluded p;
              sp_lic_comments := sp_lic_comments p; sp_copyright := sp_copyright p; sp_summary := sp_summary p;
              sp_description := sp_description p; sp_comment := sp_comment p; sp_extrefs := sp_extrefs p;
              sp_attribution := sp_attribution p; sp_purpose := sp_purpose p; sp_release := sp_release p;
              sp_built := sp_built p; sp_valid := sp_valid p |}
    | _, _ => Err
    end.

  Definition chan_file (f : sfile) : sfile :=
    {| sf_id := chan_id (sf_id f); sf_name := sf_name f; sf_types := sf_types f; sf_checksums := sf_checksums f;
       sf_lic_concluded := sf_lic_concluded f; sf_lic_info := sf_lic_info f; sf_lic_comments := sf_lic_comments f;
       sf_copyright := sf_copyright f; sf_comment := sf_comment f; sf_attribution := sf_attribution f |}.

  (* a relationship end with an empty element id and no special value cannot be written *)
  Definition chan_rel (r : srel) : result srel :=
    if (String.eqb (rl_a r) "" || (String.eqb (rl_b r) "" && String.eqb (rl_special r) ""))%bool then Err
    else Ok {| rl_a := chan_id (rl_a r); rl_b := chan_id (rl_b r); rl_special := rl_special r; rl_type := rl_type r |}.

  Fixpoint all_ok {A B} (f : A -> result B) (l : list A) : result (list B) :=
    match l with
    | [] => Ok []
    | x :: r => match f x, all_ok f r with Ok y, Ok ys => Ok (y :: ys) | _, _ => Err end
    end.

  Definition spdx_chan (s : sdoc) : result sdoc :=
    match all_ok chan_pkg (sd_packages s), all_ok chan_rel (sd_rels s) with
    | Ok ps, Ok rs =>
        Ok {| sd_name := sd_name s; sd_namespace := sd_namespace s; sd_id := chan_id (sd_id s); sd_comment := sd_comment s;
              sd_creators := sd_creators s; sd_packages := ps; sd_files := map chan_file (sd_files s); sd_rels := rs |}
    | _, _ => Err
    end.

  (* ---- unserializer ------------------------------------------------------------------------------ *)
  Definition hashes_of (cs : list (string * string)) : list (Z * string) :=
    (* later entries overwrite earlier ones (map assignment); entries of unknown algorithms are skipped *)
    fold_left (fun acc c => let a := hash_from_spdx (fst c) in
                            if Z.eqb a 0 then acc
                            else (a, snd c) :: filter (fun kv => negb (Z.eqb (fst kv) a)) acc) cs [].

  Definition extref_enum (c t : string) : Z * bool * bool :=
    let c' := if (String.eqb c "PACKAGE-MANAGER" || String.eqb c "SECURITY" || String.eqb c "PERSISTENT-ID")%bool then c else "OTHER" in
    match find (fun row => String.eqb (fst (fst row)) c' && String.eqb (snd (fst row)) t)%bool spdx_extref_enum_tab with
    | Some row => snd row
    | None =>
        (* a reference type that is not in the table: the default branch of the category *)
        match find (fun row => String.eqb (fst (fst row)) c' && String.eqb (snd (fst row)) "unknown")%bool spdx_extref_enum_tab with
        | Some row => snd row
        | None => (31, false, false)
        end
    end.

  Definition mk_person_named (nm : string) (org : bool) : person :=
    {| p_name := nm; p_is_org := org; p_email := ""; p_url := ""; p_phone := ""; p_contacts := []; p_contacts_nil := true |}.

  Definition date_of (s : string) : option ts := if String.eqb s "" then None else parse_time s.

  Definition pkg_to_node (p : spkg) : node :=
    let refs := sp_extrefs p in
    let triples := map (fun r => (r, extref_enum (xr_category r) (xr_type r))) refs in
    {| n_id := sp_id p; n_type := Node_NodeType_PACKAGE; n_name := sp_name p; n_version := sp_version p;
       n_file_name := sp_file_name p; n_url_home := sp_home p; n_url_download := sp_download p;
       n_licenses := [];
       n_license_concluded := if (String.eqb (sp_lic_concluded p) NOASSERTION)%bool then "" else sp_lic_concluded p;
       n_license_comments := sp_lic_comments p; n_copyright := sp_copyright p;
       n_source_info := sp_source_info p; n_comment := sp_comment p; n_summary := sp_summary p;
       n_description := sp_description p; n_attribution := sp_attribution p;
       n_suppliers := match sp_supplier p with
                      | Some (nm, ty) => if String.eqb nm NOASSERTION then [] else [mk_person_named nm (String.eqb ty "Organization")]
                      | None => []
                      end;
       n_originators := match sp_originator p with
                        | Some (nm, ty) => if (String.eqb nm NOASSERTION || String.eqb nm "")%bool then [] else [mk_person_named nm (String.eqb ty "Organization")]
                        | None => []
                        end;
       n_release_date := date_of (sp_release p); n_build_date := date_of (sp_built p);
       n_valid_until_date := date_of (sp_valid p);
       n_external_references :=
         flat_map (fun rt => let '(r, (ty, isid, bad)) := rt in
                             if (bad || isid)%bool then []
                             else [ {| x_url := xr_locator r; x_comment := xr_comment r; x_authority := ""; x_hashes := []; x_type := ty |} ]) triples;
       n_file_types := [];
       n_identifiers :=
         kvsort (fold_left (fun acc rt => let '(r, (ty, isid, bad)) := rt in
                              if (negb bad && isid)%bool then
                                let it := slook spdx_ident_type_tab 0 (xr_type r) in
                                if Z.eqb it 0 then acc
                                else (it, xr_locator r) :: filter (fun kv => negb (Z.eqb (fst kv) it)) acc
                              else acc) triples []);
       n_hashes := kvsort (hashes_of (sp_checksums p));
       n_primary_purpose := match sassoc (sp_purpose p) purpose_from_spdx_tab with Some z => [z] | None => [] end |}.

  Definition file_to_node (f : sfile) : node :=
    {| n_id := sf_id f; n_type := Node_NodeType_FILE; n_name := sf_name f; n_version := ""; n_file_name := "";
       n_url_home := ""; n_url_download := ""; n_licenses := sf_lic_info f;
       n_license_concluded := sf_lic_concluded f; n_license_comments := sf_lic_comments f;
       n_copyright := sf_copyright f; n_source_info := ""; n_comment := sf_comment f; n_summary := "";
       n_description := ""; n_attribution := []; n_suppliers := []; n_originators := [];
       n_release_date := None; n_build_date := None; n_valid_until_date := None;
       n_external_references := []; n_file_types := sf_types f; n_identifiers := [];
       n_hashes := kvsort (hashes_of (sf_checksums f)); n_primary_purpose := [] |}.

  Definition is_describes (r : srel) : bool :=
    (String.eqb (rl_a r) DOCUMENT && String.eqb (to_lower (rl_type r)) "describes")%bool.

  Definition rel_to_edge (r : srel) : edge :=
    {| e_type := edge_from_spdx2 (rl_type r); e_from := rl_a r; e_to := [rl_b r] |}.

  (* SPDX23.Unserialize on the decoded structure: the node list *)
  Definition spdx_unser_nl (s : sdoc) : nodelist :=
    {| nl_nodes := map pkg_to_node (sd_packages s) ++ map file_to_node (sd_files s);
       nl_edges := map rel_to_edge (filter (fun r => negb (is_describes r)) (sd_rels s));
       nl_root_elements := map rl_b (filter is_describes (sd_rels s)) |}.

  (* write then read *)
  Definition spdx_roundtrip (d : document) : result nodelist :=
    match spdx_ser d with
    | Ok s => match spdx_chan s with Ok s' => Ok (spdx_unser_nl s') | _ => Err end
    | _ => Err
    end.
End Spdx.
