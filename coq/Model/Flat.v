(* Model of the flat strings behind Equal and Checksum (pkg/sbom/node.go, edge.go, person.go,
   externalreference.go, nodelist.go): the exact byte strings the Go code builds. *)
From Verif Require Import Model.Base Model.Node Model.Graph.
Open Scope list_scope.

Definition sapp (a b : string) : string := (a ++ b)%string.
Infix "+++" := sapp (at level 60, right associativity).

Definition sconcat (l : list string) : string := fold_right sapp "" l.

Definition bool_str (b : bool) : string := if b then "true" else "false".

Definition opt_part (tag s : string) : string :=
  if String.eqb s "" then "" else tag +++ s +++ ")".

(* Person.flatString *)
Fixpoint person_flat (p : person) : string :=
  "n(" +++ p_name p +++ ")o(" +++ bool_str (p_is_org p) +++ ")"
  +++ opt_part "email(" (p_email p)
  +++ opt_part "url(" (p_url p)
  +++ opt_part "p(" (p_phone p)
  +++ (if p_contacts_nil p then ""
       else "c(" +++ sconcat (map person_flat (p_contacts p)) +++ ")").

(* numeric sort of a map's entries by key *)
Fixpoint kvinsert (x : Z * string) (l : list (Z * string)) : list (Z * string) :=
  match l with
  | [] => [x]
  | y :: r => if Z.leb (fst x) (fst y) then x :: l else y :: kvinsert x r
  end.
Definition kvsort (l : list (Z * string)) : list (Z * string) := fold_right kvinsert [] l.

(* sort of a map's entries by the decimal spelling of the key (flatStringMap) *)
Fixpoint skvinsert (x : string * string) (l : list (string * string)) : list (string * string) :=
  match l with
  | [] => [x]
  | y :: r => if String.leb (fst x) (fst y) then x :: l else y :: skvinsert x r
  end.
Definition skvsort (l : list (string * string)) : list (string * string) := fold_right skvinsert [] l.

Definition opt_tag (tag s : string) : string :=
  if String.eqb s "" then "" else tag +++ s.

(* ExternalReference.flatString *)
Definition extref_flat (x : extref) : string :=
  "(t)" +++ dec (x_type x)
  +++ opt_tag "(u)" (x_url x)
  +++ opt_tag "(c)" (x_comment x)
  +++ opt_tag "(a)" (x_authority x)
  +++ sconcat (map (fun kv => "(h)" +++ dec (fst kv) +++ ":" +++ snd kv) (kvsort (x_hashes x))).

(* Edge.flatString *)
Definition edge_flat (e : edge) : string :=
  e_from e +++ ":" +++ enum_name Edge_Type_names (e_type e) +++ ":" +++ join "+" (ssort (e_to e)).

(* flatStringStrSlice: values sorted, rendered name[i]:value and concatenated *)
Fixpoint indexed (name : string) (i : Z) (l : list string) : string :=
  match l with
  | [] => ""
  | s :: r => name +++ "[" +++ dec i +++ "]:" +++ s +++ indexed name (i + 1) r
  end.

Definition slice_pair (name : string) (l : list string) : list string :=
  match l with [] => [] | _ => [indexed name 0 (ssort l)] end.

Definition scalar_pair (name s : string) : list string :=
  if String.eqb s "" then [] else [name +++ ":" +++ s].

Definition date_pair (name : string) (d : option ts) : list string :=
  match d with
  | None => []
  | Some (s, n) => [name +++ ":" +++ dec (s + n / 1000000000)]
  end.

(* the pair strings Node.flatString builds for one field of the schema; protoreflect ranges over
   populated fields only, so empty values contribute nothing *)
Definition field_pairs (n : node) (f : nfield) : list string :=
  let name := nfield_fullname f in
  match f with
  | NF_id => scalar_pair name (n_id n)
  | NF_type => if Z.eqb (n_type n) 0 then [] else [name +++ ":" +++ dec (n_type n)]
  | NF_name => scalar_pair name (n_name n)
  | NF_version => scalar_pair name (n_version n)
  | NF_file_name => scalar_pair name (n_file_name n)
  | NF_url_home => scalar_pair name (n_url_home n)
  | NF_url_download => scalar_pair name (n_url_download n)
  | NF_licenses => slice_pair name (n_licenses n)
  | NF_license_concluded => scalar_pair name (n_license_concluded n)
  | NF_license_comments => scalar_pair name (n_license_comments n)
  | NF_copyright => scalar_pair name (n_copyright n)
  | NF_source_info => scalar_pair name (n_source_info n)
  | NF_comment => scalar_pair name (n_comment n)
  | NF_summary => scalar_pair name (n_summary n)
  | NF_description => scalar_pair name (n_description n)
  | NF_attribution => slice_pair name (n_attribution n)
  | NF_suppliers => map (fun p => "supplier:" +++ person_flat p) (n_suppliers n)
  | NF_originators => map (fun p => "originator:" +++ person_flat p) (n_originators n)
  | NF_release_date => date_pair name (n_release_date n)
  | NF_build_date => date_pair name (n_build_date n)
  | NF_valid_until_date => date_pair name (n_valid_until_date n)
  | NF_external_references => map (fun x => "extref:" +++ extref_flat x) (n_external_references n)
  | NF_file_types => slice_pair name (n_file_types n)
  | NF_identifiers => map (fun kv => "identifiers[" +++ dec (fst kv) +++ "]:" +++ snd kv) (kvsort (n_identifiers n))
  | NF_hashes => match n_hashes n with
                 | [] => []
                 | hs => [name +++ ":" +++ sconcat (map (fun kv => fst kv +++ ":" +++ snd kv)
                                                      (skvsort (map (fun kv => (dec (fst kv), snd kv)) hs)))]
                 end
  | NF_primary_purpose => slice_pair name (map dec (n_primary_purpose n))
  end.

Definition node_pairs (n : node) : list string := flat_map (field_pairs n) nfields.

(* Node.flatString *)
Definition node_flat (n : node) : string := join ":" (ssort (node_pairs n)).

Definition node_equal (a b : node) : bool := String.eqb (node_flat a) (node_flat b).
Definition edge_equal (a b : edge) : bool := String.eqb (edge_flat a) (edge_flat b).

(* NodeList.Equal compares lengths, sorted roots, sorted edge strings and the map from node
   identifier to node checksum (a later node with the same identifier overwrites an earlier one) *)
Section WithSha.
  Variable sha : string -> string.

  Definition checksum (n : node) : string := sha (node_flat n).

  Definition id_sums (l : nodelist) : list (string * string) :=
    map (fun i => (i, match last_node i (nl_nodes l) with Some n => checksum n | None => "" end))
        (ssort (dedup (ids l))).

  Definition nl_key (l : nodelist) : (nat * nat * nat) * list string * list string * list (string * string) :=
    ((length (nl_edges l), length (nl_nodes l), length (nl_root_elements l)),
     ssort (nl_root_elements l), ssort (map edge_flat (nl_edges l)), id_sums l).

  Definition pair_eqb (a b : string * string) : bool := String.eqb (fst a) (fst b) && String.eqb (snd a) (snd b).

  Definition nl_equal (a b : nodelist) : bool :=
    let '((e1, n1, r1), rs1, es1, m1) := nl_key a in
    let '((e2, n2, r2), rs2, es2, m2) := nl_key b in
    Nat.eqb e1 e2 && Nat.eqb n1 n2 && Nat.eqb r1 r2
    && strs_eqb rs1 rs2 && strs_eqb es1 es2 && list_eqb pair_eqb m1 m2.
End WithSha.
