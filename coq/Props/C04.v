(* C04 — Parsers are total on untrusted input.  Statements only; proofs in Proofs/CdxFacts.v,
   Proofs/SniffFacts.v and below.  PARTIAL by construction: what is proved is the protobom part of
   the pipeline — format detection on the decoded declaration, the dispatch, and the conversion of
   whatever the third-party decoders return (for every value of the decoded structures, including
   absent metadata, licence entries without a licence object, empty and repeated references).  The
   decoders themselves (encoding/json, tools-golang, cyclonedx-go) are a parameter here; their
   totality, the nil entries they can produce inside lists, and running time are exercised by the
   harness (every single schema fault at every JSON path, arbitrary bytes, a watchdog), not proved. *)
From Coq Require Import Lia.
From Verif Require Import Model.Base Model.Node Model.Graph Model.Match Model.Sniff Model.Spdx Model.Cdx Gen.Tables
  Model.Parse Proofs.GraphFacts Proofs.SniffFacts Proofs.SpdxFacts Proofs.CdxFacts Proofs.ParseFacts Proofs.LicFacts.
Open Scope list_scope.

(* reader.ParseStream as composed in Model/Parse.v: detect, dispatch to the decoder (a parameter),
   convert.  A document (whose node list is present) or an error; never a panic, never both, never
   neither — for every declaration, every line list and every behaviour of the decoder *)
Theorem C04_document_or_error : forall parse_time decode d lines,
  parse parse_time decode d lines = Err \/ exists nl, parse parse_time decode d lines = Ok nl.
Proof. exact parse_document_or_error. Qed.
Print Assumptions C04_document_or_error.

(* what a CycloneDX parse returns is a closed graph, whatever was decoded *)
Theorem C04_cdx_result_well_formed : forall parse_time decode d lines f b,
  sniff d lines = Ok f -> decode f = DecCdx b -> exists nl, parse parse_time decode d lines = Ok nl /\ wf nl.
Proof. exact parse_cdx_well_formed. Qed.
Print Assumptions C04_cdx_result_well_formed.

(* the conversion does not blow its input up: no more nodes than components / elements, no more
   edges and roots than relationships *)
Theorem C04_cdx_output_bounded : forall b, (length (nl_nodes (cdx_unser_nl b)) <= bsize b)%nat.
Proof. exact cdx_unser_size. Qed.
Print Assumptions C04_cdx_output_bounded.

Theorem C04_spdx_output_bounded : forall parse_time s,
  let nl := spdx_unser_nl parse_time s in
  length (nl_nodes nl) = (length (sd_packages s) + length (sd_files s))%nat /\
  (length (nl_edges nl) + length (nl_root_elements nl) = length (sd_rels s))%nat.
Proof. exact spdx_output_bounded. Qed.
Print Assumptions C04_spdx_output_bounded.

(* licence entries without a licence object, with an empty one, or with neither are skipped *)
Theorem C04_licence_entries_without_object : forall ls,
  lic_list (ls ++ [ {| cl_expression := ""; cl_has_license := false; cl_id := "whatever" |} ]) = lic_list ls /\
  lic_string ({| cl_expression := ""; cl_has_license := false; cl_id := "whatever" |} :: ls) = lic_string ls.
Proof. exact lic_entries_without_object. Qed.
Print Assumptions C04_licence_entries_without_object.

(* ... but NOT the concluded-licence string (known finding K14): n + 1 licence entries give an
   expression of at least 2^n characters, so no polynomial in the input size bounds the output *)
Theorem C04_licence_expression_size_refuted : forall n,
  (2 ^ n <= String.length (lic_string (repeat lic_entry (S n))))%nat /\ lic_string (repeat lic_entry (S n)) <> "".
Proof. exact lic_string_exponential. Qed.
Print Assumptions C04_licence_expression_size_refuted.

Example C04_example :
  let b := {| b_serial := ""; b_version := 0; b_has_metadata := false; b_meta_comp := None; b_lifecycles := [];
              b_components := [ {| c_ref := ""; c_type := ""; c_name := ""; c_version := ""; c_description := ""; c_copyright := "";
                                  c_licenses := [ {| cl_expression := ""; cl_has_license := false; cl_id := "" |} ];
                                  c_hashes := [("nonsense", "x")]; c_xrefs := []; c_purl := ""; c_cpe := ""; c_supplier := None; c_sub := [] |} ];
              b_deps := [("nowhere", ["nothing"])] |} in
  ids (cdx_unser_nl b) = ["protobom-auto--000000001"] /\ nl_root_elements (cdx_unser_nl b) = ["protobom-auto--000000001"].
Proof. vm_compute. split; reflexivity. Qed.
