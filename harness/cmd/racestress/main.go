// Command racestress (built with -race) runs the package-level entry points of pkg/reader,
// pkg/writer and pkg/formats from many goroutines and compares every call's result with the
// result of the same call made sequentially beforehand. Data races are reported by the Go race
// detector on stderr (the caller scans for "WARNING: DATA RACE"); result mismatches and panics are
// printed as JSON on stdout.
//
//	racestress -seed N -workers W -iters I
package main

import (
	"bytes"
	"encoding/json"
	"flag"
	"fmt"
	"google.golang.org/protobuf/types/known/timestamppb"
	"io"
	"math/rand"
	"os"
	"regexp"
	"sync"
	"time"

	"github.com/protobom/protobom/pkg/formats"
	"github.com/protobom/protobom/pkg/native"
	"github.com/protobom/protobom/pkg/native/nativefakes"
	"github.com/protobom/protobom/pkg/reader"
	"github.com/protobom/protobom/pkg/sbom"
	"github.com/protobom/protobom/pkg/writer"
	"github.com/sirupsen/logrus"
	"google.golang.org/protobuf/proto"

	"verifharness/canon"
	"verifharness/gen"
)

type nopCloser struct{ io.Writer }

func (nopCloser) Close() error { return nil }

type problem struct {
	What   string `json:"what"`
	Detail string `json:"detail"`
}

var (
	mu       sync.Mutex
	problems []problem
	calls    = map[string]int{}
)

func report(what, detail string) {
	mu.Lock()
	defer mu.Unlock()
	if len(problems) < 50 {
		problems = append(problems, problem{what, detail})
	}
}

func count(k string) {
	mu.Lock()
	calls[k]++
	mu.Unlock()
}

func normalize(b []byte) string { return canon.JSON(b) }

var dateRe = regexp.MustCompile(`"(releaseDate|builtDate|validUntilDate|created|timestamp)"\s*:\s*"[^"]*"`)

func mkDoc(i int) *sbom.Document {
	d := sbom.NewDocument()
	d.Metadata.Id = fmt.Sprintf("urn:doc:%d", i)
	d.Metadata.Name = fmt.Sprintf("doc %d", i)
	root := &sbom.Node{Id: fmt.Sprintf("root%d", i), Name: "root", Version: "1"}
	d.NodeList.AddRootNode(root)
	for k := 0; k < 12+i%3; k++ {
		// every kind of attribute, so that the helpers behind them (actor strings, licence expressions, purls,
		// hash tables, dates) all run inside the concurrent calls
		n := &sbom.Node{Id: fmt.Sprintf("n%d-%d", i, k), Name: fmt.Sprintf("pkg%d", k), Version: "1.0", Hashes: map[int32]string{3: "aa", 2: fmt.Sprintf("bb%d", i)},
			Type:     sbom.Node_PACKAGE,
			Licenses: []string{"MIT", "Apache-2.0"}, LicenseConcluded: "MIT", Copyright: fmt.Sprintf("(c) doc %d", i),
			Suppliers:          []*sbom.Person{{Name: fmt.Sprintf("Supplier %d-%d", i, k), IsOrg: true, Email: fmt.Sprintf("supplier-%d-%d@example.com", i, k), Url: "https://s.example"}},
			Originators:        []*sbom.Person{{Name: fmt.Sprintf("Originator %d-%d", i, k), Email: fmt.Sprintf("originator-%d-%d@example.org", i, k), Phone: "+1 555"}},
			Identifiers:        map[int32]string{int32(sbom.SoftwareIdentifierType_PURL): fmt.Sprintf("pkg:npm/pkg%d@1.0.%d", k, i), int32(sbom.SoftwareIdentifierType_CPE23): "cpe:2.3:a:x:y:1:*:*:*:*:*:*:*"},
			ExternalReferences: []*sbom.ExternalReference{{Url: fmt.Sprintf("https://e.example/%d/%d", i, k), Type: sbom.ExternalReference_VCS, Comment: "c", Hashes: map[int32]string{3: "cc"}}},
			PrimaryPurpose:     []sbom.Purpose{sbom.Purpose_LIBRARY},
			ReleaseDate:        timestamppb.New(time.Unix(1700000000+int64(i), 0)),
		}
		d.NodeList.AddNode(n)
		d.NodeList.Edges = append(d.NodeList.Edges, &sbom.Edge{Type: sbom.Edge_contains, From: root.Id, To: []string{n.Id}})
	}
	return d
}

func main() {
	logrus.SetOutput(io.Discard)
	seed := flag.Int64("seed", 1, "")
	workers := flag.Int("workers", 16, "")
	iters := flag.Int("iters", 200, "")
	mode := flag.String("mode", "entrypoints", "entrypoints | shared (read-only operations on one shared document)")
	flag.Parse()
	if *mode == "shared" {
		sharedStress(*seed, *workers, *iters)
		return
	}
	if *mode == "firstuse" {
		firstUse(*workers)
		return
	}
	if *mode == "firstreg" {
		firstRegistration(int(*seed))
		return
	}

	fmts := []formats.Format{formats.SPDX23JSON, formats.CDX14JSON, formats.CDX15JSON}
	const nDocs = 6
	// sequential reference results
	type ref struct {
		out    string
		format formats.Format
		nodes  int
		edges  int
	}
	refs := map[string]ref{}
	inputs := map[string][]byte{}
	for i := 0; i < nDocs; i++ {
		for _, f := range fmts {
			var buf bytes.Buffer
			if err := writer.New(writer.WithFormat(f)).WriteStream(mkDoc(i), nopCloser{&buf}); err != nil {
				fmt.Fprintln(os.Stderr, "reference write failed:", err)
				os.Exit(2)
			}
			key := fmt.Sprintf("%d/%s", i, f)
			inputs[key] = buf.Bytes()
			doc, err := reader.New().ParseStream(bytes.NewReader(buf.Bytes()))
			if err != nil {
				fmt.Fprintln(os.Stderr, "reference parse failed:", err)
				os.Exit(2)
			}
			refs[key] = ref{out: normalize(buf.Bytes()), format: f, nodes: len(doc.NodeList.Nodes), edges: len(doc.NodeList.Edges)}
		}
	}
	tv := []byte("SPDXVersion: SPDX-2.3\nDataLicense: CC0-1.0\nSPDXID: SPDXRef-DOCUMENT\n")
	tvNo := []byte("SPDXVersion: nothing\nsome text\nmore text\n")

	sharedFmt := formats.Format("text/verif-stress-shared")
	sharedU := []*nativefakes.FakeUnserializer{{}, {}}
	sharedS := []*nativefakes.FakeSerializer{{}, {}}
	reader.RegisterUnserializer(sharedFmt, sharedU[0])
	writer.RegisterSerializer(sharedFmt, sharedS[0])
	// a storm of replacements of one registered format's driver against lookups of that format: the window
	// in which a non-atomic replacement leaves the format without a driver is a few nanoseconds wide
	{
		var sw sync.WaitGroup
		done := make(chan struct{})
		for k := 0; k < 8; k++ {
			sw.Add(1)
			go func() {
				defer sw.Done()
				for {
					select {
					case <-done:
						return
					default:
					}
					if got, err := reader.GetFormatUnserializer(sharedFmt); err != nil || (got != native.Unserializer(sharedU[0]) && got != native.Unserializer(sharedU[1])) {
						report("lookup of a format whose driver is being replaced (never removed) did not return a driver registered for it", fmt.Sprint(err))
						return
					}
					if got, err := writer.GetFormatSerializer(sharedFmt); err != nil || (got != native.Serializer(sharedS[0]) && got != native.Serializer(sharedS[1])) {
						report("serializer lookup of a format whose driver is being replaced (never removed) did not return a driver registered for it", fmt.Sprint(err))
						return
					}
				}
			}()
		}
		for k := 0; k < 30000; k++ {
			reader.RegisterUnserializer(sharedFmt, sharedU[k%2])
			writer.RegisterSerializer(sharedFmt, sharedS[k%2])
		}
		close(done)
		sw.Wait()
		count("replacement-storm")
	}
	var wg sync.WaitGroup
	for w := 0; w < *workers; w++ {
		wg.Add(1)
		go func(w int) {
			defer wg.Done()
			defer func() {
				if r := recover(); r != nil {
					report("panic in a concurrent call", fmt.Sprint(r))
				}
			}()
			rng := rand.New(rand.NewSource(*seed*1000 + int64(w)))
			myFmt := formats.Format(fmt.Sprintf("text/verif-stress-%d", w))
			for it := 0; it < *iters; it++ {
				i := rng.Intn(nDocs)
				f := fmts[rng.Intn(len(fmts))]
				key := fmt.Sprintf("%d/%s", i, f)
				switch rng.Intn(8) {
				case 0: // write an independent document
					var buf bytes.Buffer
					if err := writer.New(writer.WithFormat(f)).WriteStream(mkDoc(i), nopCloser{&buf}); err != nil {
						report("concurrent write failed", err.Error())
					} else if normalize(buf.Bytes()) != refs[key].out {
						report("concurrent write produced a different output than the sequential write", key)
					}
					count("write")
					// the same through a per-call options value built by hand (nothing but the format set): the
					// library's defaults stand in for what is unset, for this call only; afterwards the owner
					// customises whatever its own value now holds, which is nobody else's business
					own := &writer.Options{Format: f}
					buf.Reset()
					if err := writer.New().WriteStreamWithOptions(mkDoc(i), nopCloser{&buf}, own); err != nil {
						report("concurrent write with hand-built per-call options failed", err.Error())
					} else if normalize(buf.Bytes()) != refs[key].out {
						report("concurrent write with hand-built per-call options produced a different output than the sequential write", key)
					}
					if own.RenderOptions != nil {
						own.RenderOptions.Indent = 1 + w%3
					}
					count("write-own-options")
				case 1: // parse an independent document
					in := inputs[key]
					if it%2 == 1 {
						// a damaged copy of it: every date replaced by text that is no date, different in every call
						// (the parsers' tolerant paths: warnings, fallbacks, whatever they remember)
						in = dateRe.ReplaceAll(in, []byte(fmt.Sprintf(`"${1}":"not-a-date-%d-%d"`, w, it)))
					}
					doc, err := reader.New().ParseStream(bytes.NewReader(in))
					if err != nil {
						report("concurrent parse failed", err.Error())
					} else if len(doc.NodeList.Nodes) != refs[key].nodes || len(doc.NodeList.Edges) != refs[key].edges {
						report("concurrent parse returned a different graph than the sequential parse", key)
					}
					count("parse")
				case 2: // detect JSON
					got, err := (&formats.Sniffer{}).SniffReader(bytes.NewReader(inputs[key]))
					if err != nil || got != f {
						report("concurrent detection returned a different format than the sequential detection", fmt.Sprintf("%s: %v %v", key, got, err))
					}
					count("sniff-json")
				case 3: // detect tag-value (the line-based path)
					got, err := (&formats.Sniffer{}).SniffReader(bytes.NewReader(tv))
					if err != nil || got != formats.SPDX23TV {
						report("concurrent tag-value detection returned a different result than the sequential detection", fmt.Sprintf("%v %v", got, err))
					}
					if got, err := (&formats.Sniffer{}).SniffReader(bytes.NewReader(tvNo)); err == nil {
						report("concurrent tag-value detection reported a format for an input without declaration", string(got))
					}
					count("sniff-tv")
				case 4: // construct configured instances
					wr := writer.New(writer.WithFormat(f), writer.WithRenderOptions(&native.RenderOptions{Indent: w + 1}))
					if wr.Options.Format != f || wr.Options.RenderOptions.Indent != w+1 {
						report("a writer constructed concurrently does not have its own options", "")
					}
					if d := writer.New(); d.Options.Format != "" || d.Options.RenderOptions.Indent != 4 {
						report("a writer constructed without options does not have the defaults", fmt.Sprint(d.Options.Format, d.Options.RenderOptions.Indent))
					}
					rd := reader.New(reader.WithFormatOptions("k", w))
					if rd.Options.GetFormatOptions("k") != w {
						report("a reader constructed concurrently does not have its own options", "")
					}
					if reader.New().Options.GetFormatOptions("k") != nil {
						report("a reader constructed without options does not have the defaults", "")
					}
					count("construct")
				case 5: // registry: this worker's private format
					fu := &nativefakes.FakeUnserializer{}
					reader.RegisterUnserializer(myFmt, fu)
					if got, err := reader.GetFormatUnserializer(myFmt); err != nil || got != native.Unserializer(fu) {
						report("registry lookup after registration did not return the registered driver", fmt.Sprint(err))
					}
					reader.UnregisterUnserializer(myFmt)
					if _, err := reader.GetFormatUnserializer(myFmt); err == nil {
						report("registry lookup after removal still returned a driver", "")
					}
					count("reader-registry")
				case 6:
					fs := &nativefakes.FakeSerializer{}
					writer.RegisterSerializer(myFmt, fs)
					if got, err := writer.GetFormatSerializer(myFmt); err != nil || got != native.Serializer(fs) {
						report("serializer registry lookup after registration did not return the registered driver", fmt.Sprint(err))
					}
					writer.UnregisterSerializer(myFmt)
					if _, err := writer.GetFormatSerializer(myFmt); err == nil {
						report("serializer registry lookup after removal still returned a driver", "")
					}
					count("writer-registry")
				default: // lookups of the built-in drivers while others register
					// a format that stays registered throughout while its driver is replaced again and again: a
					// lookup always finds one of the drivers that were registered for it
					if w%3 == 0 {
						reader.RegisterUnserializer(sharedFmt, sharedU[it%2])
						writer.RegisterSerializer(sharedFmt, sharedS[it%2])
						count("replace-shared-driver")
					} else {
						if got, err := reader.GetFormatUnserializer(sharedFmt); err != nil || (got != native.Unserializer(sharedU[0]) && got != native.Unserializer(sharedU[1])) {
							report("lookup of a format whose driver is being replaced (never removed) did not return a driver registered for it", fmt.Sprint(err))
						}
						if got, err := writer.GetFormatSerializer(sharedFmt); err != nil || (got != native.Serializer(sharedS[0]) && got != native.Serializer(sharedS[1])) {
							report("serializer lookup of a format whose driver is being replaced (never removed) did not return a driver registered for it", fmt.Sprint(err))
						}
						count("lookup-shared")
					}
					if _, err := reader.GetFormatUnserializer(f); err != nil {
						report("built-in unserializer lookup failed during concurrent registrations", err.Error())
					}
					if _, err := writer.GetFormatSerializer(f); err != nil {
						report("built-in serializer lookup failed during concurrent registrations", err.Error())
					}
					count("lookup")
				}
			}
		}(w)
	}
	wg.Wait()
	_ = proto.Equal
	out, _ := json.Marshal(map[string]any{"problems": problems, "calls": calls})
	fmt.Println(string(out))
}

// sharedStress: many goroutines run the read-only and value-returning operations on ONE shared
// pair of node lists / document; results are compared with the sequential ones where they are
// deterministic. Any write to the shared operands is a race the detector reports.
func sharedStress(seed int64, workers, iters int) {
	g := gen.New(seed)
	sh := gen.Shape{MaxNodes: 6, MaxEdges: 8, WellFormed: true, Richness: 0.7}
	a := g.NodeList(sh)
	b := g.NodeList(sh)
	for _, n := range a.Nodes {
		if g.Chance(0.6) {
			c := n.Copy()
			c.Name += "'"
			b.Nodes = append(b.Nodes, c)
		}
	}
	// spare capacity, as earlier appends leave behind
	a.RootElements = append(make([]string, 0, len(a.RootElements)+4), a.RootElements...)
	for _, e := range a.Edges {
		e.To = append(make([]string, 0, len(e.To)+4), e.To...)
	}
	doc := g.CDXTreeDocument(6)
	id := ""
	if len(a.Nodes) > 0 {
		id = a.Nodes[0].Id
	}
	refEqual := a.Equal(b)
	refUnion := len(a.Union(b).Nodes)
	refInter := len(a.Intersect(b).Nodes)
	var refOut [3]string
	fmts := []formats.Format{formats.SPDX23JSON, formats.CDX14JSON, formats.CDX15JSON}
	for k, f := range fmts {
		var buf bytes.Buffer
		_ = writer.New(writer.WithFormat(f)).WriteStream(doc, nopCloser{&buf})
		refOut[k] = normalize(buf.Bytes())
	}
	var wg sync.WaitGroup
	for w := 0; w < workers; w++ {
		wg.Add(1)
		go func(w int) {
			defer wg.Done()
			defer func() {
				if r := recover(); r != nil {
					report("panic in a concurrent read-only call", fmt.Sprint(r))
				}
			}()
			rng := rand.New(rand.NewSource(seed*7919 + int64(w)))
			for it := 0; it < iters; it++ {
				switch rng.Intn(12) {
				case 0:
					if a.Equal(b) != refEqual {
						report("concurrent NodeList.Equal differs from the sequential result", "")
					}
					count("Equal")
				case 1:
					if len(a.Union(b).Nodes) != refUnion {
						report("concurrent Union differs from the sequential result", "")
					}
					count("Union")
				case 2:
					if len(a.Intersect(b).Nodes) != refInter {
						report("concurrent Intersect differs from the sequential result", "")
					}
					count("Intersect")
				case 3:
					c := a.Copy()
					if len(c.RootElements) > 0 {
						c.RootElements[0] = "scribble" // a private result may be written freely
					}
					for _, e := range c.Edges {
						e.To = append(e.To, "scribble")
					}
					count("Copy+write")
				case 4:
					for _, n := range a.Nodes {
						_ = n.Checksum()
						cp := n.Copy()
						cp.PrimaryPurpose = append(cp.PrimaryPurpose, 1)
						for k := range cp.PrimaryPurpose {
							cp.PrimaryPurpose[k] = 2
						}
					}
					count("Checksum+Node.Copy+write")
				case 5:
					if len(a.Nodes) > 1 {
						_ = a.Nodes[0].Diff(a.Nodes[1])
						_ = a.Nodes[0].Equal(a.Nodes[1])
					}
					count("Diff")
				case 6:
					_ = a.GetNodeByID(id)
					_ = a.GetNodesByName("x")
					_ = a.GetRootNodes()
					count("lookups")
				case 7:
					_ = a.NodeGraph(id)
					_ = a.NodeDescendants(id, 2)
					_ = a.NodeSiblings(id)
					count("traversals")
				case 8, 9, 10:
					k := rng.Intn(3)
					var buf bytes.Buffer
					if err := writer.New(writer.WithFormat(fmts[k])).WriteStream(doc, nopCloser{&buf}); err == nil && normalize(buf.Bytes()) != refOut[k] {
						report("concurrent serialization of a shared document differs from the sequential output", string(fmts[k]))
					}
					count("serialize")
				case 11:
					r := a.Union(b)
					for _, n := range r.Nodes {
						n.Name = "scribble"
						for k := range n.Hashes {
							n.Hashes[k] = "scribble"
						}
					}
					r.RootElements = append(r.RootElements, "scribble")
					count("Union+write")
				}
			}
		}(w)
	}
	wg.Wait()
	out, _ := json.Marshal(map[string]any{"problems": problems, "calls": calls})
	fmt.Println(string(out))
}

// firstUse: the very first use of the reader and writer packages in this process, made by many
// goroutines released together. Every call must return what it returns in a sequential run: a
// registered driver for every built-in format.
func firstUse(workers int) {
	wfmts := []formats.Format{formats.SPDX23JSON, formats.CDX12JSON, formats.CDX13JSON, formats.CDX14JSON, formats.CDX15JSON}
	rfmts := []formats.Format{formats.SPDX23JSON, formats.CDX13JSON, formats.CDX14JSON, formats.CDX15JSON}
	start := make(chan struct{})
	var wg sync.WaitGroup
	for w := 0; w < workers; w++ {
		wg.Add(1)
		go func(w int) {
			defer wg.Done()
			defer func() {
				if r := recover(); r != nil {
					report("panic in a concurrent first use", fmt.Sprint(r))
				}
			}()
			<-start
			switch w % 4 {
			case 0:
				f := wfmts[w%len(wfmts)]
				if _, err := writer.GetFormatSerializer(f); err != nil {
					report("first concurrent use: no serializer for a built-in format", string(f)+": "+err.Error())
				}
				count("GetFormatSerializer")
			case 1:
				f := rfmts[w%len(rfmts)]
				if _, err := reader.GetFormatUnserializer(f); err != nil {
					report("first concurrent use: no unserializer for a built-in format", string(f)+": "+err.Error())
				}
				count("GetFormatUnserializer")
			case 2:
				var buf bytes.Buffer
				f := wfmts[w%len(wfmts)]
				if err := writer.New(writer.WithFormat(f)).WriteStream(mkDoc(w%3), nopCloser{&buf}); err != nil {
					report("first concurrent use: writing failed", string(f)+": "+err.Error())
				}
				count("write")
			default:
				d := `{"bomFormat":"CycloneDX","specVersion":"1.5","version":1,"components":[]}`
				if _, err := reader.New().ParseStream(bytes.NewReader([]byte(d))); err != nil {
					report("first concurrent use: parsing failed", err.Error())
				}
				count("parse")
			}
		}(w)
	}
	close(start)
	wg.Wait()
	out, _ := json.Marshal(map[string]any{"problems": problems, "calls": calls})
	fmt.Println(string(out))
}

// firstRegistration: the very first call a process makes into the writer or reader package is a
// registration or a removal; whatever is initialised lazily afterwards must not undo it (every call
// returns what it would have returned in a sequential execution: a lookup after a registration sees it).
func firstRegistration(variant int) {
	switch variant % 4 {
	case 0:
		fake := &nativefakes.FakeSerializer{}
		writer.RegisterSerializer(formats.CDX15JSON, fake)
		_ = writer.New()
		if s, err := writer.GetFormatSerializer(formats.CDX15JSON); err != nil || s != native.Serializer(fake) {
			report("a serializer registered for a built-in format as the first call of the process is not the one a later lookup returns", fmt.Sprint(err))
		}
		count("register-first")
	case 1:
		writer.UnregisterSerializer(formats.SPDX23JSON)
		_ = writer.New()
		if s, err := writer.GetFormatSerializer(formats.SPDX23JSON); err == nil && s != nil {
			report("a built-in serializer removed as the first call of the process is back after a writer was constructed", string(formats.SPDX23JSON))
		}
		count("unregister-first")
	case 2:
		fake := &nativefakes.FakeUnserializer{}
		reader.RegisterUnserializer(formats.CDX15JSON, fake)
		_ = reader.New()
		if u, err := reader.GetFormatUnserializer(formats.CDX15JSON); err != nil || u != native.Unserializer(fake) {
			report("an unserializer registered for a built-in format as the first call of the process is not the one a later lookup returns", fmt.Sprint(err))
		}
		count("register-first-reader")
	default:
		reader.UnregisterUnserializer(formats.SPDX23JSON)
		_ = reader.New()
		if _, err := reader.GetFormatUnserializer(formats.SPDX23JSON); err == nil {
			report("a built-in unserializer removed as the first call of the process is back after a reader was constructed", string(formats.SPDX23JSON))
		}
		count("unregister-first-reader")
	}
	out, _ := json.Marshal(map[string]any{"problems": problems, "calls": calls})
	fmt.Println(string(out))
}
