(* Correspondence evaluator for runs that exercise both translations (C02-C05, C07). *)
From Verif Require Import Model.Base Model.Ident Corr.Canon Corr.CheckSpdx Corr.CheckCdx.
Open Scope list_scope.

Inductive case_x := XS (c : case_spdx) | XC (c : case_cdx) | XI (seeds : list string) (observed : string).

(* what follows a prefix *)
Fixpoint after (p s : string) : option string :=
  match p, s with
  | EmptyString, _ => Some s
  | String a p', String b s' => if Ascii.eqb a b then after p' s' else None
  | _, _ => None
  end.

Definition case_ok (c : case_x) : bool :=
  match c with
  | XS c => CheckSpdx.case_ok c
  | XC c => CheckCdx.case_ok c
  | XI seeds obs =>
      if usable seeds then String.eqb (new_id "" seeds) obs
      else (* a fresh UUID: 36 safe characters after the model's prefix, and the model agrees given them *)
           match after (new_id "" seeds) obs with
           | Some u => (Nat.eqb (String.length u) 36 && all_safe u && String.eqb (new_id u seeds) obs)%bool
           | None => false
           end
  end.

Definition mismatches (cs : list case_x) : list nat := failing case_ok cs.
