(* Correspondence evaluator for flat strings and equality (C13). *)
From Verif Require Import Model.Base Model.Node Model.Graph Model.Flat Corr.Canon.
Open Scope list_scope.

Inductive case13 :=
  | CNode (a b : node) (fa fb : string) (eq : bool)
  | CEdge (a b : edge) (fa fb : string) (eq : bool)
  | CPerson (p : person) (fp : string)
  | CXref (x : extref) (fx : string)
  | CList (a b : nodelist) (eq : bool).

Definition case_ok (c : case13) : bool :=
  match c with
  | CNode a b fa fb eq =>
      String.eqb (node_flat a) fa && String.eqb (node_flat b) fb && Bool.eqb (node_equal a b) eq
  | CEdge a b fa fb eq =>
      String.eqb (edge_flat a) fa && String.eqb (edge_flat b) fb && Bool.eqb (edge_equal a b) eq
  | CPerson p fp => String.eqb (person_flat p) fp
  | CXref x fx => String.eqb (extref_flat x) fx
  | CList a b eq => Bool.eqb (nl_equal (fun s => s) a b) eq
  end.

Definition mismatches (cs : list case13) : list nat := failing case_ok cs.
