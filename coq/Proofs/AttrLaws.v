(* Attribute precedence laws of Update / Augment and of Union / Add / Intersect on shared
   nodes (C09, C10), stated over the generated field enumeration of the node schema. *)
From Coq Require Import Lia.
From Verif Require Import Model.Base Model.Node Model.Graph Proofs.ListFacts Proofs.GraphFacts Proofs.OpsWf Proofs.SetLaws.
Open Scope list_scope.

(* ---- value-level copies are the identity -------------------------------------------- *)
Fixpoint person_ind' (P : person -> Prop)
  (H : forall n o e u ph cs nl, Forall P cs -> P (mk_person n o e u ph cs nl)) (p : person) : P p :=
  match p with
  | mk_person n o e u ph cs nl =>
      H n o e u ph cs nl
        ((fix go (l : list person) : Forall P l :=
            match l with
            | [] => Forall_nil P
            | x :: r => Forall_cons x (person_ind' P H x) (go r)
            end) cs)
  end.

Lemma map_id_Forall {A} (f : A -> A) l : Forall (fun x => f x = x) l -> map f l = l.
Proof. induction 1 as [|x r Hx Hr IH]; simpl; [reflexivity|]. rewrite Hx, IH. reflexivity. Qed.

Lemma person_copy_id p : person_copy p = p.
Proof.
  induction p as [n o e u ph cs nl IH] using person_ind'. simpl.
  rewrite (map_id_Forall _ _ IH). reflexivity.
Qed.

Lemma extref_copy_id x : extref_copy x = x.
Proof. destruct x; reflexivity. Qed.

Lemma map_id_ext {A} (f : A -> A) l : (forall x, f x = x) -> map f l = l.
Proof. intros H. induction l as [|x r IH]; simpl; [reflexivity|]. rewrite H, IH. reflexivity. Qed.

Lemma node_copy_id_val n : node_copy n = n.
Proof.
  destruct n. unfold node_copy; simpl.
  rewrite !(map_id_ext person_copy) by apply person_copy_id.
  rewrite (map_id_ext extref_copy) by apply extref_copy_id. reflexivity.
Qed.

Lemma edge_copy_id e : edge_copy e = e.
Proof. destruct e; reflexivity. Qed.

(* ---- emptiness of an attribute value, as Update/Augment test it ---------------------------- *)
Definition aval_nonempty (v : aval) : bool :=
  match v with
  | AStr s => negb (String.eqb s "")
  | ABool b => b
  | AEnum z => negb (Z.eqb z 0)
  | AStrs l => match l with [] => false | _ => true end
  | AEnums l => match l with [] => false | _ => true end
  | APersons l => match l with [] => false | _ => true end
  | AXrefs l => match l with [] => false | _ => true end
  | AMap m => match m with [] => false | _ => true end
  | ADate d => match d with None => false | _ => true end
  end.

(* identifier and kind are not attributes that merging touches *)
Definition mergeable (f : nfield) : bool :=
  match f with NF_id | NF_type => false | _ => true end.

Theorem update_get f a b :
  mergeable f = true ->
  nget f (update a b) = if aval_nonempty (nget f b) then nget f b else nget f a.
Proof.
  destruct f; simpl; try discriminate; intros _; unfold pick_s, pick_l, pick_o;
    match goal with
    | |- context [String.eqb ?s ""] => destruct (String.eqb s ""); reflexivity
    | |- context [match ?l with _ => _ end] => destruct l; reflexivity
    end.
Qed.

Theorem update_keeps_identity a b : n_id (update a b) = n_id a /\ n_type (update a b) = n_type a.
Proof. split; reflexivity. Qed.

Theorem augment_get f a b :
  mergeable f = true ->
  nget f (augment a b) = if aval_nonempty (nget f a) then nget f a else nget f b.
Proof.
  destruct f; simpl; try discriminate; intros _; unfold pick_s, pick_l, pick_o;
    match goal with
    | |- context [String.eqb ?s ""] => destruct (String.eqb s "") eqn:E; [apply String.eqb_eq in E; subst|]; reflexivity
    | |- context [match ?l with _ => _ end] => destruct l; reflexivity
    end.
Qed.

(* ---- which node carries an identifier after a merge ----------------------------------------- *)
Definition merged_with (comb : node -> node -> node) (ns2 : list node) (n : node) : node :=
  match first_node (n_id n) ns2 with Some n2 => comb n n2 | None => n end.

Lemma map_last_done i f l : snd (map_last i f l) = true -> In i (map n_id l).
Proof.
  induction l as [|m r IH]; simpl; [discriminate|].
  destruct (map_last i f r) as [r' d]; simpl in *. destruct d; simpl.
  - intros _. right. apply IH. reflexivity.
  - destruct (String.eqb_spec (n_id m) i) as [Heq|Hne]; simpl; [intros _; left; assumption|discriminate].
Qed.

Lemma map_last_NoDup i f l :
  NoDup (map n_id l) ->
  fst (map_last i f l) = map (fun n => if String.eqb (n_id n) i then f n else n) l.
Proof.
  induction l as [|n r IH]; simpl; intros Hnd; [reflexivity|].
  inversion Hnd as [|? ? Hn Hr]; subst. specialize (IH Hr).
  destruct (map_last i f r) as [r' done] eqn:E. simpl in IH. subst r'.
  assert (Hdone : done = true -> In i (map n_id r)).
  { intros ->. apply (map_last_done i f r). rewrite E. reflexivity. }
  destruct done; simpl.
  - destruct (String.eqb_spec (n_id n) i) as [Heq|Hne]; [|reflexivity].
    exfalso. apply Hn. rewrite Heq. apply Hdone. reflexivity.
  - destruct (String.eqb (n_id n) i); reflexivity.
Qed.

Lemma merge_fold_NoDup comb oids ns2 : forall ns,
  (forall a b, n_id (comb a b) = n_id a) ->
  NoDup (map n_id ns) -> NoDup (map n_id ns2) ->
  (forall n2, In n2 ns2 -> mem (n_id n2) oids = true <-> In (n_id n2) (map n_id ns)) ->
  fold_left (fun acc n2 => if mem (n_id n2) oids
                           then fst (map_last (n_id n2) (fun n => comb n n2) acc)
                           else acc) ns2 ns
  = map (merged_with comb ns2) ns.
Proof.
  induction ns2 as [|n2 r IH]; intros ns Hc Hnd Hnd2 Hmem; simpl.
  - unfold merged_with; simpl. symmetry. apply map_id_ext. reflexivity.
  - inversion Hnd2 as [|? ? Hn2 Hr2]; subst.
    set (h := fun n => if String.eqb (n_id n) (n_id n2) then comb n n2 else n).
    assert (Hstep : (if mem (n_id n2) oids then fst (map_last (n_id n2) (fun n => comb n n2) ns) else ns) = map h ns).
    { destruct (mem (n_id n2) oids) eqn:E.
      - apply map_last_NoDup. assumption.
      - symmetry. apply map_id_Forall. apply Forall_forall. intros n Hn. unfold h.
        destruct (String.eqb_spec (n_id n) (n_id n2)) as [Heq|]; [|reflexivity].
        exfalso. assert (Hin : In (n_id n2) (map n_id ns)) by (rewrite <- Heq; apply in_map; assumption).
        apply (Hmem n2 (or_introl eq_refl)) in Hin. congruence. }
    rewrite Hstep.
    assert (Hids : map n_id (map h ns) = map n_id ns).
    { rewrite map_map. apply map_ext. intros n. unfold h. destruct (String.eqb (n_id n) (n_id n2)); [apply Hc|reflexivity]. }
    rewrite IH; try assumption.
    + rewrite map_map. apply map_ext_in. intros n Hn. unfold merged_with, h. simpl.
      destruct (String.eqb_spec (n_id n) (n_id n2)) as [Heq|Hne].
      * rewrite Hc. rewrite Heq. rewrite String.eqb_refl.
        destruct (first_node (n_id n2) r) as [m|] eqn:Em; [|reflexivity].
        apply first_node_Some in Em as [Em1 Em2]. exfalso. apply Hn2. rewrite <- Em2. apply in_map. assumption.
      * destruct (String.eqb_spec (n_id n2) (n_id n)) as [Heq'|_]; [congruence|]. reflexivity.
    + rewrite Hids. assumption.
    + intros m Hm. rewrite Hids. apply Hmem. right. assumption.
Qed.

(* the node that Union produces for an identifier present in the first operand *)
Theorem union_nodes l l2 :
  NoDup (ids l) -> NoDup (ids l2) ->
  nl_nodes (union l l2) =
  map (merged_with update (nl_nodes l2)) (nl_nodes l)
  ++ filter (fun n2 => negb (mem (n_id n2) (ids l))) (nl_nodes l2).
Proof.
  intros H1 H2. unfold union; simpl. unfold merge_nodes. f_equal.
  rewrite merge_fold_NoDup.
  - rewrite map_map. apply map_ext. intros n. unfold merged_with.
    rewrite node_copy_id_val. reflexivity.
  - intros; reflexivity.
  - rewrite map_node_copy_ids. assumption.
  - assumption.
  - intros n2 _. rewrite map_node_copy_ids. apply mem_In.
Qed.

Theorem add_nodes l l2 :
  NoDup (ids l) -> NoDup (ids l2) ->
  nl_nodes (add l l2) =
  map (merged_with augment (nl_nodes l2)) (nl_nodes l)
  ++ filter (fun n2 => negb (mem (n_id n2) (ids l))) (nl_nodes l2).
Proof.
  intros H1 H2. unfold add; simpl. unfold merge_nodes. f_equal.
  apply merge_fold_NoDup; try assumption.
  - intros; reflexivity.
  - intros n2 _. apply mem_In.
Qed.

Lemma first_node_unique i ns n : NoDup (map n_id ns) -> In n ns -> n_id n = i -> first_node i ns = Some n.
Proof.
  induction ns as [|m r IH]; simpl; intros Hnd Hin Hid; [contradiction|].
  inversion Hnd as [|? ? Hm Hr]; subst. unfold first_node; simpl.
  destruct Hin as [->|Hin].
  - rewrite String.eqb_refl. reflexivity.
  - destruct (String.eqb_spec (n_id m) (n_id n)) as [Heq|_].
    + exfalso. apply Hm. rewrite Heq. apply in_map. assumption.
    + apply IH; auto.
Qed.

(* C09: for a node present in both operands each attribute takes the second operand's
   value when that is non-empty and the first's otherwise *)
Theorem union_attr l l2 na nb f :
  NoDup (ids l) -> NoDup (ids l2) ->
  In na (nl_nodes l) -> In nb (nl_nodes l2) -> n_id na = n_id nb -> mergeable f = true ->
  exists n, In n (nl_nodes (union l l2)) /\ n_id n = n_id na /\
            nget f n = if aval_nonempty (nget f nb) then nget f nb else nget f na.
Proof.
  intros H1 H2 Ha Hb Hid Hf. exists (update na nb). split; [|split].
  - rewrite union_nodes by assumption. apply in_or_app. left.
    apply in_map_iff. exists na. split; [|assumption]. unfold merged_with.
    rewrite (first_node_unique (n_id na) (nl_nodes l2) nb); auto.
  - reflexivity.
  - apply update_get. assumption.
Qed.

(* a node only the first operand has is carried over unchanged; likewise for the second *)
Theorem union_attr_only_first l l2 na :
  NoDup (ids l) -> NoDup (ids l2) -> In na (nl_nodes l) -> ~ In (n_id na) (ids l2) ->
  In na (nl_nodes (union l l2)).
Proof.
  intros H1 H2 Ha Hn. rewrite union_nodes by assumption. apply in_or_app. left.
  apply in_map_iff. exists na. split; [|assumption]. unfold merged_with.
  destruct (first_node (n_id na) (nl_nodes l2)) as [m|] eqn:E; [|reflexivity].
  apply first_node_Some in E as [E1 E2]. exfalso. apply Hn. rewrite <- E2. apply in_map. assumption.
Qed.

Theorem union_attr_only_second l l2 nb :
  NoDup (ids l) -> NoDup (ids l2) -> In nb (nl_nodes l2) -> ~ In (n_id nb) (ids l) ->
  In nb (nl_nodes (union l l2)).
Proof.
  intros H1 H2 Hb Hn. rewrite union_nodes by assumption. apply in_or_app. right.
  apply filter_In. split; [assumption|]. apply negb_true_iff, mem_false. assumption.
Qed.

(* C09: the in-place variant keeps the receiver's non-empty attributes *)
Theorem add_attr l l2 na nb f :
  NoDup (ids l) -> NoDup (ids l2) ->
  In na (nl_nodes l) -> In nb (nl_nodes l2) -> n_id na = n_id nb -> mergeable f = true ->
  exists n, In n (nl_nodes (add l l2)) /\ n_id n = n_id na /\
            nget f n = if aval_nonempty (nget f na) then nget f na else nget f nb.
Proof.
  intros H1 H2 Ha Hb Hid Hf. exists (augment na nb). split; [|split].
  - rewrite add_nodes by assumption. apply in_or_app. left.
    apply in_map_iff. exists na. split; [|assumption]. unfold merged_with.
    rewrite (first_node_unique (n_id na) (nl_nodes l2) nb); auto.
  - reflexivity.
  - apply augment_get. assumption.
Qed.

(* C10: attributes of a surviving node follow the second-operand-wins rule; with duplicate
   identifiers the last node of each operand is the one that counts *)
Theorem intersect_attr l l2 n :
  In n (nl_nodes (intersect l l2)) ->
  exists na nb, last_node (n_id n) (nl_nodes l) = Some na /\ last_node (n_id n) (nl_nodes l2) = Some nb /\
                n = update na nb.
Proof.
  unfold intersect; simpl. fold (common_ids l l2). intros H.
  apply in_flat_map in H as [i [Hi H]].
  destruct (last_node i (nl_nodes l)) as [na|] eqn:Ea; [|contradiction].
  destruct (last_node i (nl_nodes l2)) as [nb|] eqn:Eb; [|contradiction].
  destruct H as [<-|[]]. rewrite node_copy_id_val.
  pose proof (last_node_Some _ _ _ Ea) as [_ Hid]. simpl. rewrite Hid.
  exists na, nb. auto.
Qed.

Theorem intersect_attr_field l l2 n f :
  In n (nl_nodes (intersect l l2)) -> mergeable f = true ->
  exists na nb, last_node (n_id n) (nl_nodes l) = Some na /\ last_node (n_id n) (nl_nodes l2) = Some nb /\
                nget f n = if aval_nonempty (nget f nb) then nget f nb else nget f na.
Proof.
  intros H Hf. destruct (intersect_attr l l2 n H) as [na [nb [Ha [Hb ->]]]].
  exists na, nb. split; [exact Ha|]. split; [exact Hb|]. apply update_get. assumption.
Qed.
