(* C02 — CycloneDX write-then-read round trip preserves components and containment.  Statements
   only; proofs in Proofs/CdxFacts.v.  Model: cdx_ser (Serialize, with the two-pass assembly of the
   component tree), the JSON layer (identity on the class, observed on every run), cdx_unser_nl
   (Unserialize built from the graph operations of Model/Graph.v). *)
From Coq Require Import Permutation.
From Verif Require Import Model.Base Model.Node Model.Graph Model.Spdx Model.Cdx Gen.Tables
  Proofs.GraphFacts Proofs.SetLaws Proofs.CdxFacts.
Open Scope list_scope.

(* ---- the round trip ---- *)
(* The class: exactly one root; unique, non-empty, non-reserved identifiers; every stored edge with a
   target is a containment edge between nodes; the containment relation is a tree under the root
   (a depth function witnesses acyclicity, every node but the root is contained, and in one node
   only).  Nothing is said about the order of the stored edges, how a node's children are spread
   over edges, depth or fan-out: the statement holds for every such document. *)
Theorem C02_containment_tree_roundtrip : forall d md nl root rank b,
  d_metadata d = Some md -> d_node_list d = Some nl -> cdx_tree_class nl root rank -> cdx_ser d = Ok b ->
  let nl' := cdx_unser_nl b in
  (forall i, In i (ids nl') <-> In i (ids nl)) /\
  (forall f t x, InE (nl_edges nl') f t x <-> InE (nl_edges nl) f t x) /\
  nl_root_elements nl' = [root].
Proof. exact cdx_tree_roundtrip. Qed.
Print Assumptions C02_containment_tree_roundtrip.

(* the serializer accepts every tree of the class *)
Theorem C02_tree_is_serializable : forall d md nl root rank,
  d_metadata d = Some md -> d_node_list d = Some nl -> cdx_tree_class nl root rank ->
  (forall dt, In dt (md_documentTypes md) -> exists ph, phase_of dt = Ok ph) ->
  exists b, cdx_ser d = Ok b.
Proof. exact cdx_tree_serializable. Qed.
Print Assumptions C02_tree_is_serializable.

(* what is read back is again a tree of the class, so a second pass returns the same node set,
   containment and root once more *)
Theorem C02_second_pass : forall d md nl root rank b,
  d_metadata d = Some md -> d_node_list d = Some nl -> cdx_tree_class nl root rank -> cdx_ser d = Ok b ->
  cdx_tree_class (cdx_unser_nl b) root rank.
Proof. exact cdx_tree_class_preserved. Qed.
Print Assumptions C02_second_pass.

(* ---- structure: what is written ---- *)
(* every node other than the root is written as a component exactly once — whatever the order of
   the stored edges, the depth and the fan-out — and the root as the metadata component *)
Theorem C02_every_node_written_once : forall d b, cdx_ser d = Ok b ->
  forall nl root, d_node_list d = Some nl -> nl_root_elements nl = [root] ->
  b_components b = map clear_auto (cdx_forest nl root) /\
  Permutation (flat_map refs (cdx_forest nl root)) (filter (fun i => negb (String.eqb i root)) (dedup (ids nl))) /\
  option_map c_ref (b_meta_comp b) = Some root.
Proof. exact cdx_every_node_once. Qed.
Print Assumptions C02_every_node_written_once.

(* a component is nested only under the node that contains it *)
Theorem C02_nesting_is_containment : forall nl root p x,
  contains_closed nl -> In (p, x) (flat_map pairs (cdx_forest nl root)) ->
  x <> root /\ x <> p /\ exists e, In e (nl_edges nl) /\ e_type e = Edge_Type_contains /\ e_from e = p /\ In x (e_to e).
Proof. exact forest_pairs_are_contains_edges. Qed.
Print Assumptions C02_nesting_is_containment.

(* the depth of the tree is not limited by the model's fuel *)
Theorem C02_any_depth : forall nl root k, contains_closed nl ->
  assemble_with (S (length (dedup (ids nl))) + k) (dedup (ids nl)) root (last_comp (nl_nodes nl)) (parents root (nl_edges nl))
  = cdx_forest nl root.
Proof. exact forest_fuel_irrelevant. Qed.
Print Assumptions C02_any_depth.

(* ---- structure: what is read ---- *)
(* the graph read from any BOM is closed and has unique, non-empty identifiers *)
Theorem C02_read_graph_well_formed : forall b, wf (cdx_unser_nl b) /\ forall i, In i (ids (cdx_unser_nl b)) -> i <> "".
Proof. exact cdx_read_graph_well_formed. Qed.
Print Assumptions C02_read_graph_well_formed.

(* ---- per node ---- *)
Theorem C02_scalar_attributes : forall n cc, let n' := comp_to_node (node_to_comp n) cc in
  (n_id n <> "" -> n_id n' = n_id n) /\ n_name n' = n_name n /\ n_version n' = n_version n /\
  n_description n' = n_description n /\ n_copyright n' = n_copyright n.
Proof. exact cdx_scalar_attributes. Qed.
Print Assumptions C02_scalar_attributes.

(* file/package kind and the native component type, for every purpose CycloneDX has a type for *)
Theorem C02_kind_and_component_type : forall n cc, let n' := comp_to_node (node_to_comp n) cc in
  (n_type n = Node_NodeType_FILE -> n_type n' = Node_NodeType_FILE /\ n_primary_purpose n' = [Purpose_FILE]) /\
  (forall p r, n_type n = Node_NodeType_PACKAGE -> n_primary_purpose n = p :: r -> In p cdx_native_purposes ->
     n_type n' = Node_NodeType_PACKAGE /\ n_primary_purpose n' = [p]).
Proof. exact cdx_kind_and_type. Qed.
Print Assumptions C02_kind_and_component_type.

(* CycloneDX hash algorithms: every hash map whose algorithms are in the CycloneDX table comes back
   unchanged (all 12 algorithms, generated table) *)
Theorem C02_hashes : forall n cc, cdx_hash_class (n_hashes n) ->
  n_hashes (comp_to_node (node_to_comp n) cc) = n_hashes n.
Proof. exact cdx_node_hashes. Qed.
Print Assumptions C02_hashes.

(* purl and CPE *)
Theorem C02_purl_and_cpe : forall n cc, cdx_ident_class (n_identifiers n) ->
  n_identifiers (comp_to_node (node_to_comp n) cc) = n_identifiers n.
Proof. exact cdx_node_identifiers. Qed.
Print Assumptions C02_purl_and_cpe.

(* external references with type, URL, comment and hashes — for each of the 39 reference types that
   have a CycloneDX counterpart of their own *)
Theorem C02_external_references : forall n cc, Forall cdx_extref_class (n_external_references n) ->
  n_external_references (comp_to_node (node_to_comp n) cc) = n_external_references n.
Proof. exact cdx_node_external_references. Qed.
Print Assumptions C02_external_references.

Theorem C02_external_reference_types_covered :
  length (filter extref_type_rt ExternalReference_ExternalReferenceType_values) = 39%nat.
Proof. exact extref_types_with_counterpart. Qed.
Print Assumptions C02_external_reference_types_covered.

(* licences: none or one is preserved; a longer list is NOT (known finding K13): the parser keeps
   the first entry only *)
Theorem C02_licence_none_or_one : forall n cc,
  (n_licenses n = [] -> n_licenses (comp_to_node (node_to_comp n) cc) = []) /\
  (forall l, n_licenses n = [l] -> l <> "" -> n_licenses (comp_to_node (node_to_comp n) cc) = [l]).
Proof. exact cdx_licence_none_or_one. Qed.
Print Assumptions C02_licence_none_or_one.

Theorem C02_licence_list_refuted : exists n cc,
  n_licenses (comp_to_node (node_to_comp n) cc) <> n_licenses n /\ length (n_licenses n) = 2%nat.
Proof. exact cdx_licence_list_refuted. Qed.
Print Assumptions C02_licence_list_refuted.

(* ---- document ---- *)
Theorem C02_serial_and_lifecycles : forall d b md, cdx_ser d = Ok b -> d_metadata d = Some md ->
  b_serial b = md_id md /\
  ((exists nl, d_node_list d = Some nl /\ nl_nodes nl = [] /\ nl_root_elements nl = []) \/ all_ok phase_of (md_documentTypes md) = Ok (b_lifecycles b)).
Proof. exact cdx_serial_and_lifecycles. Qed.
Print Assumptions C02_serial_and_lifecycles.

(* the seven lifecycle phases come back as the document type they were written from *)
Theorem C02_lifecycle_types : forallb (fun t => match phase_of {| dt_type := Some t; dt_name := None; dt_description := None |} with
                                        | Ok (ph, _, _) => match sassoc ph phase_to_sbomtype_tab with Some t' => Z.eqb t' t | None => false end
                                        | _ => false
                                        end)
    [DocumentType_SBOMType_BUILD; DocumentType_SBOMType_DESIGN; DocumentType_SBOMType_ANALYZED; DocumentType_SBOMType_SOURCE;
     DocumentType_SBOMType_DECOMISSION; DocumentType_SBOMType_DEPLOYED; DocumentType_SBOMType_DISCOVERY] = true.
Proof. exact phase_type_rt. Qed.
Print Assumptions C02_lifecycle_types.

(* non-vacuity: a three-level tree stored parent-first and child-first gives the same nesting, and
   reading it back gives the same containment *)
Definition nd2 (i : string) : node :=
  {| n_id := i; n_type := 0; n_name := i; n_version := ""; n_file_name := ""; n_url_home := "";
     n_url_download := ""; n_licenses := []; n_license_concluded := ""; n_license_comments := "";
     n_copyright := ""; n_source_info := ""; n_comment := ""; n_summary := ""; n_description := "";
     n_attribution := []; n_suppliers := []; n_originators := []; n_release_date := None;
     n_build_date := None; n_valid_until_date := None; n_external_references := [];
     n_file_types := []; n_identifiers := []; n_hashes := []; n_primary_purpose := [Purpose_LIBRARY] |}.
Definition tree2 (es : list edge) : document :=
  {| d_metadata := Some {| md_id := "urn:uuid:1"; md_version := "3"; md_name := ""; md_date := None; md_tools := []; md_authors := []; md_comment := ""; md_documentTypes := [] |};
     d_node_list := Some {| nl_nodes := [nd2 "r"; nd2 "a"; nd2 "b"; nd2 "c"]; nl_edges := es; nl_root_elements := ["r"] |} |}.
Definition ce (f : string) (t : list string) : edge := {| e_type := Edge_Type_contains; e_from := f; e_to := t |}.
Example C02_class_inhabited :
  cdx_tree_class {| nl_nodes := [nd2 "r"; nd2 "a"; nd2 "b"; nd2 "c"]; nl_edges := [ce "b" ["c"]; ce "r" ["a"]; ce "a" ["b"]]; nl_root_elements := ["r"] |}
                 "r" (fun i => if String.eqb i "r" then 0 else if String.eqb i "a" then 1 else if String.eqb i "b" then 2 else 3)%nat.
Proof.
  constructor; cbn [nl_root_elements nl_nodes nl_edges ids map n_id nd2].
  - reflexivity.
  - repeat constructor; cbn; intuition discriminate.
  - left. reflexivity.
  - intros i [<-|[<-|[<-|[<-|[]]]]]; split; try discriminate; reflexivity.
  - intros e [<-|[<-|[<-|[]]]]; cbn; (split; [tauto|]); intros x [<-|[]]; (split; [tauto|reflexivity]).
  - reflexivity.
  - intros e x [<-|[<-|[<-|[]]]] [<-|[]]; cbn; auto.
  - intros e1 e2 x [<-|[<-|[<-|[]]]] [<-|[<-|[<-|[]]]] [<-|[]] [E|[]]; try reflexivity; discriminate.
  - intros i [<-|[<-|[<-|[<-|[]]]]] Hne; try contradiction.
    + exists (ce "r" ["a"]). cbn. tauto.
    + exists (ce "a" ["b"]). cbn. tauto.
    + exists (ce "b" ["c"]). cbn. tauto.
Qed.

Example C02_example :
  let shape d := match cdx_ser d with Ok b => Some (flat_map pairs (b_components b), map c_ref (b_components b), b_version b) | _ => None end in
  shape (tree2 [ce "r" ["a"]; ce "a" ["b"]; ce "b" ["c"]]) = Some ([("a", "b"); ("b", "c")], ["a"], 3) /\
  shape (tree2 [ce "b" ["c"]; ce "a" ["b"]; ce "r" ["a"]]) = Some ([("a", "b"); ("b", "c")], ["a"], 3) /\
  match cdx_ser (tree2 [ce "b" ["c"]; ce "a" ["b"]; ce "r" ["a"]]) with
  | Ok b => map (fun e => (e_from e, e_to e)) (nl_edges (cdx_unser_nl b)) = [("r", ["a"]); ("a", ["b"]); ("b", ["c"])]
  | _ => False
  end.
Proof. vm_compute. repeat split. Qed.
