package main

import (
	"bytes"
	"crypto/sha256"
	"encoding/base64"
	"encoding/hex"
	"encoding/json"
	"fmt"
	"google.golang.org/protobuf/encoding/protowire"
	"os"
	"os/exec"
	"path/filepath"
	"regexp"
	"strings"

	"github.com/protobom/protobom/pkg/sbom"
	"google.golang.org/protobuf/proto"

	"verifharness/coqfmt"
	"verifharness/gen"
)

func init() { runners["C19"] = runC19 }

type childOut struct {
	Outcome string `json:"outcome"`
	Error   string `json:"error"`
	Doc     string `json:"doc"`
	Exit    int    `json:"-"`
}

func storechildPath() string {
	exe, err := os.Executable()
	if err != nil {
		die("%v", err)
	}
	return filepath.Join(filepath.Dir(exe), "storechild")
}

// runChild runs storechild, optionally as the unprivileged user nobody.
func runChild(asNobody bool, args ...string) childOut {
	var cmd *exec.Cmd
	if asNobody {
		cmd = exec.Command("setpriv", append([]string{"--reuid=65534", "--regid=65534", "--clear-groups", storechildPath()}, args...)...)
	} else {
		cmd = exec.Command(storechildPath(), args...)
	}
	outb, err := cmd.Output()
	co := childOut{}
	if len(outb) > 0 {
		_ = json.Unmarshal([]byte(strings.TrimSpace(string(outb))), &co)
	}
	if err != nil {
		if ee, ok := err.(*exec.ExitError); ok {
			co.Exit = ee.ExitCode()
		} else {
			co.Exit = -1
		}
		if co.Outcome == "" {
			co.Outcome = "exit"
			co.Error = err.Error()
		}
	}
	return co
}

func entryName(id string) string {
	return fmt.Sprintf("%x.protobom", sha256.Sum256([]byte(id)))
}

var hostileIDs = []string{"x", "y", "a/b", "../escape", "/abs/path", "..", "é-ü", strings.Repeat("L", 300), "sp ace", "semi;colon"}

// identifiers that differ only far from the start, in case, in trailing blanks, in a NUL byte or in
// the Unicode normal form: different identifiers, so different entries
var idFamilies = [][]string{
	{strings.Repeat("p", 64) + "A", strings.Repeat("p", 64) + "B"},
	{strings.Repeat("q", 256) + "A", strings.Repeat("q", 256) + "B", strings.Repeat("q", 255) + "A", strings.Repeat("q", 255) + "B"},
	{"https://example.com/" + strings.Repeat("s/", 160) + "#DOCUMENT-A", "https://example.com/" + strings.Repeat("s/", 160) + "#DOCUMENT-B"},
	{strings.Repeat("r", 5000) + "1", strings.Repeat("r", 5000) + "2"},
	{"case", "Case", "CASE"},
	{"blank", "blank ", " blank", "blank\t"},
	{"nul", "nul\x00", "nul\x00x"},
	{"caf\u00e9", "cafe\u0301"},
	{"a/b", "a\\b", "a%2Fb"},
}

var entryRe = regexp.MustCompile(`^[0-9a-f]{64}\.protobom(\.tmp-.*)?$`)

func runC19(seed int64, n int, dir string, tier string) *Report {
	g := gen.New(seed)
	rep := NewReport("C19", seed)
	rep.Rule = "n histories of 3..9 operations (store with both no-clobber settings, store of nil / id-less documents, retrieve of stored, unknown and empty identifiers, injected faults: garbage, empty, foreign or unreadable entries, removed entries) against a directory that is absent, not creatable, not a directory, empty, or unusable by the caller; identifiers include path separators, dot-dot, absolute paths, unicode and 300-byte strings, and families that differ only after a long common prefix (64 to 5000 bytes), in case, blanks, a NUL byte or the Unicode normal form; every call runs in a child process, one history in three as the unprivileged user nobody; non-trivial = at least two successful stores; distinct by hash"
	cf := &CasesFile{Imports: "Model.Base Model.Store Corr.CheckC19", Type: "case19", Eval: "mismatches"}
	_, errPriv := exec.LookPath("setpriv")
	for h := 0; h < n; h++ {
		base, err := os.MkdirTemp("", "verif-c19-")
		if err != nil {
			die("%v", err)
		}
		asNobody := errPriv == nil && h%3 == 2
		if asNobody {
			_ = os.Chown(base, 65534, 65534)
		}
		_ = os.Chmod(base, 0o755)
		// documents
		type docT struct {
			tok   int
			id    string
			hasMD bool
			bytes []byte
			file  string
		}
		var docs []docT
		var fam []string
		if g.Chance(0.5) {
			fam = idFamilies[gen.Pick(g, []int{0, 1, 1, 1, 2, 2, 3, 4, 5, 6, 7, 8})]
		}
		if h < 2*len(idFamilies) && h%2 == 0 {
			fam = idFamilies[h/2] // every family at least once in every run, whatever the seed
		}
		nd := 2 + g.Int(3)
		if fam != nil && h < 2*len(idFamilies) && nd < len(fam) && nd < 4 {
			nd = min(len(fam), 4)
		}
		for k := 0; k < nd; k++ {
			d := sbom.NewDocument()
			id := gen.Pick(g, hostileIDs)
			if fam != nil {
				id = fam[k%len(fam)]
			}
			d.Metadata.Id = id
			d.Metadata.Name = fmt.Sprintf("doc%d", k)
			d.NodeList = g.NodeList(gen.Shape{MaxNodes: 3, MaxEdges: 3, WellFormed: true, Richness: 0.3})
			if k > 0 && g.Chance(0.5) {
				// another version of an earlier document: same identifier, same encoded length, other content
				prev := docs[g.Int(len(docs))]
				if prev.hasMD && prev.id != "" {
					var pd sbom.Document
					if proto.Unmarshal(prev.bytes, &pd) == nil {
						d = &pd
						id = prev.id
						d.Metadata.Name = fmt.Sprintf("doc%d", k)
						if len(d.NodeList.Nodes) > 0 && g.Chance(0.5) {
							d.NodeList.Nodes[0].Version = gen.Pick(g, []string{"1.0.0", "1.0.1", "2.0.0"})
						}
					}
				}
			}
			if g.Chance(0.3) {
				// fields a newer schema would define (kept by the protobuf runtime as unknown fields): part of the document
				unk := protowire.AppendVarint(protowire.AppendTag(nil, protowire.Number(1000+g.Int(50)), protowire.VarintType), uint64(1+g.Int(1000)))
				unk = protowire.AppendString(protowire.AppendTag(unk, protowire.Number(1100+g.Int(50)), protowire.BytesType), "from-a-newer-release")
				d.ProtoReflect().SetUnknown(unk)
				if d.NodeList != nil && len(d.NodeList.Nodes) > 0 && g.Chance(0.7) {
					d.NodeList.Nodes[g.Int(len(d.NodeList.Nodes))].ProtoReflect().SetUnknown(unk)
				}
				rep.Count("doc=with-unknown-fields")
			}
			hasMD := true
			if k == nd-1 && g.Chance(0.3) {
				d.Metadata = nil
				hasMD, id = false, ""
			} else if k == nd-1 && g.Chance(0.3) {
				d.Metadata.Id = ""
				id = ""
			}
			b, _ := proto.MarshalOptions{Deterministic: true}.Marshal(d)
			f := filepath.Join(base, fmt.Sprintf("doc%d.pb", k))
			_ = os.WriteFile(f, b, 0o644)
			docs = append(docs, docT{tok: k + 1, id: id, hasMD: hasMD, bytes: b, file: f})
		}
		tokenOf := func(b64 string) int {
			raw, err := base64.StdEncoding.DecodeString(b64)
			if err != nil {
				return -1
			}
			for _, d := range docs {
				if string(raw) == string(d.bytes) {
					return d.tok
				}
			}
			return -1
		}
		// directory
		initState := gen.Pick(g, []int{0, 0, 3, 3, 3, 1, 2})
		if asNobody && g.Chance(0.3) {
			initState = 4
		}
		if h < 2*len(idFamilies) && h%2 == 0 {
			initState = []int{0, 3}[(h/2)%2] // the histories that walk through the identifier families run on a usable store
		}
		// the configured directory is given by its user: any name a file system accepts
		storeName := gen.Pick(g, []string{"store", "store", "sboms [prod]", "[archive]", "back\\slash", "star*", "q?mark", "sp ace", "tr{a,b}"})
		sdir := filepath.Join(base, storeName)
		switch initState {
		case 1:
			_ = os.WriteFile(filepath.Join(base, "blocker"), []byte("x"), 0o644)
			sdir = filepath.Join(base, "blocker", storeName)
		case 2:
			_ = os.WriteFile(sdir, []byte("x"), 0o644)
		case 3:
			_ = os.Mkdir(sdir, 0o755)
			if asNobody {
				_ = os.Chown(sdir, 65534, 65534)
			}
		case 4:
			_ = os.Mkdir(sdir, 0o700) // owned by root: nobody can neither search nor write
		}
		var ops, outs []string
		var desc []any
		litter := map[string]bool{}
		okStores := 0
		// what a retrieve must return: the last document stored successfully under the identifier,
		// as long as the harness has not damaged that entry since
		expect := map[string]int{}
		steps := 3 + g.Int(7)
		// histories over an identifier family end with: store every document, then retrieve every one
		type forced struct{ kind, doc int }
		var script []forced
		if fam != nil {
			for k := range docs {
				script = append(script, forced{0, k})
			}
			for k := range docs {
				script = append(script, forced{1, k})
			}
		}
		for s := 0; s < steps+len(script); s++ {
			var force *forced
			if s >= steps {
				force = &script[s-steps]
			}
			someID := func() string {
				if force != nil {
					return docs[force.doc].id
				}
				if g.Chance(0.75) {
					return gen.Pick(g, docs).id
				}
				return gen.Pick(g, append(hostileIDs, "", "unknown"))
			}
			k := g.Int(10)
			if force != nil {
				k = []int{0, 5}[force.kind]
			}
			switch {
			case k < 4: // store
				nc := g.Chance(0.4)
				if force != nil {
					nc = false
				}
				if force == nil && g.Chance(0.07) {
					co := runChild(asNobody, "storenil", sdir)
					ops = append(ops, fmt.Sprintf("(PStore None %s)", coqfmt.Bool(false)))
					outs = append(outs, outcomePair(co, 0))
					desc = append(desc, map[string]any{"op": "store nil document", "outcome": co.Outcome, "error": co.Error})
					rep.c19Abnormal(co, desc)
					continue
				}
				d := gen.Pick(g, docs)
				if force != nil {
					d = docs[force.doc]
				}
				co := runChild(asNobody, "store", sdir, d.file, fmt.Sprint(nc))
				ops = append(ops, fmt.Sprintf("(PStore (Some %d) %s)", d.tok, coqfmt.Bool(nc)))
				outs = append(outs, outcomePair(co, 0))
				desc = append(desc, map[string]any{"op": "store", "id": d.id, "has_metadata": d.hasMD, "noclobber": nc, "outcome": co.Outcome, "error": co.Error})
				rep.Count("op=store:" + co.Outcome)
				rep.c19Abnormal(co, desc)
				rep.OracleEvals++
				if prev, had := expect[d.id]; had && nc && co.Outcome == "ok" {
					rep.Fail(Failure{What: "with no-clobber set, a store over an existing entry reported success (the entry was replaced)", Detail: fmt.Sprintf("entry held document %d, stored document %d, store directory %q", prev, d.tok, filepath.Base(sdir)), Input: map[string]any{"history": desc}})
				}
				if co.Outcome == "ok" {
					okStores++
					expect[d.id] = d.tok
					if d.id == "" {
						rep.Fail(Failure{What: "storing a document without identifier succeeded", Input: map[string]any{"history": desc}})
					}
					// store-then-retrieve on the implementation
					r := runChild(asNobody, "retrieve", sdir, hex.EncodeToString([]byte(d.id)))
					if r.Outcome != "ok" || tokenOf(r.Doc) != d.tok {
						rep.Fail(Failure{What: "after a successful store, retrieving by the document identifier does not return the stored document", Detail: r.Outcome + " " + r.Error, Input: map[string]any{"history": desc}})
					}
				}
			case k < 8: // retrieve
				id := someID()
				co := runChild(asNobody, "retrieve", sdir, hex.EncodeToString([]byte(id)))
				tk := 0
				if co.Outcome == "ok" {
					tk = tokenOf(co.Doc)
				}
				ops = append(ops, "(PRetrieve "+coqfmt.Str(id)+")")
				outs = append(outs, outcomePair(co, tk))
				desc = append(desc, map[string]any{"op": "retrieve", "id": id, "outcome": co.Outcome, "error": co.Error, "document_token": tk})
				rep.Count("op=retrieve:" + co.Outcome)
				rep.c19Abnormal(co, desc)
				rep.OracleEvals++
				if want, known := expect[id]; known && (co.Outcome != "ok" || tk != want) {
					rep.Fail(Failure{What: "a stored document is no longer returned although nothing touched its entry: documents with different identifiers affected each other, or the entry was lost", Detail: fmt.Sprintf("identifier of %d bytes: outcome %s %s, document token %d, expected %d", len(id), co.Outcome, co.Error, tk, want), Input: map[string]any{"history": desc}})
				}
				if co.Outcome == "ok" {
					ok := false
					for _, d := range docs {
						if d.tok == tk && d.id == id && id != "" {
							ok = true
						}
					}
					if !ok {
						rep.Fail(Failure{What: "retrieve returned a document that is not the one stored under that identifier (empty, foreign or damaged document returned silently)", Input: map[string]any{"history": desc}})
					}
				}
			default: // fault injection by the harness (as root)
				st, err := os.Stat(sdir)
				id := someID()
				if id == "" || err != nil || !st.IsDir() {
					continue
				}
				if force == nil && g.Chance(0.15) {
					// the whole directory goes away (cleaned up, volume remounted): the next store has to create it again
					_ = os.RemoveAll(sdir)
					for k := range expect {
						delete(expect, k)
					}
					ops = append(ops, "PWipe")
					outs = append(outs, "(0, 0)")
					desc = append(desc, map[string]any{"op": "fault: store directory removed"})
					rep.Count("op=fault:directory-removed")
					continue
				}
				if force == nil && g.Chance(0.2) {
					// files that are not entries appear next to an entry (what interrupted writers, editors and backup
					// tools leave behind): long, so that anything written over them without truncation shows
					junk := bytes.Repeat([]byte("leftover "), 600)
					for _, suffix := range []string{".tmp", ".tmp-1", "~", ".bak"} {
						name := entryName(id) + suffix
						_ = os.WriteFile(filepath.Join(sdir, name), junk, 0o644)
						litter[name] = true
					}
					ops = append(ops, "PLitter")
					outs = append(outs, "(0, 0)")
					desc = append(desc, map[string]any{"op": "fault: foreign files next to the entry", "id": id})
					rep.Count("op=fault:litter")
					continue
				}
				p := filepath.Join(sdir, entryName(id))
				delete(expect, id)
				switch f := g.Int(5); f {
				case 0:
					_ = os.WriteFile(p, []byte("\xff\xff\xffgarbage"), 0o644)
					ops = append(ops, fmt.Sprintf("(PFault %s \"garbage\" true)", coqfmt.Str(id)))
					desc = append(desc, map[string]any{"op": "fault: entry overwritten with garbage", "id": id})
				case 1:
					_ = os.WriteFile(p, []byte{}, 0o644)
					ops = append(ops, fmt.Sprintf("(PFault %s \"\" true)", coqfmt.Str(id)))
					desc = append(desc, map[string]any{"op": "fault: entry truncated to empty", "id": id})
				case 2:
					o := gen.Pick(g, docs)
					_ = os.WriteFile(p, o.bytes, 0o644)
					ops = append(ops, fmt.Sprintf("(PFault %s %s true)", coqfmt.Str(id), coqfmt.Str(fmt.Sprint(o.tok))))
					desc = append(desc, map[string]any{"op": "fault: entry replaced by another document's bytes", "id": id, "bytes_of": o.id})
				case 3:
					if !asNobody {
						continue
					}
					if _, err := os.Stat(p); err != nil {
						continue
					}
					cur, _ := os.ReadFile(p)
					tokc := "garbage"
					for _, d := range docs {
						if string(cur) == string(d.bytes) {
							tokc = fmt.Sprint(d.tok)
						}
					}
					if len(cur) == 0 {
						tokc = ""
					}
					_ = os.Chown(p, 0, 0)
					_ = os.Chmod(p, 0o000)
					ops = append(ops, fmt.Sprintf("(PFault %s %s false)", coqfmt.Str(id), coqfmt.Str(tokc)))
					desc = append(desc, map[string]any{"op": "fault: entry made unreadable", "id": id})
				default:
					_ = os.Remove(p)
					ops = append(ops, "(PRemove "+coqfmt.Str(id)+")")
					desc = append(desc, map[string]any{"op": "fault: entry removed", "id": id})
				}
				outs = append(outs, "(0, 0)")
				rep.Count("op=fault")
			}
		}
		// confinement: everything the store created lies inside the configured directory, under hashed names
		rep.OracleEvals++
		_ = filepath.Walk(base, func(p string, info os.FileInfo, err error) error {
			if err != nil || p == base {
				return nil
			}
			rel, _ := filepath.Rel(base, p)
			switch {
			case strings.HasPrefix(rel, "doc") && strings.HasSuffix(rel, ".pb"), rel == "blocker", rel == storeName:
				return nil
			case filepath.Dir(p) == sdir && entryRe.MatchString(filepath.Base(p)):
				return nil
			case filepath.Dir(p) == sdir && litter[filepath.Base(p)]:
				return nil // put there by the harness
			}
			rep.Fail(Failure{What: "the store created a file outside the configured directory or under a name that is not the hashed entry name", Detail: rel, Input: map[string]any{"history": desc}})
			return nil
		})
		var idtab []string
		idtab = append(idtab, "(0, None)")
		for _, d := range docs {
			if d.hasMD {
				idtab = append(idtab, fmt.Sprintf("(%d, Some %s)", d.tok, coqfmt.Str(d.id)))
			} else {
				idtab = append(idtab, fmt.Sprintf("(%d, None)", d.tok))
			}
		}
		c := fmt.Sprintf("(mk_case19 [%s] %d [%s] [%s])", strings.Join(idtab, "; "), initState, strings.Join(ops, "; "), strings.Join(outs, "; "))
		cf.Add(c)
		rep.NoteCase(c, okStores >= 2, map[string]any{"initial_directory": initState, "as_nobody": asNobody, "history": desc})
		rep.Count(fmt.Sprintf("init=%d", initState))
		rep.Count(fmt.Sprintf("as_nobody=%v", asNobody))
		_ = os.Chmod(sdir, 0o755)
		_ = os.RemoveAll(base)
	}
	for j := 0; j < n/2+1; j++ {
		rep.sameProcessHistory(g, cf)
	}
	rep.unsetDirectoryHistory()
	rep.CasesFiles = cf.Write(filepath.Join(dir, "cases_C19"))
	rep.ShardSize = shardSize
	return rep
}

// unsetDirectoryHistory: a backend whose data directory was never configured (the state of
// storage.NewFileSystem(), reader.New() and writer.New()). Nothing can be stored and nothing retrieved; above
// all nothing may be written anywhere, the process's working directory included. One process, no draws.
func (rep *Report) unsetDirectoryHistory() {
	base, err := os.MkdirTemp("", "c19unset")
	if err != nil {
		return
	}
	defer os.RemoveAll(base)
	cwd := filepath.Join(base, "cwd")
	_ = os.Mkdir(cwd, 0o755)
	d := sbom.NewDocument()
	d.Metadata.Id = "urn:unset-directory"
	d.Metadata.Name = "doc"
	d.NodeList.AddRootNode(&sbom.Node{Id: "n", Name: "n"})
	b, _ := proto.MarshalOptions{Deterministic: true}.Marshal(d)
	df := filepath.Join(base, "doc.pb")
	_ = os.WriteFile(df, b, 0o644)
	idHex := hex.EncodeToString([]byte(d.Metadata.Id))
	script := [][]string{{"store", df, "false"}, {"retrieve", idHex}, {"store", df, "nil"}, {"store", df, "true"}, {"retrieve", idHex}}
	var sb strings.Builder
	for _, c := range script {
		j, _ := json.Marshal(c)
		sb.Write(j)
		sb.WriteByte('\n')
	}
	sf := filepath.Join(base, "script.jsonl")
	_ = os.WriteFile(sf, []byte(sb.String()), 0o644)
	cmd := exec.Command(storechildPath(), "script", "", sf)
	cmd.Dir = cwd
	outb, _ := cmd.Output()
	lines := strings.Split(strings.TrimSpace(string(outb)), "\n")
	rep.OracleEvals++
	var desc []any
	for i, c := range script {
		co := childOut{Outcome: "exit"}
		if i < len(lines) {
			_ = json.Unmarshal([]byte(lines[i]), &co)
		}
		desc = append(desc, map[string]any{"op": c, "outcome": co.Outcome, "error": co.Error})
		rep.Count("unset_directory_op=" + c[0] + ":" + co.Outcome)
	}
	in := map[string]any{"kind": "backend without a configured data directory, one process", "history": desc}
	for i := range script {
		if o := desc[i].(map[string]any)["outcome"]; o != "err" {
			rep.Fail(Failure{What: "an operation on a backend without a configured data directory did not return an error", Detail: fmt.Sprintf("operation %d (%s): %v", i, script[i][0], o), Input: in})
			break
		}
	}
	if ents, _ := os.ReadDir(cwd); len(ents) > 0 {
		var names []string
		for _, e := range ents {
			names = append(names, e.Name())
		}
		rep.Fail(Failure{What: "a backend without a configured data directory wrote into the process's working directory", Detail: strings.Join(names, ", "), Input: in})
	}
}

func outcomePair(co childOut, tok int) string {
	switch co.Outcome {
	case "ok":
		return fmt.Sprintf("(0, %d)", tok)
	case "err":
		return "(1, 0)"
	case "panic":
		return "(2, 0)"
	default:
		return "(3, 0)"
	}
}

func (r *Report) c19Abnormal(co childOut, desc []any) {
	switch co.Outcome {
	case "panic":
		r.Fail(Failure{What: "a store operation panicked", Detail: co.Error, Input: map[string]any{"history": desc}})
	case "exit":
		r.Fail(Failure{What: "a store operation terminated the process instead of returning an error", Detail: fmt.Sprintf("exit status %d: %s", co.Exit, co.Error), Input: map[string]any{"history": desc}})
	}
}

func decodeB64(s string) ([]byte, error) { return base64.StdEncoding.DecodeString(s) }

// sameProcessHistory: a whole history of stores, retrieves, entry removals and removals of the directory
// itself executed by ONE process (whatever the library remembers between calls is part of the history),
// compared with the model and with what was last stored under each identifier.
func (rep *Report) sameProcessHistory(g *gen.G, cf *CasesFile) {
	base, err := os.MkdirTemp("", "verif-c19p-")
	if err != nil {
		die("%v", err)
	}
	defer os.RemoveAll(base)
	type docT struct {
		tok   int
		id    string
		bytes []byte
		file  string
	}
	ids := []string{"x", "y", "sp ace"}
	var docs []docT
	for k := 0; k < 4; k++ {
		d := sbom.NewDocument()
		d.Metadata.Id = ids[k%3] // the fourth document is another version of the first
		d.Metadata.Name = fmt.Sprintf("doc%d", k)
		d.NodeList = g.NodeList(gen.Shape{MaxNodes: 3, MaxEdges: 3, WellFormed: true, Richness: 0.3})
		b, _ := proto.MarshalOptions{Deterministic: true}.Marshal(d)
		f := filepath.Join(base, fmt.Sprintf("doc%d.pb", k))
		_ = os.WriteFile(f, b, 0o644)
		docs = append(docs, docT{k + 1, d.Metadata.Id, b, f})
	}
	initState := gen.Pick(g, []int{0, 3})
	sdir := filepath.Join(base, gen.Pick(g, []string{"store", "sboms [prod]", "[archive]", "star*"}))
	if initState == 3 {
		_ = os.Mkdir(sdir, 0o755)
	}
	var script [][]string
	var ops []string
	for s := 4 + g.Int(8); s > 0; s-- {
		switch k := g.Int(10); {
		case k < 4:
			d := gen.Pick(g, docs)
			nc := g.Chance(0.3)
			ncArg := fmt.Sprint(nc)
			if !nc && g.Chance(0.3) {
				ncArg = "nil" // Store(doc, nil)
			}
			script = append(script, []string{"store", d.file, ncArg})
			ops = append(ops, fmt.Sprintf("(PStore (Some %d) %s)", d.tok, coqfmt.Bool(nc)))
		case k < 7:
			id := gen.Pick(g, append(ids, "unknown"))
			script = append(script, []string{"retrieve", hex.EncodeToString([]byte(id))})
			ops = append(ops, "(PRetrieve "+coqfmt.Str(id)+")")
		case k < 8:
			script = append(script, []string{"wipe"})
			ops = append(ops, "PWipe")
		case k < 9:
			script = append(script, []string{"litter", entryName(gen.Pick(g, ids))})
			ops = append(ops, "PLitter")
		default:
			id := gen.Pick(g, ids)
			script = append(script, []string{"remove", entryName(id)})
			ops = append(ops, "(PRemove "+coqfmt.Str(id)+")")
		}
	}
	var sb strings.Builder
	for _, c := range script {
		b, _ := json.Marshal(c)
		sb.Write(b)
		sb.WriteByte('\n')
	}
	sf := filepath.Join(base, "script.jsonl")
	_ = os.WriteFile(sf, []byte(sb.String()), 0o644)
	outb, _ := exec.Command(storechildPath(), "script", sdir, sf).Output()
	lines := strings.Split(strings.TrimSpace(string(outb)), "\n")
	rep.OracleEvals++
	desc := []any{}
	if len(lines) != len(script) {
		rep.Fail(Failure{What: "a history of store operations run in one process ended early (process exit or crash)", Detail: fmt.Sprintf("%d of %d operations reported", len(lines), len(script)), Input: map[string]any{"script": script}})
		return
	}
	expect := map[string]int{}
	var outs []string
	for i, c := range script {
		co := childOut{}
		_ = json.Unmarshal([]byte(lines[i]), &co)
		tk := 0
		if c[0] == "retrieve" && co.Outcome == "ok" {
			raw, _ := base64.StdEncoding.DecodeString(co.Doc)
			tk = -1
			for _, d := range docs {
				if string(raw) == string(d.bytes) {
					tk = d.tok
				}
			}
		}
		if c[0] == "wipe" || c[0] == "remove" || c[0] == "litter" {
			outs = append(outs, "(0, 0)")
		} else {
			outs = append(outs, outcomePair(co, tk))
		}
		desc = append(desc, map[string]any{"op": c, "outcome": co.Outcome, "error": co.Error, "document_token": tk})
		rep.c19Abnormal(co, desc)
		switch c[0] {
		case "store":
			if co.Outcome == "ok" {
				for _, d := range docs {
					if d.file == c[1] {
						if prev, had := expect[d.id]; had && c[2] == "true" {
							rep.Fail(Failure{What: "with no-clobber set, a store over an existing entry reported success (the entry was replaced)", Detail: fmt.Sprintf("entry held document %d, stored document %d, store directory %q", prev, d.tok, filepath.Base(sdir)), Input: map[string]any{"history": desc}})
						}
						expect[d.id] = d.tok
					}
				}
			}
		case "wipe":
			expect = map[string]int{}
		case "remove":
			for _, id := range ids {
				if entryName(id) == c[1] {
					delete(expect, id)
				}
			}
		case "retrieve":
			idb, _ := hex.DecodeString(c[1])
			if want, known := expect[string(idb)]; known && (co.Outcome != "ok" || tk != want) {
				rep.Fail(Failure{What: "in a history run by one process, a stored document is no longer returned although nothing touched its entry", Detail: fmt.Sprintf("outcome %s %s, document token %d, expected %d", co.Outcome, co.Error, tk, want), Input: map[string]any{"history": desc}})
			}
		}
		rep.Count("same_process_op=" + c[0] + ":" + co.Outcome)
	}
	// a store into a usable (or creatable) directory of a document with an identifier succeeds unless no-clobber refuses it
	for i, c := range script {
		if c[0] == "store" && c[2] != "true" && !strings.HasPrefix(outs[i], "(0") {
			rep.Fail(Failure{What: "in a history run by one process, a store into a directory that is missing or usable failed", Detail: fmt.Sprint(desc[i]), Input: map[string]any{"history": desc}})
			break
		}
	}
	var idtab []string
	idtab = append(idtab, "(0, None)")
	for _, d := range docs {
		idtab = append(idtab, fmt.Sprintf("(%d, Some %s)", d.tok, coqfmt.Str(d.id)))
	}
	c := fmt.Sprintf("(mk_case19 [%s] %d [%s] [%s])", strings.Join(idtab, "; "), initState, strings.Join(ops, "; "), strings.Join(outs, "; "))
	cf.Add(c)
	rep.NoteCase(c, true, map[string]any{"kind": "history run by one process", "initial_directory": initState, "history": desc})
}
