package main

import (
	"bufio"
	"bytes"
	"encoding/json"
	"fmt"
	"io"
	"os"
	"path/filepath"
	"strings"

	"github.com/protobom/protobom/pkg/formats"
	"github.com/protobom/protobom/pkg/sbom"
	"github.com/protobom/protobom/pkg/writer"

	"verifharness/coqfmt"
	"verifharness/gen"
)

func init() { runners["C06"] = runC06 }

var detectFormats = []formats.Format{formats.SPDX23JSON, formats.CDX13JSON, formats.CDX14JSON, formats.CDX15JSON}

// the same decoding step the sniffer performs, reproduced with encoding/json
func decodeDecl(data []byte) (ok bool, bom, spec, spdx string) {
	var v struct {
		BomFormat       string `json:"bomFormat"`
		CDXSpecVersion  string `json:"specVersion"`
		SPDXSpecVersion string `json:"spdxVersion"`
	}
	if err := json.NewDecoder(bytes.NewReader(data)).Decode(&v); err != nil {
		return false, "", "", ""
	}
	return true, v.BomFormat, v.CDXSpecVersion, v.SPDXSpecVersion
}

func splitLines(data []byte) []string {
	var out []string
	sc := bufio.NewScanner(bytes.NewReader(data))
	for sc.Scan() {
		out = append(out, sc.Text())
	}
	return out
}

// escapeNonASCII re-encodes a JSON text with every non-ASCII rune as a \uXXXX escape
func escapeNonASCII(data []byte) []byte {
	var b bytes.Buffer
	for _, r := range string(data) {
		if r < 0x80 {
			b.WriteRune(r)
		} else if r > 0xffff {
			r -= 0x10000
			fmt.Fprintf(&b, "\\u%04x\\u%04x", 0xd800+(r>>10), 0xdc00+(r&0x3ff))
		} else {
			fmt.Fprintf(&b, "\\u%04x", r)
		}
	}
	return b.Bytes()
}

func randomDocument(g *gen.G) *sbom.Document {
	d := sbom.NewDocument()
	d.Metadata.Id = gen.Pick(g, []string{"urn:uuid:1", "doc-é", "x"})
	d.Metadata.Name = g.Text()
	nl := g.NodeList(gen.Shape{MaxNodes: 4, MaxEdges: 4, WellFormed: true, Richness: 0.3})
	if len(nl.RootElements) == 0 && len(nl.Nodes) > 0 {
		nl.RootElements = []string{nl.Nodes[0].Id}
	}
	d.NodeList = nl
	return d
}

func runC06(seed int64, n int, dir string, tier string) *Report {
	g := gen.New(seed)
	rep := NewReport("C06", seed)
	rep.Rule = "n random documents written by the real writer in SPDX 2.3 and CycloneDX 1.3/1.4/1.5 JSON at a random indentation 0..8, each also re-encoded (compact, members sorted, non-ASCII escaped); plus near-miss declarations (case variants, unknown versions, wrong types, nulls, duplicate and nested members, arrays, trailing data), tag-value texts with the tag and the version on the same or on different lines, and arbitrary bytes; non-trivial = writer output or an input for which a format is reported; distinct by hash"
	cf := &CasesFile{Imports: "Model.Base Model.Sniff Corr.CheckC06", Type: "case06", Eval: "mismatches"}
	sn := &formats.Sniffer{}
	probes := 0
	// a directory is not an SBOM
	if f, err := sn.SniffFile(dir); err == nil {
		rep.Fail(Failure{What: "format detection on a directory reported a format", Detail: string(f), Input: map[string]any{"path": "(a directory)"}})
	}
	if f, err := sn.SniffFile(filepath.Join(dir, "no-such-file")); err == nil {
		rep.Fail(Failure{What: "format detection on a missing file reported a format", Detail: string(f), Input: map[string]any{"path": "(missing)"}})
	}
	probe := func(kind string, data []byte, want formats.Format, wantKnown bool) {
		rs := bytes.NewReader(data)
		var got formats.Format
		var err error
		var pv any
		func() {
			defer func() { pv = recover() }()
			got, err = sn.SniffReader(rs)
		}()
		off, _ := rs.Seek(0, io.SeekCurrent)
		ok, bom, spec, spdx := decodeDecl(data)
		declCoq := "None"
		var lines []string
		if ok {
			declCoq = fmt.Sprintf("(Some (%s, %s, %s))", coqfmt.Str(bom), coqfmt.Str(spec), coqfmt.Str(spdx))
		} else {
			lines = splitLines(data)
		}
		res := string(got)
		if err != nil {
			res = ""
		}
		in := map[string]any{"kind": kind, "bytes": len(data), "reported": res, "offset_after": off}
		if len(data) <= 300 {
			in["input"] = string(data)
		}
		if len(lines) > 200 {
			return // keep case files small; only tiny non-JSON inputs are generated anyway
		}
		c := fmt.Sprintf("(mk_case06 %s %s %s %d)", declCoq, coqfmt.Strs(lines), coqfmt.Str(res), off)
		cf.Add(c)
		rep.NoteCase(c, res != "", in)
		rep.Count("input=" + kind)
		rep.OracleEvals++
		if pv != nil {
			rep.Fail(Failure{What: "format detection panicked", Detail: fmt.Sprint(pv), Input: in})
			return
		}
		if off != 0 {
			rep.Fail(Failure{What: "format detection left the stream away from its start", Detail: fmt.Sprint(off), Input: in})
		}
		if (err == nil) == (got == "") {
			rep.Fail(Failure{What: "format detection returned both or neither of a format and an error", Input: in})
		}
		// the file entry point: same answer as the stream entry point on the same bytes
		probes++
		if probes%3 == 0 {
			path := filepath.Join(dir, "sniff-input.tmp")
			if werr := os.WriteFile(path, data, 0o600); werr == nil {
				var fgot formats.Format
				var ferr error
				fpv := safely(func() { fgot, ferr = sn.SniffFile(path) })
				os.Remove(path)
				rep.Count("input_via_file")
				if fpv != nil {
					rep.Fail(Failure{What: "format detection on a file panicked", Detail: fmt.Sprint(fpv), Input: in})
				} else if (ferr == nil) != (err == nil) || fgot != got {
					rep.Fail(Failure{What: "format detection on a file disagrees with detection on a stream of the same bytes", Detail: fmt.Sprintf("file: %q (%v), stream: %q (%v)", fgot, ferr, got, err), Input: in})
				}
			}
		}
		if wantKnown {
			if want == "" && err == nil {
				rep.Fail(Failure{What: "format detection reported a format the input's declaration does not state", Detail: res, Input: in})
			}
			if want != "" && got != want {
				rep.Fail(Failure{What: "format detection did not report the format that was written", Detail: fmt.Sprintf("want %s got %q (%v)", want, got, err), Input: in})
			}
		}
	}
	for i := 0; i < n; i++ {
		doc := randomDocument(g)
		for _, f := range detectFormats {
			indent := g.Int(9)
			var buf bytes.Buffer
			w := writer.New(writer.WithFormat(f))
			w.Options.RenderOptions.Indent = indent
			if err := w.WriteStream(doc, nopCloser{&buf}); err != nil {
				rep.Count("writer_error")
				continue
			}
			out := buf.Bytes()
			probe("writer-output", out, f, true)
			// other layouts of the same JSON value: whitespace everywhere JSON allows it (before the
			// first brace and after the last included), members in another order, escaped spellings
			if alt, ok := g.Relayout(out, false, nil); ok {
				probe("relayout-whitespace-order", alt, f, true)
			}
			if alt, ok := g.Relayout(out, true, nil); ok {
				probe("relayout-escapes", alt, f, true)
			}
			for _, lead := range []string{" ", "\n", "\t", "\r\n  "} {
				if i%4 == 0 {
					probe("leading-whitespace", append([]byte(lead), out...), f, true)
				}
			}
			if i%3 == 0 {
				var anyv any
				if json.Unmarshal(out, &anyv) == nil {
					compact, _ := json.Marshal(anyv) // members sorted, no whitespace
					probe("reencoded-compact-sorted", compact, f, true)
					probe("reencoded-escaped", escapeNonASCII(out), f, true)
					pretty, _ := json.MarshalIndent(anyv, "\t", "   ")
					probe("reencoded-odd-indent", pretty, f, true)
				}
			}
		}
	}
	// size: detection must not depend on how large the writer's output is (documents of tens of thousands of
	// components are ordinary); a few sizes around powers of two, the largest in the thorough tier only
	sizes := []int{600, 5000, 12000}
	if tier == "thorough" {
		sizes = append(sizes, 40000, 100000)
	}
	for _, nn := range sizes {
		big := sbom.NewDocument()
		big.Metadata.Id = "urn:uuid:big"
		big.NodeList.RootElements = []string{"n0"}
		for k := 0; k < nn; k++ {
			big.NodeList.Nodes = append(big.NodeList.Nodes, &sbom.Node{Id: fmt.Sprintf("n%d", k), Name: fmt.Sprintf("component-%d", k), Version: "1.0.0",
				Description: strings.Repeat("a description of ordinary length for a package; ", 8), Licenses: []string{"Apache-2.0"},
				Identifiers: map[int32]string{int32(sbom.SoftwareIdentifierType_PURL): fmt.Sprintf("pkg:npm/component-%d@1.0.0", k)}})
			if k > 0 {
				big.NodeList.Edges = append(big.NodeList.Edges, &sbom.Edge{Type: sbom.Edge_contains, From: "n0", To: []string{fmt.Sprintf("n%d", k)}})
			}
		}
		for _, f := range detectFormats {
			var buf bytes.Buffer
			w := writer.New(writer.WithFormat(f))
			w.Options.RenderOptions.Indent = []int{0, 2, 4}[nn%3]
			if err := w.WriteStream(big, nopCloser{&buf}); err != nil {
				rep.Count("writer_error")
				continue
			}
			rep.Count(fmt.Sprintf("large-writer-output>=%dMiB", buf.Len()>>20))
			probe("large-writer-output", buf.Bytes(), f, true)
		}
	}
	nearMiss := []struct {
		s    string
		want formats.Format
	}{
		{`{"bomFormat":"CycloneDX","specVersion":"1.5"}`, formats.CDX15JSON},
		{`{"bomFormat":"cYcLoNeDx","specVersion":"1.4"}`, formats.CDX14JSON},
		{`{"BOMFORMAT":"CycloneDX","SPECVERSION":"1.3"}`, formats.CDX13JSON},
		{`{"bomFormat":"CycloneDX","specVersion":"1.2"}`, ""},
		{`{"bomFormat":"CycloneDX","specVersion":"1.6"}`, ""},
		{`{"bomFormat":"CycloneDX","specVersion":"1.50"}`, ""},
		{`{"bomFormat":"CycloneDX","specVersion":1.5}`, ""},
		{`{"bomFormat":"CycloneDX"}`, ""},
		{`{"bomFormat":"CycloneDX ","specVersion":"1.5"}`, ""},
		{`{"bomFormat":"CycloneDX","specVersion":"1.5","spdxVersion":"SPDX-2.3"}`, formats.CDX15JSON},
		{`{"bomFormat":"Cyclone","specVersion":"1.5","spdxVersion":"SPDX-2.3"}`, formats.SPDX23JSON},
		{`{"spdxVersion":"SPDX-2.3"}`, formats.SPDX23JSON},
		{`{"spdxVersion":"SPDX-2.2"}`, formats.SPDX22JSON},
		{`{"spdxVersion":"SPDX-2.1"}`, ""},
		{`{"spdxVersion":"spdx-2.3"}`, ""},
		{`{"spdxVersion":"SPDX-2.3","spdxVersion":"SPDX-9"}`, ""},
		{`{"spdxVersion":null}`, ""},
		{`{"meta":{"spdxVersion":"SPDX-2.3"}}`, ""},
		{`[{"spdxVersion":"SPDX-2.3"}]`, ""},
		{`{"spdxVersion":"SPDX-2.3"} trailing garbage`, formats.SPDX23JSON},
		{`{}`, ""}, {`null`, ""}, {`"SPDX-2.3"`, ""}, {``, ""}, {`{`, ""},
		{"SPDXVersion: SPDX-2.3\nDataLicense: CC0-1.0\n", formats.SPDX23TV},
		{"# c\n\nSPDXVersion: SPDX-2.2\n", formats.SPDX22TV},
		{"SPDXVersion: nonsense\n\"SPDX-2.3\"\n", ""},
		{"SPDXVersion:\nSPDX-2.3\n", ""},
		{"spdxversion: SPDX-2.3\n", ""},
		{"SPDX-2.3\n", ""},
		{"\x00\x01\x02binary\xff\xfe", ""},
		{strings.Repeat("a", 70000) + "\nSPDXVersion: SPDX-2.3\n", ""},
	}
	for _, nm := range nearMiss {
		probe("near-miss", []byte(nm.s), nm.want, true)
	}
	// one sniffer value used for two inputs in a row: what it reports for the second must be what a fresh
	// sniffer reports (a declaration that fails to decode half way must leave nothing behind)
	{
		first := []string{`{"bomFormat":"CycloneDX","specVersion":1.5}`, `{"bomFormat":"CycloneDX","specVersion":"1.4","spdxVersion":23}`, `{"bomFormat":7,"spdxVersion":"SPDX-2.2"}`,
			`{"spdxVersion":"SPDX-2.3","specVersion":[1]}`, `{"bomFormat":"CycloneDX","specVersion":"1.5"`, "SPDXVersion: SPDX-2.2\n", `{"bomFormat":"CycloneDX","specVersion":"1.3"}`}
		second := []string{`{"spdxVersion":"SPDX-2.3"}`, `{"name":"no declaration"}`, `{"bomFormat":"CycloneDX","specVersion":"1.5"}`, `{"specVersion":"1.4"}`, `{}`, "SPDXVersion: SPDX-2.3\n", `{"bomFormat":"CycloneDX"}`}
		for _, a := range first {
			for _, b := range second {
				shared := &formats.Sniffer{}
				_, _ = shared.SniffReader(bytes.NewReader([]byte(a)))
				got, err := shared.SniffReader(bytes.NewReader([]byte(b)))
				want, werr := (&formats.Sniffer{}).SniffReader(bytes.NewReader([]byte(b)))
				rep.OracleEvals++
				rep.Count("history-of-two")
				if got != want || (err == nil) != (werr == nil) {
					rep.Fail(Failure{What: "format detection depends on what the same sniffer was given before", Detail: fmt.Sprintf("after %s: %q (%v); on a fresh sniffer: %q (%v)", a, got, err, want, werr), Input: map[string]any{"first": a, "second": b}})
				}
			}
		}
	}
	// every truncation of tag-value headers, with and without a line end after the cut
	for _, text := range []string{"SPDXVersion: SPDX-2.3\nDataLicense: CC0-1.0\n", "# c\r\nSPDXVersion: SPDX-2.2\r\nDataLicense: CC0-1.0\r\n", "SPDXVersion:SPDX-2.3"} {
		for k := 0; k <= len(text); k++ {
			for _, tail := range []string{"", "\n", "\r\n"} {
				probe("tag-value-prefix", []byte(text[:k]+tail), "", false)
			}
		}
	}
	// every combination of the three members over both families' version strings: a format is
	// reported only when the declaration states it (a CycloneDX document with a known specVersion;
	// otherwise a document with a known spdxVersion), never through the other family's spelling
	gridN := 0
	boms := []string{"-", "CycloneDX", "cyclonedx", "CYCLONEDX", "Cyclone", ""}
	vers := []string{"-", "1.3", "1.4", "1.5", "1.2", "1.6", "SPDX-2.2", "SPDX-2.3", "SPDX-2.1", "2.3", ""}
	cdxWant := map[string]formats.Format{"1.3": formats.CDX13JSON, "1.4": formats.CDX14JSON, "1.5": formats.CDX15JSON}
	spdxWant := map[string]formats.Format{"SPDX-2.2": formats.SPDX22JSON, "SPDX-2.3": formats.SPDX23JSON}
	for _, b := range boms {
		for _, sv := range vers {
			for _, xv := range vers {
				var members []string
				if b != "-" {
					members = append(members, fmt.Sprintf("%q:%q", "bomFormat", b))
				}
				if sv != "-" {
					members = append(members, fmt.Sprintf("%q:%q", "specVersion", sv))
				}
				if xv != "-" {
					members = append(members, fmt.Sprintf("%q:%q", "spdxVersion", xv))
				}
				g.R.Shuffle(len(members), func(i, j int) { members[i], members[j] = members[j], members[i] })
				want := formats.Format("")
				if strings.EqualFold(b, "CycloneDX") && b != "-" {
					want = cdxWant[sv]
				} else {
					want = spdxWant[xv]
				}
				probe("declaration-grid", []byte("{"+strings.Join(members, ",")+"}"), want, true)
				gridN++
				if gridN%3 == 0 {
					// the same declaration in a document whose text happens to quote a tag-value header inside a
					// string value, on the declaration's own line and on a line of its own
					quote := fmt.Sprintf("%q:%q", "comment", "converted from a tag-value file (SPDXVersion: "+gen.Pick(g, []string{"SPDX-2.3", "SPDX-2.2"})+")")
					withQuote := append(append([]string{}, members...), quote)
					probe("declaration-grid-quoting-tag", []byte("{"+strings.Join(withQuote, ",")+"}"), want, true)
					probe("declaration-grid-quoting-tag", []byte("{\n"+strings.Join(withQuote, ",\n")+"\n}"), want, true)
				}
			}
		}
	}
	for i := 0; i < n; i++ {
		// random small texts built from fragments
		frags := []string{"SPDXVersion:", " SPDX-2.3", " SPDX-2.2", "\n", "\"SPDX-2.3\"", "{", "}", "\"spdxVersion\":", "\"bomFormat\":\"CycloneDX\"", ",", "\"specVersion\":\"1.4\"", " ", "x", "'SPDX-2.2'"}
		var b strings.Builder
		for k := 1 + g.Int(7); k > 0; k-- {
			b.WriteString(gen.Pick(g, frags))
		}
		probe("random-fragments", []byte(b.String()), "", false)
	}
	rep.CasesFiles = cf.Write(filepath.Join(dir, "cases_C06"))
	rep.ShardSize = shardSize
	return rep
}
