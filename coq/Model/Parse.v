(* The reading pipeline as the code composes it (pkg/reader/reader.go ParseStreamWithOptions):
   detect the format, hand the bytes to the format's decoder, convert what it returns.  The
   third-party decoder is a parameter: for the detected format it yields a native structure or fails. *)
From Verif Require Import Model.Base Model.Node Model.Graph Model.Match Model.Sniff Model.Spdx Model.Cdx.
Open Scope list_scope.

Inductive decoded := DecSpdx (s : sdoc) | DecCdx (b : cbom) | DecFail.

Definition parse (parse_time : string -> option ts) (decode : string -> decoded)
  (d : option decl) (lines : list string) : result nodelist :=
  match sniff d lines with
  | Ok f => match decode f with
            | DecSpdx s => Ok (spdx_unser_nl parse_time s)
            | DecCdx b => Ok (cdx_unser_nl b)
            | DecFail => Err
            end
  | Err => Err
  | Panic => Panic
  | Fatal => Fatal
  end.
