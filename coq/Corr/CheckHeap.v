(* Evaluator for observed object graphs (C11, C12):
   HUnchanged  the operands' graph before and after a call: same values, same shape, same sharing
   HSeparate   no location reachable from a result is reachable from an operand
   HCopy       a Copy method against the model's deep copy: the graph of (source, copy) observed
               after the call is the graph of (source, model copy), location names aside *)
From Verif Require Import Model.Base Model.Heap Corr.Canon.
Open Scope list_scope.

Inductive case_heap :=
  | HUnchanged (before : heap) (ops : list hval) (after : heap) (ops' : list hval)
  | HSeparate (h : heap) (ops : list hval) (results : list hval)
  | HCopy (before : heap) (op : hval) (after : heap) (op' : hval) (res : hval).

Definition case_ok (c : case_heap) : bool :=
  match c with
  | HUnchanged h ops h' ops' => same_graph h ops h' ops'
  | HSeparate h ops results => separated h results ops
  | HCopy h op h' op' res =>
      let '(res_m, hm) := copy_value h op in
      (same_graph hm [op; res_m] h' [op'; res] && separated h' [res] [op'])%bool
  end.

Definition mismatches (cs : list case_heap) : list nat := failing case_ok cs.
