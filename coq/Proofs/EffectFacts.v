From Coq Require Import Lia.
From Verif Require Import Model.Base Gen.Locks Model.Effects.
Open Scope list_scope.

Lemma froot_eqb_eq a b : froot_eqb a b = true <-> a = b.
Proof.
  destruct a as [f r], b as [g q]; unfold froot_eqb; cbn [fst snd].
  rewrite Bool.andb_true_iff, String.eqb_eq, Z.eqb_eq. split.
  - intros [-> ->]; reflexivity.
  - intros H; inversion H; auto.
Qed.

Lemma fmem_In x s : fmem x s = true <-> In x s.
Proof.
  unfold fmem; rewrite existsb_exists; split.
  - intros [y [Hy He]]. apply froot_eqb_eq in He. subst; exact Hy.
  - intros H; exists x; split; [exact H | apply froot_eqb_eq; reflexivity].
Qed.

(* a closed set contains every writer, however long the chain of calls *)
Lemma closed_has_writers ws cs s : closed_under ws cs s = true -> forall x, Writes ws cs x -> fmem x s = true.
Proof.
  unfold closed_under; rewrite Bool.andb_true_iff; intros [Hd Hc] x Hw.
  induction Hw as [w Hin | c Hin Hto IH].
  - rewrite forallb_forall in Hd. apply Hd; exact Hin.
  - rewrite forallb_forall in Hc. specialize (Hc c Hin).
    rewrite IH in Hc. cbn [negb orb] in Hc. exact Hc.
Qed.

(* the tables of this tree *)
Lemma writers_closed : closed_under operand_writes operand_calls (writers operand_writes operand_calls) = true.
Proof. vm_compute. reflexivity. Qed.

Lemma no_offenders : offenders operand_writes operand_calls operand_roots = [].
Proof. vm_compute. reflexivity. Qed.

Lemma offenders_spec ws cs roots x :
  In x roots -> protected_root x = true -> fmem x (writers ws cs) = true -> In x (offenders ws cs roots).
Proof.
  intros Hr Hp Hin. unfold offenders, offenders_in. apply filter_In. split; [exact Hr|].
  rewrite Hp, Hin. reflexivity.
Qed.

Theorem readonly_operands_not_written : forall x,
  In x operand_roots -> protected_root x = true -> ~ Writes operand_writes operand_calls x.
Proof.
  intros x Hr Hp Hw.
  pose proof (closed_has_writers operand_writes operand_calls _ writers_closed x Hw) as Hin.
  pose proof (offenders_spec operand_writes operand_calls operand_roots x Hr Hp Hin) as Ho.
  rewrite no_offenders in Ho. exact Ho.
Qed.

(* every read-only operation named above exists in this tree with at least one operand (the statement is
   not about names that match nothing) *)
Lemma readonly_ops_present : (forallb (fun f => existsb (fun r => String.eqb (fst r) f) operand_roots) readonly_ops
  && forallb (fun r => fmem r operand_roots) readonly_roots)%bool = true.
Proof. vm_compute. reflexivity. Qed.

(* the mutators do write (the table is not silent about stores), and only through their receiver *)
Lemma mutators_write : forallb (fun m => fmem m (writers operand_writes operand_calls)) mutators = true.
Proof. vm_compute. reflexivity. Qed.
