(* C07 — Serializers are total and deterministic on arbitrary documents.  Statements only; proofs
   in Proofs/CdxFacts.v and below.  The models (Model/Spdx.v spdx_ser, Model/Cdx.v cdx_ser) are
   compared with the real Serialize on arbitrary Document values on every run (nil elements of the
   top-level lists dropped; documents with nil elements nested inside nodes are covered by the
   direct oracle only).  Determinism "independently of what was serialized before" is the absence
   of hidden state: the models are functions of the document; the harness serializes every document
   in varying histories and compares. *)
From Verif Require Import Model.Base Model.Node Model.Graph Model.Spdx Model.Cdx Gen.Tables
  Proofs.GraphFacts Proofs.CdxFacts.
Open Scope list_scope.

(* every Document value: an output or an error, never a panic or a process exit *)
Theorem C07_cdx_never_panics : forall d, cdx_ser d <> Panic /\ cdx_ser d <> Fatal.
Proof. exact cdx_ser_not_panic. Qed.
Print Assumptions C07_cdx_never_panics.

Theorem C07_spdx_never_panics : forall fmt_time self d,
  spdx_ser fmt_time self d = Err \/ exists s, spdx_ser fmt_time self d = Ok s.
Proof. exact spdx_ser_total. Qed.
Print Assumptions C07_spdx_never_panics.

(* exactly which documents the CycloneDX serializer accepts: metadata and node list present and
   either nothing at all, or one root that is a node, known document types, and edges whose
   sources (and, for containment and dependencies, targets) are nodes.  Unknown enum numbers, empty
   or duplicate identifiers, cycles and dangling edges of other types are all accepted. *)
Theorem C07_cdx_accepts_exactly : forall d, (exists b, cdx_ser d = Ok b) <-> cdx_serializable d.
Proof. exact cdx_ser_ok_iff. Qed.
Print Assumptions C07_cdx_accepts_exactly.

Theorem C07_spdx_accepts_exactly : forall fmt_time self d,
  (exists s, spdx_ser fmt_time self d = Ok s) <-> d_metadata d <> None /\ d_node_list d <> None.
Proof. exact spdx_ser_ok_iff. Qed.
Print Assumptions C07_spdx_accepts_exactly.

(* the nesting of components terminates: the model's fuel (one more than the number of distinct
   identifiers) is never what ends the recursion — any larger fuel gives the same forest — on
   cyclic and multiply-contained graphs too *)
Theorem C07_cdx_nesting_terminates : forall nl root k, contains_closed nl ->
  assemble_with (S (length (dedup (ids nl))) + k) (dedup (ids nl)) root (last_comp (nl_nodes nl)) (parents root (nl_edges nl))
  = cdx_forest nl root.
Proof. exact forest_fuel_irrelevant. Qed.
Print Assumptions C07_cdx_nesting_terminates.

(* no hidden state: the result for a document does not depend on the history of serializations *)
Theorem C07_history_independent : forall h1 h2 d,
  last (run_history (h1 ++ [d])) Err = last (run_history (h2 ++ [d])) Err.
Proof. exact cdx_history_independent. Qed.
Print Assumptions C07_history_independent.

(* non-vacuity: a cyclic document with an unknown node type and a duplicate identifier serializes;
   one with an unknown document type, or two roots, is refused *)
Definition nd7 (i : string) (ty : Z) : node :=
  {| n_id := i; n_type := ty; n_name := ""; n_version := ""; n_file_name := ""; n_url_home := "";
     n_url_download := ""; n_licenses := []; n_license_concluded := ""; n_license_comments := "";
     n_copyright := ""; n_source_info := ""; n_comment := ""; n_summary := ""; n_description := "";
     n_attribution := []; n_suppliers := []; n_originators := []; n_release_date := None;
     n_build_date := None; n_valid_until_date := None; n_external_references := [];
     n_file_types := []; n_identifiers := []; n_hashes := []; n_primary_purpose := [99] |}.
Definition md7 (dts : list doctype) : metadata :=
  {| md_id := ""; md_version := "abc"; md_name := ""; md_date := None; md_tools := []; md_authors := []; md_comment := ""; md_documentTypes := dts |}.
Definition doc7 (dts : list doctype) (roots : list string) : document :=
  {| d_metadata := Some (md7 dts);
     d_node_list := Some {| nl_nodes := [nd7 "r" 7; nd7 "a" 0; nd7 "a" 1];
                            nl_edges := [ {| e_type := Edge_Type_contains; e_from := "a"; e_to := ["a"; "r"] |};
                                          {| e_type := 40; e_from := "r"; e_to := ["nowhere"] |} ];
                            nl_root_elements := roots |} |}.
Example C07_example :
  (exists b, cdx_ser (doc7 [] ["r"]) = Ok b) /\
  cdx_ser (doc7 [ {| dt_type := Some 77; dt_name := None; dt_description := None |} ] ["r"]) = Err /\
  cdx_ser (doc7 [] ["r"; "a"]) = Err /\
  cdx_ser {| d_metadata := None; d_node_list := None |} = Err.
Proof. split; [eexists; vm_compute; reflexivity|]. repeat split; vm_compute; reflexivity. Qed.
