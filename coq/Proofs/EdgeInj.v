(* Edge equality is discriminating on separator-free values (C13): if the source contains no ':' and
   no target is empty or contains '+', equal flat strings force equal source, equal type name and the
   same targets up to order.  Without the premise it is false (K1, C13_discriminating_refuted). *)
From Coq Require Import Permutation.
From Verif Require Import Model.Base Model.Node Model.Graph Model.Flat Model.Ident Proofs.SortFacts Proofs.IdentFacts.
Open Scope list_scope.

Fixpoint nochar (c : ascii) (s : string) : bool :=
  match s with EmptyString => true | String d r => (negb (Ascii.eqb d c) && nochar c r)%bool end.

Lemma nochar_app c a b : nochar c (a ++ b)%string = (nochar c a && nochar c b)%bool.
Proof. induction a as [|d a IH]; simpl; [reflexivity|]. rewrite IH. rewrite andb_assoc. reflexivity. Qed.

Lemma nochar_mid c a r : nochar c (a ++ String c r)%string = false.
Proof. rewrite nochar_app. simpl. rewrite Ascii.eqb_refl. simpl. apply andb_false_r. Qed.

(* a string is cut at the first occurrence of c in only one way *)
Lemma split_unique c a b r1 r2 :
  nochar c a = true -> nochar c b = true -> (a ++ String c r1)%string = (b ++ String c r2)%string -> a = b /\ r1 = r2.
Proof.
  revert b. induction a as [|d a IH]; intros [|e b] Ha Hb H; simpl in *.
  - injection H as H. split; [reflexivity|assumption].
  - injection H as H1 H2. subst e. rewrite Ascii.eqb_refl in Hb. discriminate.
  - injection H as H1 H2. subst d. rewrite Ascii.eqb_refl in Ha. discriminate.
  - injection H as H1 H2. subst e.
    apply andb_true_iff in Ha as [_ Ha]. apply andb_true_iff in Hb as [_ Hb].
    destruct (IH b Ha Hb H2) as [-> ->]. split; reflexivity.
Qed.

Definition target_ok (x : string) : Prop := x <> "" /\ nochar "+" x = true.

Lemma join_cons2 sep x y r : join sep (x :: y :: r) = (x ++ sep ++ join sep (y :: r))%string.
Proof. reflexivity. Qed.

Lemma app_nonempty_l a b : a <> "" -> (a ++ b)%string <> "".
Proof. destruct a; [congruence|simpl; discriminate]. Qed.

Lemma join_plus_inj l1 : forall l2, Forall target_ok l1 -> Forall target_ok l2 ->
  join "+" l1 = join "+" l2 -> l1 = l2.
Proof.
  induction l1 as [|x [|x2 r1] IH]; intros l2 H1 H2 H.
  - destruct l2 as [|y [|y2 r2]]; [reflexivity| |].
    + simpl in H. destruct (Forall_inv H2) as [Hy _]. congruence.
    + rewrite join_cons2 in H. destruct (Forall_inv H2) as [Hy _].
      symmetry in H. apply app_nonempty_l in H; [contradiction|assumption].
  - destruct (Forall_inv H1) as [Hx Hxp].
    destruct l2 as [|y [|y2 r2]].
    + simpl in H. congruence.
    + simpl in H. congruence.
    + rewrite join_cons2 in H. simpl in H. exfalso.
      assert (E : nochar "+" x = false) by (rewrite H; apply nochar_mid). congruence.
  - destruct (Forall_inv H1) as [Hx Hxp]. pose proof (Forall_inv_tail H1) as H1'.
    destruct l2 as [|y [|y2 r2]].
    + rewrite join_cons2 in H. apply app_nonempty_l in H; [contradiction|assumption].
    + rewrite join_cons2 in H. simpl in H. exfalso.
      destruct (Forall_inv H2) as [Hy Hyp].
      assert (E : nochar "+" y = false) by (rewrite <- H; apply nochar_mid). congruence.
    + destruct (Forall_inv H2) as [Hy Hyp]. pose proof (Forall_inv_tail H2) as H2'.
      rewrite !join_cons2 in H. simpl in H.
      destruct (split_unique _ _ _ _ _ Hxp Hyp H) as [-> Hr].
      f_equal. apply IH; assumption.
Qed.

Lemma all_safe_nocolon s : all_safe s = true -> nochar ":" s = true.
Proof.
  induction s as [|c s IH]; simpl; [reflexivity|]. intros H. apply andb_true_iff in H as [Hc Hs].
  rewrite (IH Hs), andb_true_r. destruct (Ascii.eqb c ":") eqn:E; [|reflexivity].
  apply Ascii.eqb_eq in E. subst c. vm_compute in Hc. discriminate.
Qed.

Lemma zassoc_forall {A} (P : A -> bool) z (l : list (Z * A)) x :
  forallb (fun p => P (snd p)) l = true -> zassoc z l = Some x -> P x = true.
Proof.
  induction l as [|[k v] r IH]; simpl; [discriminate|]. intros H. apply andb_true_iff in H as [Hv Hr].
  destruct (Z.eqb z k); [intros E; injection E as <-; exact Hv | apply IH; exact Hr].
Qed.

Lemma edge_type_name_nocolon t : nochar ":" (enum_name Edge_Type_names t) = true.
Proof.
  unfold enum_name. destruct (zassoc t Edge_Type_names) as [s|] eqn:E.
  - apply (zassoc_forall (nochar ":") t Edge_Type_names s); [vm_compute; reflexivity|exact E].
  - apply all_safe_nocolon, dec_safe.
Qed.

Lemma Forall_perm {A} (P : A -> Prop) l l' : Permutation l l' -> Forall P l -> Forall P l'.
Proof. intros Hp H. apply Forall_forall. intros x Hx. rewrite Forall_forall in H. apply H. apply (Permutation_in _ (Permutation_sym Hp)). exact Hx. Qed.

Theorem edge_equal_discriminates a b :
  nochar ":" (e_from a) = true -> nochar ":" (e_from b) = true ->
  Forall target_ok (e_to a) -> Forall target_ok (e_to b) ->
  edge_equal a b = true ->
  e_from a = e_from b /\
  enum_name Edge_Type_names (e_type a) = enum_name Edge_Type_names (e_type b) /\
  Permutation (e_to a) (e_to b).
Proof.
  intros Ha Hb Hta Htb H. unfold edge_equal in H. apply String.eqb_eq in H. unfold edge_flat, sapp in H.
  change (":" ++ ?x)%string with (String ":" x) in H.
  destruct (split_unique _ _ _ _ _ Ha Hb H) as [Hf H1]. split; [exact Hf|].
  destruct (split_unique _ _ _ _ _ (edge_type_name_nocolon _) (edge_type_name_nocolon _) H1) as [Ht H2].
  split; [exact Ht|].
  apply join_plus_inj in H2.
  - eapply Permutation_trans; [apply ssort_perm|]. rewrite H2. apply Permutation_sym, ssort_perm.
  - apply (Forall_perm _ _ _ (ssort_perm _)). exact Hta.
  - apply (Forall_perm _ _ _ (ssort_perm _)). exact Htb.
Qed.
