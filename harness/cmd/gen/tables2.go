package main

import (
	"fmt"
	"sort"
	"strings"

	cdx "github.com/CycloneDX/cyclonedx-go"
	"github.com/protobom/protobom/pkg/native/serializers"
	"github.com/protobom/protobom/pkg/native/unserializers"
	"github.com/protobom/protobom/pkg/sbom"
	"github.com/spdx/tools-golang/spdx"
	spdx23 "github.com/spdx/tools-golang/spdx/v2/v2_3"

	"verifharness/coqfmt"
)

func sortedKeys(m map[string]bool) []string {
	var ks []string
	for k := range m {
		ks = append(ks, k)
	}
	sort.Strings(ks)
	return ks
}

// genTranslationTables: the enum<->string tables of the SPDX and CycloneDX (un)serializers,
// obtained by evaluating the real (unexported, via verif shims) functions.
func genTranslationTables(repo string) string {
	var b strings.Builder
	b.WriteString("(* ---- translation tables of pkg/native/serializers and pkg/native/unserializers ---- *)\n\n")
	ss := serializers.NewSPDX23()
	sc := serializers.NewCDX("1.5", "json")
	us := unserializers.NewSPDX23()
	uc := unserializers.NewCDX("1.5", "json")

	erNums := enumNumbers(sbom.ExternalReference_ExternalReferenceType_name)
	// SPDX: external reference category / type by protobom type (defaults: the value for an unknown number)
	{
		var cat, typ [][2]string
		defC := ss.VerifExtRefCategory(&sbom.ExternalReference{Type: 999})
		defT := ss.VerifExtRefType(&sbom.ExternalReference{Type: 999})
		for _, k := range erNums {
			e := &sbom.ExternalReference{Type: sbom.ExternalReference_ExternalReferenceType(k)}
			if c := ss.VerifExtRefCategory(e); c != defC {
				cat = append(cat, [2]string{coqfmt.Z(int64(k)), coqfmt.Str(c)})
			}
			if t := ss.VerifExtRefType(e); t != defT {
				typ = append(typ, [2]string{coqfmt.Z(int64(k)), coqfmt.Str(t)})
			}
		}
		b.WriteString(zsTable("extref_to_spdx_cat_tab", cat, "SPDX23.extRefCategoryFromProtobomExtRef; default below"))
		fmt.Fprintf(&b, "Definition extref_to_spdx_cat_default : string := %s.\n\n", coqfmt.Str(defC))
		b.WriteString(zsTable("extref_to_spdx_type_tab", typ, "SPDX23.extRefTypeFromProtobomExtRef; default below"))
		fmt.Fprintf(&b, "Definition extref_to_spdx_type_default : string := %s.\n\n", coqfmt.Str(defT))
	}
	// SPDX: primary purpose written for the first purpose of a package (via the real Serialize)
	purposeOut := map[string]bool{}
	{
		var rows [][2]string
		nums := enumNumbers(sbom.Purpose_name)
		nums = append(nums, 29, 40, 99, -1)
		for _, k := range nums {
			d := sbom.NewDocument()
			d.NodeList.Nodes = []*sbom.Node{{Id: "n", PrimaryPurpose: []sbom.Purpose{sbom.Purpose(k)}}}
			r, err := ss.Serialize(d, nil, nil)
			if err != nil {
				fail("probing purpose table: %v", err)
			}
			pk := r.(*spdx.Document).Packages
			if len(pk) != 1 {
				fail("probing purpose table: %d packages", len(pk))
			}
			if pk[0].PrimaryPackagePurpose != "" {
				rows = append(rows, [2]string{coqfmt.Z(int64(k)), coqfmt.Str(pk[0].PrimaryPackagePurpose)})
				purposeOut[pk[0].PrimaryPackagePurpose] = true
			}
		}
		b.WriteString(zsTable("purpose_to_spdx_tab", rows, `PrimaryPackagePurpose written by SPDX23.buildPackages for a first purpose; default ""`))
	}
	// SPDX: purpose read back
	{
		cands := map[string]bool{"": true, "NONSENSE": true, "application": true}
		for s := range purposeOut {
			cands[s] = true
		}
		for _, s := range harvest(repo, "pkg/native/unserializers/unserializer_spdx23.go", "packageToNode") {
			cands[s] = true
		}
		var rows [][2]string
		for _, s := range sortedKeys(cands) {
			n := us.VerifPackageToNode(&spdx23.Package{PrimaryPackagePurpose: s})
			if len(n.PrimaryPurpose) == 1 {
				rows = append(rows, [2]string{coqfmt.Str(s), coqfmt.Z(int64(n.PrimaryPurpose[0]))})
			} else if len(n.PrimaryPurpose) != 0 {
				fail("packageToNode gave %d purposes", len(n.PrimaryPurpose))
			}
		}
		b.WriteString(szTable("purpose_from_spdx_tab", rows, "SPDX23.packageToNode: PrimaryPackagePurpose -> the single purpose; absent = no purpose"))
	}
	// SPDX: external reference (category, type) -> (protobom type | identifier | invalid)
	{
		cats := []string{spdx.CategoryPackageManager, spdx.CategorySecurity, spdx.CategoryPersistentId, spdx.CategoryOther, "PACKAGE_MANAGER", "FOO", ""}
		types := []string{spdx.PackageManagerBower, spdx.PackageManagerMavenCentral, spdx.PackageManagerNpm, spdx.PackageManagerNuGet, spdx.PackageManagerPURL,
			spdx.SecurityAdvisory, spdx.SecurityFix, spdx.SecuritySwid, spdx.SecurityUrl, spdx.SecurityCPE22Type, spdx.SecurityCPE23Type,
			spdx.TypePersistentIdGitoid, spdx.TypePersistentIdSwh, "OTHER", "unknown", ""}
		var rows []string
		for _, c := range cats {
			for _, t := range types {
				ty, isID, err := us.VerifExtRefToProtobomEnum(&spdx.PackageExternalReference{Category: c, RefType: t})
				rows = append(rows, fmt.Sprintf("  ((%s, %s), (%s, %v, %v))", coqfmt.Str(c), coqfmt.Str(t), coqfmt.Z(int64(ty)), isID, err != nil))
			}
		}
		fmt.Fprintf(&b, "(* SPDX23.extRefToProtobomEnum on (category, type): (protobom type or -1, is identifier, is invalid).\n   Categories outside the first three behave like \"OTHER\" (rows FOO and the empty string confirm). *)\nDefinition spdx_extref_enum_tab : list ((string * string) * (Z * bool * bool)) := [\n%s\n].\n\n", strings.Join(rows, ";\n"))
		var idrows [][2]string
		for _, t := range types {
			if v := us.VerifExtRefTypeToIdentifierType(t); v != 0 {
				idrows = append(idrows, [2]string{coqfmt.Str(t), coqfmt.Z(int64(v))})
			}
		}
		b.WriteString(szTable("spdx_ident_type_tab", idrows, "SPDX23.extRefTypeToIdentifierType; default 0 (unknown)"))
	}
	// CycloneDX serializer tables
	cdxTypes := map[string]bool{}
	{
		var rows [][2]string
		nums := enumNumbers(sbom.Purpose_name)
		for _, k := range append(nums, 29, 99) {
			t, err := sc.VerifPurposeToComponentType(sbom.Purpose(k))
			if err == nil {
				rows = append(rows, [2]string{coqfmt.Z(int64(k)), coqfmt.Str(string(t))})
				cdxTypes[string(t)] = true
			}
		}
		b.WriteString(zsTable("purpose_to_cdx_tab", rows, "CDX.purposeToComponentType; absent = error (component type left empty)"))
		var hrows [][2]string
		for _, k := range append(enumNumbers(sbom.HashAlgorithm_name), 18, 99) {
			a, err := sc.VerifHashAlgoToCdx(sbom.HashAlgorithm(k))
			if err == nil {
				hrows = append(hrows, [2]string{coqfmt.Z(int64(k)), coqfmt.Str(string(a))})
			}
		}
		b.WriteString(zsTable("hash_to_cdx_tab", hrows, "CDX.protoHashAlgoToCdxAlgo; absent = error (hash dropped)"))
		var erows [][2]string
		def := string(sc.VerifExtRefTypeToCdx(999))
		for _, k := range erNums {
			if t := string(sc.VerifExtRefTypeToCdx(sbom.ExternalReference_ExternalReferenceType(k))); t != def {
				erows = append(erows, [2]string{coqfmt.Z(int64(k)), coqfmt.Str(t)})
			}
		}
		b.WriteString(zsTable("extref_to_cdx_tab", erows, "CDX.protobomExtRefTypeToCdxType; default below"))
		fmt.Fprintf(&b, "Definition extref_to_cdx_default : string := %s.\n\n", coqfmt.Str(def))
	}
	// CycloneDX unserializer tables
	{
		cands := map[string]bool{"": true, "nonsense": true}
		for s := range cdxTypes {
			cands[s] = true
		}
		for _, t := range []cdx.ComponentType{cdx.ComponentTypeApplication, cdx.ComponentTypeContainer, cdx.ComponentTypeData, cdx.ComponentTypeDevice, cdx.ComponentTypeDeviceDriver, cdx.ComponentTypeFile, cdx.ComponentTypeFirmware, cdx.ComponentTypeFramework, cdx.ComponentTypeLibrary, cdx.ComponentTypeMachineLearningModel, cdx.ComponentTypeOS, cdx.ComponentTypePlatform} {
			cands[string(t)] = true
		}
		var rows [][2]string
		for _, s := range sortedKeys(cands) {
			if v := uc.VerifComponentTypeToPurpose(cdx.ComponentType(s)); v != 0 {
				rows = append(rows, [2]string{coqfmt.Str(s), coqfmt.Z(int64(v))})
			}
		}
		b.WriteString(szTable("cdx_type_to_purpose_tab", rows, "CDX.componentTypeToPurpose; default 0 (UNKNOWN_PURPOSE)"))
		ecands := map[string]bool{"": true, "nonsense": true}
		for _, k := range erNums {
			ecands[string(sc.VerifExtRefTypeToCdx(sbom.ExternalReference_ExternalReferenceType(k)))] = true
		}
		var erows [][2]string
		defE := uc.VerifCdxExtRefType("nonsense")
		for _, s := range sortedKeys(ecands) {
			if v := uc.VerifCdxExtRefType(cdx.ExternalReferenceType(s)); v != defE {
				erows = append(erows, [2]string{coqfmt.Str(s), coqfmt.Z(int64(v))})
			}
		}
		b.WriteString(szTable("cdx_extref_to_type_tab", erows, "CDX.cdxExtRefTypeToProtobomType; default below"))
		fmt.Fprintf(&b, "Definition cdx_extref_to_type_default : Z := %d.\n\n", defE)
		hcands := map[string]bool{"": true, "nonsense": true}
		for _, k := range enumNumbers(sbom.HashAlgorithm_name) {
			if a, err := sc.VerifHashAlgoToCdx(sbom.HashAlgorithm(k)); err == nil {
				hcands[string(a)] = true
			}
		}
		var hrows [][2]string
		for _, s := range sortedKeys(hcands) {
			if v := uc.VerifCdxHashAlgo(cdx.HashAlgorithm(s)); v != 0 {
				hrows = append(hrows, [2]string{coqfmt.Str(s), coqfmt.Z(int64(v))})
			}
			if uc.VerifCdxHashAlgo(cdx.HashAlgorithm(s)) != sbom.HashAlgorithmFromCDX(cdx.HashAlgorithm(s)) {
				fail("cdxHashAlgoToProtobomAlgo and sbom.HashAlgorithmFromCDX disagree on %q", s)
			}
		}
		b.WriteString(szTable("cdx_hash_to_algo_tab", hrows, "CDX.cdxHashAlgoToProtobomAlgo (= sbom.HashAlgorithmFromCDX); default 0 (UNKNOWN)"))
		var prow [][2]string
		for _, ph := range []cdx.LifecyclePhase{cdx.LifecyclePhaseBuild, cdx.LifecyclePhaseDecommission, cdx.LifecyclePhaseDesign, cdx.LifecyclePhaseDiscovery, cdx.LifecyclePhaseOperations, cdx.LifecyclePhasePreBuild, cdx.LifecyclePhasePostBuild, "", "nonsense"} {
			if v := uc.VerifPhaseToSBOMType(ph); v != nil {
				prow = append(prow, [2]string{coqfmt.Str(string(ph)), coqfmt.Z(int64(*v))})
			}
		}
		b.WriteString(szTable("phase_to_sbomtype_tab", prow, "CDX.phaseToSBOMType; absent = nil (no type)"))
	}
	return b.String()
}
