// Package heapview encodes the Go object graph reachable from protobom values — message
// structs, slice backing arrays, maps, optional scalars — as an explicit heap: every mutable
// location gets a number (by pointer identity), so that sharing between values is visible.
package heapview

import (
	"fmt"
	"reflect"
	"sort"
	"strings"

	"verifharness/coqfmt"
)

type Loc int

// Val is one field or element value.
type Val struct {
	K   byte // 's' string, 'z' integer/enum, 'b' bool, 'n' nil, 'e' empty non-nil slice, 'p' pointer to message / scalar box, 'l' slice (L, Len), 'm' map
	S   string
	Z   int64
	B   bool
	L   Loc
	Len int
}

// Cell is one mutable location.
type Cell struct {
	K      byte // 'M' message (Kind, Fields), 'A' array (Elems), 'P' map (KVs)
	Kind   string
	Fields []Val
	Elems  []Val
	KVs    [][2]string // key (decimal), value
}

type Heap struct {
	// SpareCap: an empty slice that still owns a backing array (x[:0], make(T, 0, k)) is recorded as a slice of
	// length 0 at that array's location instead of as a plain empty slice, so that two values sharing such
	// an array (their next appends land in the same slot) are seen to share a location.
	SpareCap bool
	Cells    []*Cell
	index map[uintptr]Loc // pointer identity -> location (messages, arrays, maps share one space; the kinds never collide at one address with different meaning except struct/first-field, which we key by kind too)
	keys  map[string]Loc
}

func New() *Heap { return &Heap{keys: map[string]Loc{}} }

func (h *Heap) loc(kind string, p uintptr) (Loc, bool) {
	k := fmt.Sprintf("%s@%x", kind, p)
	if l, ok := h.keys[k]; ok {
		return l, true
	}
	l := Loc(len(h.Cells))
	h.keys[k] = l
	h.Cells = append(h.Cells, nil)
	return l, false
}

// Add encodes v (a pointer to a message struct, a slice, a map or a scalar) and returns its value.
func (h *Heap) Add(v any) Val { return h.val(reflect.ValueOf(v)) }

func (h *Heap) val(v reflect.Value) Val {
	switch v.Kind() {
	case reflect.String:
		return Val{K: 's', S: v.String()}
	case reflect.Bool:
		return Val{K: 'b', B: v.Bool()}
	case reflect.Int, reflect.Int32, reflect.Int64:
		return Val{K: 'z', Z: v.Int()}
	case reflect.Uint32, reflect.Uint64:
		return Val{K: 'z', Z: int64(v.Uint())}
	case reflect.Ptr:
		if v.IsNil() {
			return Val{K: 'n'}
		}
		e := v.Elem()
		if e.Kind() == reflect.Struct {
			l, seen := h.loc("msg", v.Pointer())
			if !seen {
				c := &Cell{K: 'M', Kind: e.Type().Name()}
				h.Cells[l] = c
				for i := 0; i < e.NumField(); i++ {
					if !e.Type().Field(i).IsExported() {
						continue
					}
					c.Fields = append(c.Fields, h.val(e.Field(i)))
				}
			}
			return Val{K: 'p', L: l}
		}
		// optional scalar: a one-element box
		l, seen := h.loc("box", v.Pointer())
		if !seen {
			h.Cells[l] = &Cell{K: 'A', Elems: []Val{h.val(e)}}
		}
		return Val{K: 'p', L: l}
	case reflect.Slice:
		if v.IsNil() {
			return Val{K: 'n'}
		}
		if v.Len() == 0 {
			if h.SpareCap && v.Cap() > 0 {
				l, seen := h.loc("arr", v.Pointer())
				if !seen {
					h.Cells[l] = &Cell{K: 'A'}
				}
				return Val{K: 'l', L: l, Len: 0}
			}
			return Val{K: 'e'}
		}
		l, seen := h.loc("arr", v.Pointer())
		if !seen {
			h.Cells[l] = &Cell{K: 'A'}
		}
		c := h.Cells[l]
		for i := len(c.Elems); i < v.Len(); i++ {
			c.Elems = append(c.Elems, Val{}) // reserve: elements may refer back
			c.Elems[i] = h.val(v.Index(i))
		}
		return Val{K: 'l', L: l, Len: v.Len()}
	case reflect.Map:
		if v.IsNil() {
			return Val{K: 'n'}
		}
		l, seen := h.loc("map", v.Pointer())
		if !seen {
			c := &Cell{K: 'P'}
			h.Cells[l] = c
			for _, k := range v.MapKeys() {
				c.KVs = append(c.KVs, [2]string{fmt.Sprint(k.Interface()), fmt.Sprint(v.MapIndex(k).Interface())})
			}
			sort.Slice(c.KVs, func(i, j int) bool {
				var a, b int64
				fmt.Sscan(c.KVs[i][0], &a)
				fmt.Sscan(c.KVs[j][0], &b)
				return a < b
			})
		}
		return Val{K: 'm', L: l}
	case reflect.Interface:
		if v.IsNil() {
			return Val{K: 'n'}
		}
		return h.val(v.Elem())
	}
	panic("heapview: unsupported kind " + v.Kind().String())
}

// Reach returns the set of locations reachable from the given values.
func (h *Heap) Reach(vs ...Val) map[Loc]bool {
	seen := map[Loc]bool{}
	var walk func(v Val)
	walk = func(v Val) {
		switch v.K {
		case 'p', 'l', 'm':
			if seen[v.L] {
				return
			}
			seen[v.L] = true
			c := h.Cells[v.L]
			for _, f := range c.Fields {
				walk(f)
			}
			for _, e := range c.Elems {
				walk(e)
			}
		}
	}
	for _, v := range vs {
		walk(v)
	}
	return seen
}

// Snapshot renders the value tree under v, order-sensitive and field by field; locations are
// replaced by their contents (sharing is not shown: use Reach for that).
func (h *Heap) Snapshot(v Val) string {
	var b strings.Builder
	var walk func(v Val, depth int)
	walk = func(v Val, depth int) {
		if depth > 64 {
			b.WriteString("<deep>")
			return
		}
		switch v.K {
		case 's':
			fmt.Fprintf(&b, "%q", v.S)
		case 'z':
			fmt.Fprintf(&b, "%d", v.Z)
		case 'b':
			fmt.Fprintf(&b, "%v", v.B)
		case 'n':
			b.WriteString("nil")
		case 'e':
			b.WriteString("[]")
		case 'p':
			c := h.Cells[v.L]
			if c.K == 'M' {
				b.WriteString(c.Kind + "{")
				for i, f := range c.Fields {
					if i > 0 {
						b.WriteByte(',')
					}
					walk(f, depth+1)
				}
				b.WriteByte('}')
			} else {
				b.WriteString("&")
				walk(c.Elems[0], depth+1)
			}
		case 'l':
			b.WriteByte('[')
			for i := 0; i < v.Len; i++ {
				if i > 0 {
					b.WriteByte(',')
				}
				walk(h.Cells[v.L].Elems[i], depth+1)
			}
			b.WriteByte(']')
		case 'm':
			b.WriteString("map[")
			for i, kv := range h.Cells[v.L].KVs {
				if i > 0 {
					b.WriteByte(',')
				}
				fmt.Fprintf(&b, "%s:%q", kv[0], kv[1])
			}
			b.WriteByte(']')
		}
	}
	walk(v, 0)
	return b.String()
}

// ---- Coq terms ----------------------------------------------------------------------------------

var kindCode = map[string]int{"Node": 1, "Edge": 2, "Person": 3, "ExternalReference": 4, "NodeList": 5, "Timestamp": 6, "Document": 7, "Metadata": 8, "Tool": 9, "DocumentType": 10}

func CoqVal(v Val) string {
	switch v.K {
	case 's':
		return "(HS " + coqfmt.Str(v.S) + ")"
	case 'z':
		return "(HZ " + coqfmt.Z(v.Z) + ")"
	case 'b':
		return "(HB " + coqfmt.Bool(v.B) + ")"
	case 'n':
		return "HNil"
	case 'e':
		return "HEmpty"
	case 'p':
		return fmt.Sprintf("(HPtr %d)", v.L)
	case 'l':
		return fmt.Sprintf("(HSl %d %d)", v.L, v.Len)
	case 'm':
		return fmt.Sprintf("(HMp %d)", v.L)
	}
	panic("heapview: bad value")
}

func (h *Heap) Coq() string {
	var rows []string
	for l, c := range h.Cells {
		var body string
		switch c.K {
		case 'M':
			body = fmt.Sprintf("(HMsg %d %s)", kindCode[c.Kind], coqfmt.List(c.Fields, CoqVal))
		case 'A':
			body = "(HArr " + coqfmt.List(c.Elems, CoqVal) + ")"
		case 'P':
			body = "(HMap " + coqfmt.List(c.KVs, func(kv [2]string) string { return "(" + kv[0] + ", " + coqfmt.Str(kv[1]) + ")" }) + ")"
		}
		rows = append(rows, fmt.Sprintf("(%d, %s)", l, body))
	}
	return "[" + strings.Join(rows, "; ") + "]"
}
