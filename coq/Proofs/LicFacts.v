(* The licence expression the CycloneDX reader builds doubles with every licence entry (K14). *)
From Coq Require Import Lia.
From Verif Require Import Model.Base Model.Node Model.Graph Model.Cdx.
Open Scope list_scope.

Definition lic_entry : clic := {| cl_expression := ""; cl_has_license := true; cl_id := "L" |}.

Lemma length_append a b : String.length (a ++ b)%string = (String.length a + String.length b)%nat.
Proof. induction a; simpl; [reflexivity|]. rewrite IHa. reflexivity. Qed.

Definition lic_step (s : string) (l : clic) : string :=
  if (String.eqb (cl_expression l) "" && (negb (cl_has_license l) || String.eqb (cl_id l) ""))%bool then s
  else let nw := if String.eqb (cl_expression l) "" then cl_id l else cl_expression l in
       if String.eqb s "" then nw
       else (s ++ "(" ++ s ++ ") OR " ++ " (" ++ nw ++ ")")%string.

Lemma lic_string_fold ls : lic_string ls = fold_left lic_step ls "".
Proof. reflexivity. Qed.

Lemma lic_step_doubles s : s <> "" -> (2 * String.length s <= String.length (lic_step s lic_entry))%nat /\ lic_step s lic_entry <> "".
Proof.
  intros Hs. unfold lic_step, lic_entry. cbn [cl_expression cl_has_license cl_id String.eqb negb andb orb].
  apply String.eqb_neq in Hs. rewrite Hs. split.
  - rewrite !length_append. simpl. lia.
  - destruct s; [rewrite String.eqb_refl in Hs; discriminate|discriminate].
Qed.

Lemma repeat_snoc {A} (x : A) n : repeat x (S n) = repeat x n ++ [x].
Proof. induction n; simpl; [reflexivity|]. rewrite <- IHn. reflexivity. Qed.

(* n + 1 licence entries give an expression of at least 2^n characters *)
Theorem lic_string_exponential n :
  (2 ^ n <= String.length (lic_string (repeat lic_entry (S n))))%nat /\ lic_string (repeat lic_entry (S n)) <> "".
Proof.
  induction n as [|n [IH1 IH2]].
  - cbn. split; [lia|discriminate].
  - rewrite repeat_snoc, lic_string_fold, fold_left_app. cbn [fold_left]. rewrite <- lic_string_fold.
    destruct (lic_step_doubles _ IH2) as [H1 H2]. split; [|exact H2].
    rewrite Nat.pow_succ_r'. lia.
Qed.

(* while the input grows by a constant per entry: no polynomial bounds the output *)
Corollary lic_string_refutes_polynomial_bound :
  exists ls, length ls = 41%nat /\ (1000000000000 <= Z.of_nat (String.length (lic_string ls))).
Proof.
  exists (repeat lic_entry 41). split; [apply repeat_length|].
  pose proof (proj1 (lic_string_exponential 40)) as H.
  assert (E : Z.of_nat (2 ^ 40) = 2 ^ 40) by (rewrite Nat2Z.inj_pow; reflexivity).
  apply Nat2Z.inj_le in H. rewrite E in H. lia.
Qed.
