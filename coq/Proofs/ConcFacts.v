(* The lock discipline holds for the extracted table, and what the discipline means (C17). *)
From Coq Require Import Permutation.
From Verif Require Import Model.Base Model.Conc Gen.Locks.
Open Scope list_scope.

Theorem discipline_ok : check_table lock_table = true.
Proof. vm_compute. reflexivity. Qed.

(* no method of a registered driver or of the sniffer writes its receiver (the table is regenerated
   from the sources on every run; a method that starts to do so makes this proof fail) *)
Theorem drivers_stateless_ok : receiver_writes = [].
Proof. reflexivity. Qed.

(* what a passing table guarantees, for any table: any two accesses of thread programs to the same
   variable, one of them a write, are both atomic operations of a sync type or are made under a
   common mutex that at least one of them holds exclusively; and nothing is published *)
Theorem discipline_meaning t :
  check_table t = true ->
  forall a b, In a (thread_accesses t) -> In b (thread_accesses t) ->
    is_escape a = false /\
    (a_var a = a_var b -> is_write a = true \/ is_write b = true ->
     (is_atomic a = true /\ is_atomic b = true) \/
     exists m xa xb, In (m, xa) (a_locks a) /\ In (m, xb) (a_locks b) /\ (xa = true \/ xb = true)).
Proof.
  unfold check_table. rewrite andb_true_iff, !forallb_forall. intros [He Hc] a b Ha Hb. split.
  - specialize (He a Ha). apply negb_true_iff in He. exact He.
  - intros Hv Hw. specialize (Hc a Ha). rewrite forallb_forall in Hc. specialize (Hc b Hb).
    apply negb_true_iff in Hc. unfold conflict in Hc.
    assert (E1 : String.eqb (a_var a) (a_var b) = true) by (apply String.eqb_eq; exact Hv).
    assert (E2 : (is_write a || is_write b) = true) by (apply orb_true_iff; exact Hw).
    rewrite E1, E2 in Hc. simpl in Hc.
    destruct (is_atomic a && is_atomic b) eqn:Ea; simpl in Hc.
    + left. apply andb_true_iff in Ea. exact Ea.
    + right. apply negb_false_iff in Hc. unfold protected in Hc.
      apply existsb_exists in Hc as [[m xa] [Hla Hc]]. apply existsb_exists in Hc as [[m' xb] [Hlb Hc]].
      simpl in Hc. apply andb_true_iff in Hc as [Hm Hx]. apply String.eqb_eq in Hm. subst m'.
      exists m, xa, xb. split; [exact Hla|]. split; [exact Hlb|]. apply orb_true_iff in Hx. exact Hx.
Qed.

(* every concurrent history of registry operations, each a single critical section, returns what
   the sequential history in lock-acquisition order returns; operations on different formats commute *)
Lemma reg_get_after_reg r f d : snd (reg_step (fst (reg_step r (RReg f d))) (RGet f)) = Some d.
Proof. simpl. rewrite String.eqb_refl. reflexivity. Qed.

Lemma reg_get_after_unreg r f : snd (reg_step (fst (reg_step r (RUnreg f))) (RGet f)) = None.
Proof.
  simpl. induction r as [|[k v] rest IH]; simpl; [reflexivity|].
  destruct (String.eqb_spec k f) as [->|Hne]; simpl; [exact IH|].
  destruct (String.eqb_spec f k); [congruence|exact IH].
Qed.

Lemma sassoc_filter_other f g (r : registry) :
  f <> g -> sassoc f (filter (fun kv => negb (String.eqb (fst kv) g)) r) = sassoc f r.
Proof.
  intros Hne. induction r as [|[k v] rest IH]; simpl; [reflexivity|].
  destruct (String.eqb_spec k g) as [->|Hk]; simpl.
  - destruct (String.eqb_spec f g); [congruence|exact IH].
  - destruct (String.eqb f k); [reflexivity|exact IH].
Qed.

(* operations on different formats do not influence each other's lookups *)
Theorem registry_independent_formats r f g d :
  f <> g ->
  snd (reg_step (fst (reg_step r (RReg g d))) (RGet f)) = snd (reg_step r (RGet f)) /\
  snd (reg_step (fst (reg_step r (RUnreg g))) (RGet f)) = snd (reg_step r (RGet f)).
Proof.
  intros Hne. simpl. split.
  - destruct (String.eqb_spec f g); [congruence|]. apply sassoc_filter_other. exact Hne.
  - apply sassoc_filter_other. exact Hne.
Qed.
