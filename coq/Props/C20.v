(* C20 — storing a document is atomic with respect to crashes. Statements only; proofs in
   Proofs/CrashFacts.v.  Crash model: the process may die after any prefix of the file-system calls
   of a store (store_ops: create a temporary file, write, chmod, fsync, close, rename over the entry),
   and inside the write after any prefix of its data; content not yet fsynced may survive as any
   prefix; rename is atomic. *)
From Verif Require Import Model.Base Model.Store Proofs.StoreFacts Proofs.CrashFacts.
Open Scope list_scope.

Section C20.
  Variable D : Type.
  Variable doc_id : D -> option string.
  Variable marshal : D -> string.
  Variable unmarshal : string -> option D.
  Variable fname : string -> string.
  Hypothesis codec_roundtrip : forall d, unmarshal (marshal d) = Some d.
  Hypothesis fname_injective : forall i j, fname i = fname j -> i = j.

  (* every crash point, first-time stores and overwrites alike: a later retrieve of that identifier
     returns what it returned before the store (the previous complete document, or an error when
     there was none) or the complete new document; other identifiers are unaffected *)
  Theorem C20_store_atomic : forall dk tmp d i v,
    all_synced dk -> (forall j, tmp <> fname j) -> doc_id d = Some i -> i <> "" ->
    In v (crash_states dk (store_ops tmp (fname i) (marshal d))) ->
    (retrieve_view D doc_id unmarshal fname v i = retrieve_view D doc_id unmarshal fname (view_of dk) i \/
     retrieve_view D doc_id unmarshal fname v i = Ok d) /\
    (forall j, j <> i -> retrieve_view D doc_id unmarshal fname v j = retrieve_view D doc_id unmarshal fname (view_of dk) j).
  Proof. exact (store_atomic D doc_id marshal unmarshal fname codec_roundtrip fname_injective). Qed.

  (* whatever a retrieve returns is the document stored under that identifier: never an empty or
     truncated one (shared with C19) *)
  Theorem C20_never_a_wrong_document : forall v i d,
    retrieve_view D doc_id unmarshal fname v i = Ok d -> doc_id d = Some i /\ i <> "".
  Proof. intros v i d. apply (retrieve_right_document D doc_id unmarshal fname). Qed.
End C20.
Print Assumptions C20_store_atomic.
Print Assumptions C20_never_a_wrong_document.

(* the listing-level statement, free of any codec assumption *)
Theorem C20_listing_level : forall dk tmp final data v,
  all_synced dk -> tmp <> final ->
  In v (crash_states dk (store_ops tmp final data)) ->
  (forall n, n <> tmp -> n <> final -> sassoc n v = option_map df_data (sassoc n dk)) /\
  (sassoc final v = option_map df_data (sassoc final dk) \/ sassoc final v = Some data).
Proof. intros dk tmp final data v H1 H2 H3. exact (store_crash_views dk tmp final data H1 H2 v H3). Qed.
Print Assumptions C20_listing_level.

(* why the rename is needed: the in-place write of the unrepaired code exposes an empty entry *)
Theorem C20_inplace_write_refuted :
  exists dk final data v,
    all_synced dk /\ sassoc final dk = Some (mk_dfile "old-document" true) /\
    In v (crash_states dk (inplace_ops final data)) /\ sassoc final v = Some "".
Proof.
  exists [("e", mk_dfile "old-document" true)], "e", "new-document", [("e", "")].
  split; [intros n f H; simpl in H; destruct (String.eqb n "e"); [injection H as <-; reflexivity|discriminate]|].
  split; [reflexivity|]. split; [vm_compute; right; left; reflexivity|reflexivity].
Qed.
Print Assumptions C20_inplace_write_refuted.

(* non-vacuity: an overwrite with 2-byte data has 17 reachable post-crash listings, some torn *)
Example C20_nonvacuous :
  length (crash_states [("f", mk_dfile "OLD" true)] (store_ops "t" "f" "ab")) = 17%nat /\
  In [("t", "a"); ("f", "OLD")] (crash_states [("f", mk_dfile "OLD" true)] (store_ops "t" "f" "ab")).
Proof. split; [vm_compute; reflexivity|]. vm_compute. do 4 right. left. reflexivity. Qed.
