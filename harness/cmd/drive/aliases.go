package main

import "google.golang.org/protobuf/reflect/protoreflect"

type protoreflectFD = protoreflect.FieldDescriptor
type protoreflectV = protoreflect.Value
