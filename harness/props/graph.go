// Package props evaluates the properties directly on the implementation's values,
// in plain Go that shares nothing with the Coq model (the "direct oracle").
package props

import (
	"fmt"
	"sort"

	"github.com/protobom/protobom/pkg/sbom"
)

type Triple struct {
	From string
	Type sbom.Edge_Type
	To   string
}

func NodeSet(nl *sbom.NodeList) map[string]bool {
	s := map[string]bool{}
	for _, n := range nl.Nodes {
		s[n.Id] = true
	}
	return s
}

func RootSet(nl *sbom.NodeList) map[string]bool {
	s := map[string]bool{}
	for _, r := range nl.RootElements {
		s[r] = true
	}
	return s
}

func TripleSet(nl *sbom.NodeList) map[Triple]bool {
	s := map[Triple]bool{}
	for _, e := range nl.Edges {
		for _, t := range e.To {
			s[Triple{e.From, e.Type, t}] = true
		}
	}
	return s
}

// Restrict keeps the triples whose two endpoints are in ns.
func Restrict(ts map[Triple]bool, ns map[string]bool) map[Triple]bool {
	out := map[Triple]bool{}
	for t := range ts {
		if ns[t.From] && ns[t.To] {
			out[t] = true
		}
	}
	return out
}

// WellFormed: unique node identifiers; every edge endpoint and root element names a present node.
func WellFormed(nl *sbom.NodeList) error {
	seen := map[string]bool{}
	for _, n := range nl.Nodes {
		if seen[n.Id] {
			return fmt.Errorf("duplicate node id %q", n.Id)
		}
		seen[n.Id] = true
	}
	for _, e := range nl.Edges {
		if !seen[e.From] {
			return fmt.Errorf("edge source %q is not a node", e.From)
		}
		for _, t := range e.To {
			if !seen[t] {
				return fmt.Errorf("edge target %q (from %q) is not a node", t, e.From)
			}
		}
	}
	for _, r := range nl.RootElements {
		if !seen[r] {
			return fmt.Errorf("root element %q is not a node", r)
		}
	}
	return nil
}

// Normalised: at most one edge per source and type and no repeated targets.
func Normalised(nl *sbom.NodeList) error {
	type key struct {
		f string
		t sbom.Edge_Type
	}
	seen := map[key]bool{}
	for _, e := range nl.Edges {
		k := key{e.From, e.Type}
		if seen[k] {
			return fmt.Errorf("two edges for source %q type %v", e.From, e.Type)
		}
		seen[k] = true
		ts := map[string]bool{}
		for _, t := range e.To {
			if ts[t] {
				return fmt.Errorf("repeated target %q in edge %q/%v", t, e.From, e.Type)
			}
			ts[t] = true
		}
	}
	return nil
}

func SameStrSet(a, b map[string]bool) bool {
	if len(a) != len(b) {
		return false
	}
	for k := range a {
		if !b[k] {
			return false
		}
	}
	return true
}

func SameTripleSet(a, b map[Triple]bool) bool {
	if len(a) != len(b) {
		return false
	}
	for k := range a {
		if !b[k] {
			return false
		}
	}
	return true
}

func SubTriple(a, b map[Triple]bool) bool {
	for k := range a {
		if !b[k] {
			return false
		}
	}
	return true
}

func SubStr(a, b map[string]bool) bool {
	for k := range a {
		if !b[k] {
			return false
		}
	}
	return true
}

func UnionStr(a, b map[string]bool) map[string]bool {
	o := map[string]bool{}
	for k := range a {
		o[k] = true
	}
	for k := range b {
		o[k] = true
	}
	return o
}

func InterStr(a, b map[string]bool) map[string]bool {
	o := map[string]bool{}
	for k := range a {
		if b[k] {
			o[k] = true
		}
	}
	return o
}

func UnionTriple(a, b map[Triple]bool) map[Triple]bool {
	o := map[Triple]bool{}
	for k := range a {
		o[k] = true
	}
	for k := range b {
		o[k] = true
	}
	return o
}

func InterTriple(a, b map[Triple]bool) map[Triple]bool {
	o := map[Triple]bool{}
	for k := range a {
		if b[k] {
			o[k] = true
		}
	}
	return o
}

func Keys(m map[string]bool) []string {
	var ks []string
	for k := range m {
		ks = append(ks, k)
	}
	sort.Strings(ks)
	return ks
}
