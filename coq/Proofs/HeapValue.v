(* The value of a deep copy: what a snapshot of the copy sees is what a snapshot of the source sees,
   up to the nil/empty conventions of the Copy methods (fix_field). *)
From Coq Require Import Lia.
From Verif Require Import Model.Base Model.Heap Proofs.HeapFacts.
Open Scope list_scope.

(* the source's snapshot with the conventions applied at every message *)
Fixpoint ntree_of (fuel : nat) (h : heap) (v : hval) : tree :=
  match fuel with
  | O => TCut
  | S f =>
      match v with
      | HPtr l => match hget h l with
                  | Some (HMsg k fs) => TMsg k (map (ntree_of f h) (fix_fields k 0 fs))
                  | Some (HArr es) => TArr (map (ntree_of f h) es)
                  | _ => TCut
                  end
      | HSl l n => match hget h l with
                   | Some (HArr es) => TArr (map (ntree_of f h) (firstn (Z.to_nat n) es))
                   | _ => TCut
                   end
      | HMp l => match hget h l with Some (HMap kvs) => TMapT kvs | _ => TCut end
      | _ => TLeaf v
      end
  end.

(* every reference names a cell of the kind it is used at *)
Definition wt_val (h : heap) (v : hval) : Prop :=
  match v with
  | HPtr l => (exists k fs, hget h l = Some (HMsg k fs)) \/ (exists es, hget h l = Some (HArr es))
  | HSl l _ => exists es, hget h l = Some (HArr es)
  | HMp l => exists kvs, hget h l = Some (HMap kvs)
  | _ => True
  end.

Definition wt_heap (h : heap) : Prop := forall l c w, hget h l = Some c -> In w (cell_vals c) -> wt_val h w.

Lemma wt_val_ext h new v : wt_val h v -> wt_val (h ++ new) v.
Proof.
  destruct v; simpl; auto.
  - intros [[k [fs H]]|[es H]]; [left; exists k, fs|right; exists es]; apply hget_app_old; exact H.
  - intros [es H]. exists es. apply hget_app_old. exact H.
  - intros [kvs H]. exists kvs. apply hget_app_old. exact H.
Qed.

Lemma fix_field_leaf k i v : ptr_of v <> None -> fix_field k i v = v.
Proof.
  intros H. unfold fix_field.
  destruct (_ && _)%bool; [destruct v; try reflexivity; exfalso; apply H; reflexivity|].
  destruct (_ && _)%bool; [destruct v; try reflexivity; exfalso; apply H; reflexivity|].
  destruct (_ && _)%bool; [destruct v; try reflexivity; exfalso; apply H; reflexivity|]. reflexivity.
Qed.

Lemma fix_field_wt h k i v : wt_val h v -> wt_val h (fix_field k i v).
Proof.
  intros H. destruct (ptr_of v) eqn:E.
  - rewrite fix_field_leaf; [exact H|congruence].
  - unfold fix_field. repeat (destruct (_ && _)%bool); destruct v; simpl in *; auto; discriminate.
Qed.

Lemma fix_fields_In k : forall vs i w, In w (fix_fields k i vs) -> exists v j, In v vs /\ w = fix_field k j v.
Proof.
  induction vs as [|v r IH]; intros i w H; [destruct H|]. cbn [fix_fields] in H. destruct H as [<-|H].
  - exists v, i. split; [left; reflexivity|reflexivity].
  - destruct (IH (S i) w H) as [v' [j [Hv Hw]]]. exists v', j. split; [right; exact Hv|exact Hw].
Qed.

(* ---- snapshots only look at what the value reaches --------------------------------------------- *)
Lemma ntree_ext : forall fuel h new v, wt_heap h -> wt_val h v -> ntree_of fuel (h ++ new) v = ntree_of fuel h v.
Proof.
  induction fuel as [|f IH]; intros h new v Hwt Hv; [reflexivity|]. cbn [ntree_of].
  destruct v as [s|z|b| | |l|l n|l]; try reflexivity; cbn [wt_val] in Hv.
  - destruct Hv as [[k [fs H]]|[es H]]; rewrite H, (hget_app_old h new l _ H).
    + f_equal. apply map_ext_in. intros w Hw. apply IH; [exact Hwt|].
      destruct (fix_fields_In k fs 0 w Hw) as [v' [j [Hv' ->]]]. apply fix_field_wt. exact (Hwt l _ v' H Hv').
    + f_equal. apply map_ext_in. intros w Hw. apply IH; [exact Hwt|exact (Hwt l _ w H Hw)].
  - destruct Hv as [es H]. rewrite H, (hget_app_old h new l _ H). f_equal. apply map_ext_in. intros w Hw.
    apply IH; [exact Hwt|]. exact (Hwt l _ w H (firstn_In _ _ _ Hw)).
  - destruct Hv as [kvs H]. rewrite H, (hget_app_old h new l _ H). reflexivity.
Qed.

Lemma tree_ext : forall fuel h new v, wt_heap h -> wt_val h v -> tree_of fuel (h ++ new) v = tree_of fuel h v.
Proof.
  induction fuel as [|f IH]; intros h new v Hwt Hv; [reflexivity|]. cbn [tree_of].
  destruct v as [s|z|b| | |l|l n|l]; try reflexivity; cbn [wt_val] in Hv.
  - destruct Hv as [[k [fs H]]|[es H]]; rewrite H, (hget_app_old h new l _ H).
    + f_equal. apply map_ext_in. intros w Hw. apply IH; [exact Hwt|exact (Hwt l _ w H Hw)].
    + f_equal. apply map_ext_in. intros w Hw. apply IH; [exact Hwt|exact (Hwt l _ w H Hw)].
  - destruct Hv as [es H]. rewrite H, (hget_app_old h new l _ H). f_equal. apply map_ext_in. intros w Hw.
    apply IH; [exact Hwt|]. exact (Hwt l _ w H (firstn_In _ _ _ Hw)).
  - destruct Hv as [kvs H]. rewrite H, (hget_app_old h new l _ H). reflexivity.
Qed.

(* ---- allocation --------------------------------------------------------------------------------- *)
Lemma hget_alloc h c : dense h -> hget (h ++ [(Z.of_nat (length h), c)]) (Z.of_nat (length h)) = Some c.
Proof.
  intros Hd. rewrite hget_app_none; [simpl; rewrite Z.eqb_refl; reflexivity|].
  apply hget_none_fresh; [exact Hd|lia].
Qed.

Lemma wt_alloc h c : dense h -> wt_heap h -> (forall w, In w (cell_vals c) -> wt_val h w) ->
  wt_heap (h ++ [(Z.of_nat (length h), c)]).
Proof.
  intros Hd Hwt Hc l c0 w Hg Hw. destruct (hget h l) eqn:E.
  - rewrite (hget_app_old h _ l _ E) in Hg. injection Hg as <-. apply wt_val_ext. exact (Hwt l _ w E Hw).
  - rewrite (hget_app_none h _ l E) in Hg. simpl in Hg. destruct (Z.eqb (Z.of_nat (length h)) l); [|discriminate].
    injection Hg as <-. apply wt_val_ext. exact (Hc w Hw).
Qed.

(* ---- the copy's snapshot ------------------------------------------------------------------------- *)
Definition copy_ok (n : nat) (h : heap) (v v' : hval) (h' : heap) : Prop :=
  extends h h' /\ dense h' /\ wt_heap h' /\ wt_val h' v' /\ tree_of n h' v' = ntree_of n h v.

Theorem dcopy_value : forall n h v, dense h -> wt_heap h -> wt_val h v ->
  let '(v', h') := dcopy n h v in copy_ok n h v v' h'.
Proof.
  induction n as [|f IH]; intros h v Hd Hwt Hv.
  - cbn [dcopy]. split; [apply extends_refl|]. split; [exact Hd|]. split; [exact Hwt|]. split; [exact I|reflexivity].
  - (* the list copier: element-wise, in a heap that only grows *)
    assert (Hlist : forall vs h0, dense h0 -> wt_heap h0 -> extends h h0 -> (forall w, In w vs -> wt_val h w) ->
              let '(vs', h1) := copy_list f vs h0 in
              extends h0 h1 /\ dense h1 /\ wt_heap h1 /\ (forall w, In w vs' -> wt_val h1 w) /\
              map (tree_of f h1) vs' = map (ntree_of f h) vs).
    { induction vs as [|x r IHr]; intros h0 Hd0 Hwt0 Hex Hvs; cbn [copy_list].
      - split; [apply extends_refl|]. split; [exact Hd0|]. split; [exact Hwt0|]. split; [intros w []|reflexivity].
      - destruct Hex as [n0 ->].
        assert (Hx0 : wt_val (h ++ n0) x) by (apply wt_val_ext, Hvs; left; reflexivity).
        pose proof (IH (h ++ n0) x Hd0 Hwt0 Hx0) as Hx. destruct (dcopy f (h ++ n0) x) as [x' h1].
        destruct Hx as [[n1 ->] [Hd1 [Hwt1 [Hx' Ex]]]].
        assert (Hex1 : extends h ((h ++ n0) ++ n1)) by (exists (n0 ++ n1); rewrite app_assoc; reflexivity).
        pose proof (IHr ((h ++ n0) ++ n1) Hd1 Hwt1 Hex1 (fun w Hw => Hvs w (or_intror Hw))) as Hr.
        destruct (copy_list f r ((h ++ n0) ++ n1)) as [r' h2].
        destruct Hr as [[n2 ->] [Hd2 [Hwt2 [Hr' Er]]]].
        split; [exists (n1 ++ n2); rewrite app_assoc; reflexivity|]. split; [exact Hd2|]. split; [exact Hwt2|]. split.
        + intros w [<-|Hw]; [apply wt_val_ext; exact Hx'|exact (Hr' w Hw)].
        + cbn [map]. f_equal; [|exact Er].
          rewrite (tree_ext f _ n2 x' Hwt1 Hx'), Ex. apply ntree_ext; [exact Hwt|apply Hvs; left; reflexivity]. }
    rewrite dcopy_S. destruct v as [s|z|b| | |l|l n|l]; cbn [wt_val] in Hv;
      try (split; [apply extends_refl|]; split; [exact Hd|]; split; [exact Hwt|]; split; [exact I|reflexivity]).
    + destruct Hv as [[k [fs H]]|[es H]]; rewrite H.
      * assert (Hfs : forall w, In w (fix_fields k 0 fs) -> wt_val h w).
        { intros w Hw. destruct (fix_fields_In k fs 0 w Hw) as [v' [j [Hv' ->]]]. apply fix_field_wt. exact (Hwt l _ v' H Hv'). }
        pose proof (Hlist (fix_fields k 0 fs) h Hd Hwt (extends_refl h) Hfs) as HL.
        destruct (copy_list f (fix_fields k 0 fs) h) as [fs' h1]. destruct HL as [[n1 ->] [Hd1 [Hwt1 [Hfs' Efs]]]].
        unfold alloc. set (l' := Z.of_nat (length (h ++ n1))). set (h2 := (h ++ n1) ++ [(l', HMsg k fs')]).
        assert (Hg : hget h2 l' = Some (HMsg k fs')) by (apply hget_alloc; exact Hd1).
        split; [exists (n1 ++ [(l', HMsg k fs')]); unfold h2; rewrite app_assoc; reflexivity|].
        split; [exact (dense_alloc (h ++ n1) (HMsg k fs') Hd1)|].
        split; [apply wt_alloc; [exact Hd1|exact Hwt1|exact Hfs']|].
        split; [left; exists k, fs'; exact Hg|].
        cbn [tree_of ntree_of]. rewrite Hg, H. f_equal. rewrite <- Efs. apply map_ext_in. intros w Hw.
        apply (tree_ext f (h ++ n1) [(l', HMsg k fs')] w Hwt1 (Hfs' w Hw)).
      * assert (Hes : forall w, In w es -> wt_val h w) by (intros w Hw; exact (Hwt l _ w H Hw)).
        pose proof (Hlist es h Hd Hwt (extends_refl h) Hes) as HL.
        destruct (copy_list f es h) as [es' h1]. destruct HL as [[n1 ->] [Hd1 [Hwt1 [Hes' Ees]]]].
        unfold alloc. set (l' := Z.of_nat (length (h ++ n1))). set (h2 := (h ++ n1) ++ [(l', HArr es')]).
        assert (Hg : hget h2 l' = Some (HArr es')) by (apply hget_alloc; exact Hd1).
        split; [exists (n1 ++ [(l', HArr es')]); unfold h2; rewrite app_assoc; reflexivity|].
        split; [exact (dense_alloc (h ++ n1) (HArr es') Hd1)|].
        split; [apply wt_alloc; [exact Hd1|exact Hwt1|exact Hes']|].
        split; [right; exists es'; exact Hg|].
        cbn [tree_of ntree_of]. rewrite Hg, H. f_equal. rewrite <- Ees. apply map_ext_in. intros w Hw.
        apply (tree_ext f (h ++ n1) [(l', HArr es')] w Hwt1 (Hes' w Hw)).
    + destruct Hv as [es H]. rewrite H.
      assert (Hes : forall w, In w (firstn (Z.to_nat n) es) -> wt_val h w) by (intros w Hw; exact (Hwt l _ w H (firstn_In _ _ _ Hw))).
      pose proof (Hlist (firstn (Z.to_nat n) es) h Hd Hwt (extends_refl h) Hes) as HL.
      destruct (copy_list f (firstn (Z.to_nat n) es) h) as [es' h1]. destruct HL as [[n1 ->] [Hd1 [Hwt1 [Hes' Ees]]]].
      unfold alloc. set (l' := Z.of_nat (length (h ++ n1))). set (h2 := (h ++ n1) ++ [(l', HArr es')]).
      assert (Hg : hget h2 l' = Some (HArr es')) by (apply hget_alloc; exact Hd1).
      split; [exists (n1 ++ [(l', HArr es')]); unfold h2; rewrite app_assoc; reflexivity|].
      split; [exact (dense_alloc (h ++ n1) (HArr es') Hd1)|].
      split; [apply wt_alloc; [exact Hd1|exact Hwt1|exact Hes']|].
      split; [exists es'; exact Hg|].
      cbn [tree_of ntree_of]. rewrite Hg, H.
      (* the copy's array holds exactly the first n elements *)
      assert (Hlen : firstn (Z.to_nat n) es' = es').
      { apply firstn_all2. apply (f_equal (@length tree)) in Ees. rewrite !map_length in Ees. rewrite Ees. apply firstn_le_length. }
      rewrite Hlen. f_equal. rewrite <- Ees. apply map_ext_in. intros w Hw.
      apply (tree_ext f (h ++ n1) [(l', HArr es')] w Hwt1 (Hes' w Hw)).
    + destruct Hv as [kvs H]. rewrite H. unfold alloc. set (l' := Z.of_nat (length h)). set (h2 := h ++ [(l', HMap kvs)]).
      assert (Hg : hget h2 l' = Some (HMap kvs)) by (apply hget_alloc; exact Hd).
      split; [exists [(l', HMap kvs)]; reflexivity|]. split; [exact (dense_alloc h (HMap kvs) Hd)|].
      split; [apply wt_alloc; [exact Hd|exact Hwt|intros w []]|]. split; [exists kvs; exact Hg|].
      cbn [tree_of ntree_of]. rewrite Hg, H. reflexivity.
Qed.


Corollary copy_equals_source n h v v' h' : dense h -> wt_heap h -> wt_val h v -> dcopy n h v = (v', h') ->
  tree_of n h' v' = ntree_of n h v.
Proof.
  intros Hd Hwt Hv E. pose proof (dcopy_value n h v Hd Hwt Hv) as H. rewrite E in H. exact (proj2 (proj2 (proj2 (proj2 H)))).
Qed.
