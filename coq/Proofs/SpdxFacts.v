(* The SPDX 2.3 write-then-read round trip (C01) and what the SPDX writer emits (C03), on the
   struct-level model of Model/Spdx.v. *)
From Coq Require Import Lia Permutation.
From Verif Require Import Model.Base Model.Node Model.Graph Model.Match Model.Flat Model.Spdx Gen.Tables
  Proofs.ListFacts Proofs.GraphFacts Proofs.OpsWf Proofs.SetLaws.
Open Scope list_scope.

(* ---- the enum tables are mutually inverse on what SPDX shares with the model ------------------ *)
Theorem edge_types_roundtrip :
  forallb (fun t => Z.eqb (edge_from_spdx2 (edge_to_spdx2 t)) t) Edge_Type_values = true.
Proof. vm_compute. reflexivity. Qed.

Theorem edge_types_count : length (filter (fun t => negb (Z.eqb t 0)) Edge_Type_values) = 44%nat.
Proof. reflexivity. Qed.

Theorem checksum_algos_roundtrip :
  forallb (fun a => match hash_to_spdx a with
                    | "" => true
                    | s => Z.eqb (hash_from_spdx s) a
                    end) HashAlgorithm_values = true
  /\ length (filter (fun a => negb (String.eqb (hash_to_spdx a) "")) HashAlgorithm_values) = 16%nat.
Proof. split; vm_compute; reflexivity. Qed.

Lemma edge_type_inv t : In t Edge_Type_values -> edge_from_spdx2 (edge_to_spdx2 t) = t.
Proof.
  intros H. pose proof edge_types_roundtrip as E. rewrite forallb_forall in E.
  apply Z.eqb_eq. apply E. exact H.
Qed.

Section RT.
  Variable fmt_time : ts -> string.
  Variable parse_time : string -> option ts.
  Variable self_creator : string.

  Notation ser := (spdx_ser fmt_time self_creator).
  Notation rt := (spdx_roundtrip fmt_time parse_time self_creator).
  Notation n2p := (node_to_pkg fmt_time).

  (* ---- the SPDX-representable class (graph part) --------------------------------------------- *)
  Definition id_ok (i : string) : Prop :=
    i <> "" /\ i <> DOCUMENT /\ String.prefix SPDXRef i = false.

  Definition actor_ok (ps : list person) : Prop :=
    match ps with p :: _ => client_string p <> "" /\ client_string p <> NOASSERTION | [] => True end.

  Record spdx_class (d : document) (md : metadata) (nl : nodelist) : Prop := {
    c_md : d_metadata d = Some md;
    c_nl : d_node_list d = Some nl;
    c_kinds : forall n, In n (nl_nodes nl) -> n_type n = Node_NodeType_PACKAGE \/ n_type n = Node_NodeType_FILE;
    c_ids : forall n, In n (nl_nodes nl) -> id_ok (n_id n);
    c_edges : forall e, In e (nl_edges nl) -> id_ok (e_from e) /\ In (e_type e) Edge_Type_values /\ forall x, In x (e_to e) -> id_ok x;
    c_roots : forall r, In r (nl_root_elements nl) -> id_ok r;
    c_actors : forall n, In n (nl_nodes nl) -> actor_ok (n_suppliers n) /\ actor_ok (n_originators n) }.

  Lemma chan_id_ok i : String.prefix SPDXRef i = false -> chan_id i = i.
  Proof. intros H. unfold chan_id. rewrite H. reflexivity. Qed.

  Lemma chan_actor_ok ps : actor_ok ps -> chan_actor (actor_of ps) = Ok (actor_of ps).
  Proof.
    destruct ps as [|p r]; simpl; [reflexivity|]. intros [H1 H2]. unfold chan_actor.
    destruct (String.eqb_spec (client_string p) NOASSERTION); [contradiction|].
    destruct (String.eqb_spec (client_string p) ""); [contradiction|].
    unfold client_org. destruct (p_is_org p); reflexivity.
  Qed.

  Lemma all_ok_map {A B} (f : A -> result B) (g : A -> B) l :
    (forall x, In x l -> f x = Ok (g x)) -> all_ok f l = Ok (map g l).
  Proof.
    induction l as [|x r IH]; intros H; simpl; [reflexivity|].
    rewrite (H x (or_introl eq_refl)), IH; [reflexivity|]. intros y Hy. apply H. right; exact Hy.
  Qed.

  (* what the JSON layer does to a package / a relationship of the class: nothing *)
  Lemma chan_pkg_class n :
    id_ok (n_id n) -> actor_ok (n_suppliers n) -> actor_ok (n_originators n) -> chan_pkg (n2p n) = Ok (n2p n).
  Proof.
    intros [_ [_ Hp]] Hs Ho. unfold chan_pkg. simpl sp_supplier. simpl sp_originator.
    rewrite (chan_actor_ok _ Hs), (chan_actor_ok _ Ho). simpl. rewrite (chan_id_ok _ Hp). reflexivity.
  Qed.

  Lemma chan_file_class n : id_ok (n_id n) -> chan_file (node_to_file n) = node_to_file n.
  Proof. intros [_ [_ Hp]]. unfold chan_file. simpl. rewrite (chan_id_ok _ Hp). reflexivity. Qed.

  Lemma chan_rel_class a b t : id_ok a \/ a = DOCUMENT -> id_ok b ->
    chan_rel {| rl_a := a; rl_b := b; rl_special := ""; rl_type := t |} = Ok {| rl_a := a; rl_b := b; rl_special := ""; rl_type := t |}.
  Proof.
    intros Ha [Hb1 [_ Hb3]]. unfold chan_rel. simpl.
    assert (Ha1 : a <> "") by (destruct Ha as [[H _]| ->]; [exact H|discriminate]).
    assert (Ha3 : String.prefix SPDXRef a = false) by (destruct Ha as [[_ [_ H]]| ->]; [exact H|reflexivity]).
    destruct (String.eqb_spec a ""); [contradiction|]. destruct (String.eqb_spec b ""); [contradiction|]. simpl.
    rewrite (chan_id_ok _ Ha3), (chan_id_ok _ Hb3). reflexivity.
  Qed.

  (* ---- graph part of the round trip ------------------------------------------------------------- *)
  Definition pkgs_of (nl : nodelist) := filter (fun n => negb (Z.eqb (n_type n) Node_NodeType_FILE)) (nl_nodes nl).
  Definition files_of (nl : nodelist) := filter (fun n => negb (Z.eqb (n_type n) Node_NodeType_PACKAGE)) (nl_nodes nl).

  Definition unit_edges (nl : nodelist) : list edge :=
    flat_map (fun e => map (fun x => {| e_type := e_type e; e_from := e_from e; e_to := [x] |}) (e_to e)) (nl_edges nl).

  Lemma filter_map_rels (es : list edge) (rs : list string) :
    (forall e, In e es -> e_from e <> DOCUMENT) ->
    filter (fun r => negb (is_describes r)) (flat_map edge_rels es ++ map root_rel rs) = flat_map edge_rels es /\
    filter is_describes (flat_map edge_rels es ++ map root_rel rs) = map root_rel rs.
  Proof.
    intros H. rewrite !filter_app.
    assert (E1 : forall r, In r (flat_map edge_rels es) -> is_describes r = false).
    { intros r Hr. apply in_flat_map in Hr as [e [He Hr]]. apply in_map_iff in Hr as [x [<- _]].
      unfold is_describes. simpl. destruct (String.eqb_spec (e_from e) DOCUMENT); [exfalso; eapply H; eauto|reflexivity]. }
    assert (E2 : forall r, In r (map root_rel rs) -> is_describes r = true).
    { intros r Hr. apply in_map_iff in Hr as [x [<- _]]. reflexivity. }
    split.
    - rewrite (filter_all_true _ (flat_map edge_rels es)) by (intros r Hr; rewrite (E1 r Hr); reflexivity).
      rewrite (proj2 (filter_nil_iff' _ (map root_rel rs))); [apply app_nil_r|]. intros r Hr. rewrite (E2 r Hr). reflexivity.
    - rewrite (proj2 (filter_nil_iff' _ (flat_map edge_rels es))) by (intros r Hr; exact (E1 r Hr)).
      simpl. apply filter_all_true. exact E2.
  Qed.

  Lemma map_rel_to_edge es :
    (forall e, In e es -> In (e_type e) Edge_Type_values) ->
    map rel_to_edge (flat_map edge_rels es)
    = flat_map (fun e => map (fun x => {| e_type := e_type e; e_from := e_from e; e_to := [x] |}) (e_to e)) es.
  Proof.
    induction es as [|e r IH]; intros H; simpl; [reflexivity|].
    rewrite map_app, IH by (intros e' He'; apply H; right; exact He'). f_equal.
    unfold edge_rels. rewrite map_map. apply map_ext. intros x. unfold rel_to_edge. simpl.
    rewrite (edge_type_inv _ (H e (or_introl eq_refl))). reflexivity.
  Qed.

  Theorem spdx_roundtrip_graph d md nl :
    spdx_class d md nl ->
    exists nl',
      rt d = Ok nl' /\
      (* the same nodes, package/file kind included (packages first, then files) *)
      map (fun n => (n_id n, n_type n)) (nl_nodes nl')
        = map (fun n => (n_id n, Node_NodeType_PACKAGE)) (pkgs_of nl) ++ map (fun n => (n_id n, Node_NodeType_FILE)) (files_of nl) /\
      (* the same typed edges, one target each *)
      nl_edges nl' = unit_edges nl /\
      (* the same root elements, in order *)
      nl_root_elements nl' = nl_root_elements nl.
  Proof.
    intros C. destruct C as [Cmd Cnl Ck Ci Ce Cr Ca].
    unfold spdx_roundtrip, spdx_ser. rewrite Cmd, Cnl.
    set (pk := filter (fun n => negb (Z.eqb (n_type n) Node_NodeType_FILE)) (nl_nodes nl)).
    set (fl := filter (fun n => negb (Z.eqb (n_type n) Node_NodeType_PACKAGE)) (nl_nodes nl)).
    unfold spdx_chan. cbn [sd_packages sd_rels sd_files sd_name sd_namespace sd_id sd_comment sd_creators].
    assert (Hp : all_ok chan_pkg (map n2p pk) = Ok (map n2p pk)).
    { rewrite <- (map_id (map n2p pk)) at 2. apply all_ok_map. intros p Hp'. apply in_map_iff in Hp' as [n [<- Hn]].
      apply filter_In in Hn as [Hn _]. destruct (Ca n Hn). apply chan_pkg_class; auto. }
    rewrite Hp.
    assert (Hr : all_ok chan_rel (flat_map edge_rels (nl_edges nl) ++ map root_rel (nl_root_elements nl))
                 = Ok (flat_map edge_rels (nl_edges nl) ++ map root_rel (nl_root_elements nl))).
    { rewrite <- (map_id (_ ++ _)) at 2. apply all_ok_map. intros r Hr'. apply in_app_or in Hr' as [Hr'|Hr'].
      - apply in_flat_map in Hr' as [e [He Hr']]. apply in_map_iff in Hr' as [x [<- Hx]].
        destruct (Ce e He) as [H1 [_ H3]]. apply chan_rel_class; auto.
      - apply in_map_iff in Hr' as [x [<- Hx]]. apply chan_rel_class; [right; reflexivity|auto]. }
    rewrite Hr. eexists. split; [reflexivity|].
    unfold spdx_unser_nl. cbn [sd_packages sd_files sd_rels nl_nodes nl_edges nl_root_elements].
    destruct (filter_map_rels (nl_edges nl) (nl_root_elements nl)) as [F1 F2].
    { intros e He. destruct (Ce e He) as [[_ [H _]] _]. exact H. }
    rewrite F1, F2. split; [|split].
    - rewrite map_app, !map_map. f_equal.
      apply map_ext_in. intros n Hn. apply filter_In in Hn as [Hn _].
      destruct (Ci n Hn) as [_ [_ Hpre]]. simpl. rewrite (chan_id_ok _ Hpre). reflexivity.
    - unfold unit_edges. apply map_rel_to_edge. intros e He. destruct (Ce e He) as [_ [Ht _]]. exact Ht.
    - rewrite map_map. simpl. apply map_id.
  Qed.

  (* ---- attributes of a package that pass through unchanged or by a fixed convention ------------- *)
  Hypothesis time_roundtrip : forall t, parse_time (fmt_time t) = Some (fst t, 0) /\ fmt_time t <> "".

  Definition conv_download (s : string) : string := if String.eqb s "" then NOASSERTION else s.
  Definition conv_concluded (s : string) : string := if String.eqb s NOASSERTION then "" else s.
  Definition conv_date (d : option ts) : option ts := match d with Some t => Some (fst t, 0) | None => None end.

  Lemma date_roundtrip d : date_of parse_time (date_str fmt_time d) = conv_date d.
  Proof.
    destruct d as [t|]; simpl; [|reflexivity]. unfold date_of. destruct (time_roundtrip t) as [H1 H2].
    destruct (String.eqb_spec (fmt_time t) ""); [contradiction|exact H1].
  Qed.

  Theorem spdx_package_attributes n :
    let n' := pkg_to_node parse_time (n2p n) in
    n_id n' = n_id n /\ n_name n' = n_name n /\ n_version n' = n_version n /\ n_file_name n' = n_file_name n /\
    n_url_home n' = n_url_home n /\ n_url_download n' = conv_download (n_url_download n) /\
    n_license_concluded n' = conv_concluded (n_license_concluded n) /\
    n_license_comments n' = n_license_comments n /\ n_copyright n' = trim (n_copyright n) /\
    n_source_info n' = n_source_info n /\ n_comment n' = n_comment n /\ n_summary n' = n_summary n /\
    n_description n' = n_description n /\ n_attribution n' = n_attribution n /\
    n_release_date n' = conv_date (n_release_date n) /\ n_build_date n' = conv_date (n_build_date n) /\
    n_valid_until_date n' = conv_date (n_valid_until_date n).
  Proof.
    simpl. repeat split; try reflexivity; try apply date_roundtrip.
  Qed.

  Theorem spdx_file_attributes n :
    let n' := file_to_node (node_to_file n) in
    n_id n' = n_id n /\ n_name n' = n_name n /\ n_license_concluded n' = n_license_concluded n /\
    n_license_comments n' = n_license_comments n /\ n_comment n' = n_comment n /\ n_file_types n' = n_file_types n /\
    n_copyright n' = (if String.eqb (trim (n_copyright n)) "" then NONE else trim (n_copyright n)).
  Proof. simpl. repeat split; reflexivity. Qed.

  (* first supplier and first originator: name (with the e-mail folded in) and organisation flag *)
  Theorem spdx_actor_roundtrip p r :
    client_string p <> "" -> client_string p <> NOASSERTION ->
    let n := pkg_to_node parse_time
               {| sp_id := ""; sp_name := ""; sp_version := ""; sp_file_name := ""; sp_supplier := actor_of (p :: r);
                  sp_originator := actor_of (p :: r); sp_download := ""; sp_checksums := []; sp_home := "";
                  sp_source_info := ""; sp_lic_concluded := ""; sp_lic_comments := ""; sp_copyright := "";
                  sp_summary := ""; sp_description := ""; sp_comment := ""; sp_extrefs := []; sp_attribution := [];
                  sp_purpose := ""; sp_release := ""; sp_built := ""; sp_valid := "" |} in
    n_suppliers n = [mk_person_named (client_string p) (p_is_org p)] /\
    n_originators n = [mk_person_named (client_string p) (p_is_org p)].
  Proof.
    intros H1 H2. simpl.
    destruct (String.eqb_spec (client_string p) NOASSERTION); [contradiction|].
    destruct (String.eqb_spec (client_string p) ""); [contradiction|]. simpl.
    unfold client_org. destruct (p_is_org p); split; reflexivity.
  Qed.
End RT.

(* ---- finite tables: purposes and external reference types (by computation over the generated tables) *)
Definition spdx_purpose_rt (p : Z) : Z :=
  match sassoc (zlook purpose_to_spdx_tab "" p) purpose_from_spdx_tab with Some z => z | None => 0 end.

(* the twelve purposes SPDX 2.3 has natively survive exactly *)
Theorem native_purposes_roundtrip :
  forallb (fun p => Z.eqb (spdx_purpose_rt p) p)
    [Purpose_APPLICATION; Purpose_FRAMEWORK; Purpose_LIBRARY; Purpose_CONTAINER; Purpose_OPERATING_SYSTEM;
     Purpose_DEVICE; Purpose_FIRMWARE; Purpose_SOURCE; Purpose_ARCHIVE; Purpose_FILE; Purpose_INSTALL; Purpose_OTHER] = true
  /\ forallb (fun p => Z.eqb (spdx_purpose_rt (spdx_purpose_rt p)) (spdx_purpose_rt p)) Purpose_values = true.
Proof. split; vm_compute; reflexivity. Qed.

Definition spdx_extref_rt (t : Z) : Z :=
  let '(ty, isid, bad) := extref_enum (zlook extref_to_spdx_cat_tab extref_to_spdx_cat_default t)
                                      (zlook extref_to_spdx_type_tab extref_to_spdx_type_default t) in
  if (isid || bad)%bool then (-1) else ty.

(* the eight reference types SPDX carries survive; every other type is read back as OTHER *)
Theorem extref_types_roundtrip :
  forallb (fun t => Z.eqb (spdx_extref_rt t) t)
    [ExternalReference_ExternalReferenceType_BOWER; ExternalReference_ExternalReferenceType_MAVEN_CENTRAL;
     ExternalReference_ExternalReferenceType_NPM; ExternalReference_ExternalReferenceType_NUGET;
     ExternalReference_ExternalReferenceType_SECURITY_ADVISORY; ExternalReference_ExternalReferenceType_SECURITY_FIX;
     ExternalReference_ExternalReferenceType_SECURITY_OTHER; ExternalReference_ExternalReferenceType_OTHER] = true
  /\ forallb (fun t => (Z.eqb (spdx_extref_rt t) t || Z.eqb (spdx_extref_rt t) ExternalReference_ExternalReferenceType_OTHER)%bool)
       ExternalReference_ExternalReferenceType_values = true.
Proof. split; vm_compute; reflexivity. Qed.

(* the four identifier kinds come back under the same key *)
Theorem identifier_kinds_roundtrip :
  forallb (fun k =>
      let '(ty, isid, bad) := extref_enum (zlook ident_to_spdx2_category_tab ident_to_spdx2_category_default k)
                                          (zlook ident_to_spdx2_type_tab ident_to_spdx2_type_default k) in
      (isid && negb bad && Z.eqb (slook spdx_ident_type_tab 0 (zlook ident_to_spdx2_type_tab ident_to_spdx2_type_default k)) k)%bool)
    [SoftwareIdentifierType_PURL; SoftwareIdentifierType_CPE22; SoftwareIdentifierType_CPE23; SoftwareIdentifierType_GITOID] = true.
Proof. vm_compute. reflexivity. Qed.

(* ---- a second pass changes nothing further (graph level) -------------------------------------------- *)
Lemma unit_list_fix (l : list edge) :
  (forall e, In e l -> exists x, e_to e = [x]) ->
  flat_map (fun e => map (fun x => {| e_type := e_type e; e_from := e_from e; e_to := [x] |}) (e_to e)) l = l.
Proof.
  induction l as [|e r IH]; intros H; simpl; [reflexivity|].
  destruct (H e (or_introl eq_refl)) as [x Hx]. rewrite Hx. simpl.
  rewrite IH by (intros e' He'; apply H; right; exact He'). f_equal.
  destruct e as [t f tos]. simpl in *. subst. reflexivity.
Qed.

Lemma unit_edges_idem nl :
  unit_edges {| nl_nodes := nl_nodes nl; nl_edges := unit_edges nl; nl_root_elements := nl_root_elements nl |} = unit_edges nl.
Proof.
  unfold unit_edges at 1. simpl. apply unit_list_fix. intros e He. unfold unit_edges in He.
  apply in_flat_map in He as [e0 [_ He]]. apply in_map_iff in He as [x [<- _]]. exists x. reflexivity.
Qed.

(* ---- what the SPDX writer emits (C03): every node once, every relationship, no dangling reference -- *)
Section Complete.
  Variable fmt_time : ts -> string.
  Variable self_creator : string.

  Theorem spdx_complete d md nl :
    d_metadata d = Some md -> d_node_list d = Some nl ->
    (forall n, In n (nl_nodes nl) -> n_type n = Node_NodeType_PACKAGE \/ n_type n = Node_NodeType_FILE) ->
    exists s, spdx_ser fmt_time self_creator d = Ok s /\
      Permutation (map sp_id (sd_packages s) ++ map sf_id (sd_files s)) (ids nl) /\
      sd_rels s = flat_map edge_rels (nl_edges nl) ++ map root_rel (nl_root_elements nl).
  Proof.
    intros Hm Hn Hk. unfold spdx_ser. rewrite Hm, Hn. eexists. split; [reflexivity|]. simpl. split; [|reflexivity].
    rewrite !map_map. simpl. unfold ids.
    clear Hm Hn. induction (nl_nodes nl) as [|n r IH]; simpl; [constructor|].
    assert (Hr : forall m, In m r -> n_type m = Node_NodeType_PACKAGE \/ n_type m = Node_NodeType_FILE) by (intros m Hm; apply Hk; right; exact Hm).
    specialize (IH Hr). destruct (Hk n (or_introl eq_refl)) as [E|E]; rewrite E; simpl.
    - constructor. exact IH.
    - eapply Permutation_trans; [apply Permutation_sym, Permutation_middle|]. constructor. exact IH.
  Qed.

  (* every typed relationship of the graph is emitted, and nothing else but the DESCRIBES of the roots *)
  Theorem spdx_relationships d md nl s a b t :
    d_metadata d = Some md -> d_node_list d = Some nl -> spdx_ser fmt_time self_creator d = Ok s ->
    (In {| rl_a := a; rl_b := b; rl_special := ""; rl_type := t |} (sd_rels s) <->
     (exists ty, InE (nl_edges nl) a ty b /\ t = edge_to_spdx2 ty) \/ (a = DOCUMENT /\ t = "DESCRIBES" /\ In b (nl_root_elements nl))).
  Proof.
    intros Hm Hn. unfold spdx_ser. rewrite Hm, Hn. intros H. injection H as <-. simpl.
    rewrite in_app_iff, in_flat_map, in_map_iff. split.
    - intros [[e [He Hr]]|[r [Hr Hin]]].
      + left. unfold edge_rels in Hr. apply in_map_iff in Hr as [x [Hx Hin]]. injection Hx as <- <- <-.
        exists (e_type e). split; [exists e; auto|reflexivity].
      + right. unfold root_rel in Hr. injection Hr as <- <- <-. auto.
    - intros [[ty [[e [He [Hf [Ht Hx]]]] ->]]|[-> [-> Hb]]].
      + left. exists e. split; [exact He|]. unfold edge_rels. apply in_map_iff. exists b. subst. auto.
      + right. exists b. auto.
  Qed.

  (* no reference to an element that was not emitted, when the graph is closed *)
  Theorem spdx_no_dangling d md nl s r :
    d_metadata d = Some md -> d_node_list d = Some nl -> spdx_ser fmt_time self_creator d = Ok s ->
    (forall n, In n (nl_nodes nl) -> n_type n = Node_NodeType_PACKAGE \/ n_type n = Node_NodeType_FILE) ->
    closed (fun i => In i (ids nl)) (nl_edges nl) -> incl (nl_root_elements nl) (ids nl) ->
    In r (sd_rels s) ->
    (rl_a r = DOCUMENT \/ In (rl_a r) (map sp_id (sd_packages s) ++ map sf_id (sd_files s))) /\
    In (rl_b r) (map sp_id (sd_packages s) ++ map sf_id (sd_files s)).
  Proof.
    intros Hm Hn Hs Hk Hc Hr Hin.
    destruct (spdx_complete d md nl Hm Hn Hk) as [s' [Hs' [Hp Hrel]]]. rewrite Hs in Hs'. injection Hs' as <-.
    assert (Hemit : forall i, In i (ids nl) -> In i (map sp_id (sd_packages s) ++ map sf_id (sd_files s))).
    { intros i Hi. eapply Permutation_in; [apply Permutation_sym; exact Hp|exact Hi]. }
    rewrite Hrel in Hin. apply in_app_or in Hin as [Hin|Hin].
    - apply in_flat_map in Hin as [e [He Hin]]. apply in_map_iff in Hin as [x [<- Hx]]. simpl. split.
      + right. apply Hemit. apply (closed_from _ _ _ Hc He).
      + apply Hemit. apply (closed_to _ _ _ _ Hc He Hx).
    - apply in_map_iff in Hin as [x [<- Hx]]. simpl. split; [left; reflexivity|]. apply Hemit. apply Hr. exact Hx.
  Qed.
End Complete.

(* ---- the SPDX parser transfers identifiers and endpoints verbatim (C05) --------------------------- *)
Section Parsed.
  Variable parse_time : string -> option ts.

  Definition spdx_elements (s : sdoc) : list string := map sp_id (sd_packages s) ++ map sf_id (sd_files s).

  Theorem spdx_unser_ids s : ids (spdx_unser_nl parse_time s) = spdx_elements s.
  Proof.
    unfold ids, spdx_unser_nl, spdx_elements; cbn [nl_nodes]. rewrite map_app, !map_map. reflexivity.
  Qed.

  (* closed whenever the input's own references resolve, identifiers as unique as the input's *)
  Theorem spdx_unser_wf s :
    NoDup (spdx_elements s) ->
    (forall r, In r (sd_rels s) -> In (rl_b r) (spdx_elements s) /\ (is_describes r = false -> In (rl_a r) (spdx_elements s))) ->
    wf (spdx_unser_nl parse_time s).
  Proof.
    intros Hn Hr. split; [|split].
    - rewrite spdx_unser_ids. exact Hn.
    - rewrite spdx_unser_ids. intros e He. cbn [spdx_unser_nl nl_edges] in He.
      apply in_map_iff in He as [r [<- Hin]]. apply filter_In in Hin as [Hin Hd]. apply negb_true_iff in Hd.
      destruct (Hr r Hin) as [Hb Ha]. cbn [rel_to_edge e_from e_to]. split; [exact (Ha Hd)|].
      intros x [<-|[]]. exact Hb.
    - rewrite spdx_unser_ids. intros x Hx. cbn [spdx_unser_nl nl_root_elements] in Hx.
      apply in_map_iff in Hx as [r [<- Hin]]. apply filter_In in Hin as [Hin _]. exact (proj1 (Hr r Hin)).
  Qed.

  (* an edge endpoint that names no parsed node is one the input itself left dangling *)
  Theorem spdx_unser_dangling_only_from_input s e x :
    In e (nl_edges (spdx_unser_nl parse_time s)) -> (x = e_from e \/ In x (e_to e)) -> ~ In x (spdx_elements s) ->
    exists r, In r (sd_rels s) /\ (x = rl_a r \/ x = rl_b r).
  Proof.
    cbn [spdx_unser_nl nl_edges]. intros He Hx _. apply in_map_iff in He as [r [<- Hin]].
    apply filter_In in Hin as [Hin _]. exists r. split; [exact Hin|]. cbn [rel_to_edge e_from e_to] in Hx.
    destruct Hx as [->|[<-|[]]]; [left|right]; reflexivity.
  Qed.
End Parsed.

(* ---- per node: checksum maps survive the SPDX round trip (C01) -------------------------------------- *)
From Verif Require Import Proofs.KvFacts.
From Coq Require Import Sorted.

(* hash maps SPDX 2.3 can carry: unique algorithms (as in any map), sorted as protobuf and the harness
   print them, every algorithm one of the 16 with an SPDX spelling *)
Definition spdx_hash_class (hs : list (Z * string)) : Prop :=
  ksorted hs /\ forall kv, In kv hs -> fst kv <> 0 /\ zmem (fst kv) HashAlgorithm_values = true /\ hash_to_spdx (fst kv) <> "".

Lemma zmem_In x l : zmem x l = true -> In x l.
Proof.
  induction l as [|y r IH]; simpl; [discriminate|]. intros H. apply orb_true_iff in H as [H|H].
  - apply Z.eqb_eq in H. left. auto.
  - right. exact (IH H).
Qed.

Lemma spdx_algo_rt a : zmem a HashAlgorithm_values = true -> hash_to_spdx a <> "" -> hash_from_spdx (hash_to_spdx a) = a.
Proof.
  intros Hm Hne. pose proof checksum_algos_roundtrip as [T _]. rewrite forallb_forall in T.
  specialize (T a (zmem_In _ _ Hm)). destruct (hash_to_spdx a) eqn:E; [contradiction|]. apply Z.eqb_eq in T. exact T.
Qed.

Lemma spdx_hashes_fold hs : forall acc,
  (forall kv, In kv hs -> fst kv <> 0 /\ zmem (fst kv) HashAlgorithm_values = true /\ hash_to_spdx (fst kv) <> "") ->
  NoDup (map fst (acc ++ hs)) ->
  fold_left (fun acc c => let a := hash_from_spdx (fst c) in
                          if Z.eqb a 0 then acc
                          else (a, snd c) :: filter (fun kv => negb (Z.eqb (fst kv) a)) acc)
            (checksums_of hs) acc = rev hs ++ acc.
Proof.
  induction hs as [|[a v] r IH]; intros acc Hc Hn; [reflexivity|].
  destruct (Hc (a, v) (or_introl eq_refl)) as [Hne [Hm Hs]]. cbn [fst] in *.
  unfold checksums_of. cbn [flat_map fst snd]. rewrite Hm.
  pose proof (spdx_algo_rt a Hm Hs) as Hrt.
  destruct (hash_to_spdx a) as [|ch rest] eqn:E; [contradiction|]. cbn [app fold_left fst snd].
  rewrite Hrt. apply Z.eqb_neq in Hne. rewrite Hne.
  rewrite map_app in Hn. cbn [map fst] in Hn.
  assert (Hna : ~ In a (map fst acc)).
  { intros H. apply NoDup_app_inv in Hn as [_ [_ Hd]]. apply (Hd a H). left. reflexivity. }
  assert (Hf : filter (fun kv : Z * string => negb (Z.eqb (fst kv) a)) acc = acc).
  { apply filter_all_true. intros kv Hkv. apply negb_true_iff, Z.eqb_neq. intros Eq. apply Hna. apply in_map_iff. exists kv. auto. }
  rewrite Hf. fold (checksums_of r). rewrite IH.
  - cbn [rev]. rewrite <- app_assoc. reflexivity.
  - intros kv Hkv. apply Hc. right. exact Hkv.
  - cbn [app map fst]. apply NoDup_app_inv in Hn as [Hn1 [Hn2 Hd]]. inversion Hn2 as [|? ? Hnr Hn2']; subst.
    constructor.
    + rewrite map_app. intros H. apply in_app_or in H as [H|H]; [exact (Hna H)|exact (Hnr H)].
    + rewrite map_app. apply NoDup_app_intro; [exact Hn1|exact Hn2'|]. intros y Hy1 Hy2. apply (Hd y Hy1). right. exact Hy2.
Qed.

Theorem spdx_hashes_roundtrip hs : spdx_hash_class hs -> kvsort (hashes_of (checksums_of hs)) = hs.
Proof.
  intros [Hs Hc]. unfold hashes_of.
  assert (Hn : NoDup (map fst ([] ++ hs))) by (cbn; apply ksorted_NoDup; exact Hs).
  transitivity (kvsort (rev hs ++ [])); [f_equal; exact (spdx_hashes_fold hs [] Hc Hn)|].
  rewrite app_nil_r. apply kvsort_unique; [exact Hs|apply Permutation_sym, Permutation_rev].
Qed.

Theorem spdx_package_hashes parse_time fmt_time n : spdx_hash_class (n_hashes n) ->
  n_hashes (pkg_to_node parse_time (node_to_pkg fmt_time n)) = n_hashes n.
Proof. intros H. unfold pkg_to_node, node_to_pkg; cbn [n_hashes sp_checksums]. apply spdx_hashes_roundtrip. exact H. Qed.

Theorem spdx_file_hashes n : spdx_hash_class (n_hashes n) ->
  n_hashes (file_to_node (node_to_file n)) = n_hashes n.
Proof. intros H. unfold file_to_node, node_to_file; cbn [n_hashes sf_checksums]. apply spdx_hashes_roundtrip. exact H. Qed.

(* ---- per package: external references and identifiers survive the round trip (C01) ---------------- *)
Definition spdx_extref_class (x : extref) : Prop :=
  x_url x <> "" /\ x_authority x = "" /\ x_hashes x = [] /\ spdx_extref_rt (x_type x) = x_type x /\ 0 <= x_type x.

Definition ident_kind_ok (k : Z) : bool :=
  let '(ty, isid, bad) := extref_enum (zlook ident_to_spdx2_category_tab ident_to_spdx2_category_default k)
                                      (zlook ident_to_spdx2_type_tab ident_to_spdx2_type_default k) in
  (isid && negb bad && Z.eqb (slook spdx_ident_type_tab 0 (zlook ident_to_spdx2_type_tab ident_to_spdx2_type_default k)) k
   && negb (Z.eqb k 0))%bool.

Definition spdx_ident_class (ids_ : list (Z * string)) : Prop :=
  ksorted ids_ /\ forall kv, In kv ids_ -> ident_kind_ok (fst kv) = true.

Lemma four_identifier_kinds : forallb ident_kind_ok
  [SoftwareIdentifierType_PURL; SoftwareIdentifierType_CPE22; SoftwareIdentifierType_CPE23; SoftwareIdentifierType_GITOID] = true.
Proof. vm_compute. reflexivity. Qed.

Section PkgRefs.
  Variable parse_time : string -> option ts.
  Variable fmt_time : ts -> string.

  Let xr_of_extref (x : extref) : sref :=
    {| xr_category := zlook extref_to_spdx_cat_tab extref_to_spdx_cat_default (x_type x);
       xr_type := zlook extref_to_spdx_type_tab extref_to_spdx_type_default (x_type x);
       xr_locator := x_url x; xr_comment := x_comment x |}.
  Let xr_of_ident (kv : Z * string) : sref :=
    {| xr_category := zlook ident_to_spdx2_category_tab ident_to_spdx2_category_default (fst kv);
       xr_type := zlook ident_to_spdx2_type_tab ident_to_spdx2_type_default (fst kv);
       xr_locator := snd kv; xr_comment := "" |}.

  Lemma pkg_extrefs_shape n : Forall spdx_extref_class (n_external_references n) ->
    sp_extrefs (node_to_pkg fmt_time n) = map xr_of_extref (n_external_references n) ++ map xr_of_ident (n_identifiers n).
  Proof.
    intros H. cbn [node_to_pkg sp_extrefs]. f_equal.
    induction (n_external_references n) as [|x r IH]; [reflexivity|]. inversion H as [|? ? Hx Hr]; subst.
    cbn [flat_map map]. destruct Hx as [Hu _]. apply String.eqb_neq in Hu. rewrite Hu. cbn [app]. f_equal. exact (IH Hr).
  Qed.

  Lemma enum_of_extref x : spdx_extref_class x ->
    exists isid bad, extref_enum (xr_category (xr_of_extref x)) (xr_type (xr_of_extref x)) = (x_type x, isid, bad) /\ (bad || isid)%bool = false.
  Proof.
    intros [_ [_ [_ [Hrt Hpos]]]]. unfold spdx_extref_rt in Hrt. cbn [xr_of_extref xr_category xr_type].
    destruct (extref_enum _ _) as [[ty isid] bad]. destruct (isid || bad)%bool eqn:E; [lia|].
    exists isid, bad. subst ty. split; [reflexivity|]. rewrite orb_comm. exact E.
  Qed.

  Lemma enum_of_ident kv : ident_kind_ok (fst kv) = true ->
    exists ty, extref_enum (xr_category (xr_of_ident kv)) (xr_type (xr_of_ident kv)) = (ty, true, false) /\
               slook spdx_ident_type_tab 0 (xr_type (xr_of_ident kv)) = fst kv /\ fst kv <> 0.
  Proof.
    unfold ident_kind_ok. cbn [xr_of_ident xr_category xr_type]. destruct (extref_enum _ _) as [[ty isid] bad].
    intros H. apply andb_true_iff in H as [H H4]. apply andb_true_iff in H as [H H3]. apply andb_true_iff in H as [H1 H2].
    apply negb_true_iff in H2. apply Z.eqb_eq in H3. apply negb_true_iff, Z.eqb_neq in H4. subst. exists ty. auto.
  Qed.

  Theorem spdx_package_external_references n :
    Forall spdx_extref_class (n_external_references n) -> spdx_ident_class (n_identifiers n) ->
    n_external_references (pkg_to_node parse_time (node_to_pkg fmt_time n)) = n_external_references n.
  Proof.
    intros Hx [_ Hi]. unfold pkg_to_node. cbn [n_external_references]. rewrite (pkg_extrefs_shape n Hx).
    rewrite map_app, flat_map_app.
    assert (E1 : flat_map (fun rt : sref * (Z * bool * bool) => let '(r, (ty, isid, bad)) := rt in
                             if (bad || isid)%bool then []
                             else [ {| x_url := xr_locator r; x_comment := xr_comment r; x_authority := ""; x_hashes := []; x_type := ty |} ])
                          (map (fun r => (r, extref_enum (xr_category r) (xr_type r))) (map xr_of_extref (n_external_references n)))
                 = n_external_references n).
    { induction (n_external_references n) as [|x r IH]; [reflexivity|]. inversion Hx as [|? ? Hc Hr]; subst.
      cbn [map flat_map]. destruct (enum_of_extref x Hc) as [isid [bad [E Eb]]]. rewrite E, Eb. cbn [app]. rewrite (IH Hr).
      destruct Hc as [_ [Ha [Hh _]]]. destruct x as [u c a hs t]. cbn in *. subst. reflexivity. }
    assert (E2 : flat_map (fun rt : sref * (Z * bool * bool) => let '(r, (ty, isid, bad)) := rt in
                             if (bad || isid)%bool then []
                             else [ {| x_url := xr_locator r; x_comment := xr_comment r; x_authority := ""; x_hashes := []; x_type := ty |} ])
                          (map (fun r => (r, extref_enum (xr_category r) (xr_type r))) (map xr_of_ident (n_identifiers n)))
                 = []).
    { induction (n_identifiers n) as [|kv r IH]; [reflexivity|]. cbn [map flat_map].
      destruct (enum_of_ident kv (Hi kv (or_introl eq_refl))) as [ty [E _]]. rewrite E. cbn [orb app].
      apply IH. intros kv' H. apply Hi. right. exact H. }
    rewrite E1, E2, app_nil_r. reflexivity.
  Qed.

  Theorem spdx_package_identifiers n :
    Forall spdx_extref_class (n_external_references n) -> spdx_ident_class (n_identifiers n) ->
    n_identifiers (pkg_to_node parse_time (node_to_pkg fmt_time n)) = n_identifiers n.
  Proof.
    intros Hx [Hs Hi]. unfold pkg_to_node. cbn [n_identifiers]. rewrite (pkg_extrefs_shape n Hx).
    rewrite map_app, fold_left_app.
    set (step := fun (acc : list (Z * string)) (rt : sref * (Z * bool * bool)) =>
                   let '(r, (ty, isid, bad)) := rt in
                   if (negb bad && isid)%bool then
                     let it := slook spdx_ident_type_tab 0 (xr_type r) in
                     if Z.eqb it 0 then acc else (it, xr_locator r) :: filter (fun kv => negb (Z.eqb (fst kv) it)) acc
                   else acc).
    assert (E1 : forall acc, fold_left step (map (fun r => (r, extref_enum (xr_category r) (xr_type r))) (map xr_of_extref (n_external_references n))) acc = acc).
    { induction (n_external_references n) as [|x r IH]; intros acc; [reflexivity|]. inversion Hx as [|? ? Hc Hr]; subst.
      cbn [map fold_left]. destruct (enum_of_extref x Hc) as [isid [bad [E Eb]]]. unfold step at 2. rewrite E.
      apply orb_false_iff in Eb as [-> ->]. cbn [negb andb]. exact (IH Hr acc). }
    rewrite E1.
    assert (E2 : forall ids_ acc, (forall kv, In kv ids_ -> ident_kind_ok (fst kv) = true) -> NoDup (map fst (acc ++ ids_)) ->
              fold_left step (map (fun r => (r, extref_enum (xr_category r) (xr_type r))) (map xr_of_ident ids_)) acc = rev ids_ ++ acc).
    { induction ids_ as [|[k v] r IH]; intros acc Hk Hn; [reflexivity|]. cbn [map fold_left].
      destruct (enum_of_ident (k, v) (Hk (k, v) (or_introl eq_refl))) as [ty [E [Ek Hne]]]. cbn [fst] in *.
      unfold step at 2. rewrite E. cbn [negb andb]. rewrite Ek. apply Z.eqb_neq in Hne. rewrite Hne.
      cbn [xr_of_ident xr_locator snd].
      rewrite map_app in Hn. cbn [map fst] in Hn.
      assert (Hna : ~ In k (map fst acc)).
      { intros H. apply NoDup_app_inv in Hn as [_ [_ Hd]]. apply (Hd k H). left. reflexivity. }
      assert (Hf : filter (fun kv : Z * string => negb (Z.eqb (fst kv) k)) acc = acc).
      { apply filter_all_true. intros kv Hkv. apply negb_true_iff, Z.eqb_neq. intros Eq. apply Hna. apply in_map_iff. exists kv. auto. }
      rewrite Hf, IH.
      - cbn [rev]. rewrite <- app_assoc. reflexivity.
      - intros kv H. apply Hk. right. exact H.
      - cbn [app map fst]. apply NoDup_app_inv in Hn as [Hn1 [Hn2 Hd]]. inversion Hn2 as [|? ? Hnr Hn2']; subst.
        constructor.
        + rewrite map_app. intros H. apply in_app_or in H as [H|H]; [exact (Hna H)|exact (Hnr H)].
        + rewrite map_app. apply NoDup_app_intro; [exact Hn1|exact Hn2'|]. intros y Hy1 Hy2. apply (Hd y Hy1). right. exact Hy2. }
    rewrite (E2 (n_identifiers n) [] Hi); [|cbn; apply ksorted_NoDup; exact Hs].
    rewrite app_nil_r. apply kvsort_unique; [exact Hs|apply Permutation_sym, Permutation_rev].
  Qed.
End PkgRefs.

(* ---- identity attributes of every node survive writing and reading (C03) --------------------------- *)
Theorem spdx_identity parse_time fmt_time n :
  let p := pkg_to_node parse_time (node_to_pkg fmt_time n) in
  let f := file_to_node (node_to_file n) in
  (n_id p = n_id n /\ n_name p = n_name n /\ n_version p = n_version n) /\ (n_id f = n_id n /\ n_name f = n_name n).
Proof. cbn. repeat split; reflexivity. Qed.
