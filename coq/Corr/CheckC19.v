(* Correspondence evaluator for the file-system store (C19, C20).  The abstract parameters of
   Model/Store.v are instantiated: documents are integer tokens, a token's encoding is its decimal
   spelling, the empty file decodes to token 0 (a document without metadata), "garbage" does not
   decode, and entry names are the identifiers themselves (any injective naming will do here; the
   real naming is checked by the harness). *)
From Verif Require Import Model.Base Model.Store Corr.Canon.
Open Scope list_scope.

Inductive op19 :=
  | PStore (tok : option Z) (nc : bool)
  | PRetrieve (i : string)
  | PFault (i : string) (content : string) (readable : bool)   (* the harness damages / plants an entry *)
  | PRemove (i : string)
  | PWipe                                                      (* the harness removes the whole directory *)
  | PLitter.                                                   (* files that are not entries appear in the directory: no effect *)

Record case19 := mk_case19 {
  k_ids : list (Z * option string);   (* token -> Metadata.Id (None: no metadata) *)
  k_init : Z;                         (* 0 absent and creatable, 1 absent not creatable, 2 not a directory,
                                         3 empty usable directory, 4 existing directory unusable by the caller *)
  k_ops : list op19;
  k_outs : list (Z * Z) }.            (* per op: (0 ok | 1 error, retrieved token or 0) *)

Section Inst.
  Variable ids : list (Z * option string).
  Definition doc_id (z : Z) : option string := match zassoc z ids with Some o => o | None => None end.
  Definition marshal (z : Z) : string := dec z.
  Definition unmarshal (s : string) : option Z :=
    if String.eqb s "" then Some 0
    else sassoc s (map (fun kv => (dec (fst kv), fst kv)) ids).
  Definition fname (i : string) : string := i.

  Definition init_of (z : Z) : dirstate :=
    if Z.eqb z 0 then DAbsent true else if Z.eqb z 1 then DAbsent false
    else if Z.eqb z 2 then DNotDir else if Z.eqb z 3 then DDir true [] else DDir false [].

  Definition step19 (s : dirstate) (o : op19) : (Z * Z) * dirstate :=
    match o with
    | PStore tok nc =>
        let '(r, s') := store Z doc_id marshal fname s tok nc in
        ((match r with Ok _ => 0 | _ => 1 end, 0), s')
    | PRetrieve i =>
        (match retrieve Z doc_id unmarshal fname s true i with Ok z => (0, z) | _ => (1, 0) end, s)
    | PFault i content readable =>
        ((0, 0), match s with DDir u fs => DDir u (put (fname i) (mk_file content readable) fs) | x => x end)
    | PRemove i =>
        ((0, 0), match s with
                 | DDir u fs => DDir u (filter (fun kv => negb (String.eqb (fst kv) (fname i))) fs)
                 | x => x end)
    | PWipe => ((0, 0), match s with DDir _ _ => DAbsent true | x => x end)
    | PLitter => ((0, 0), s)
    end.

  Fixpoint run19 (s : dirstate) (os : list op19) : list (Z * Z) :=
    match os with
    | [] => []
    | o :: r => let '(x, s') := step19 s o in x :: run19 s' r
    end.
End Inst.

Definition zz_eqb (a b : Z * Z) : bool := Z.eqb (fst a) (fst b) && Z.eqb (snd a) (snd b).

Definition case_ok (c : case19) : bool :=
  list_eqb zz_eqb (run19 (k_ids c) (init_of (k_init c)) (k_ops c)) (k_outs c).

Definition mismatches (cs : list case19) : list nat := failing case_ok cs.
