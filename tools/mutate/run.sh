#!/bin/bash
# usage: run.sh <stream-id> <jobs-file>   jobs-file lines: "<repo-relative file> <k>"
# Each stream owns /tmp/mut<id>/{repo,verif}; results appended to /verif/work/mutation/results_<id>.tsv
id=$1; jobs=$2
R=/tmp/mut$id/repo; V=/tmp/mut$id/verif
export GOFLAGS=-mod=mod GOPROXY=off GOSUMDB=off GOTOOLCHAIN=local VERIF_REPO=$R VERIF_SKIP_COQCHK=1
mapchecks() {
  case "$1" in
    pkg/sbom/nodelist.go) echo "C08 C09 C10 C15 C16 C13 C11 C12";;
    pkg/sbom/node.go) echo "C13 C09 C12 C14 C16 C11 C01";;
    pkg/sbom/edge.go) echo "C13 C12 C08 C09";;
    pkg/sbom/person.go|pkg/sbom/externalreference.go) echo "C13 C12 C14 C01 C02";;
    pkg/sbom/diff.go) echo "C14";;
    pkg/sbom/functions.go|pkg/sbom/identifier.go|pkg/sbom/hashalgorithm.go) echo "C05 C16 C01 C02";;
    pkg/native/serializers/serializer_cdx.go) echo "C02 C03 C07 C11";;
    pkg/native/serializers/serializer_spdx23.go) echo "C01 C03 C07 C11";;
    pkg/native/unserializers/unserializer_cdx.go) echo "C02 C05 C04";;
    pkg/native/unserializers/unserializer_spdx23.go) echo "C01 C05 C04";;
    pkg/formats/sniffer.go) echo "C06 C17 C04";;
    pkg/reader/*) echo "C18 C17 C05";;
    pkg/writer/*) echo "C18 C17 C07";;
    pkg/storage/filesystem.go) echo "C19 C20";;
  esac
}
mkdir -p /verif/work/mutation
while read f k; do
  [ -z "$f" ] && continue
  cp /repo/$f /tmp/mut$id/orig.go
  desc=$(/verif/tools/mutate/mutate -file /repo/$f -k $k -out $R/$f 2>&1) || { echo -e "$f\t$k\tnosite\t-\t$desc" >> /verif/work/mutation/results2_$id.tsv; cp /tmp/mut$id/orig.go $R/$f; continue; }
  if ! (cd $R && go build ./... >/dev/null 2>&1 && go vet -tags verif ./pkg/... >/dev/null 2>&1 || cd $R && go build -tags verif ./... > /dev/null 2>&1); then
    echo -e "$f\t$k\tuncompilable\t-\t$desc" >> /verif/work/mutation/results2_$id.tsv; cp /tmp/mut$id/orig.go $R/$f; continue
  fi
  verdict=survived; by=-
  for c in $(mapchecks $f); do
    out=$(cd $V && timeout 900 bin/check $c 2>&1); rc=$?
    if [ $rc -ne 0 ]; then
      verdict=killed; by=$c
      if echo "$out" | grep "VIOLATION" | grep -qv "no-failing-input-found"; then by="$c(input)"; else by="$c(no-input)"; fi
      break
    fi
  done
  echo -e "$f\t$k\t$verdict\t$by\t$desc" >> /verif/work/mutation/results2_$id.tsv
  cp /tmp/mut$id/orig.go $R/$f
done < $jobs
echo "STREAM $id DONE" >> /verif/work/mutation/results2_$id.tsv
