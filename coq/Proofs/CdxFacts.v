(* Facts about the CycloneDX translation model (Model/Cdx.v). *)
From Coq Require Import Lia Permutation.
From Verif Require Import Model.Base Model.Node Model.Graph Model.Match Model.Flat Model.Spdx Model.Cdx Gen.Tables
  Proofs.ListFacts Proofs.GraphFacts Proofs.OpsWf Proofs.SetLaws Proofs.RelateFacts.
Open Scope list_scope.

(* ---- induction over nested components ------------------------------------------------------------ *)
Section CompInd.
  Variable P : comp -> Prop.
  Hypothesis step : forall c, Forall P (c_sub c) -> P c.
  Fixpoint comp_ind' (c : comp) : P c :=
    match c as c0 return P c0 with
    | mk_comp r t n v d cp l h x p cpe s sub =>
        step (mk_comp r t n v d cp l h x p cpe s sub)
             ((fix go (l : list comp) : Forall P l :=
                 match l with
                 | [] => Forall_nil P
                 | y :: q => Forall_cons y (comp_ind' y) (go q)
                 end) sub)
    end.
End CompInd.

(* ---- the unserializer builds well-formed graphs (C05) -------------------------------------------- *)
Lemma empty_wf : wf empty_nl.
Proof. split; [constructor|split]; [intros e []|intros x []]. Qed.

Lemma single_wf n : wf {| nl_nodes := [n]; nl_edges := []; nl_root_elements := [n_id n] |}.
Proof.
  split; [|split].
  - unfold ids; simpl. constructor; [intros []|constructor].
  - intros e [].
  - unfold ids; simpl. intros x Hx. exact Hx.
Qed.

Lemma relate_list_ok l l2 a t : has l a = true -> exists l', relate_list_at l l2 a t = Ok l' /\
  nl_root_elements l' = nl_root_elements l /\ (forall i, In i (ids l) -> In i (ids l')).
Proof.
  intros Ha. unfold relate_list_at. rewrite Ha. simpl. eexists. split; [reflexivity|]. split; [reflexivity|].
  intros i Hi. unfold ids; simpl. rewrite map_app. apply in_or_app. left. exact Hi.
Qed.

Definition frag_ok (rid : string) (nl : nodelist) : Prop :=
  wf nl /\ nl_root_elements nl = [rid] /\ In rid (ids nl).

Lemma comp_to_nl_ok : forall c cc, frag_ok (n_id (comp_to_node c (cc + 1))) (fst (comp_to_nl c cc)).
Proof.
  induction c as [c IH] using comp_ind'. intros cc.
  destruct c as [r t n v d cp l h x p cpe s sub]. cbn [comp_to_nl c_sub].
  set (nd := comp_to_node _ (cc + 1)). cbn [c_sub] in IH.
  set (nl0 := {| nl_nodes := [nd]; nl_edges := []; nl_root_elements := [n_id nd] |}).
  assert (H0 : frag_ok (n_id nd) nl0).
  { split; [apply single_wf|]. split; [reflexivity|]. unfold ids; simpl. left. reflexivity. }
  generalize (cc + 1) as k. revert H0. generalize nl0 as nl. clear nl0.
  induction sub as [|s1 rest IHs]; intros nl H0 k; cbn [fold_left fst]; [exact H0|].
  inversion IH as [|? ? Hs1 Hrest]; subst.
  destruct (comp_to_nl s1 k) as [snl k'] eqn:E.
  apply IHs; [exact Hrest|].
  destruct H0 as [Hwf [Hroot Hin]].
  assert (Hhas : has nl (n_id nd) = true) by (apply mem_In; exact Hin).
  destruct (relate_list_ok nl snl (n_id nd) Edge_Type_contains Hhas) as [l' [El' [Hr' Hids']]].
  rewrite El'. cbn [or_keep].
  split; [|split].
  - eapply relate_list_wf; [exact Hwf| |exact El'].
    specialize (Hs1 k). rewrite E in Hs1. exact (proj1 Hs1).
  - rewrite Hr'. exact Hroot.
  - apply Hids'. exact Hin.
Qed.

Theorem cdx_unser_wf b : wf (cdx_unser_nl b).
Proof.
  unfold cdx_unser_nl.
  set (st0 := match (if b_has_metadata b then b_meta_comp b else None) with
              | Some mc => let '(nl, k) := comp_to_nl mc 0 in (add empty_nl nl, k)
              | None => (empty_nl, 0)
              end).
  assert (H0 : wf (fst st0)).
  { unfold st0. destruct (if b_has_metadata b then b_meta_comp b else None) as [mc|]; [|exact empty_wf].
    pose proof (comp_to_nl_ok mc 0) as H. destruct (comp_to_nl mc 0) as [nl k]. cbn [fst] in *.
    apply add_wf; [exact empty_wf|exact (proj1 H)]. }
  revert H0. generalize st0 as st. generalize (b_components b) as cs.
  induction cs as [|c rest IH]; intros st H0; cbn [fold_left]; [exact H0|].
  apply IH. destruct st as [doc k]. cbn [fst] in H0.
  pose proof (comp_to_nl_ok c k) as H. destruct (comp_to_nl c k) as [nl k']. cbn [fst] in *.
  destruct (nl_root_elements doc) as [|r rr] eqn:Er.
  - apply add_wf; [exact H0|exact (proj1 H)].
  - assert (Hhas : has doc r = true).
    { apply mem_In. destruct H0 as [_ [_ Hr]]. apply Hr. rewrite Er. left. reflexivity. }
    destruct (relate_list_ok doc nl r Edge_Type_contains Hhas) as [l' [El' _]].
    rewrite El'. cbn [or_keep]. eapply relate_list_wf; [exact H0|exact (proj1 H)|exact El'].
Qed.

(* ---- identifiers of parsed nodes are never empty --------------------------------------------------- *)
Lemma comp_node_id_nonempty c cc : n_id (comp_to_node c cc) <> "".
Proof.
  unfold comp_to_node; cbn [n_id]. destruct (String.eqb (c_ref c) "") eqn:E.
  - unfold auto_id. discriminate.
  - apply String.eqb_neq in E. exact E.
Qed.

Lemma relate_list_ids l l2 a t l' i :
  relate_list_at l l2 a t = Ok l' -> In i (ids l') -> In i (ids l) \/ In i (ids l2).
Proof.
  unfold relate_list_at. destruct (negb (has l a)); [discriminate|]. intros H. injection H as <-.
  unfold ids; cbn [nl_nodes]. rewrite map_app. intros Hi. apply in_app_or in Hi as [Hi|Hi]; [left; exact Hi|right].
  apply in_map_iff in Hi as [n [<- Hn]]. apply filter_In in Hn as [Hn _]. apply in_map. exact Hn.
Qed.

Lemma add_ids_sub l l2 i : In i (ids (add l l2)) -> In i (ids l) \/ In i (ids l2).
Proof.
  unfold add, ids; cbn [nl_nodes]. fold (ids l). rewrite merge_nodes_ids by (intros a b; apply augment_id). intros Hi.
  apply in_app_or in Hi as [Hi|Hi]; [left; exact Hi|right]. apply filter_In in Hi as [Hi _]. exact Hi.
Qed.

Lemma comp_to_nl_ids (P : string -> Prop) :
  (forall c cc, P (n_id (comp_to_node c cc))) ->
  forall c cc i, In i (ids (fst (comp_to_nl c cc))) -> P i.
Proof.
  intros HP. induction c as [c IH] using comp_ind'. intros cc.
  destruct c as [r t n v d cp l h x p cpe s sub]. cbn [comp_to_nl c_sub]. cbn [c_sub] in IH.
  set (nd := comp_to_node _ (cc + 1)).
  set (nl0 := {| nl_nodes := [nd]; nl_edges := []; nl_root_elements := [n_id nd] |}).
  assert (H0 : forall i, In i (ids nl0) -> P i).
  { unfold nl0, ids; cbn [nl_nodes map]. intros i [<-|[]]. unfold nd. apply HP. }
  generalize (cc + 1) as k. revert H0. generalize nl0 as nl. clear nl0.
  induction sub as [|s1 rest IHs]; intros nl H0 k; cbn [fold_left fst]; [exact H0|].
  inversion IH as [|? ? Hs1 Hrest]; subst.
  destruct (comp_to_nl s1 k) as [snl k'] eqn:E.
  apply IHs; [exact Hrest|].
  destruct (relate_list_at nl snl (n_id nd) Edge_Type_contains) as [l'| | |] eqn:El'; cbn [or_keep]; try exact H0.
  intros i Hi. destruct (relate_list_ids _ _ _ _ _ _ El' Hi) as [Hi'|Hi']; [apply H0; exact Hi'|].
  specialize (Hs1 k i). rewrite E in Hs1. apply Hs1. exact Hi'.
Qed.

Theorem cdx_unser_ids (P : string -> Prop) b :
  (forall c cc, P (n_id (comp_to_node c cc))) -> forall i, In i (ids (cdx_unser_nl b)) -> P i.
Proof.
  intros HP. unfold cdx_unser_nl.
  set (st0 := match (if b_has_metadata b then b_meta_comp b else None) with
              | Some mc => let '(nl, k) := comp_to_nl mc 0 in (add empty_nl nl, k)
              | None => (empty_nl, 0)
              end).
  assert (H0 : forall i, In i (ids (fst st0)) -> P i).
  { unfold st0. destruct (if b_has_metadata b then b_meta_comp b else None) as [mc|]; [|intros i []].
    pose proof (comp_to_nl_ids P HP mc 0) as H. destruct (comp_to_nl mc 0) as [nl k]. cbn [fst] in *.
    intros i Hi. apply add_ids_sub in Hi as [[]|Hi]. apply H. exact Hi. }
  revert H0. generalize st0 as st. generalize (b_components b) as cs.
  induction cs as [|c rest IH]; intros st H0; cbn [fold_left]; [exact H0|].
  apply IH. destruct st as [doc k]. cbn [fst] in H0.
  pose proof (comp_to_nl_ids P HP c k) as H. destruct (comp_to_nl c k) as [nl k']. cbn [fst] in *.
  destruct (nl_root_elements doc) as [|r rr].
  - intros i Hi. apply add_ids_sub in Hi as [Hi|Hi]; [apply H0|apply H]; exact Hi.
  - destruct (relate_list_at doc nl r Edge_Type_contains) as [l'| | |] eqn:El'; cbn [or_keep]; try exact H0.
    intros i Hi. destruct (relate_list_ids _ _ _ _ _ _ El' Hi) as [Hi'|Hi']; [apply H0|apply H]; exact Hi'.
Qed.

Theorem cdx_unser_ids_nonempty b i : In i (ids (cdx_unser_nl b)) -> i <> "".
Proof. apply (cdx_unser_ids (fun i => i <> "")). apply comp_node_id_nonempty. Qed.

(* ---- the serializer's component forest: every node exactly once (C03) -------------------------- *)
Fixpoint refs (c : comp) : list string := c_ref c :: flat_map refs (c_sub c).

Lemma refs_set_sub c subs : refs (set_sub c subs) = c_ref c :: flat_map refs subs.
Proof. destruct c; reflexivity. Qed.

Lemma flat_map_app' {A B} (f : A -> list B) l1 l2 : flat_map f (l1 ++ l2) = flat_map f l1 ++ flat_map f l2.
Proof. induction l1 as [|x r IH]; simpl; [reflexivity|]. rewrite IH, app_assoc. reflexivity. Qed.

Section Build.
  Variables (cd : string -> comp) (ch : string -> list string) (Q : string -> Prop).
  Hypothesis Hcd : forall x, Q x -> c_ref (cd x) = x /\ c_sub (cd x) = [].
  Hypothesis Hch : forall x y, In y (ch x) -> Q y.

  Lemma refs_cd x : Q x -> refs (cd x) = [x].
  Proof.
    intros Hx. destruct (Hcd x Hx) as [H1 H2]. destruct (cd x) as [r t n v d cp l h xr p cpe s sub].
    cbn [c_ref c_sub] in *. subst. reflexivity.
  Qed.

  (* what one call places: itself and its nest, nothing twice, nothing that was placed before *)
  Definition build_post (placed : list string) (i : string) (r : comp * list string) : Prop :=
    exists new, snd r = new ++ placed /\ Permutation new (refs (fst r)) /\ NoDup (snd r) /\
                In i new /\ (forall x, In x new -> Q x).

  Lemma build_spec : forall fuel placed i, Q i -> ~ In i placed -> NoDup placed ->
    build_post placed i (build fuel cd ch placed i).
  Proof.
    induction fuel as [|f IH]; intros placed i Hi Hni Hnd.
    - cbn [build]. exists [i]. cbn [fst snd app]. rewrite (refs_cd i Hi).
      repeat split; [apply Permutation_refl|constructor; assumption|left; reflexivity|].
      intros x [<-|[]]. exact Hi.
    - cbn [build].
      set (inv := fun st : list comp * list string =>
                    exists new, snd st = new ++ placed /\ Permutation new (i :: flat_map refs (fst st)) /\ NoDup (snd st) /\
                                In i new /\ (forall x, In x new -> Q x)).
      assert (Hfold : forall cs st, (forall c, In c cs -> Q c) -> inv st ->
                inv (fold_left (build_step (build f cd ch)) cs st)).
      { induction cs as [|c rest IHc]; intros st Hcs Hinv; cbn [fold_left]; [exact Hinv|].
        apply IHc; [intros c' Hc'; apply Hcs; right; exact Hc'|].
        destruct st as [acc pl]. unfold build_step. destruct (mem c pl) eqn:Em; [exact Hinv|].
        destruct Hinv as [new [Epl [Hp [Hnd' [Hin HQ]]]]]. cbn [fst snd] in *. subst pl.
        assert (Hc : Q c) by (apply Hcs; left; reflexivity).
        apply mem_false in Em.
        destruct (IH (new ++ placed) c Hc Em Hnd') as [newc [E1 [E2 [E3 [E4 E5]]]]].
        destruct (build f cd ch (new ++ placed) c) as [sc pl']. cbn [fst snd] in *.
        exists (newc ++ new). cbn [fst snd]. subst pl'. rewrite app_assoc. split; [reflexivity|].
        split; [|split; [rewrite <- app_assoc; exact E3|split]].
        - rewrite flat_map_app'. cbn [flat_map]. rewrite app_nil_r.
          apply Permutation_trans with (l' := refs sc ++ (i :: flat_map refs acc)).
          + apply Permutation_app; assumption.
          + rewrite app_comm_cons. apply Permutation_app_comm.
        - apply in_or_app. right. exact Hin.
        - intros x Hx. apply in_app_or in Hx as [Hx|Hx]; [apply E5|apply HQ]; exact Hx. }
      specialize (Hfold (ch i) ([], i :: placed) (Hch i)).
      assert (H0 : inv ([], i :: placed)).
      { exists [i]. cbn [fst snd flat_map app]. repeat split; [apply Permutation_refl|constructor; assumption|left; reflexivity|].
        intros x [<-|[]]. exact Hi. }
      specialize (Hfold H0). unfold inv in Hfold.
      destruct (fold_left (build_step (build f cd ch)) (ch i) ([], i :: placed)) as [subs placed'].
      cbn [fst snd] in Hfold.
      destruct Hfold as [new [E1 [E2 [E3 [E4 E5]]]]].
      exists new. cbn [fst snd]. split; [exact E1|]. split; [|split; [exact E3|split; [exact E4|exact E5]]].
      destruct (Hcd i Hi) as [Hr Hs].
      destruct subs as [|s1 sr].
      + rewrite (refs_cd i Hi). exact E2.
      + rewrite refs_set_sub, Hr. exact E2.
  Qed.
End Build.

Section Assemble.
  Variables (fuel : nat) (order : list string) (root : string) (cd : string -> comp) (par : list (string * string)).
  Hypothesis Hnd : NoDup order.
  Hypothesis Hcd : forall x, In x order -> c_ref (cd x) = x /\ c_sub (cd x) = [].
  Hypothesis Hpar : forall x p, In (x, p) par -> In x order /\ x <> root.

  Definition Qa (x : string) : Prop := In x order /\ x <> root.

  Lemma children_Q x y : In y (children_of par x) -> Qa y.
  Proof.
    unfold children_of. intros H. apply in_map_iff in H as [[y' p] [<- H]]. apply filter_In in H as [H _].
    exact (Hpar _ _ H).
  Qed.

  Definition top_inv (st : list comp * list string) : Prop :=
    Permutation (snd st) (flat_map refs (fst st)) /\ NoDup (snd st) /\ forall x, In x (snd st) -> Qa x.

  Lemma top_step_inv b st i : In i order -> top_inv st ->
    let st' := top_step fuel root cd par b st i in
    top_inv st' /\ incl (snd st) (snd st') /\ (b = false -> i <> root -> In i (snd st')).
  Proof.
    intros Hi [Hp [Hn HQ]]. destruct st as [acc pl]. cbn [fst snd] in *. unfold top_step.
    destruct (String.eqb i root) eqn:Er.
    - cbn [orb]. cbn [fst snd]. split; [split; [exact Hp|split; [exact Hn|exact HQ]]|]. split; [apply incl_refl|].
      intros _ Hne. apply String.eqb_eq in Er. contradiction.
    - cbn [orb]. destruct (mem i pl) eqn:Em.
      + cbn [fst snd]. split; [split; [exact Hp|split; [exact Hn|exact HQ]]|]. split; [apply incl_refl|].
        intros _ _. apply mem_In. exact Em.
      + destruct (b && match sassoc i par with Some p => negb (String.eqb p root) | None => false end)%bool eqn:Eb.
        * cbn [fst snd]. split; [split; [exact Hp|split; [exact Hn|exact HQ]]|]. split; [apply incl_refl|].
          intros -> _. discriminate.
        * apply String.eqb_neq in Er. apply mem_false in Em.
          assert (HQi : Qa i) by (split; assumption).
          destruct (build_spec cd (children_of par) Qa (fun x Hx => Hcd x (proj1 Hx)) children_Q fuel pl i HQi Em Hn)
            as [new [E1 [E2 [E3 [E4 E5]]]]].
          destruct (build fuel cd (children_of par) pl i) as [c pl']. cbn [fst snd] in *. subst pl'.
          unfold top_inv; cbn [fst snd].
          split; [split; [|split; [exact E3|]]|split].
          -- rewrite flat_map_app'. cbn [flat_map]. rewrite app_nil_r.
             apply Permutation_trans with (l' := refs c ++ flat_map refs acc); [apply Permutation_app; assumption|].
             apply Permutation_app_comm.
          -- intros x Hx. apply in_app_or in Hx as [Hx|Hx]; [apply E5|apply HQ]; exact Hx.
          -- intros x Hx. apply in_or_app. right. exact Hx.
          -- intros _ _. apply in_or_app. left. exact E4.
  Qed.

  Lemma top_fold_inv b : forall l st, incl l order -> top_inv st ->
    let st' := fold_left (top_step fuel root cd par b) l st in
    top_inv st' /\ incl (snd st) (snd st') /\ (b = false -> forall i, In i l -> i <> root -> In i (snd st')).
  Proof.
    induction l as [|i r IH]; intros st Hl Hinv; cbn [fold_left].
    - split; [exact Hinv|]. split; [apply incl_refl|]. intros _ i [].
    - destruct (top_step_inv b st i (Hl i (or_introl eq_refl)) Hinv) as [H1 [H2 H3]].
      destruct (IH (top_step fuel root cd par b st i) (fun x Hx => Hl x (or_intror Hx)) H1) as [G1 [G2 G3]].
      split; [exact G1|]. split; [intros x Hx; apply G2, H2; exact Hx|].
      intros Hb j [<-|Hj] Hne; [apply G2, H3; assumption|apply G3; assumption].
  Qed.

  (* every node other than the root is emitted exactly once, for any fuel *)
  Theorem assemble_exactly_once :
    Permutation (flat_map refs (assemble_with fuel order root cd par)) (filter (fun i => negb (String.eqb i root)) order).
  Proof.
    unfold assemble_with.
    assert (H0 : top_inv ([], [])).
    { split; [apply Permutation_refl|]. split; [constructor|]. intros x []. }
    destruct (top_fold_inv true order ([], []) (incl_refl _) H0) as [H1 _].
    destruct (top_fold_inv false order _ (incl_refl _) H1) as [[Hp [Hn HQ]] [_ Hall]].
    set (st := fold_left (top_step fuel root cd par false) order _) in *.
    apply Permutation_trans with (l' := snd st); [apply Permutation_sym; exact Hp|].
    apply NoDup_Permutation; [exact Hn|apply NoDup_filter; exact Hnd|].
    intros x. rewrite filter_In. split.
    - intros Hx. destruct (HQ x Hx) as [Ho Hne]. split; [exact Ho|]. apply negb_eqb_true. exact Hne.
    - intros [Ho Hne]. apply negb_eqb_true in Hne. apply (Hall eq_refl); assumption.
  Qed.
End Assemble.

(* ---- the first pass over the edges ------------------------------------------------------------------ *)
Definition par_ok (root : string) (es : list edge) (xp : string * string) : Prop :=
  fst xp <> root /\ fst xp <> snd xp /\
  exists e, In e es /\ e_type e = Edge_Type_contains /\ e_from e = snd xp /\ In (fst xp) (e_to e).

Lemma sassoc_None {A} k (l : list (string * A)) : sassoc k l = None -> ~ In k (map fst l).
Proof.
  induction l as [|[k' v] r IH]; simpl; [intros _ []|].
  destruct (String.eqb k k') eqn:E; [discriminate|]. intros H [Hk|Hk].
  - subst. rewrite String.eqb_refl in E. discriminate.
  - exact (IH H Hk).
Qed.

Lemma record_contains_inv root es e : In e es -> e_type e = Edge_Type_contains ->
  forall tos p, incl tos (e_to e) -> Forall (par_ok root es) p /\ NoDup (map fst p) ->
  let p' := fold_left (fun p x => if (String.eqb x root || String.eqb x (e_from e))%bool then p
                                  else match sassoc x p with Some _ => p | None => p ++ [(x, e_from e)] end) tos p in
  Forall (par_ok root es) p' /\ NoDup (map fst p').
Proof.
  intros He Ht. induction tos as [|x r IH]; intros p Hs Hinv; cbn [fold_left]; [exact Hinv|].
  apply IH; [intros y Hy; apply Hs; right; exact Hy|].
  destruct (String.eqb x root || String.eqb x (e_from e))%bool eqn:E; [exact Hinv|].
  apply orb_false_iff in E as [E1 E2]. apply String.eqb_neq in E1, E2.
  destruct (sassoc x p) eqn:Es; [exact Hinv|].
  destruct Hinv as [Hf Hn]. split.
  - apply Forall_app. split; [exact Hf|]. constructor; [|constructor].
    split; [exact E1|]. split; [exact E2|]. exists e. cbn [fst snd].
    repeat split; try assumption. apply Hs. left. reflexivity.
  - rewrite map_app. cbn [map fst]. apply NoDup_app_intro; [exact Hn|constructor; [intros []|constructor]|].
    intros y Hy [<-|[]]. exact (sassoc_None _ _ Es Hy).
Qed.

Lemma parents_inv root es : Forall (par_ok root es) (parents root es) /\ NoDup (map fst (parents root es)).
Proof.
  unfold parents.
  assert (H : forall es0 p, incl es0 es -> Forall (par_ok root es) p /\ NoDup (map fst p) ->
            let p' := fold_left (fun p e => if Z.eqb (e_type e) Edge_Type_contains then record_contains root p e else p) es0 p in
            Forall (par_ok root es) p' /\ NoDup (map fst p')).
  { induction es0 as [|e r IH]; intros p Hs Hinv; cbn [fold_left]; [exact Hinv|].
    apply IH; [intros y Hy; apply Hs; right; exact Hy|].
    destruct (Z.eqb (e_type e) Edge_Type_contains) eqn:E; [|exact Hinv].
    apply Z.eqb_eq in E. unfold record_contains.
    apply (record_contains_inv root es e (Hs e (or_introl eq_refl)) E (e_to e) p (incl_refl _) Hinv). }
  apply (H es [] (incl_refl _)). split; constructor.
Qed.

Lemma last_comp_ref nodes i : In i (map n_id nodes) -> c_ref (last_comp nodes i) = i /\ c_sub (last_comp nodes i) = [].
Proof.
  intros Hi. unfold last_comp. destruct (last_node_In i nodes Hi) as [n En]. rewrite En.
  destruct (last_node_Some i nodes n En) as [_ Hid]. cbn [node_to_comp c_ref c_sub]. split; [exact Hid|reflexivity].
Qed.

(* the components a successful serialization emits, before generated references are blanked *)
Definition cdx_forest (nl : nodelist) (root : string) : list comp :=
  assemble (first_occurrences (ids nl)) root (last_comp (nl_nodes nl)) (parents root (nl_edges nl)).

Definition contains_closed (nl : nodelist) : Prop :=
  forall e, In e (nl_edges nl) -> e_type e = Edge_Type_contains -> forall x, In x (e_to e) -> In x (ids nl).

Theorem forest_exactly_once nl root : contains_closed nl ->
  Permutation (flat_map refs (cdx_forest nl root)) (filter (fun i => negb (String.eqb i root)) (dedup (ids nl))).
Proof.
  intros Hc. unfold cdx_forest, assemble, first_occurrences.
  apply assemble_exactly_once.
  - apply dedup_NoDup.
  - intros x Hx. apply last_comp_ref. exact (proj1 (dedup_In x _) Hx).
  - intros x p Hxp. destruct (parents_inv root (nl_edges nl)) as [Hf _].
    rewrite Forall_forall in Hf. destruct (Hf _ Hxp) as [H1 [_ [e [He [Ht [_ Hx]]]]]]. cbn [fst snd] in *.
    split; [|exact H1]. apply dedup_In. exact (Hc e He Ht x Hx).
Qed.

(* what a successful serialization is made of *)
Theorem cdx_ser_shape d b : cdx_ser d = Ok b ->
  exists md nl, d_metadata d = Some md /\ d_node_list d = Some nl /\
  ((nl_root_elements nl = [] /\ nl_nodes nl = [] /\ b_components b = [] /\ b_deps b = []) \/
   (exists root rn, nl_root_elements nl = [root] /\ first_node root (nl_nodes nl) = Some rn /\
      (forall e, In e (nl_edges nl) -> In (e_from e) (ids nl)) /\
      (forall e, In e (nl_edges nl) -> e_type e = Edge_Type_contains \/ e_type e = Edge_Type_dependsOn ->
                 forall x, In x (e_to e) -> In x (ids nl)) /\
      b_components b = map clear_auto (cdx_forest nl root) /\
      b_deps b = flat_map (fun e => if Z.eqb (e_type e) Edge_Type_dependsOn then [(e_from e, dedup (e_to e))] else []) (nl_edges nl) /\
      option_map c_ref (b_meta_comp b) = Some root)).
Proof.
  unfold cdx_ser. destruct (d_metadata d) as [md|]; [|discriminate]. destruct (d_node_list d) as [nl|]; [|discriminate].
  intros H. exists md, nl. split; [reflexivity|]. split; [reflexivity|].
  destruct (nl_root_elements nl) as [|root [|r2 rr]]; [| |discriminate].
  - left. destruct (nl_nodes nl); [|discriminate]. injection H as <-. repeat split.
  - right. destruct (first_node root (nl_nodes nl)) as [rn|] eqn:Ern; [|discriminate].
    destruct (all_ok phase_of (md_documentTypes md)) as [lcs| | |]; try discriminate.
    destruct (negb (forallb (fun e => mem (e_from e) (ids nl)) (nl_edges nl))) eqn:E1; [discriminate|].
    match type of H with (if negb ?c then _ else _) = _ => destruct c eqn:E2 end; cbn [negb] in H; [|discriminate].
    injection H as <-. exists root, rn. cbn [b_components b_deps b_meta_comp].
    apply negb_false_iff in E1. rewrite forallb_forall in E1, E2.
    split; [reflexivity|]. split; [exact Ern|].
    split; [intros e He; apply mem_In; exact (E1 e He)|].
    split.
    { intros e He Ht x Hx. specialize (E2 e He). apply orb_true_iff in E2 as [E2|E2].
      - apply negb_true_iff, orb_false_iff in E2 as [A B]. apply Z.eqb_neq in A, B. destruct Ht; contradiction.
      - rewrite forallb_forall in E2. apply mem_In. exact (E2 x Hx). }
    split; [reflexivity|]. split; [reflexivity|].
    destruct (first_node_Some root (nl_nodes nl) rn Ern) as [_ Hid].
    assert (Hsn : forall c nm, c_ref (set_name c nm) = c_ref c) by (intros [] ?; reflexivity).
    match goal with |- context [if ?c then _ else _] => destruct c end; cbn [option_map];
      rewrite ?Hsn; cbn [node_to_comp c_ref]; rewrite Hid; reflexivity.
Qed.

(* ---- the nesting never runs out of fuel (C07: the recursion of the real code terminates) ---------- *)
Lemma filter_length_le {A} (f g : A -> bool) l : (forall x, f x = true -> g x = true) ->
  (length (filter f l) <= length (filter g l))%nat.
Proof.
  intros H. induction l as [|x r IH]; simpl; [lia|].
  destruct (f x) eqn:E; [rewrite (H x E); simpl; lia|]. destruct (g x); simpl; lia.
Qed.

Lemma filter_length_lt {A} (f g : A -> bool) l c : (forall x, f x = true -> g x = true) ->
  In c l -> g c = true -> f c = false -> (length (filter f l) < length (filter g l))%nat.
Proof.
  intros H. induction l as [|x r IH]; intros Hc Hg Hf; [destruct Hc|]. simpl.
  destruct Hc as [->|Hc].
  - rewrite Hg, Hf. simpl. pose proof (filter_length_le f g r H). lia.
  - specialize (IH Hc Hg Hf). destruct (f x) eqn:E; [rewrite (H x E); simpl; lia|]. destruct (g x); simpl; lia.
Qed.

Lemma filter_len {A} (f : A -> bool) l : (length (filter f l) <= length l)%nat.
Proof. induction l as [|x r IH]; simpl; [lia|]. destruct (f x); simpl; lia. Qed.

Lemma fold_left_ext {A B} (f g : A -> B -> A) l : forall st, (forall st i, f st i = g st i) -> fold_left f l st = fold_left g l st.
Proof. induction l as [|x r IH]; intros st H; simpl; [reflexivity|]. rewrite H. apply IH. exact H. Qed.

Section Fuel.
  Variables (cd : string -> comp) (ch : string -> list string) (cand : list string).
  Hypothesis Hch : forall x y, In y (ch x) -> In y cand.

  Definition unplaced (pl : list string) : list string := filter (fun x => negb (mem x pl)) cand.

  Lemma build_incl : forall fuel placed i, incl (i :: placed) (snd (build fuel cd ch placed i)).
  Proof.
    induction fuel as [|f IH]; intros placed i; cbn [build]; [cbn [snd]; apply incl_refl|].
    assert (H : forall cs st, incl (snd st) (snd (fold_left (build_step (build f cd ch)) cs st))).
    { induction cs as [|c r IHc]; intros st; cbn [fold_left]; [apply incl_refl|].
      eapply incl_tran; [|apply IHc]. destruct st as [acc pl]. unfold build_step.
      destruct (mem c pl); [apply incl_refl|].
      specialize (IH pl c). destruct (build f cd ch pl c) as [sc pl']. cbn [snd] in *.
      intros x Hx. apply IH. right. exact Hx. }
    specialize (H (ch i) ([], i :: placed)).
    destruct (fold_left (build_step (build f cd ch)) (ch i) ([], i :: placed)) as [subs placed']. exact H.
  Qed.

  Lemma unplaced_mono pl pl' : incl pl pl' -> (length (unplaced pl') <= length (unplaced pl))%nat.
  Proof.
    intros H. apply filter_length_le. intros x Hx. apply negb_true_iff in Hx. apply negb_true_iff.
    apply mem_false. apply mem_false in Hx. intros Hin. apply Hx, H. exact Hin.
  Qed.

  Lemma unplaced_less pl c : In c cand -> ~ In c pl -> (length (unplaced (c :: pl)) < length (unplaced pl))%nat.
  Proof.
    intros Hc Hn. apply (filter_length_lt _ _ cand c).
    - intros x Hx. apply negb_true_iff in Hx. apply negb_true_iff. apply mem_false. apply mem_false in Hx.
      intros Hin. apply Hx. right. exact Hin.
    - exact Hc.
    - apply negb_true_iff, mem_false. exact Hn.
    - apply negb_false_iff, mem_In. left. reflexivity.
  Qed.

  Theorem build_fuel_enough : forall fuel placed i k, (length (unplaced (i :: placed)) < fuel)%nat ->
    build (fuel + k) cd ch placed i = build fuel cd ch placed i.
  Proof.
    induction fuel as [|f IH]; intros placed i k Hlt; [lia|].
    change (S f + k)%nat with (S (f + k)). cbn [build].
    assert (H : forall cs st, (forall c, In c cs -> In c cand) -> incl (i :: placed) (snd st) ->
              fold_left (build_step (build (f + k) cd ch)) cs st = fold_left (build_step (build f cd ch)) cs st).
    { induction cs as [|c r IHc]; intros st Hcs Hst; cbn [fold_left]; [reflexivity|].
      assert (E : build_step (build (f + k) cd ch) st c = build_step (build f cd ch) st c).
      { destruct st as [acc pl]. unfold build_step. destruct (mem c pl) eqn:Em; [reflexivity|].
        rewrite IH; [reflexivity|]. apply mem_false in Em. cbn [snd] in Hst.
        pose proof (unplaced_less pl c (Hcs c (or_introl eq_refl)) Em).
        pose proof (unplaced_mono _ _ Hst). lia. }
      rewrite E. apply IHc; [intros c' Hc'; apply Hcs; right; exact Hc'|].
      destruct st as [acc pl]. unfold build_step. destruct (mem c pl); [exact Hst|].
      pose proof (build_incl f pl c) as Hi. destruct (build f cd ch pl c) as [sc pl']. cbn [snd] in *.
      intros x Hx. apply Hi. right. apply Hst. exact Hx. }
    rewrite (H (ch i) ([], i :: placed) (Hch i) (incl_refl _)). reflexivity.
  Qed.
End Fuel.

Theorem assemble_fuel_enough order root cd par k :
  (forall x p, In (x, p) par -> In x order) ->
  assemble_with (S (length order) + k) order root cd par = assemble order root cd par.
Proof.
  intros Hpar. unfold assemble, assemble_with.
  assert (Hch : forall x y, In y (children_of par x) -> In y order).
  { unfold children_of. intros x y H. apply in_map_iff in H as [[y' p] [<- H]]. apply filter_In in H as [H _]. exact (Hpar _ _ H). }
  assert (E : forall b st i, top_step (S (length order) + k) root cd par b st i = top_step (S (length order)) root cd par b st i).
  { intros b [acc pl] i. unfold top_step.
    rewrite (build_fuel_enough cd (children_of par) order Hch (S (length order)) pl i k); [reflexivity|].
    unfold unplaced. pose proof (filter_len (fun x => negb (mem x (i :: pl))) order) as Hl. lia. }
  rewrite (fold_left_ext _ _ order _ (E true)). f_equal. apply fold_left_ext. exact (E false).
Qed.

(* ---- nesting is sound: a component is nested only under the node that contains it ---------------- *)
Fixpoint pairs (c : comp) : list (string * string) :=
  map (fun s => (c_ref c, c_ref s)) (c_sub c) ++ flat_map pairs (c_sub c).

Lemma pairs_set_sub c subs : pairs (set_sub c subs) = map (fun s => (c_ref c, c_ref s)) subs ++ flat_map pairs subs.
Proof. destruct c; reflexivity. Qed.

Section BuildPairs.
  Variables (cd : string -> comp) (ch : string -> list string) (Q : string -> Prop).
  Hypothesis Hcd : forall x, Q x -> c_ref (cd x) = x /\ c_sub (cd x) = [].
  Hypothesis Hch : forall x y, In y (ch x) -> Q y.

  Lemma pairs_cd x : Q x -> pairs (cd x) = [].
  Proof.
    intros Hx. destruct (Hcd x Hx) as [_ H2]. destruct (cd x) as [r t n v d cp l h xr p cpe s sub].
    cbn [c_sub] in H2. subst. reflexivity.
  Qed.

  Lemma build_ref_pairs : forall fuel placed i, Q i ->
    c_ref (fst (build fuel cd ch placed i)) = i /\
    forall p x, In (p, x) (pairs (fst (build fuel cd ch placed i))) -> In x (ch p).
  Proof.
    induction fuel as [|f IH]; intros placed i Hi.
    - cbn [build fst]. split; [exact (proj1 (Hcd i Hi))|]. rewrite (pairs_cd i Hi). intros p x [].
    - cbn [build].
      set (good := fun s : comp => In (c_ref s) (ch i) /\ forall p x, In (p, x) (pairs s) -> In x (ch p)).
      assert (Hfold : forall cs st, incl cs (ch i) -> Forall good (fst st) ->
                Forall good (fst (fold_left (build_step (build f cd ch)) cs st))).
      { induction cs as [|c r IHc]; intros st Hcs Hst; cbn [fold_left]; [exact Hst|].
        apply IHc; [intros y Hy; apply Hcs; right; exact Hy|].
        destruct st as [acc pl]. unfold build_step. destruct (mem c pl); [exact Hst|].
        assert (Hc : In c (ch i)) by (apply Hcs; left; reflexivity).
        destruct (IH pl c (Hch i c Hc)) as [H1 H2].
        destruct (build f cd ch pl c) as [sc pl']. cbn [fst] in *.
        apply Forall_app. split; [exact Hst|]. constructor; [|constructor].
        split; [rewrite H1; exact Hc|exact H2]. }
      specialize (Hfold (ch i) ([], i :: placed) (incl_refl _) (Forall_nil _)).
      destruct (fold_left (build_step (build f cd ch)) (ch i) ([], i :: placed)) as [subs placed'].
      cbn [fst] in *. destruct (Hcd i Hi) as [Hr Hs].
      destruct subs as [|s1 sr].
      + split; [exact Hr|]. rewrite (pairs_cd i Hi). intros p x [].
      + assert (Href : c_ref (set_sub (cd i) (s1 :: sr)) = i) by (destruct (cd i); exact Hr).
        split; [exact Href|]. rewrite pairs_set_sub, Hr. intros p x Hpx.
        rewrite Forall_forall in Hfold.
        apply in_app_or in Hpx as [Hpx|Hpx].
        * apply in_map_iff in Hpx as [s [E Hs']]. injection E as <- <-. exact (proj1 (Hfold s Hs')).
        * apply in_flat_map in Hpx as [s [Hs' Hpx]]. exact (proj2 (Hfold s Hs') p x Hpx).
  Qed.
End BuildPairs.

Lemma children_of_In par p x : In x (children_of par p) <-> In (x, p) par.
Proof.
  unfold children_of. rewrite in_map_iff. split.
  - intros [[x' p'] [<- H]]. apply filter_In in H as [H E]. cbn [snd fst] in *. apply String.eqb_eq in E. subst. exact H.
  - intros H. exists (x, p). split; [reflexivity|]. apply filter_In. split; [exact H|]. cbn [snd]. apply String.eqb_refl.
Qed.

Theorem assemble_pairs_sound fuel order root cd par :
  (forall x, In x order -> c_ref (cd x) = x /\ c_sub (cd x) = []) ->
  (forall x p, In (x, p) par -> In x order) ->
  forall p x, In (p, x) (flat_map pairs (assemble_with fuel order root cd par)) -> In (x, p) par.
Proof.
  intros Hcd Hpar. unfold assemble_with.
  set (good := fun s : comp => forall p x, In (p, x) (pairs s) -> In (x, p) par).
  assert (Hstep : forall b st i, In i order -> Forall good (fst st) -> Forall good (fst (top_step fuel root cd par b st i))).
  { intros b [acc pl] i Hi Hst. unfold top_step.
    destruct (String.eqb i root || mem i pl)%bool; [exact Hst|].
    destruct (b && _)%bool; [exact Hst|].
    pose proof (build_ref_pairs cd (children_of par) (fun x => In x order) Hcd
                  (fun x y Hy => Hpar y x (proj1 (children_of_In par x y) Hy)) fuel pl i Hi) as [_ H2].
    destruct (build fuel cd (children_of par) pl i) as [c pl']. cbn [fst] in *.
    apply Forall_app. split; [exact Hst|]. constructor; [|constructor].
    intros p x Hpx. apply children_of_In. exact (H2 p x Hpx). }
  assert (Hfold : forall b l st, incl l order -> Forall good (fst st) -> Forall good (fst (fold_left (top_step fuel root cd par b) l st))).
  { intros b. induction l as [|i r IH]; intros st Hl Hst; cbn [fold_left]; [exact Hst|].
    apply IH; [intros y Hy; apply Hl; right; exact Hy|]. apply Hstep; [apply Hl; left; reflexivity|exact Hst]. }
  pose proof (Hfold false order _ (incl_refl _) (Hfold true order ([], []) (incl_refl _) (Forall_nil _))) as H.
  rewrite Forall_forall in H. intros p x Hpx. apply in_flat_map in Hpx as [s [Hs Hpx]]. exact (H s Hs p x Hpx).
Qed.

(* in a successful serialization every nesting is a contains edge of the document *)
Theorem forest_pairs_are_contains_edges nl root p x : contains_closed nl ->
  In (p, x) (flat_map pairs (cdx_forest nl root)) ->
  x <> root /\ x <> p /\ exists e, In e (nl_edges nl) /\ e_type e = Edge_Type_contains /\ e_from e = p /\ In x (e_to e).
Proof.
  intros Hc H. unfold cdx_forest, assemble in H.
  destruct (parents_inv root (nl_edges nl)) as [Hf _]. rewrite Forall_forall in Hf.
  apply assemble_pairs_sound in H.
  - exact (Hf _ H).
  - intros y Hy. apply last_comp_ref. exact (proj1 (dedup_In y _) Hy).
  - intros y q Hyq. destruct (Hf _ Hyq) as [_ [_ [e [He [Ht [_ Hx]]]]]]. cbn [fst] in Hx. apply dedup_In. exact (Hc e He Ht y Hx).
Qed.

(* ---- dependencies: complete, and closed over the document's nodes --------------------------------- *)
Theorem cdx_deps_closed d b f tos : cdx_ser d = Ok b -> In (f, tos) (b_deps b) ->
  exists nl, d_node_list d = Some nl /\ In f (ids nl) /\ forall x, In x tos -> In x (ids nl).
Proof.
  intros H Hin. destruct (cdx_ser_shape d b H) as [md [nl [_ [Enl [[_ [_ [_ Ed]]]|[root [rn [_ [_ [Hfrom [Hto [_ [Ed _]]]]]]]]]]]]].
  - rewrite Ed in Hin. destruct Hin.
  - exists nl. split; [exact Enl|]. rewrite Ed in Hin. apply in_flat_map in Hin as [e [He Hin]].
    destruct (Z.eqb (e_type e) Edge_Type_dependsOn) eqn:Et; [|destruct Hin].
    destruct Hin as [E|[]]. injection E as <- <-. apply Z.eqb_eq in Et.
    split; [exact (Hfrom e He)|]. intros x Hx. apply (Hto e He (or_intror Et)). exact (proj1 (dedup_In x _) Hx).
Qed.

Theorem cdx_deps_complete d b nl e x : cdx_ser d = Ok b -> d_node_list d = Some nl ->
  In e (nl_edges nl) -> In (e_from e) (ids nl) -> e_type e = Edge_Type_dependsOn -> In x (e_to e) ->
  exists tos, In (e_from e, tos) (b_deps b) /\ In x tos.
Proof.
  intros H Enl He Hsrc Ht Hx.
  destruct (cdx_ser_shape d b H) as [md [nl' [_ [Enl' [[_ [En [_ _]]]|[root [rn [_ [Efn [_ [_ [_ [Ed _]]]]]]]]]]]]];
    rewrite Enl in Enl'; injection Enl' as <-.
  - exfalso. unfold ids in Hsrc. rewrite En in Hsrc. destruct Hsrc.
  - exists (dedup (e_to e)). split; [|apply dedup_In; exact Hx]. rewrite Ed. apply in_flat_map. exists e. split; [exact He|].
    rewrite Ht, Z.eqb_refl. left. reflexivity.
Qed.

(* ---- totality: exactly when the CycloneDX serializer succeeds (C07) -------------------------------- *)
Lemma all_ok_Ok {A B} (f : A -> result B) l : (forall x, In x l -> exists y, f x = Ok y) <-> exists ys, all_ok f l = Ok ys.
Proof.
  induction l as [|x r IH]; cbn [all_ok].
  - split; [intros _; exists []; reflexivity|intros _ y []].
  - split.
    + intros H. destruct (H x (or_introl eq_refl)) as [y Ey]. rewrite Ey.
      destruct (proj1 IH (fun z Hz => H z (or_intror Hz))) as [ys Eys]. rewrite Eys. exists (y :: ys). reflexivity.
    + intros [ys E] z [<-|Hz].
      * destruct (f x) as [y| | |]; try discriminate. exists y. reflexivity.
      * apply (proj2 IH); [|exact Hz]. destruct (f x); try discriminate. destruct (all_ok f r) as [ys'| | |]; try discriminate.
        exists ys'. reflexivity.
Qed.

Lemma cdx_ser_not_panic d : cdx_ser d <> Panic /\ cdx_ser d <> Fatal.
Proof.
  unfold cdx_ser. destruct (d_metadata d); [|split; discriminate]. destruct (d_node_list d) as [nl|]; [|split; discriminate].
  destruct (nl_root_elements nl) as [|r [|r2 rr]]; [destruct (nl_nodes nl); split; discriminate| |split; discriminate].
  destruct (first_node r (nl_nodes nl)); [|split; discriminate].
  destruct (all_ok phase_of _); try (split; discriminate).
  destruct (negb _); [split; discriminate|]. destruct (negb _); split; discriminate.
Qed.

Definition cdx_serializable (d : document) : Prop :=
  exists md nl, d_metadata d = Some md /\ d_node_list d = Some nl /\
  ((nl_root_elements nl = [] /\ nl_nodes nl = []) \/
   (exists root, nl_root_elements nl = [root] /\ In root (ids nl) /\
      (forall dt, In dt (md_documentTypes md) -> exists ph, phase_of dt = Ok ph) /\
      (forall e, In e (nl_edges nl) -> In (e_from e) (ids nl)) /\
      (forall e, In e (nl_edges nl) -> e_type e = Edge_Type_contains \/ e_type e = Edge_Type_dependsOn ->
                 forall x, In x (e_to e) -> In x (ids nl)))).

Theorem cdx_ser_ok_iff d : (exists b, cdx_ser d = Ok b) <-> cdx_serializable d.
Proof.
  split.
  - intros [b H]. pose proof H as H'. unfold cdx_ser in H'.
    destruct (cdx_ser_shape d b H) as [md [nl [Em [En [[Er [Enn _]]|[root [rn [Er [Ef [Hfrom [Hto _]]]]]]]]]]].
    + exists md, nl. split; [exact Em|]. split; [exact En|]. left. split; assumption.
    + exists md, nl. split; [exact Em|]. split; [exact En|]. right. exists root. split; [exact Er|].
      split; [destruct (first_node_Some _ _ _ Ef) as [Hin <-]; apply in_map; exact Hin|].
      split; [|split; assumption].
      rewrite Em, En, Er, Ef in H'. apply all_ok_Ok.
      destruct (all_ok phase_of (md_documentTypes md)) as [lcs| | |]; try discriminate. exists lcs. reflexivity.
  - intros [md [nl [Em [En [[Er Enn]|[root [Er [Hroot [Hdt [Hfrom Hto]]]]]]]]]]; unfold cdx_ser; rewrite Em, En, Er.
    + rewrite Enn. eexists. reflexivity.
    + destruct (first_node_In root (nl_nodes nl) Hroot) as [rn [Ef _]]. rewrite Ef.
      destruct (proj1 (all_ok_Ok phase_of (md_documentTypes md)) Hdt) as [lcs El]. rewrite El.
      assert (E1 : forallb (fun e => mem (e_from e) (ids nl)) (nl_edges nl) = true).
      { apply forallb_forall. intros e He. apply mem_In. exact (Hfrom e He). }
      rewrite E1. cbn [negb].
      assert (E2 : forallb (fun e => (negb (Z.eqb (e_type e) Edge_Type_contains || Z.eqb (e_type e) Edge_Type_dependsOn)
                                     || forallb (fun i => mem i (ids nl)) (e_to e))%bool) (nl_edges nl) = true).
      { apply forallb_forall. intros e He.
        destruct (Z.eqb (e_type e) Edge_Type_contains) eqn:A; [|destruct (Z.eqb (e_type e) Edge_Type_dependsOn) eqn:B; [|reflexivity]].
        - cbn [orb negb]. apply forallb_forall. intros x Hx. apply mem_In. apply Z.eqb_eq in A. exact (Hto e He (or_introl A) x Hx).
        - cbn [orb negb]. apply forallb_forall. intros x Hx. apply mem_In. apply Z.eqb_eq in B. exact (Hto e He (or_intror B) x Hx). }
      rewrite E2. cbn [negb]. eexists. reflexivity.
Qed.

(* the assembly the serializer runs is the fuel-free one: more fuel changes nothing *)
Theorem forest_fuel_irrelevant nl root k : contains_closed nl ->
  assemble_with (S (length (dedup (ids nl))) + k) (dedup (ids nl)) root (last_comp (nl_nodes nl)) (parents root (nl_edges nl))
  = cdx_forest nl root.
Proof.
  intros Hc. unfold cdx_forest, first_occurrences. apply assemble_fuel_enough.
  intros x p Hxp. destruct (parents_inv root (nl_edges nl)) as [Hf _]. rewrite Forall_forall in Hf.
  destruct (Hf _ Hxp) as [_ [_ [e [He [Ht [_ Hx]]]]]]. cbn [fst] in Hx. apply dedup_In. exact (Hc e He Ht x Hx).
Qed.

(* ---- the parser's output is no larger than its input (C04) ---------------------------------------- *)
Fixpoint csize (c : comp) : nat := S (list_sum (map csize (c_sub c))).

Lemma relate_list_nodes_len l l2 a t l' : relate_list_at l l2 a t = Ok l' ->
  (length (nl_nodes l') <= length (nl_nodes l) + length (nl_nodes l2))%nat.
Proof.
  unfold relate_list_at. destruct (negb (has l a)); [discriminate|]. intros H. injection H as <-. cbn [nl_nodes].
  rewrite app_length. pose proof (filter_len (fun n => negb (mem (n_id n) (ids l))) (nl_nodes l2)) as Hl. lia.
Qed.

Lemma comp_to_nl_size : forall c cc, (length (nl_nodes (fst (comp_to_nl c cc))) <= csize c)%nat.
Proof.
  induction c as [c IH] using comp_ind'. intros cc.
  destruct c as [r t n v d cp l h x p cpe s sub]. cbn [comp_to_nl c_sub csize]. cbn [c_sub] in IH.
  set (nd := comp_to_node _ (cc + 1)).
  set (nl0 := {| nl_nodes := [nd]; nl_edges := []; nl_root_elements := [n_id nd] |}).
  assert (H0 : (length (nl_nodes nl0) <= 1)%nat) by (cbn; lia).
  change (S (list_sum (map csize sub))) with (1 + list_sum (map csize sub))%nat.
  clearbody nd. revert H0. generalize 1%nat as base. generalize (cc + 1) as k. generalize nl0 as nl. clear nl0.
  induction sub as [|s1 rest IHs]; intros nl k base H0; cbn [fold_left fst map list_sum].
  - lia.
  - inversion IH as [|? ? Hs1 Hrest]; subst.
    destruct (comp_to_nl s1 k) as [snl k'] eqn:E.
    specialize (IHs Hrest (or_keep nl (relate_list_at nl snl (n_id nd) Edge_Type_contains)) k' (base + csize s1)%nat).
    assert (Hle : (length (nl_nodes (or_keep nl (relate_list_at nl snl (n_id nd) Edge_Type_contains))) <= base + csize s1)%nat).
    { specialize (Hs1 k). rewrite E in Hs1. cbn [fst] in Hs1.
      destruct (relate_list_at nl snl (n_id nd) Edge_Type_contains) as [l'| | |] eqn:El; cbn [or_keep]; try lia.
      pose proof (relate_list_nodes_len _ _ _ _ _ El). lia. }
    change (list_sum (csize s1 :: map csize rest)) with (csize s1 + list_sum (map csize rest))%nat.
    rewrite Nat.add_assoc. exact (IHs Hle).
Qed.

Definition bsize (b : cbom) : nat :=
  (match (if b_has_metadata b then b_meta_comp b else None) with Some mc => csize mc | None => 0 end
   + list_sum (map csize (b_components b)))%nat.

Lemma add_nodes_len l l2 : (length (nl_nodes (add l l2)) <= length (nl_nodes l) + length (nl_nodes l2))%nat.
Proof.
  rewrite <- !(map_length n_id). change (map n_id (nl_nodes (add l l2))) with (ids (add l l2)).
  unfold add, ids at 1; cbn [nl_nodes]. fold (ids l). rewrite merge_nodes_ids by (intros a b; apply augment_id).
  rewrite app_length.
  pose proof (filter_len (fun i => negb (mem i (ids l))) (map n_id (nl_nodes l2))) as Hl. unfold ids in *. lia.
Qed.

(* no more nodes than components: the conversion does not blow its input up *)
Theorem cdx_unser_size b : (length (nl_nodes (cdx_unser_nl b)) <= bsize b)%nat.
Proof.
  unfold cdx_unser_nl, bsize.
  set (st0 := match (if b_has_metadata b then b_meta_comp b else None) with
              | Some mc => let '(nl, k) := comp_to_nl mc 0 in (add empty_nl nl, k)
              | None => (empty_nl, 0)
              end).
  set (base := match (if b_has_metadata b then b_meta_comp b else None) with Some mc => csize mc | None => 0%nat end).
  assert (H0 : (length (nl_nodes (fst st0)) <= base)%nat).
  { unfold st0, base. destruct (if b_has_metadata b then b_meta_comp b else None) as [mc|]; [|cbn; lia].
    pose proof (comp_to_nl_size mc 0) as H. destruct (comp_to_nl mc 0) as [nl k]. cbn [fst] in *.
    pose proof (add_nodes_len empty_nl nl). cbn [empty_nl nl_nodes length] in *. lia. }
  clearbody st0 base. revert st0 base H0. generalize (b_components b) as cs.
  induction cs as [|c rest IH]; intros st base H0; cbn [fold_left map].
  - cbn. lia.
  - change (list_sum (csize c :: map csize rest)) with (csize c + list_sum (map csize rest))%nat.
    rewrite Nat.add_assoc. apply IH. destruct st as [doc k]. cbn [fst] in H0.
    pose proof (comp_to_nl_size c k) as H. destruct (comp_to_nl c k) as [nl k']. cbn [fst] in *.
    destruct (nl_root_elements doc) as [|r rr].
    + pose proof (add_nodes_len doc nl). lia.
    + destruct (relate_list_at doc nl r Edge_Type_contains) as [l'| | |] eqn:El; cbn [or_keep]; try lia.
      pose proof (relate_list_nodes_len _ _ _ _ _ El). lia.
Qed.

(* ---- per node: the attributes CycloneDX expresses (C02) -------------------------------------------- *)
Definition cdx_native_purposes : list Z :=
  [Purpose_APPLICATION; Purpose_CONTAINER; Purpose_DATA; Purpose_DEVICE; Purpose_DEVICE_DRIVER; Purpose_FIRMWARE;
   Purpose_FRAMEWORK; Purpose_LIBRARY; Purpose_MACHINE_LEARNING_MODEL; Purpose_OPERATING_SYSTEM; Purpose_PLATFORM].

Definition purpose_rt (p : Z) : Z :=
  slook cdx_type_to_purpose_tab 0 (match zassoc p purpose_to_cdx_tab with Some t => t | None => "" end).

Lemma native_purposes_rt : forallb (fun p => (Z.eqb (purpose_rt p) p && negb (Z.eqb p Purpose_FILE))%bool) cdx_native_purposes = true.
Proof. vm_compute. reflexivity. Qed.

Lemma file_type_rt : slook cdx_type_to_purpose_tab 0 "file" = Purpose_FILE.
Proof. vm_compute. reflexivity. Qed.

Theorem cdx_scalar_attributes n cc : let n' := comp_to_node (node_to_comp n) cc in
  (n_id n <> "" -> n_id n' = n_id n) /\ n_name n' = n_name n /\ n_version n' = n_version n /\
  n_description n' = n_description n /\ n_copyright n' = n_copyright n.
Proof.
  cbn zeta. unfold comp_to_node, node_to_comp; cbn [n_id n_name n_version n_description n_copyright c_ref c_name c_version c_description c_copyright].
  split; [|repeat split]. intros H. apply String.eqb_neq in H. rewrite H. reflexivity.
Qed.

Theorem cdx_kind_and_type n cc : let n' := comp_to_node (node_to_comp n) cc in
  (n_type n = Node_NodeType_FILE -> n_type n' = Node_NodeType_FILE /\ n_primary_purpose n' = [Purpose_FILE]) /\
  (forall p r, n_type n = Node_NodeType_PACKAGE -> n_primary_purpose n = p :: r -> In p cdx_native_purposes ->
     n_type n' = Node_NodeType_PACKAGE /\ n_primary_purpose n' = [p]).
Proof.
  cbn zeta. unfold comp_to_node, node_to_comp; cbn [n_type n_primary_purpose c_type]. split.
  - intros E. rewrite E. vm_compute. split; reflexivity.
  - intros p r Ht Hp Hin. rewrite Ht, Hp. change (Node_NodeType_PACKAGE =? Node_NodeType_FILE) with false. cbn iota.
    pose proof native_purposes_rt as H. rewrite forallb_forall in H. specialize (H p Hin).
    apply andb_true_iff in H as [H1 H2]. apply Z.eqb_eq in H1. unfold purpose_rt in H1. rewrite H1.
    apply negb_true_iff in H2. rewrite H2. split; reflexivity.
Qed.

(* the licence list is NOT preserved beyond its first entry: K13 *)
Theorem cdx_licence_list_refuted : exists n cc,
  n_licenses (comp_to_node (node_to_comp n) cc) <> n_licenses n /\ length (n_licenses n) = 2%nat.
Proof.
  exists {| n_id := "n"; n_type := 0; n_name := "n"; n_version := ""; n_file_name := ""; n_url_home := "";
            n_url_download := ""; n_licenses := ["MIT"; "Apache-2.0"]; n_license_concluded := ""; n_license_comments := "";
            n_copyright := ""; n_source_info := ""; n_comment := ""; n_summary := ""; n_description := "";
            n_attribution := []; n_suppliers := []; n_originators := []; n_release_date := None;
            n_build_date := None; n_valid_until_date := None; n_external_references := [];
            n_file_types := []; n_identifiers := []; n_hashes := []; n_primary_purpose := [] |}, 1.
  split; [vm_compute; discriminate|reflexivity].
Qed.

Theorem cdx_single_licence n cc l : n_licenses n = [l] -> l <> "" -> n_licenses (comp_to_node (node_to_comp n) cc) = [l].
Proof.
  intros E Hl. unfold comp_to_node, node_to_comp; cbn [n_licenses c_licenses]. rewrite E. cbn [map lic_list filter cl_expression cl_has_license cl_id].
  apply String.eqb_neq in Hl. unfold lic_list. cbn [filter cl_expression cl_has_license cl_id]. rewrite Hl. cbn. reflexivity.
Qed.

Theorem cdx_no_licence n cc : n_licenses n = [] -> n_licenses (comp_to_node (node_to_comp n) cc) = [].
Proof. intros E. unfold comp_to_node, node_to_comp; cbn [n_licenses c_licenses]. rewrite E. reflexivity. Qed.

(* serial number and lifecycle phases of the document *)
Theorem cdx_serial_and_lifecycles d b md : cdx_ser d = Ok b -> d_metadata d = Some md ->
  b_serial b = md_id md /\
  ((exists nl, d_node_list d = Some nl /\ nl_nodes nl = [] /\ nl_root_elements nl = []) \/ all_ok phase_of (md_documentTypes md) = Ok (b_lifecycles b)).
Proof.
  unfold cdx_ser. intros H Em. rewrite Em in H. destruct (d_node_list d) as [nl|]; [|discriminate].
  destruct (nl_root_elements nl) as [|root [|r2 rr]] eqn:Er; [| |discriminate].
  - destruct (nl_nodes nl) eqn:En; [|discriminate]. injection H as <-. split; [reflexivity|]. left. exists nl. repeat split; assumption.
  - destruct (first_node root (nl_nodes nl)); [|discriminate].
    destruct (all_ok phase_of (md_documentTypes md)) as [lcs| | |]; try discriminate.
    destruct (negb _); [discriminate|]. destruct (negb _); [discriminate|]. injection H as <-. split; [reflexivity|]. right. reflexivity.
Qed.

Lemma phase_type_rt : forallb (fun t => match phase_of {| dt_type := Some t; dt_name := None; dt_description := None |} with
                                        | Ok (ph, _, _) => match sassoc ph phase_to_sbomtype_tab with Some t' => Z.eqb t' t | None => false end
                                        | _ => false
                                        end)
    [DocumentType_SBOMType_BUILD; DocumentType_SBOMType_DESIGN; DocumentType_SBOMType_ANALYZED; DocumentType_SBOMType_SOURCE;
     DocumentType_SBOMType_DECOMISSION; DocumentType_SBOMType_DEPLOYED; DocumentType_SBOMType_DISCOVERY] = true.
Proof. vm_compute. reflexivity. Qed.


(* ---- what the unserializer builds from a BOM whose references are all present (C02) ----------- *)
Definition refs_nonempty (c : comp) : Prop := forall r, In r (refs c) -> r <> "".

Lemma comp_node_id c cc : c_ref c <> "" -> n_id (comp_to_node c cc) = c_ref c.
Proof. intros H. unfold comp_to_node; cbn [n_id]. apply String.eqb_neq in H. rewrite H. reflexivity. Qed.

Lemma refs_head c : In (c_ref c) (refs c).
Proof. destruct c as [a1 a2 a3 a4 a5 a6 a7 a8 a9 a10 a11 a12 subs]; left; reflexivity. Qed.

Lemma refs_sub c s r : In s (c_sub c) -> In r (refs s) -> In r (refs c).
Proof. intros Hs Hr. destruct c as [a1 a2 a3 a4 a5 a6 a7 a8 a9 a10 a11 a12 subs]; cbn [refs c_sub] in *. right. apply in_flat_map. exists s. auto. Qed.

Definition frag_spec (c : comp) (nl : nodelist) : Prop :=
  (forall i, Nset nl i <-> In i (refs c)) /\
  (forall f t x, Eset nl f t x <-> t = Edge_Type_contains /\ In (f, x) (pairs c)) /\
  nl_root_elements nl = [c_ref c].

Lemma comp_to_nl_spec : forall c cc, refs_nonempty c -> frag_spec c (fst (comp_to_nl c cc)).
Proof.
  induction c as [c IH] using comp_ind'. intros cc Hne.
  assert (Hid : forall k, n_id (comp_to_node c k) = c_ref c) by (intros k; apply comp_node_id, Hne, refs_head).
  assert (Hsubs : forall s, In s (c_sub c) -> refs_nonempty s) by (intros s Hs r Hr; apply Hne; exact (refs_sub c s r Hs Hr)).
  destruct c as [r t n v d cp l h x p cpe s sub]. cbn [comp_to_nl c_sub]. cbn [c_sub c_ref] in *.
  set (cfull := mk_comp r t n v d cp l h x p cpe s sub) in *.
  set (nd := comp_to_node cfull (cc + 1)).
  assert (Hnd : n_id nd = r) by (apply (Hid (cc + 1))).
  set (nl0 := {| nl_nodes := [nd]; nl_edges := []; nl_root_elements := [n_id nd] |}).
  (* invariant over the processed prefix of the sub-components *)
  set (inv := fun (done : list comp) (nl : nodelist) =>
                (forall i, Nset nl i <-> i = r \/ In i (flat_map refs done)) /\
                (forall f t0 x0, Eset nl f t0 x0 <-> t0 = Edge_Type_contains /\
                                 In (f, x0) (map (fun s0 => (r, c_ref s0)) done ++ flat_map pairs done)) /\
                nl_root_elements nl = [r]).
  assert (H0 : inv [] nl0).
  { split; [|split].
    - intros i. unfold Nset, ids, nl0; cbn [nl_nodes map flat_map]. rewrite Hnd. split; [intros [<-|[]]; left; reflexivity|intros [->|[]]; left; reflexivity].
    - intros f t0 x0. unfold Eset, nl0; cbn [nl_edges map flat_map app]. split; [intros [e [[] _]]|intros [_ []]].
    - unfold nl0; cbn [nl_root_elements]. rewrite Hnd. reflexivity. }
  assert (Hfold : forall todo done nl k, (forall s0, In s0 todo -> In s0 sub) -> inv done nl ->
            inv (done ++ todo)
                (fst (fold_left (fun st sub0 => let '(nl1, k1) := st in
                                                let '(snl, k') := comp_to_nl sub0 k1 in
                                                (or_keep nl1 (relate_list_at nl1 snl (n_id nd) Edge_Type_contains), k'))
                                todo (nl, k)))).
  { induction todo as [|s1 rest IHt]; intros done nl k Hin Hinv; cbn [fold_left fst].
    - rewrite app_nil_r. exact Hinv.
    - assert (Hs1 : In s1 sub) by (apply Hin; left; reflexivity).
      rewrite Forall_forall in IH. pose proof (IH s1 Hs1 k (Hsubs s1 Hs1)) as [SN [SE SR]].
      destruct (comp_to_nl s1 k) as [snl k'] eqn:Es. cbn [fst] in SN, SE, SR.
      destruct Hinv as [IN [IE IR]].
      assert (Hhas : has nl (n_id nd) = true).
      { apply mem_In. apply (proj2 (IN (n_id nd))). left. exact Hnd. }
      destruct (relate_list_ok nl snl (n_id nd) Edge_Type_contains Hhas) as [l' [El' _]].
      rewrite El'. cbn [or_keep].
      replace (done ++ s1 :: rest) with ((done ++ [s1]) ++ rest) by (rewrite <- app_assoc; reflexivity).
      apply IHt; [intros s0 Hs0; apply Hin; right; exact Hs0|].
      split; [|split].
      + intros i. rewrite (relate_list_N _ _ _ _ _ i El'), IN, SN, flat_map_app'. cbn [flat_map]. rewrite app_nil_r, in_app_iff. tauto.
      + intros f t0 x0. rewrite (relate_list_E _ _ _ _ _ f t0 x0 El'), IE, SE, SR, Hnd.
        rewrite map_app, flat_map_app'. cbn [map flat_map]. rewrite app_nil_r, !in_app_iff. cbn [In].
        assert (Heq : (r, c_ref s1) = (f, x0) <-> f = r /\ c_ref s1 = x0)
          by (split; [intros E; injection E; auto|intros [-> ->]; reflexivity]).
        rewrite Heq. tauto.
      + rewrite (relate_list_R _ _ _ _ _ El'). exact IR. }
  specialize (Hfold sub [] nl0 (cc + 1) (fun s0 H => H) H0). cbn [app] in Hfold.
  destruct Hfold as [FN [FE FR]].
  split; [|split].
  - intros i. rewrite FN. unfold cfull. cbn [refs c_ref c_sub]. cbn [In]. split; intros [H|H]; auto.
  - intros f t0 x0. rewrite FE. unfold cfull. cbn [pairs c_ref c_sub]. tauto.
  - exact FR.
Qed.

Lemma pairs_in_refs : forall c f x, In (f, x) (pairs c) -> In f (refs c) /\ In x (refs c).
Proof.
  induction c as [c IH] using comp_ind'. intros f x H.
  destruct c as [r t n v d cp l h xr p cpe s sub]. cbn [pairs refs c_ref c_sub] in *.
  rewrite Forall_forall in IH.
  apply in_app_or in H as [H|H].
  - apply in_map_iff in H as [s0 [E Hs0]]. injection E as <- <-. split; [left; reflexivity|].
    right. apply in_flat_map. exists s0. split; [exact Hs0|apply refs_head].
  - apply in_flat_map in H as [s0 [Hs0 H]]. destruct (IH s0 Hs0 f x H) as [H1 H2].
    split; right; apply in_flat_map; exists s0; auto.
Qed.

Theorem cdx_unser_spec b mc : b_has_metadata b = true -> b_meta_comp b = Some mc ->
  (forall r, In r (refs mc ++ flat_map refs (b_components b)) -> r <> "") ->
  let nl := cdx_unser_nl b in
  (forall i, Nset nl i <-> In i (refs mc ++ flat_map refs (b_components b))) /\
  (forall f t x, Eset nl f t x <-> t = Edge_Type_contains /\
     In (f, x) (pairs mc ++ flat_map pairs (b_components b) ++ map (fun c => (c_ref mc, c_ref c)) (b_components b))) /\
  nl_root_elements nl = [c_ref mc].
Proof.
  intros Hm Emc Hne. cbn zeta. unfold cdx_unser_nl. rewrite Hm, Emc.
  assert (Hmne : refs_nonempty mc) by (intros r Hr; apply Hne, in_or_app; left; exact Hr).
  pose proof (comp_to_nl_spec mc 0 Hmne) as [MN [ME MR]].
  destruct (comp_to_nl mc 0) as [nlm k0]. cbn [fst] in MN, ME, MR.
  set (inv := fun (done : list comp) (nl : nodelist) =>
                (forall i, Nset nl i <-> In i (refs mc ++ flat_map refs done)) /\
                (forall f t x, Eset nl f t x <-> t = Edge_Type_contains /\
                   In (f, x) (pairs mc ++ flat_map pairs done ++ map (fun c => (c_ref mc, c_ref c)) done)) /\
                nl_root_elements nl = [c_ref mc]).
  assert (H0 : inv [] (add empty_nl nlm)).
  { split; [|split].
    - intros i. rewrite add_N, MN. cbn [flat_map]. rewrite app_nil_r. unfold Nset at 1, ids; cbn. tauto.
    - intros f t x. rewrite add_E, ME, !MN. cbn [flat_map map app]. rewrite app_nil_r.
      split.
      + intros [[[e [[] _]]|H] _]. exact H.
      + intros [Ht H]. destruct (pairs_in_refs mc f x H) as [H1 H2]. split; [right; split; assumption|]. split; right; assumption.
    - unfold add; cbn [nl_root_elements empty_nl]. unfold merge_roots. cbn [app]. rewrite MR. reflexivity. }
  assert (Hfold : forall todo done doc k, (forall c, In c todo -> refs_nonempty c) -> inv done doc ->
            inv (done ++ todo)
                (fst (fold_left (fun st c => let '(doc0, k1) := st in
                                             let '(nl, k') := comp_to_nl c k1 in
                                             (match nl_root_elements doc0 with
                                              | [] => add doc0 nl
                                              | r :: _ => or_keep doc0 (relate_list_at doc0 nl r Edge_Type_contains)
                                              end, k')) todo (doc, k)))).
  { induction todo as [|c rest IHt]; intros done doc k Hc Hinv; cbn [fold_left fst].
    - rewrite app_nil_r. exact Hinv.
    - pose proof (comp_to_nl_spec c k (Hc c (or_introl eq_refl))) as [SN [SE SR]].
      destruct (comp_to_nl c k) as [nl k'] eqn:Ec. cbn [fst] in SN, SE, SR.
      destruct Hinv as [IN [IE IR]]. rewrite IR.
      assert (Hhas : has doc (c_ref mc) = true).
      { apply mem_In. apply (proj2 (IN (c_ref mc))). apply in_or_app. left. apply refs_head. }
      destruct (relate_list_ok doc nl (c_ref mc) Edge_Type_contains Hhas) as [l' [El' _]].
      rewrite El'. cbn [or_keep].
      replace (done ++ c :: rest) with ((done ++ [c]) ++ rest) by (rewrite <- app_assoc; reflexivity).
      apply IHt; [intros c0 Hc0; apply Hc; right; exact Hc0|].
      split; [|split].
      + intros i. rewrite (relate_list_N _ _ _ _ _ i El'), IN, SN, flat_map_app'. cbn [flat_map]. rewrite app_nil_r, !in_app_iff. tauto.
      + intros f t x. rewrite (relate_list_E _ _ _ _ _ f t x El'), IE, SE, SR.
        rewrite map_app, flat_map_app'. cbn [map flat_map]. rewrite app_nil_r, !in_app_iff. cbn [In].
        assert (Heq : (c_ref mc, c_ref c) = (f, x) <-> f = c_ref mc /\ c_ref c = x)
          by (split; [intros E; injection E; auto|intros [-> ->]; reflexivity]).
        rewrite Heq. tauto.
      + rewrite (relate_list_R _ _ _ _ _ El'). exact IR. }
  specialize (Hfold (b_components b) [] (add empty_nl nlm) k0).
  cbn [app] in Hfold. apply Hfold; [|exact H0].
  intros c Hc r Hr. apply Hne. apply in_or_app. right. apply in_flat_map. exists c. auto.
Qed.

(* ---- the first pass records every contained node ------------------------------------------------ *)
Lemma sassoc_Some_In {A} k (l : list (string * A)) v : sassoc k l = Some v -> In (k, v) l.
Proof.
  induction l as [|[k' v'] r IH]; simpl; [discriminate|].
  destruct (String.eqb k k') eqn:E; intros H.
  - apply String.eqb_eq in E. injection H as <-. subst. left. reflexivity.
  - right. exact (IH H).
Qed.

Lemma sassoc_In_Some {A} k (l : list (string * A)) : In k (map fst l) -> exists v, sassoc k l = Some v.
Proof.
  induction l as [|[k' v'] r IH]; simpl; [intros []|].
  destruct (String.eqb k k') eqn:E; [intros _; eexists; reflexivity|].
  intros [H|H]; [subst; rewrite String.eqb_refl in E; discriminate|exact (IH H)].
Qed.

Lemma NoDup_keys_unique {A} (l : list (string * A)) k v1 v2 :
  NoDup (map fst l) -> In (k, v1) l -> In (k, v2) l -> v1 = v2.
Proof.
  induction l as [|[k' v'] r IH]; intros Hn H1 H2; [destruct H1|].
  cbn [map fst] in Hn. inversion Hn as [|? ? Hnot Hn']; subst.
  destruct H1 as [E1|H1], H2 as [E2|H2].
  - congruence.
  - injection E1 as -> ->. exfalso. apply Hnot. apply in_map_iff. exists (k, v2). auto.
  - injection E2 as -> ->. exfalso. apply Hnot. apply in_map_iff. exists (k, v1). auto.
  - exact (IH Hn' H1 H2).
Qed.

Section RecordContains.
  Variables (root from : string).
  Let stepf := fun (p : list (string * string)) (x : string) =>
    if (String.eqb x root || String.eqb x from)%bool then p
    else match sassoc x p with Some _ => p | None => p ++ [(x, from)] end.

  Lemma rc_step_mono p y x : In x (map fst p) -> In x (map fst (stepf p y)).
  Proof.
    intros H. unfold stepf. destruct (String.eqb y root || String.eqb y from)%bool; [exact H|].
    destruct (sassoc y p); [exact H|]. rewrite map_app. apply in_or_app. left. exact H.
  Qed.

  Lemma rc_fold_mono tos : forall p x, In x (map fst p) -> In x (map fst (fold_left stepf tos p)).
  Proof. induction tos as [|y r IH]; intros p x H; cbn [fold_left]; [exact H|]. apply IH, rc_step_mono, H. Qed.

  Lemma rc_fold_adds tos : forall p x, In x tos -> x <> root -> x <> from -> In x (map fst (fold_left stepf tos p)).
  Proof.
    induction tos as [|y r IH]; intros p x Hin Hr Hf; [destruct Hin|]. cbn [fold_left].
    destruct Hin as [->|Hin]; [|apply IH; assumption].
    apply rc_fold_mono. unfold stepf.
    apply String.eqb_neq in Hr, Hf. rewrite Hr, Hf. cbn [orb].
    destruct (sassoc x p) eqn:E.
    - apply sassoc_Some_In in E. apply in_map_iff. exists (x, s). auto.
    - rewrite map_app. apply in_or_app. right. left. reflexivity.
  Qed.
End RecordContains.

Lemma parents_complete root es e x : In e es -> e_type e = Edge_Type_contains -> In x (e_to e) ->
  x <> root -> x <> e_from e -> In x (map fst (parents root es)).
Proof.
  intros He Ht Hx Hr Hf. unfold parents.
  assert (Hmono : forall es0 p y, In y (map fst p) ->
            In y (map fst (fold_left (fun p e => if Z.eqb (e_type e) Edge_Type_contains then record_contains root p e else p) es0 p))).
  { induction es0 as [|e0 r IH]; intros p y H; cbn [fold_left]; [exact H|]. apply IH.
    destruct (Z.eqb (e_type e0) Edge_Type_contains); [|exact H]. unfold record_contains. apply rc_fold_mono. exact H. }
  assert (Hgo : forall es0 p, In e es0 ->
            In x (map fst (fold_left (fun p e => if Z.eqb (e_type e) Edge_Type_contains then record_contains root p e else p) es0 p))).
  { induction es0 as [|e0 r IH]; intros p Hin; [destruct Hin|]. cbn [fold_left].
    destruct Hin as [->|Hin]; [|apply IH; exact Hin].
    apply Hmono. rewrite Ht, Z.eqb_refl. unfold record_contains. apply rc_fold_adds; assumption. }
  apply Hgo. exact He.
Qed.

(* ---- with adequate fuel, a placed node's children are all placed (descendant closure) ------------ *)
Section Closure.
  Variables (cd : string -> comp) (ch : string -> list string) (cand : list string).
  Hypothesis Hch : forall x y, In y (ch x) -> In y cand.

  (* every placed node outside the open set (the nodes whose nests are still being built) has all its
     children placed *)
  Definition dco (pl open : list string) : Prop :=
    forall p, In p pl -> ~ In p open -> forall x, In x (ch p) -> In x pl.

  Lemma build_dc : forall fuel placed i open,
    (length (unplaced cand (i :: placed)) < fuel)%nat -> incl open placed -> ~ In i placed ->
    dco placed open -> dco (snd (build fuel cd ch placed i)) open.
  Proof.
    induction fuel as [|f IH]; intros placed i open Hlt Hop Hni Hdc; [lia|].
    cbn [build].
    assert (Hfold : forall todo st, (forall c, In c todo -> In c cand) -> incl (i :: placed) (snd st) -> dco (snd st) (i :: open) ->
              let st' := fold_left (build_step (build f cd ch)) todo st in
              incl (snd st) (snd st') /\ dco (snd st') (i :: open) /\ forall c, In c todo -> In c (snd st')).
    { induction todo as [|c rest IHt]; intros st Hc Hinc Hd; cbn [fold_left].
      - split; [apply incl_refl|]. split; [exact Hd|intros c []].
      - assert (Hstep : incl (snd st) (snd (build_step (build f cd ch) st c)) /\
                        dco (snd (build_step (build f cd ch) st c)) (i :: open) /\ In c (snd (build_step (build f cd ch) st c))).
        { destruct st as [acc pl]. unfold build_step. cbn [snd] in *. destruct (mem c pl) eqn:Em.
          - cbn [snd]. split; [apply incl_refl|]. split; [exact Hd|apply mem_In; exact Em].
          - apply mem_false in Em.
            assert (Hlt' : (length (unplaced cand (c :: pl)) < f)%nat).
            { pose proof (unplaced_less cand pl c (Hc c (or_introl eq_refl)) Em).
              pose proof (unplaced_mono cand _ _ Hinc). lia. }
            assert (Hop' : incl (i :: open) pl).
            { intros y [<-|Hy]; [apply Hinc; left; reflexivity|apply Hinc; right; apply Hop; exact Hy]. }
            pose proof (IH pl c (i :: open) Hlt' Hop' Em Hd) as Hd'.
            pose proof (build_incl cd ch f pl c) as Hi.
            destruct (build f cd ch pl c) as [sc pl']. cbn [snd] in *.
            split; [intros y Hy; apply Hi; right; exact Hy|]. split; [exact Hd'|apply Hi; left; reflexivity]. }
        destruct Hstep as [S1 [S2 S3]].
        destruct (IHt (build_step (build f cd ch) st c) (fun c0 H => Hc c0 (or_intror H)) (fun y Hy => S1 y (Hinc y Hy)) S2) as [T1 [T2 T3]].
        split; [intros y Hy; apply T1, S1; exact Hy|]. split; [exact T2|].
        intros c0 [<-|H0]; [apply T1; exact S3|apply T3; exact H0]. }
    assert (Hd0 : dco (i :: placed) (i :: open)).
    { intros p [<-|Hp] Hno x Hx; [exfalso; apply Hno; left; reflexivity|].
      right. apply (Hdc p Hp); [intros H; apply Hno; right; exact H|exact Hx]. }
    destruct (Hfold (ch i) ([], i :: placed) (Hch i) (incl_refl _) Hd0) as [F1 [F2 F3]].
    destruct (fold_left (build_step (build f cd ch)) (ch i) ([], i :: placed)) as [subs placed']. cbn [snd] in *.
    intros p Hp Hno x Hx. destruct (string_dec p i) as [->|Hne].
    - apply F3. exact Hx.
    - apply (F2 p Hp); [intros [E|H]; [congruence|exact (Hno H)]|exact Hx].
  Qed.
End Closure.

(* ---- containment trees: the forest is exactly the parent relation --------------------------------- *)
Lemma refs_decompose : forall c x, In x (refs c) -> x = c_ref c \/ exists p, In (p, x) (pairs c).
Proof.
  induction c as [c IH] using comp_ind'. intros x H.
  destruct c as [r t n v d cp l h xr p cpe s sub]. cbn [refs pairs c_ref c_sub] in *.
  rewrite Forall_forall in IH.
  destruct H as [<-|H]; [left; reflexivity|right].
  apply in_flat_map in H as [s0 [Hs0 H]]. destruct (IH s0 Hs0 x H) as [->|[p0 Hp0]].
  - exists r. apply in_or_app. left. apply in_map_iff. exists s0. auto.
  - exists p0. apply in_or_app. right. apply in_flat_map. exists s0. auto.
Qed.

Section TreeAssemble.
  Variables (order : list string) (root : string) (cd : string -> comp) (par : list (string * string)) (rank : string -> nat).
  Hypothesis Hnd : NoDup order.
  Hypothesis Hcd : forall x, In x order -> c_ref (cd x) = x /\ c_sub (cd x) = [].
  Hypothesis Hpar : forall x p, In (x, p) par -> In x order /\ x <> root /\ (p = root \/ In p order).
  Hypothesis Hkeys : NoDup (map fst par).
  Hypothesis Hrank : forall x p, In (x, p) par -> (rank p < rank x)%nat.
  Hypothesis Hconn : forall x, In x order -> x <> root -> exists p, In (x, p) par.

  Let F := S (length order).
  Let ch := children_of par.

  Lemma ch_in_order x y : In y (ch x) -> In y order.
  Proof. intros H. apply children_of_In in H. exact (proj1 (Hpar _ _ H)). Qed.

  Lemma unplaced_lt pl i : (length (unplaced order (i :: pl)) < F)%nat.
  Proof. unfold unplaced, F. pose proof (filter_len (fun x => negb (mem x (i :: pl))) order). lia. Qed.

  (* the state after a walk: placed nodes are descendant-closed, top-level components sit under the root *)
  Definition walk_inv (st : list comp * list string) : Prop :=
    dco ch (snd st) [] /\ Forall (fun c => In (c_ref c, root) par) (fst st).

  Lemma first_walk_step st i : In i order -> walk_inv st ->
    let st' := top_step F root cd par true st i in
    walk_inv st' /\ incl (snd st) (snd st') /\ (i <> root -> In (i, root) par -> In i (snd st')).
  Proof.
    intros Hi [Hd Ht]. destruct st as [acc pl]. cbn [fst snd] in *. unfold top_step.
    destruct (String.eqb i root) eqn:Er.
    - cbn [orb fst snd]. split; [split; assumption|]. split; [apply incl_refl|].
      intros Hne. apply String.eqb_eq in Er. contradiction.
    - cbn [orb]. destruct (mem i pl) eqn:Em.
      + cbn [fst snd]. split; [split; assumption|]. split; [apply incl_refl|]. intros _ _. apply mem_In. exact Em.
      + cbn [andb]. destruct (sassoc i par) as [p|] eqn:Es.
        * destruct (String.eqb p root) eqn:Ep; cbn [negb].
          -- (* directly under the root: built now *)
             apply String.eqb_eq in Ep. subst p. apply mem_false in Em.
             pose proof (build_dc cd ch order ch_in_order F pl i [] (unplaced_lt pl i) (fun y H => match H with end) Em Hd) as Hd'.
             pose proof (build_incl cd ch F pl i) as Hinc.
             pose proof (build_ref_pairs cd ch (fun x => In x order) Hcd ch_in_order F pl i Hi) as [Href _].
             fold ch. destruct (build F cd ch pl i) as [c pl']. cbn [fst snd] in *.
             split; [split; [exact Hd'|]|split].
             ++ apply Forall_app. split; [exact Ht|]. constructor; [|constructor]. rewrite Href. apply sassoc_Some_In. exact Es.
             ++ intros y Hy. apply Hinc. right. exact Hy.
             ++ intros _ _. apply Hinc. left. reflexivity.
          -- cbn [fst snd]. split; [split; assumption|]. split; [apply incl_refl|].
             intros _ Hir. apply sassoc_Some_In in Es. pose proof (NoDup_keys_unique par i p root Hkeys Es Hir). subst.
             rewrite String.eqb_refl in Ep. discriminate.
        * (* no recorded parent: impossible for a connected non-root node, but harmless *)
          apply String.eqb_neq in Er. destruct (Hconn i Hi Er) as [p Hp].
          destruct (sassoc_In_Some i par) as [v Hv]; [apply in_map_iff; exists (i, p); auto|]. congruence.
  Qed.

  Lemma first_walk : forall l st, incl l order -> walk_inv st ->
    let st' := fold_left (top_step F root cd par true) l st in
    walk_inv st' /\ incl (snd st) (snd st') /\ (forall i, In i l -> i <> root -> In (i, root) par -> In i (snd st')).
  Proof.
    induction l as [|i r IH]; intros st Hl Hinv; cbn [fold_left].
    - split; [exact Hinv|]. split; [apply incl_refl|intros i []].
    - destruct (first_walk_step st i (Hl i (or_introl eq_refl)) Hinv) as [H1 [H2 H3]].
      destruct (IH _ (fun y Hy => Hl y (or_intror Hy)) H1) as [G1 [G2 G3]].
      split; [exact G1|]. split; [intros y Hy; apply G2, H2; exact Hy|].
      intros j [<-|Hj] Hne Hjr; [apply G2, H3; assumption|apply G3; assumption].
  Qed.

  Definition st1 := fold_left (top_step F root cd par true) order ([], []).

  Lemma st1_inv : walk_inv st1 /\ forall i, In i order -> i <> root -> In (i, root) par -> In i (snd st1).
  Proof.
    destruct (first_walk order ([], []) (incl_refl _)) as [H1 [_ H3]].
    - split; [intros p []|constructor].
    - split; assumption.
  Qed.

  (* after the first walk every node other than the root is placed: by induction on the depth *)
  Lemma all_placed : forall n x, (rank x <= n)%nat -> In x order -> x <> root -> In x (snd st1).
  Proof.
    destruct st1_inv as [[Hd _] Htop].
    induction n as [|n IH]; intros x Hr Hx Hne; destruct (Hconn x Hx Hne) as [p Hp]; pose proof (Hrank x p Hp) as Hlt.
    - lia.
    - destruct (Hpar x p Hp) as [_ [_ [->|Hpo]]]; [apply Htop; assumption|].
      destruct (string_dec p root) as [->|Hpr]; [apply Htop; assumption|].
      assert (Hpp : In p (snd st1)) by (apply IH; [lia|exact Hpo|exact Hpr]).
      apply (Hd p Hpp (fun H => H)). apply children_of_In. exact Hp.
  Qed.

  (* the second walk finds nothing left to do *)
  Lemma second_walk_id : forall l st, (forall i, In i l -> i = root \/ In i (snd st)) ->
    fold_left (top_step F root cd par false) l st = st.
  Proof.
    induction l as [|i r IH]; intros st H; cbn [fold_left]; [reflexivity|].
    assert (E : top_step F root cd par false st i = st).
    { destruct st as [acc pl]. unfold top_step. destruct (H i (or_introl eq_refl)) as [->|Hin].
      - rewrite String.eqb_refl. reflexivity.
      - cbn [snd] in Hin. apply mem_In in Hin. rewrite Hin, orb_true_r. reflexivity. }
    rewrite E. apply IH. intros j Hj. apply H. right. exact Hj.
  Qed.

  Theorem tree_forest_is_first_walk : assemble order root cd par = fst st1.
  Proof.
    unfold assemble, assemble_with. fold F. fold st1. rewrite second_walk_id; [reflexivity|].
    intros i Hi. destruct (string_dec i root) as [->|Hne]; [left; reflexivity|right].
    exact (all_placed (rank i) i (Nat.le_refl _) Hi Hne).
  Qed.

  (* nesting and top-level placement together are exactly the recorded parent relation *)
  Theorem tree_forest_spec p x :
    In (p, x) (flat_map pairs (assemble order root cd par) ++ map (fun c => (root, c_ref c)) (assemble order root cd par))
    <-> In (x, p) par.
  Proof.
    pose proof (assemble_pairs_sound F order root cd par Hcd (fun y q H => proj1 (Hpar y q H))) as Hsound.
    pose proof (assemble_exactly_once F order root cd par Hnd Hcd (fun y q H => conj (proj1 (Hpar y q H)) (proj1 (proj2 (Hpar y q H))))) as Honce.
    fold (assemble order root cd par) in Hsound, Honce.
    assert (Htop : Forall (fun c => In (c_ref c, root) par) (assemble order root cd par)).
    { rewrite tree_forest_is_first_walk. exact (proj2 (proj1 st1_inv)). }
    rewrite Forall_forall in Htop.
    split.
    - intros H. apply in_app_or in H as [H|H]; [exact (Hsound p x H)|].
      apply in_map_iff in H as [c [E Hc]]. injection E as <- <-. exact (Htop c Hc).
    - intros H. destruct (Hpar x p H) as [Hxo [Hxr _]].
      assert (Hx : In x (flat_map refs (assemble order root cd par))).
      { eapply Permutation_in; [apply Permutation_sym; exact Honce|]. apply filter_In. split; [exact Hxo|]. apply negb_eqb_true. exact Hxr. }
      apply in_flat_map in Hx as [c [Hc Hx]]. destruct (refs_decompose c x Hx) as [->|[p' Hp']].
      + pose proof (NoDup_keys_unique par (c_ref c) p root Hkeys H (Htop c Hc)). subst p.
        apply in_or_app. right. apply in_map_iff. exists c. auto.
      + assert (Hin : In (p', x) (flat_map pairs (assemble order root cd par))) by (apply in_flat_map; exists c; auto).
        pose proof (NoDup_keys_unique par x p p' Hkeys H (Hsound p' x Hin)). subst p'.
        apply in_or_app. left. exact Hin.
  Qed.
End TreeAssemble.

(* ---- C02: the containment tree read back is the one written --------------------------------------- *)
Record cdx_tree_class (nl : nodelist) (root : string) (rank : string -> nat) : Prop := {
  tc_roots : nl_root_elements nl = [root];
  tc_nodup : NoDup (ids nl);
  tc_root_in : In root (ids nl);
  tc_ids : forall i, In i (ids nl) -> i <> "" /\ is_auto_ref i = false;
  tc_edges : forall e, In e (nl_edges nl) ->
               In (e_from e) (ids nl) /\ forall x, In x (e_to e) -> In x (ids nl) /\ e_type e = Edge_Type_contains;
  tc_root_rank : rank root = 0%nat;
  tc_rank : forall e x, In e (nl_edges nl) -> In x (e_to e) -> (rank (e_from e) < rank x)%nat;
  tc_unique : forall e1 e2 x, In e1 (nl_edges nl) -> In e2 (nl_edges nl) -> In x (e_to e1) -> In x (e_to e2) -> e_from e1 = e_from e2;
  tc_conn : forall i, In i (ids nl) -> i <> root -> exists e, In e (nl_edges nl) /\ In i (e_to e)
}.

Lemma set_sub_self c : set_sub c (c_sub c) = c.
Proof. destruct c as [a1 a2 a3 a4 a5 a6 a7 a8 a9 a10 a11 a12 subs]. reflexivity. Qed.

Lemma clear_auto_id : forall c, (forall r, In r (refs c) -> is_auto_ref r = false) -> clear_auto c = c.
Proof.
  induction c as [c IH] using comp_ind'. intros H.
  assert (Hs : map clear_auto (c_sub c) = c_sub c).
  { rewrite <- (map_id (c_sub c)) at 2. apply map_ext_in. intros s Hs. rewrite Forall_forall in IH. apply (IH s Hs).
    intros r Hr. apply H. exact (refs_sub c s r Hs Hr). }
  assert (Hh : is_auto_ref (c_ref c) = false) by (apply H, refs_head).
  destruct c as [a1 a2 a3 a4 a5 a6 a7 a8 a9 a10 a11 a12 subs]. cbn [clear_auto c_ref c_sub] in *.
  rewrite Hh, Hs. reflexivity.
Qed.

Lemma refs_leaf c : c_sub c = [] -> refs c = [c_ref c] /\ pairs c = [].
Proof. destruct c as [a1 a2 a3 a4 a5 a6 a7 a8 a9 a10 a11 a12 subs]. cbn [c_sub refs pairs c_ref]. intros ->. split; reflexivity. Qed.

Lemma cdx_ser_meta d b : cdx_ser d = Ok b ->
  b_has_metadata b = true /\ exists mc, b_meta_comp b = Some mc /\ c_sub mc = [].
Proof.
  unfold cdx_ser. destruct (d_metadata d) as [md|]; [|discriminate]. destruct (d_node_list d) as [nl|]; [|discriminate].
  destruct (nl_root_elements nl) as [|root [|r2 rr]]; [| |discriminate].
  - destruct (nl_nodes nl); [|discriminate]. intros H. injection H as <-. split; [reflexivity|]. exists empty_comp. split; reflexivity.
  - destruct (first_node root (nl_nodes nl)) as [rn|]; [|discriminate].
    destruct (all_ok phase_of (md_documentTypes md)) as [lcs| | |]; try discriminate.
    destruct (negb _); [discriminate|]. destruct (negb _); [discriminate|]. intros H. injection H as <-.
    cbn [b_has_metadata b_meta_comp]. split; [reflexivity|].
    assert (Hsn : forall c nm, c_sub (set_name c nm) = c_sub c) by (intros [] ?; reflexivity).
    eexists. split; [reflexivity|]. match goal with |- context [if ?c then _ else _] => destruct c end; rewrite ?Hsn; reflexivity.
Qed.

Theorem cdx_tree_roundtrip d md nl root rank b :
  d_metadata d = Some md -> d_node_list d = Some nl -> cdx_tree_class nl root rank -> cdx_ser d = Ok b ->
  let nl' := cdx_unser_nl b in
  (forall i, Nset nl' i <-> Nset nl i) /\
  (forall f t x, Eset nl' f t x <-> Eset nl f t x) /\
  nl_root_elements nl' = [root].
Proof.
  intros Emd Enl C Hser. cbn zeta.
  destruct C as [Croots Cnd Crin Cids Cedges Crr Crank Cuniq Cconn].
  destruct (cdx_ser_shape d b Hser) as [md' [nl0 [_ [Enl0 [[Er0 _]|[root0 [rn [Er0 [Efn [Hfrom [Hto [Ecomps [_ Emeta]]]]]]]]]]]]];
    rewrite Enl in Enl0; injection Enl0 as <-; rewrite Croots in Er0; [discriminate|injection Er0 as <-].
  destruct (cdx_ser_meta d b Hser) as [Hhm [mc [Emc Hleaf]]].
  rewrite Emc in Emeta. cbn [option_map] in Emeta. injection Emeta as Eref.
  destruct (refs_leaf mc Hleaf) as [Rm Pm]. rewrite Eref in Rm.
  assert (Hclosed : contains_closed nl) by (intros e He Ht x Hx; exact (Hto e He (or_introl Ht) x Hx)).
  pose proof (forest_exactly_once nl root Hclosed) as Honce.
  rewrite (dedup_id (ids nl) Cnd) in Honce.
  (* the serializer's assembly meets the premises of the tree theorem *)
  set (par := parents root (nl_edges nl)).
  destruct (parents_inv root (nl_edges nl)) as [Hpok Hkeys]. fold par in Hpok, Hkeys. rewrite Forall_forall in Hpok.
  assert (Hpar_edge : forall x p, In (x, p) par <-> exists e, In e (nl_edges nl) /\ e_from e = p /\ In x (e_to e)).
  { intros x p. split.
    - intros H. destruct (Hpok _ H) as [_ [_ [e [He [_ [Hf Hx]]]]]]. exists e. auto.
    - intros [e [He [Hf Hx]]]. destruct (proj2 (Cedges e He) x Hx) as [_ Ht].
      assert (Hxr : x <> root) by (intros ->; pose proof (Crank e root He Hx); lia).
      assert (Hxf : x <> e_from e) by (intros E; pose proof (Crank e x He Hx); rewrite <- E in *; lia).
      pose proof (parents_complete root (nl_edges nl) e x He Ht Hx Hxr Hxf) as Hk. fold par in Hk.
      apply in_map_iff in Hk as [[x' p'] [E Hin]]. cbn [fst] in E. subst x'.
      destruct (Hpok _ Hin) as [_ [_ [e' [He' [_ [Hf' Hx']]]]]]. cbn [fst snd] in *.
      pose proof (Cuniq e e' x He He' Hx Hx'). congruence. }
  assert (Hspec : forall p x,
            In (p, x) (flat_map pairs (cdx_forest nl root) ++ map (fun c => (root, c_ref c)) (cdx_forest nl root)) <-> In (x, p) par).
  { unfold cdx_forest, first_occurrences. rewrite (dedup_id (ids nl) Cnd).
    apply (tree_forest_spec (ids nl) root (last_comp (nl_nodes nl)) par rank Cnd).
    - intros x Hx. apply last_comp_ref. exact Hx.
    - intros x p H. apply Hpar_edge in H as [e [He [Hf Hx]]]. destruct (Cedges e He) as [Hfi Hti].
      split; [exact (proj1 (Hti x Hx))|]. split; [intros ->; pose proof (Crank e root He Hx); lia|right; rewrite <- Hf; exact Hfi].
    - exact Hkeys.
    - intros x p H. apply Hpar_edge in H as [e [He [Hf Hx]]]. rewrite <- Hf. exact (Crank e x He Hx).
    - intros x Hx Hne. destruct (Cconn x Hx Hne) as [e [He Hxe]]. exists (e_from e). apply Hpar_edge. exists e. auto. }
  (* no generated references: nothing is blanked *)
  assert (Hforest_ids : forall r, In r (flat_map refs (cdx_forest nl root)) -> In r (ids nl)).
  { intros r Hr. eapply Permutation_in in Hr; [|exact Honce]. apply filter_In in Hr. exact (proj1 Hr). }
  assert (Hclear : map clear_auto (cdx_forest nl root) = cdx_forest nl root).
  { rewrite <- (map_id (cdx_forest nl root)) at 2. apply map_ext_in. intros c Hc. apply clear_auto_id.
    intros r Hr. apply (proj2 (Cids r (Hforest_ids r (proj2 (in_flat_map refs _ r) (ex_intro _ c (conj Hc Hr)))))). }
  rewrite Hclear in Ecomps.
  assert (Hne : forall r, In r (refs mc ++ flat_map refs (b_components b)) -> r <> "").
  { intros r Hr. rewrite Rm, Ecomps in Hr. destruct Hr as [<-|Hr]; [exact (proj1 (Cids root Crin))|exact (proj1 (Cids r (Hforest_ids r Hr)))]. }
  destruct (cdx_unser_spec b mc Hhm Emc Hne) as [UN [UE UR]].
  rewrite Rm, Pm, Ecomps, Eref in *.
  split; [|split].
  - intros i. rewrite UN. cbn [app In]. split.
    + intros [<-|H]; [exact Crin|exact (Hforest_ids i H)].
    + intros H. destruct (string_dec i root) as [->|Hne']; [left; reflexivity|right].
      eapply Permutation_in; [apply Permutation_sym; exact Honce|]. apply filter_In. split; [exact H|]. apply negb_eqb_true. exact Hne'.
  - intros f t x. rewrite UE. cbn [app]. rewrite Hspec, Hpar_edge. unfold Eset, InE. split.
    + intros [-> [e [He [Hf Hx]]]]. exists e. destruct (proj2 (Cedges e He) x Hx) as [_ Ht]. auto.
    + intros [e [He [Hf [Ht Hx]]]]. destruct (proj2 (Cedges e He) x Hx) as [_ Ht']. split; [congruence|]. exists e. auto.
  - exact UR.
Qed.


(* every tree of the class is accepted by the serializer (given known document types) *)
Theorem cdx_tree_serializable d md nl root rank :
  d_metadata d = Some md -> d_node_list d = Some nl -> cdx_tree_class nl root rank ->
  (forall dt, In dt (md_documentTypes md) -> exists ph, phase_of dt = Ok ph) ->
  exists b, cdx_ser d = Ok b.
Proof.
  intros Emd Enl C Hdt. apply cdx_ser_ok_iff. exists md, nl. split; [exact Emd|]. split; [exact Enl|]. right.
  exists root. split; [exact (tc_roots _ _ _ C)|]. split; [exact (tc_root_in _ _ _ C)|]. split; [exact Hdt|].
  split.
  - intros e He. exact (proj1 (tc_edges _ _ _ C e He)).
  - intros e He _ x Hx. exact (proj1 (proj2 (tc_edges _ _ _ C e He) x Hx)).
Qed.

(* what is read back is again a tree of the class: a second pass changes nothing further *)
Theorem cdx_tree_class_preserved d md nl root rank b :
  d_metadata d = Some md -> d_node_list d = Some nl -> cdx_tree_class nl root rank -> cdx_ser d = Ok b ->
  cdx_tree_class (cdx_unser_nl b) root rank.
Proof.
  intros Emd Enl C Hser. destruct (cdx_tree_roundtrip d md nl root rank b Emd Enl C Hser) as [HN [HE HR]].
  pose proof (cdx_unser_wf b) as [Wn [Wc Wr]].
  assert (Htrip : forall e x, In e (nl_edges (cdx_unser_nl b)) -> In x (e_to e) ->
            exists e0, In e0 (nl_edges nl) /\ e_from e0 = e_from e /\ e_type e0 = e_type e /\ In x (e_to e0)).
  { intros e x He Hx. apply (proj1 (HE (e_from e) (e_type e) x)). exists e. auto. }
  destruct C as [Croots Cnd Crin Cids Cedges Crr Crank Cuniq Cconn].
  constructor.
  - exact HR.
  - exact Wn.
  - apply HN. exact Crin.
  - intros i Hi. apply Cids. apply HN. exact Hi.
  - intros e He. split; [exact (closed_from _ _ _ Wc He)|]. intros x Hx. split; [exact (closed_to _ _ _ _ Wc He Hx)|].
    destruct (Htrip e x He Hx) as [e0 [He0 [_ [Ht Hx0]]]]. rewrite <- Ht. exact (proj2 (proj2 (Cedges e0 He0) x Hx0)).
  - exact Crr.
  - intros e x He Hx. destruct (Htrip e x He Hx) as [e0 [He0 [Hf [_ Hx0]]]]. rewrite <- Hf. exact (Crank e0 x He0 Hx0).
  - intros e1 e2 x H1 H2 X1 X2. destruct (Htrip e1 x H1 X1) as [a [Ha [Fa [_ Xa]]]]. destruct (Htrip e2 x H2 X2) as [c [Hc [Fc [_ Xc]]]].
    rewrite <- Fa, <- Fc. exact (Cuniq a c x Ha Hc Xa Xc).
  - intros i Hi Hne. destruct (Cconn i (proj1 (HN i) Hi) Hne) as [e0 [He0 Hx0]].
    destruct (proj2 (HE (e_from e0) (e_type e0) i)) as [e [He [_ [_ Hx]]]]; [exists e0; auto|]. exists e. auto.
Qed.

(* ---- per node: hashes, identifiers, external references (C02) -------------------------------------- *)
From Verif Require Import Proofs.KvFacts.
From Coq Require Import Sorted.

Lemma zassoc_Some_In {A} k (l : list (Z * A)) v : zassoc k l = Some v -> In (k, v) l.
Proof.
  induction l as [|[k' v'] r IH]; simpl; [discriminate|].
  destruct (Z.eqb k k') eqn:E; intros H.
  - apply Z.eqb_eq in E. injection H as <-. subst. left. reflexivity.
  - right. exact (IH H).
Qed.

Lemma zassoc_notin {A} k (l : list (Z * A)) : ~ In k (map fst l) -> zassoc k l = None.
Proof.
  induction l as [|[k' v'] r IH]; simpl; [reflexivity|]. intros H.
  destruct (Z.eqb k k') eqn:E; [apply Z.eqb_eq in E; subst; exfalso; apply H; left; reflexivity|].
  apply IH. intros H'. apply H. right. exact H'.
Qed.

Lemma cdx_algo_table_rt :
  forallb (fun kv => (Z.eqb (slook cdx_hash_to_algo_tab 0 (snd kv)) (fst kv) && negb (Z.eqb (fst kv) 0))%bool) hash_to_cdx_tab = true.
Proof. vm_compute. reflexivity. Qed.

(* hashes CycloneDX can carry: unique algorithms (as in any map), sorted as the harness and protobuf
   print them, every algorithm in the CycloneDX table *)
Definition cdx_hash_class (hs : list (Z * string)) : Prop :=
  ksorted hs /\ forall kv, In kv hs -> exists nm, zassoc (fst kv) hash_to_cdx_tab = Some nm.

Lemma algo_rt a nm : zassoc a hash_to_cdx_tab = Some nm -> slook cdx_hash_to_algo_tab 0 nm = a /\ a <> 0.
Proof.
  intros H. apply zassoc_Some_In in H. pose proof cdx_algo_table_rt as T. rewrite forallb_forall in T.
  specialize (T _ H). cbn [fst snd] in T. apply andb_true_iff in T as [T1 T2].
  apply Z.eqb_eq in T1. apply negb_true_iff, Z.eqb_neq in T2. auto.
Qed.

Lemma comp_hashes_fold hs : forall acc,
  (forall kv, In kv hs -> exists nm, zassoc (fst kv) hash_to_cdx_tab = Some nm) ->
  NoDup (map fst (acc ++ hs)) ->
  fold_left (fun acc h => let a := slook cdx_hash_to_algo_tab 0 (fst h) in
                          if Z.eqb a 0 then acc
                          else match zassoc a acc with Some _ => acc | None => acc ++ [(a, snd h)] end)
            (cdx_hashes hs) acc = acc ++ hs.
Proof.
  induction hs as [|[a v] r IH]; intros acc Hc Hn; [cbn; rewrite app_nil_r; reflexivity|].
  destruct (Hc (a, v) (or_introl eq_refl)) as [nm Hnm]. cbn [fst] in Hnm.
  unfold cdx_hashes. cbn [flat_map fst snd]. rewrite Hnm. cbn [app fold_left fst snd].
  destruct (algo_rt a nm Hnm) as [-> Hne]. apply Z.eqb_neq in Hne. rewrite Hne.
  rewrite map_app in Hn. cbn [map fst] in Hn.
  assert (Hna : ~ In a (map fst acc)).
  { intros H. apply NoDup_app_inv in Hn as [_ [_ Hd]]. apply (Hd a H). left. reflexivity. }
  rewrite (zassoc_notin a acc Hna).
  fold (cdx_hashes r). rewrite IH.
  - rewrite <- app_assoc. reflexivity.
  - intros kv Hkv. apply Hc. right. exact Hkv.
  - rewrite <- app_assoc. cbn [app]. rewrite map_app. cbn [map fst]. exact Hn.
Qed.

Theorem cdx_hashes_roundtrip hs : cdx_hash_class hs -> comp_hashes (cdx_hashes hs) = hs.
Proof.
  intros [Hs Hc]. unfold comp_hashes.
  assert (Hn : NoDup (map fst ([] ++ hs))) by (cbn; apply ksorted_NoDup; exact Hs).
  transitivity (kvsort ([] ++ hs)); [f_equal; exact (comp_hashes_fold hs [] Hc Hn)|].
  cbn [app]. apply kvsort_sorted_id. exact Hs.
Qed.

Lemma filter_keys_notin a (acc : list (Z * string)) : ~ In a (map fst acc) -> filter (fun kv => negb (Z.eqb (fst kv) a)) acc = acc.
Proof.
  intros H. apply filter_all_true. intros kv Hkv. apply negb_true_iff, Z.eqb_neq. intros E. apply H. apply in_map_iff. exists kv. auto.
Qed.

Lemma xref_hashes_fold hs : forall acc,
  (forall kv, In kv hs -> exists nm, zassoc (fst kv) hash_to_cdx_tab = Some nm) ->
  NoDup (map fst (acc ++ hs)) ->
  fold_left (fun acc h => let a := slook cdx_hash_to_algo_tab 0 (fst h) in
                          (a, snd h) :: filter (fun kv => negb (Z.eqb (fst kv) a)) acc)
            (cdx_hashes hs) acc = rev hs ++ acc.
Proof.
  induction hs as [|[a v] r IH]; intros acc Hc Hn; [reflexivity|].
  destruct (Hc (a, v) (or_introl eq_refl)) as [nm Hnm]. cbn [fst] in Hnm.
  unfold cdx_hashes. cbn [flat_map fst snd]. rewrite Hnm. cbn [app fold_left fst snd].
  destruct (algo_rt a nm Hnm) as [-> _].
  rewrite map_app in Hn. cbn [map fst] in Hn.
  assert (Hna : ~ In a (map fst acc)).
  { intros H. apply NoDup_app_inv in Hn as [_ [_ Hd]]. apply (Hd a H). left. reflexivity. }
  rewrite (filter_keys_notin a acc Hna). fold (cdx_hashes r). rewrite IH.
  - cbn [rev]. rewrite <- app_assoc. reflexivity.
  - intros kv Hkv. apply Hc. right. exact Hkv.
  - cbn [app map fst]. apply NoDup_app_inv in Hn as [Hn1 [Hn2 Hd]]. inversion Hn2 as [|? ? Hnr Hn2']; subst.
    constructor.
    + rewrite map_app. intros H. apply in_app_or in H as [H|H]; [exact (Hna H)|exact (Hnr H)].
    + rewrite map_app. apply NoDup_app_intro; [exact Hn1|exact Hn2'|]. intros y Hy1 Hy2. apply (Hd y Hy1). right. exact Hy2.
Qed.

Theorem cdx_xref_hashes_roundtrip hs : cdx_hash_class hs -> xref_hashes (cdx_hashes hs) = hs.
Proof.
  intros [Hs Hc]. unfold xref_hashes.
  assert (Hn : NoDup (map fst ([] ++ hs))) by (cbn; apply ksorted_NoDup; exact Hs).
  transitivity (kvsort (rev hs ++ [])); [f_equal; exact (xref_hashes_fold hs [] Hc Hn)|].
  rewrite app_nil_r. apply kvsort_unique; [exact Hs|apply Permutation_sym, Permutation_rev].
Qed.

Theorem cdx_node_hashes n cc : cdx_hash_class (n_hashes n) -> n_hashes (comp_to_node (node_to_comp n) cc) = n_hashes n.
Proof. intros H. unfold comp_to_node, node_to_comp; cbn [n_hashes c_hashes]. apply cdx_hashes_roundtrip. exact H. Qed.

(* package identifiers CycloneDX carries: a purl and/or a CPE 2.3 *)
Definition cdx_ident_class (l : list (Z * string)) : Prop :=
  l = [] \/
  (exists p, p <> "" /\ l = [(SoftwareIdentifierType_PURL, p)]) \/
  (exists c, c <> "" /\ String.prefix "cpe:2.3" c = true /\ l = [(SoftwareIdentifierType_CPE23, c)]) \/
  (exists p c, p <> "" /\ c <> "" /\ String.prefix "cpe:2.3" c = true /\
               l = [(SoftwareIdentifierType_PURL, p); (SoftwareIdentifierType_CPE23, c)]).

Theorem cdx_node_identifiers n cc : cdx_ident_class (n_identifiers n) ->
  n_identifiers (comp_to_node (node_to_comp n) cc) = n_identifiers n.
Proof.
  unfold comp_to_node, node_to_comp; cbn [n_identifiers c_purl c_cpe].
  intros [E|[[p [Hp E]]|[[c [Hc [Hpre E]]]|[p [c [Hp [Hc [Hpre E]]]]]]]]; rewrite E.
  - reflexivity.
  - cbn. apply String.eqb_neq in Hp. rewrite Hp. reflexivity.
  - cbn. apply String.eqb_neq in Hc. rewrite Hc, Hpre. reflexivity.
  - cbn. apply String.eqb_neq in Hp, Hc. rewrite Hp, Hc, Hpre. reflexivity.
Qed.

(* external references CycloneDX carries: no authority, a type that has a CycloneDX counterpart of
   its own, hashes of the class *)
Definition extref_type_rt (t : Z) : bool :=
  Z.eqb (slook cdx_extref_to_type_tab cdx_extref_to_type_default (zlook extref_to_cdx_tab extref_to_cdx_default t)) t.

Definition cdx_extref_class (x : extref) : Prop :=
  x_authority x = "" /\ extref_type_rt (x_type x) = true /\ cdx_hash_class (x_hashes x).

Theorem cdx_node_external_references n cc : Forall cdx_extref_class (n_external_references n) ->
  n_external_references (comp_to_node (node_to_comp n) cc) = n_external_references n.
Proof.
  intros H. unfold comp_to_node, node_to_comp; cbn [n_external_references c_xrefs]. rewrite map_map.
  rewrite <- (map_id (n_external_references n)) at 2. apply map_ext_in. intros x Hx.
  rewrite Forall_forall in H. destruct (H x Hx) as [Ha [Ht Hh]].
  cbn [cx_url cx_comment cx_hashes cx_type]. rewrite (cdx_xref_hashes_roundtrip _ Hh).
  unfold extref_type_rt in Ht. apply Z.eqb_eq in Ht. rewrite Ht.
  destruct x as [u c a hs t]. cbn [x_url x_comment x_authority x_hashes x_type] in *. subst a. reflexivity.
Qed.

(* how many external reference types have a CycloneDX counterpart of their own *)
Lemma extref_types_with_counterpart :
  length (filter extref_type_rt ExternalReference_ExternalReferenceType_values) = 39%nat.
Proof. vm_compute. reflexivity. Qed.


(* ---- statements used verbatim by the property files ------------------------------------------------ *)
Theorem cdx_every_node_once d b : cdx_ser d = Ok b ->
  forall nl root, d_node_list d = Some nl -> nl_root_elements nl = [root] ->
  b_components b = map clear_auto (cdx_forest nl root) /\
  Permutation (flat_map refs (cdx_forest nl root)) (filter (fun i => negb (String.eqb i root)) (dedup (ids nl))) /\
  option_map c_ref (b_meta_comp b) = Some root.
Proof.
  intros H nl root Enl Er.
  destruct (cdx_ser_shape d b H) as [md [nl' [_ [Enl' [[Er' _]|[root' [rn [Er' [_ [_ [Hto [Ec [_ Em]]]]]]]]]]]]];
    rewrite Enl in Enl'; injection Enl' as <-; rewrite Er in Er'; [discriminate|injection Er' as <-].
  split; [exact Ec|]. split; [|exact Em].
  apply forest_exactly_once. intros e He Ht x Hx. exact (Hto e He (or_introl Ht) x Hx).
Qed.

Theorem cdx_nesting_is_containment d b : cdx_ser d = Ok b ->
  forall nl root p x, d_node_list d = Some nl -> nl_root_elements nl = [root] ->
  In (p, x) (flat_map pairs (cdx_forest nl root)) ->
  exists e, In e (nl_edges nl) /\ e_type e = Edge_Type_contains /\ e_from e = p /\ In x (e_to e).
Proof.
  intros H nl root p x Enl Er Hp.
  destruct (cdx_ser_shape d b H) as [md [nl' [_ [Enl' [[Er' _]|[root' [rn [Er' [_ [_ [Hto _]]]]]]]]]]];
    rewrite Enl in Enl'; injection Enl' as <-; rewrite Er in Er'; [discriminate|injection Er' as <-].
  apply (forest_pairs_are_contains_edges nl root p x); [|exact Hp].
  intros e He Ht y Hy. exact (Hto e He (or_introl Ht) y Hy).
Qed.

Theorem cdx_read_graph_well_formed b : wf (cdx_unser_nl b) /\ forall i, In i (ids (cdx_unser_nl b)) -> i <> "".
Proof. split; [apply cdx_unser_wf|apply cdx_unser_ids_nonempty]. Qed.

Theorem cdx_licence_none_or_one n cc :
  (n_licenses n = [] -> n_licenses (comp_to_node (node_to_comp n) cc) = []) /\
  (forall l, n_licenses n = [l] -> l <> "" -> n_licenses (comp_to_node (node_to_comp n) cc) = [l]).
Proof. split; [apply cdx_no_licence|apply cdx_single_licence]. Qed.

Theorem cdx_identifiers_origin b i : In i (ids (cdx_unser_nl b)) ->
  exists c cc, i = (if String.eqb (c_ref c) "" then auto_id cc else c_ref c).
Proof.
  apply (cdx_unser_ids (fun i => exists c cc, i = (if String.eqb (c_ref c) "" then auto_id cc else c_ref c))).
  intros c cc. exists c, cc. reflexivity.
Qed.

Theorem spdx_ser_total fmt_time self d : spdx_ser fmt_time self d = Err \/ exists s, spdx_ser fmt_time self d = Ok s.
Proof.
  unfold spdx_ser. destruct (d_metadata d); [|left; reflexivity].
  destruct (d_node_list d); [right; eexists; reflexivity|left; reflexivity].
Qed.

Theorem spdx_ser_ok_iff fmt_time self d :
  (exists s, spdx_ser fmt_time self d = Ok s) <-> d_metadata d <> None /\ d_node_list d <> None.
Proof.
  unfold spdx_ser. destruct (d_metadata d), (d_node_list d); split.
  - intros _. split; discriminate.
  - intros _. eexists. reflexivity.
  - intros [s H]. discriminate.
  - intros [_ H]. contradiction.
  - intros [s H]. discriminate.
  - intros [H _]. contradiction.
  - intros [s H]. discriminate.
  - intros [H _]. contradiction.
Qed.

Definition run_history (ds : list document) : list (result cbom) := map cdx_ser ds.
Theorem cdx_history_independent h1 h2 d : last (run_history (h1 ++ [d])) Err = last (run_history (h2 ++ [d])) Err.
Proof. unfold run_history. rewrite !map_app. cbn [map]. rewrite !last_last. reflexivity. Qed.

Theorem lic_entries_without_object ls :
  lic_list (ls ++ [ {| cl_expression := ""; cl_has_license := false; cl_id := "whatever" |} ]) = lic_list ls /\
  lic_string ({| cl_expression := ""; cl_has_license := false; cl_id := "whatever" |} :: ls) = lic_string ls.
Proof.
  split.
  - unfold lic_list. rewrite filter_app. cbn [filter cl_expression cl_has_license String.eqb negb andb orb]. rewrite app_nil_r. reflexivity.
  - reflexivity.
Qed.

Theorem cdx_identity n cc : n_id n <> "" ->
  let n' := comp_to_node (node_to_comp n) cc in
  n_id n' = n_id n /\ n_name n' = n_name n /\ n_version n' = n_version n.
Proof.
  intros H. destruct (cdx_scalar_attributes n cc) as [H1 [H2 [H3 _]]]. cbn zeta. split; [exact (H1 H)|]. split; assumption.
Qed.
