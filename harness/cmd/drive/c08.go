package main

import (
	"fmt"
	"path/filepath"

	"github.com/protobom/protobom/pkg/sbom"
	"google.golang.org/protobuf/proto"

	"verifharness/coqfmt"
	"verifharness/gen"
	"verifharness/graphops"
	"verifharness/props"
)

func init() { runners["C08"] = runC08 }

var mergeOrExtract = map[graphops.Kind]bool{
	graphops.Clean: true, graphops.Add: true, graphops.Union: true, graphops.Intersect: true, graphops.Remove: true,
	graphops.Siblings: true, graphops.Graph: true, graphops.Descendants: true, graphops.ByPurlType: true,
}

// runC08: random histories of editing operations from random well-formed lists. After
// every step the real NodeList is printed (one-step refinement from observed states) and
// the property is evaluated directly: well-formedness is preserved, merge/remove/extract
// results are normalised, RemoveNodes removes exactly the named nodes.
func runC08(seed int64, n int, dir string, tier string) *Report {
	g := gen.New(seed)
	rep := NewReport("C08", seed)
	rep.Rule = "n histories of up to 6 operations from a random well-formed list (<=6 nodes, <=7 edges, ids from an 8-name pool plus odd ids; in half of the histories not normalised: parallel edges, repeated targets); removals that name no node included; one case per executed step; non-trivial = the list before the step has >=2 nodes and >=1 edge, or the argument list has; distinct by hash of the printed case"
	cfx := &CasesFile{Imports: "Model.Base Model.Graph Corr.CheckC08", Type: "case08x", Eval: "mismatches_x"}
	cf := wrapAdder{cfx, "One"}
	for h := 0; h < n; h++ {
		sh := gen.Shape{MaxNodes: 6, MaxEdges: 7, WellFormed: true, Richness: 0.3, OddIDs: 0.06}
		if h%7 == 3 {
			sh.Richness = 0.9
		}
		cur := g.NodeList(sh)
		if len(cur.Edges) > 0 && g.Chance(0.5) {
			// well-formed but not normalised, as AddEdge and RelateNodeListAtID can leave a list: a second
			// edge with the same source and type sharing a target, and a repeated target
			e := cur.Edges[g.Int(len(cur.Edges))]
			if len(e.To) > 0 {
				cur.Edges = append(cur.Edges, &sbom.Edge{Type: e.Type, From: e.From, To: []string{e.To[0], e.To[len(e.To)-1]}})
				e.To = append(e.To, e.To[0])
			}
		}
		steps := 1 + g.Int(6)
		for s := 0; s < steps; s++ {
			op := graphops.Random(g, cur, graphops.AllKinds, sh)
			before := proto.Clone(cur).(*sbom.NodeList)
			var argBefore *sbom.NodeList
			if op.L2 != nil {
				argBefore = proto.Clone(op.L2).(*sbom.NodeList)
			}
			opCoq := op.Coq() // printed before the call: arguments as given
			beforeCoq := coqfmt.NodeList(cur)
			opDesc := op.Describe()
			after, outcome, pv := op.Apply(cur)
			input := map[string]any{"before": graphops.PJ(before), "op": opDesc, "outcome": outcome, "after": graphops.PJ(after)}
			if pv != nil {
				input["panic"] = fmt.Sprint(pv)
			}
			caseCoq := fmt.Sprintf("(mk_case08 %s %s %d %s)", beforeCoq, opCoq, outcome, coqfmt.NodeList(after))
			nontrivial := (len(before.Nodes) >= 2 && len(before.Edges) >= 1) || (argBefore != nil && len(argBefore.Nodes) >= 2 && len(argBefore.Edges) >= 1)
			cf.Add(caseCoq)
			rep.NoteCase(caseCoq, nontrivial, input)
			rep.Count("op=" + string(op.Kind))
			rep.Count(fmt.Sprintf("outcome=%d", outcome))
			rep.Count(fmt.Sprintf("nodes_before=%d", len(before.Nodes)))

			// direct oracle
			rep.OracleEvals++
			if outcome == graphops.Panic {
				rep.Fail(Failure{What: "operation panicked", Detail: fmt.Sprint(pv), Input: input})
			}
			argsWF := props.WellFormed(before) == nil && (argBefore == nil || props.WellFormed(argBefore) == nil)
			if op.Kind == graphops.RelateNode {
				// the node argument itself is always a well-formed argument
			}
			if outcome == graphops.OK && argsWF {
				if err := props.WellFormed(after); err != nil {
					rep.Fail(Failure{What: "result of " + string(op.Kind) + " is not well-formed", Detail: err.Error(), Input: input, Finder: finderC08(op, before, after)})
				}
				if mergeOrExtract[op.Kind] {
					if err := props.Normalised(after); err != nil {
						rep.Fail(Failure{What: "result of " + string(op.Kind) + " is not normalised", Detail: err.Error(), Input: input})
					}
				}
			}
			if outcome == graphops.OK && op.Kind == graphops.Remove {
				rm := map[string]bool{}
				for _, i := range op.IDs {
					rm[i] = true
				}
				wantN := map[string]bool{}
				for k := range props.NodeSet(before) {
					if !rm[k] {
						wantN[k] = true
					}
				}
				wantR := map[string]bool{}
				for k := range props.RootSet(before) {
					if !rm[k] {
						wantR[k] = true
					}
				}
				wantE := props.Restrict(props.TripleSet(before), wantN)
				if !props.SameStrSet(props.NodeSet(after), wantN) {
					rep.Fail(Failure{What: "RemoveNodes: node set is not the original minus the named ids", Input: input})
				}
				if !props.SameTripleSet(props.TripleSet(after), wantE) {
					rep.Fail(Failure{What: "RemoveNodes: edges are not the original edges among surviving nodes", Input: input})
				}
				if !props.SameStrSet(props.RootSet(after), wantR) {
					rep.Fail(Failure{What: "RemoveNodes: root elements are not the original roots minus the named ids", Detail: fmt.Sprintf("roots after = %v, want %v", props.Keys(props.RootSet(after)), props.Keys(wantR)), Input: input})
				}
			}
			if outcome == graphops.Panic {
				break
			}
			cur = after
			if len(cur.Nodes) > 14 {
				break
			}
		}
	}
	runC08Pool(g, rep, cfx, n/2+1)
	if tier == "thorough" {
		runC08Enum(g, rep, cfx, 4, 20000)
	} else {
		runC08Enum(g, rep, cfx, 3, 1500)
	}
	rep.CasesFiles = cfx.Write(filepath.Join(dir, "cases_C08"))
	rep.ShardSize = shardSize
	return rep
}

// grafting and merging weigh more in pool histories: they are the operations that can make lists share storage
var poolKinds = append(append([]graphops.Kind{}, graphops.AllKinds...), graphops.RelateList, graphops.RelateList, graphops.RelateNode, graphops.Add, graphops.Add, graphops.Remove)

var inPlace = map[graphops.Kind]bool{graphops.Clean: true, graphops.Add: true, graphops.Remove: true, graphops.RelateNode: true, graphops.RelateList: true}

// runC08Pool: histories over a pool of three live lists. An operation on one list may take
// another live list as its argument (so the two may come to share storage), and a
// value-returning operation's result becomes a live list too. After every step EVERY live
// list is observed: the list written is compared with the model's step (One), every other
// list must be structurally what it was (Frame), and all of them must still be well-formed.
func runC08Pool(g *gen.G, rep *Report, cfx *CasesFile, n int) {
	rep.Rule += "; plus n/2 pool histories: three live lists (<=5 nodes each, ids from one 8-name pool, root slices with and without spare capacity), up to 8 operations whose list argument is another live list three times out of four and whose result (for value-returning operations) replaces a random live list; after each step every live list is observed"
	for h := 0; h < n; h++ {
		sh := gen.Shape{MaxNodes: 5, MaxEdges: 5, WellFormed: true, Richness: 0.15, OddIDs: 0.03}
		pool := make([]*sbom.NodeList, 3)
		for i := range pool {
			pool[i] = g.NodeList(sh)
			if g.Chance(0.5) {
				// root list with spare capacity, as appends and the protobuf decoder leave them
				pool[i].RootElements = append(make([]string, 0, len(pool[i].RootElements)+1+g.Int(3)), pool[i].RootElements...)
			} else {
				pool[i].RootElements = append(make([]string, 0, len(pool[i].RootElements)), pool[i].RootElements...)
			}
		}
		type graft struct {
			at string
			t  sbom.Edge_Type
		}
		lastGraft := map[int]graft{}
		var history []any
		initial := []any{graphops.PJ(pool[0]), graphops.PJ(pool[1]), graphops.PJ(pool[2])}
		steps := 2 + g.Int(7)
		for s := 0; s < steps; s++ {
			r := g.Int(3)
			op := graphops.Random(g, pool[r], poolKinds, sh)
			if op.Kind == graphops.RelateNode || op.Kind == graphops.RelateList {
				// grafting twice at the same node with the same edge type extends the edge made the first time
				if lg, ok := lastGraft[r]; ok && g.Chance(0.6) {
					op.At, op.T = lg.at, lg.t
				}
				lastGraft[r] = graft{op.At, op.T}
			}
			a := -1
			if op.L2 != nil && g.Chance(0.75) {
				a = (r + 1 + g.Int(2)) % 3
				if g.Chance(0.12) {
					a = r // the list itself as the argument
				}
				op.L2 = pool[a]
			}
			dst := r
			if !inPlace[op.Kind] {
				dst = g.Int(3)
			}
			beforeCoq := make([]string, 3)
			beforeWF := true
			for i, l := range pool {
				beforeCoq[i] = coqfmt.NodeList(l)
				if props.WellFormed(l) != nil {
					beforeWF = false
				}
			}
			if op.L2 != nil && props.WellFormed(op.L2) != nil {
				beforeWF = false
			}
			opCoq := op.Coq()
			d := op.Describe()
			delete(d, "arg_nodelist")
			d["receiver"], d["argument_slot"], d["result_slot"] = r, a, dst
			history = append(history, d)
			after, outcome, pv := op.Apply(pool[r])
			input := map[string]any{"initial_pool": initial, "history": append([]any{}, history...), "outcome": outcome}
			if outcome == graphops.Panic {
				rep.OracleEvals++
				rep.Fail(Failure{What: "operation panicked", Detail: fmt.Sprint(pv), Input: input})
				break
			}
			if outcome == graphops.OK {
				pool[dst] = after
			} else {
				dst = r
			}
			input["pool_after"] = []any{graphops.PJ(pool[0]), graphops.PJ(pool[1]), graphops.PJ(pool[2])}
			big := false
			for i, l := range pool {
				var c string
				if i == dst && a == r && op.Kind == graphops.RelateList {
					c = fmt.Sprintf("(SelfRel %s %s %s %d %s)", beforeCoq[r], coqfmt.Str(op.At), coqfmt.Z(int64(op.T)), outcome, coqfmt.NodeList(l))
				} else if i == dst {
					c = fmt.Sprintf("(One (mk_case08 %s %s %d %s))", beforeCoq[r], opCoq, outcome, coqfmt.NodeList(l))
				} else {
					c = fmt.Sprintf("(Frame %s %s)", beforeCoq[i], coqfmt.NodeList(l))
				}
				cfx.Add(c)
				rep.NoteCase(c, i == dst || len(l.Nodes) >= 2, input)
				rep.OracleEvals++
				if beforeWF {
					if err := props.WellFormed(l); err != nil {
						rep.Fail(Failure{What: fmt.Sprintf("after %s on live list %d, live list %d is not well-formed", op.Kind, r, i), Detail: err.Error(), Input: input})
					}
				}
				if len(l.Nodes) > 12 {
					big = true
				}
			}
			rep.Count("pool_op=" + string(op.Kind))
			if a >= 0 {
				rep.Count("pool_arg=live-list")
			} else {
				rep.Count("pool_arg=fresh-or-none")
			}
			if big {
				break
			}
		}
	}
}

func finderC08(op *graphops.Op, before, after *sbom.NodeList) string { return "" }
