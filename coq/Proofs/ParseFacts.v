(* Totality of the reading pipeline (C04) and frame corollaries for C11. *)
From Coq Require Import Lia.
From Verif Require Import Model.Base Model.Node Model.Graph Model.Match Model.Sniff Model.Spdx Model.Cdx Model.Parse Model.Heap
  Proofs.GraphFacts Proofs.SniffFacts Proofs.SpdxFacts Proofs.CdxFacts Proofs.HeapFacts.
Open Scope list_scope.

Theorem parse_document_or_error parse_time decode d lines :
  parse parse_time decode d lines = Err \/ exists nl, parse parse_time decode d lines = Ok nl.
Proof.
  unfold parse. destruct (sniff_total d lines) as [[f E]|E]; rewrite E; [|left; reflexivity].
  destruct (decode f); [right; eexists; reflexivity|right; eexists; reflexivity|left; reflexivity].
Qed.

Theorem parse_cdx_well_formed parse_time decode d lines f b :
  sniff d lines = Ok f -> decode f = DecCdx b -> exists nl, parse parse_time decode d lines = Ok nl /\ wf nl.
Proof. intros E1 E2. unfold parse. rewrite E1, E2. eexists. split; [reflexivity|apply cdx_unser_wf]. Qed.

Theorem spdx_output_bounded parse_time s :
  let nl := spdx_unser_nl parse_time s in
  length (nl_nodes nl) = (length (sd_packages s) + length (sd_files s))%nat /\
  (length (nl_edges nl) + length (nl_root_elements nl) = length (sd_rels s))%nat.
Proof.
  cbn [spdx_unser_nl nl_nodes nl_edges nl_root_elements]. rewrite app_length, !map_length.
  split; [reflexivity|].
  induction (sd_rels s) as [|r rest IH]; [reflexivity|]. cbn [filter]. destruct (is_describes r); cbn [negb length]; lia.
Qed.

Theorem copy_does_not_write h v v' h' :
  dense h -> closed_heap h -> (forall m, ptr_of v = Some m -> 0 <= m < Z.of_nat (length h)) ->
  copy_value h v = (v', h') ->
  forall l c, hget h l = Some c -> hget h' l = Some c.
Proof. intros Hd Hc Hv E. exact (proj1 (proj2 (copy_frame_and_separation h v v' h' Hd Hc Hv E))). Qed.

Theorem operand_snapshot_unchanged fuel h v v' h' w :
  dense h -> closed_heap h -> (forall m, ptr_of v = Some m -> 0 <= m < Z.of_nat (length h)) ->
  copy_value h v = (v', h') ->
  (forall l, Reach h w l -> hget h l <> None) ->
  tree_of fuel h' w = tree_of fuel h w.
Proof.
  intros Hd Hc Hv E Hw.
  destruct (copy_frame_and_separation h v v' h' Hd Hc Hv E) as [[new ->] _].
  apply later_allocations_keep_snapshot. exact Hw.
Qed.
