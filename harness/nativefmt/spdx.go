// Package nativefmt prints the native SPDX / CycloneDX structures as terms of the Coq records of
// Model/Spdx.v and Model/Cdx.v (only the fields protobom touches).
package nativefmt

import (
	"fmt"
	"strings"

	"github.com/spdx/tools-golang/spdx"
	"github.com/spdx/tools-golang/spdx/v2/common"

	"verifharness/coqfmt"
)

func pair(a, b string) string { return "(" + coqfmt.Str(a) + ", " + coqfmt.Str(b) + ")" }

func checksums(cs []common.Checksum) string {
	return coqfmt.List(cs, func(c common.Checksum) string { return pair(string(c.Algorithm), c.Value) })
}

func actor(name, typ string, present bool) string {
	if !present {
		return "None"
	}
	return "(Some " + pair(name, typ) + ")"
}

func SPkg(p *spdx.Package) string {
	sup, ori := "None", "None"
	if p.PackageSupplier != nil {
		sup = actor(p.PackageSupplier.Supplier, p.PackageSupplier.SupplierType, true)
	}
	if p.PackageOriginator != nil {
		ori = actor(p.PackageOriginator.Originator, p.PackageOriginator.OriginatorType, true)
	}
	var refs []string
	for _, r := range p.PackageExternalReferences {
		if r == nil {
			continue
		}
		refs = append(refs, fmt.Sprintf("(mk_sref %s %s %s %s)", coqfmt.Str(r.Category), coqfmt.Str(r.RefType), coqfmt.Str(r.Locator), coqfmt.Str(r.ExternalRefComment)))
	}
	return fmt.Sprintf("(mk_spkg %s %s %s %s %s %s %s %s %s %s %s %s %s %s %s %s [%s] %s %s %s %s %s)",
		coqfmt.Str(string(p.PackageSPDXIdentifier)), coqfmt.Str(p.PackageName), coqfmt.Str(p.PackageVersion), coqfmt.Str(p.PackageFileName),
		sup, ori, coqfmt.Str(p.PackageDownloadLocation), checksums(p.PackageChecksums),
		coqfmt.Str(p.PackageHomePage), coqfmt.Str(p.PackageSourceInfo), coqfmt.Str(p.PackageLicenseConcluded), coqfmt.Str(p.PackageLicenseComments),
		coqfmt.Str(p.PackageCopyrightText), coqfmt.Str(p.PackageSummary), coqfmt.Str(p.PackageDescription), coqfmt.Str(p.PackageComment),
		strings.Join(refs, "; "), coqfmt.Strs(p.PackageAttributionTexts), coqfmt.Str(p.PrimaryPackagePurpose),
		coqfmt.Str(p.ReleaseDate), coqfmt.Str(p.BuiltDate), coqfmt.Str(p.ValidUntilDate))
}

func SFile(f *spdx.File) string {
	return fmt.Sprintf("(mk_sfile %s %s %s %s %s %s %s %s %s %s)",
		coqfmt.Str(string(f.FileSPDXIdentifier)), coqfmt.Str(f.FileName), coqfmt.Strs(f.FileTypes), checksums(f.Checksums),
		coqfmt.Str(f.LicenseConcluded), coqfmt.Strs(f.LicenseInfoInFiles), coqfmt.Str(f.LicenseComments),
		coqfmt.Str(f.FileCopyrightText), coqfmt.Str(f.FileComment), coqfmt.Strs(f.FileAttributionTexts))
}

func SRel(r *spdx.Relationship) string {
	return fmt.Sprintf("(mk_srel %s %s %s %s)", coqfmt.Str(string(r.RefA.ElementRefID)), coqfmt.Str(string(r.RefB.ElementRefID)),
		coqfmt.Str(r.RefB.SpecialID), coqfmt.Str(r.Relationship))
}

func SDoc(d *spdx.Document) string {
	var creators, pkgs, files, rels []string
	if d.CreationInfo != nil {
		for _, c := range d.CreationInfo.Creators {
			creators = append(creators, pair(c.Creator, c.CreatorType))
		}
	}
	for _, p := range d.Packages {
		if p != nil {
			pkgs = append(pkgs, SPkg(p))
		}
	}
	for _, f := range d.Files {
		if f != nil {
			files = append(files, SFile(f))
		}
	}
	for _, r := range d.Relationships {
		if r != nil {
			rels = append(rels, SRel(r))
		}
	}
	return fmt.Sprintf("(mk_sdoc %s %s %s %s [%s] [%s] [%s] [%s])", coqfmt.Str(d.DocumentName), coqfmt.Str(d.DocumentNamespace),
		coqfmt.Str(string(d.SPDXIdentifier)), coqfmt.Str(d.DocumentComment),
		strings.Join(creators, "; "), strings.Join(pkgs, "; "), strings.Join(files, "; "), strings.Join(rels, "; "))
}
