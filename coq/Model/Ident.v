(* Model of the public identifier generator, pkg/sbom/functions.go: NewNodeIdentifier.  The UUID
   taken when no seed is usable is a parameter. *)
From Verif Require Import Model.Base.
Open Scope list_scope.

Definition between (lo hi : nat) (c : ascii) : bool := (Nat.leb lo (nat_of_ascii c) && Nat.leb (nat_of_ascii c) hi)%bool.

(* the identifier-safe alphabet: [a-zA-Z0-9-.] *)
Definition safe_char (c : ascii) : bool :=
  (between 97 122 c || between 65 90 c || between 48 57 c || Ascii.eqb c "-" || Ascii.eqb c ".")%bool.

Definition sep_char (c : ascii) : bool := (Ascii.eqb c "/" || Ascii.eqb c ":" || Ascii.eqb c " ")%bool.

Fixpoint all_safe (s : string) : bool :=
  match s with EmptyString => true | String c r => (safe_char c && all_safe r)%bool end.

(* separators become dashes; every other byte outside the alphabet becomes C<its number> *)
Fixpoint sanitize (s : string) : string :=
  match s with
  | EmptyString => EmptyString
  | String c r =>
      if sep_char c then String "-" (sanitize r)
      else if safe_char c then String c (sanitize r)
      else (String "C" (dec (Z.of_nat (nat_of_ascii c))) ++ sanitize r)%string
  end.

Definition is_known (s : string) : bool := (String.eqb s "auto" || String.eqb s "node")%bool.

(* the loop over the seeds: known flags are taken while no seed text has been accepted yet *)
Fixpoint scan (seeds known valid : list string) : list string * list string :=
  match seeds with
  | [] => (known, valid)
  | s :: r =>
      if (is_known s && match valid with [] => true | _ => false end)%bool then scan r (known ++ [s]) valid
      else let s' := sanitize s in
           if String.eqb s' "" then scan r known valid else scan r known (valid ++ [s'])
  end.

Definition assemble_id (known valid : list string) : string :=
  match valid with
  | [] => join "-" known
  | v :: r => join "-" (known ++ ("-" ++ v)%string :: r)
  end.

Definition new_id (uuid : string) (seeds : list string) : string :=
  let '(known, valid) := scan seeds ["protobom"] [] in
  assemble_id known (match valid with [] => [uuid] | _ => valid end).

(* a seed list is usable when some seed survives as text *)
Definition usable (seeds : list string) : bool :=
  match snd (scan seeds ["protobom"] []) with [] => false | _ => true end.
