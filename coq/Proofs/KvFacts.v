(* The numeric sort of map entries (Model/Flat.v kvsort): a permutation; on unique keys the unique
   strictly sorted one. *)
From Coq Require Import Lia Permutation Sorted.
From Verif Require Import Model.Base Model.Flat.
Open Scope list_scope.

Definition klt (a b : Z * string) : Prop := fst a < fst b.
Definition ksorted (l : list (Z * string)) : Prop := StronglySorted klt l.

Lemma kvinsert_perm x l : Permutation (x :: l) (kvinsert x l).
Proof.
  induction l as [|y r IH]; simpl; [apply Permutation_refl|].
  destruct (Z.leb (fst x) (fst y)); [apply Permutation_refl|].
  eapply Permutation_trans; [apply perm_swap|]. constructor. exact IH.
Qed.

Lemma kvsort_perm l : Permutation l (kvsort l).
Proof.
  induction l as [|x r IH]; simpl; [constructor|].
  eapply Permutation_trans; [|apply kvinsert_perm]. constructor. exact IH.
Qed.

Lemma kvinsert_sorted x l : ksorted l -> ~ In (fst x) (map fst l) -> ksorted (kvinsert x l).
Proof.
  intros Hs. induction Hs as [|y r Hr IH Hy]; intros Hn; simpl.
  - constructor; [constructor|constructor].
  - destruct (Z.leb (fst x) (fst y)) eqn:E.
    + apply Z.leb_le in E. assert (Hlt : fst x < fst y) by (assert (fst x <> fst y) by (intros H; apply Hn; left; auto); lia).
      constructor; [constructor; assumption|]. constructor; [exact Hlt|].
      rewrite Forall_forall in *. intros z Hz. specialize (Hy z Hz). unfold klt in *. lia.
    + apply Z.leb_gt in E. constructor.
      * apply IH. intros H. apply Hn. right. exact H.
      * rewrite Forall_forall in *. intros z Hz.
        eapply Permutation_in in Hz; [|apply Permutation_sym, kvinsert_perm].
        destruct Hz as [<-|Hz]; [exact E|exact (Hy z Hz)].
Qed.

Lemma kvsort_ksorted l : NoDup (map fst l) -> ksorted (kvsort l).
Proof.
  induction l as [|x r IH]; intros Hn; simpl; [constructor|].
  inversion Hn as [|? ? Hnot Hn']; subst. apply kvinsert_sorted; [apply IH; exact Hn'|].
  intros H. apply Hnot. apply in_map_iff in H as [z [Ez Hz]]. apply in_map_iff. exists z. split; [exact Ez|].
  eapply Permutation_in; [apply Permutation_sym, kvsort_perm|exact Hz].
Qed.

Lemma ksorted_head_min x l : ksorted (x :: l) -> forall y, In y l -> fst x < fst y.
Proof. intros H y Hy. inversion H as [|? ? _ Hall]; subst. rewrite Forall_forall in Hall. exact (Hall y Hy). Qed.

Lemma ksorted_perm_eq : forall l l', ksorted l -> ksorted l' -> Permutation l l' -> l = l'.
Proof.
  induction l as [|x r IH]; intros l' Hs Hs' Hp.
  - apply Permutation_nil in Hp. subst. reflexivity.
  - destruct l' as [|y r']; [apply Permutation_sym, Permutation_nil in Hp; discriminate|].
    assert (Hxy : x = y).
    { assert (Hx : In x (y :: r')) by (eapply Permutation_in; [exact Hp|left; reflexivity]).
      assert (Hy : In y (x :: r)) by (eapply Permutation_in; [apply Permutation_sym; exact Hp|left; reflexivity]).
      destruct Hx as [->|Hx]; [reflexivity|]. destruct Hy as [->|Hy]; [reflexivity|].
      pose proof (ksorted_head_min _ _ Hs y Hy). pose proof (ksorted_head_min _ _ Hs' x Hx). lia. }
    subst y. f_equal. apply IH.
    + inversion Hs; assumption.
    + inversion Hs'; assumption.
    + exact (Permutation_cons_inv Hp).
Qed.

Lemma ksorted_NoDup l : ksorted l -> NoDup (map fst l).
Proof.
  intros H. induction H as [|x r Hr IH Hx]; simpl; [constructor|]. constructor; [|exact IH].
  intros Hin. apply in_map_iff in Hin as [y [Ey Hy]]. rewrite Forall_forall in Hx. specialize (Hx y Hy). unfold klt in Hx. lia.
Qed.

(* on unique keys the sort result is determined by the entries alone *)
Theorem kvsort_unique l l' : ksorted l' -> Permutation l l' -> kvsort l = l'.
Proof.
  intros Hs Hp. apply ksorted_perm_eq; [|exact Hs|].
  - apply kvsort_ksorted. eapply Permutation_NoDup; [apply Permutation_map, Permutation_sym; exact Hp|apply ksorted_NoDup; exact Hs].
  - eapply Permutation_trans; [apply Permutation_sym, kvsort_perm|exact Hp].
Qed.

Corollary kvsort_sorted_id l : ksorted l -> kvsort l = l.
Proof. intros H. apply kvsort_unique; [exact H|apply Permutation_refl]. Qed.
