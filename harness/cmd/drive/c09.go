package main

import (
	"reflect"
	"fmt"
	"google.golang.org/protobuf/types/known/timestamppb"
	"path/filepath"

	"github.com/protobom/protobom/pkg/sbom"
	"google.golang.org/protobuf/proto"
	"google.golang.org/protobuf/reflect/protoreflect"

	"verifharness/coqfmt"
	"verifharness/gen"
	"verifharness/graphops"
	"verifharness/props"
)

func init() {
	runners["C09"] = runC09
	runners["C10"] = runC10
}

type sets struct {
	N map[string]bool
	R map[string]bool
	E map[props.Triple]bool // restricted to present nodes
}

func setsOf(nl *sbom.NodeList) sets {
	n := props.NodeSet(nl)
	return sets{N: n, R: props.RootSet(nl), E: props.Restrict(props.TripleSet(nl), n)}
}

func (s sets) same(o sets) bool {
	return props.SameStrSet(s.N, o.N) && props.SameStrSet(s.R, o.R) && props.SameTripleSet(s.E, o.E)
}

// sameRes compares with roots restricted to present nodes.
func (s sets) sameRes(o sets) bool {
	return props.SameStrSet(s.N, o.N) && props.SameStrSet(props.InterStr(s.R, s.N), props.InterStr(o.R, o.N)) && props.SameTripleSet(s.E, o.E)
}

func clone(nl *sbom.NodeList) *sbom.NodeList { return proto.Clone(nl).(*sbom.NodeList) }

func uniqueIDs(nl *sbom.NodeList) bool {
	seen := map[string]bool{}
	for _, n := range nl.Nodes {
		if seen[n.Id] {
			return false
		}
		seen[n.Id] = true
	}
	return true
}

func byID(nl *sbom.NodeList) map[string]*sbom.Node {
	m := map[string]*sbom.Node{}
	for _, n := range nl.Nodes {
		m[n.Id] = n
	}
	return m
}

// attrRule checks, field by field over the schema (reflection), that res takes win's value
// where win's is non-empty and lose's otherwise. id and type are not merged.
func attrRule(res, win, lose *sbom.Node) string {
	fds := res.ProtoReflect().Descriptor().Fields()
	for i := 0; i < fds.Len(); i++ {
		fd := fds.Get(i)
		if fd.Name() == "id" || fd.Name() == "type" {
			continue
		}
		want := lose
		if win.ProtoReflect().Has(fd) {
			want = win
		}
		if !fieldEqual(fd, res.ProtoReflect(), want.ProtoReflect()) {
			return fmt.Sprintf("attribute %s: got %v, want %v", fd.Name(), res.ProtoReflect().Get(fd), want.ProtoReflect().Get(fd))
		}
	}
	return ""
}

func fieldEqual(fd protoreflect.FieldDescriptor, a, b protoreflect.Message) bool {
	if a.Has(fd) != b.Has(fd) {
		return false
	}
	if !a.Has(fd) {
		return true
	}
	return a.Get(fd).Equal(b.Get(fd))
}

func danglingResolvedElsewhere(ops ...*sbom.NodeList) bool {
	for i, x := range ops {
		nx := props.NodeSet(x)
		for _, e := range x.Edges {
			eps := append([]string{e.From}, e.To...)
			for _, p := range eps {
				if nx[p] {
					continue
				}
				for j, y := range ops {
					if j != i && props.NodeSet(y)[p] {
						return true
					}
				}
			}
		}
	}
	return false
}

func pairInput(names []string, ls ...*sbom.NodeList) map[string]any {
	m := map[string]any{}
	for i, l := range ls {
		m[names[i]] = graphops.PJ(l)
	}
	return m
}

// perturbed returns a copy of a in which edges keep their source and type but gain, lose or swap
// targets, some edges are dropped and a few added: operands that share most (source,type) keys.
func perturbed(g *gen.G, a *sbom.NodeList) *sbom.NodeList {
	b := clone(a)
	var ids []string
	for _, n := range b.Nodes {
		ids = append(ids, n.Id)
	}
	if len(ids) == 0 {
		return b
	}
	var edges []*sbom.Edge
	for _, e := range b.Edges {
		if g.Chance(0.15) {
			continue
		}
		if g.Chance(0.5) {
			e.To = append(e.To, gen.Pick(g, ids))
		}
		if len(e.To) > 1 && g.Chance(0.4) {
			e.To = e.To[1:]
		}
		if len(e.To) > 0 && g.Chance(0.3) {
			e.To[g.Int(len(e.To))] = gen.Pick(g, ids)
		}
		edges = append(edges, e)
	}
	for k := g.Int(3); k > 0; k-- {
		edges = append(edges, &sbom.Edge{Type: g.EdgeType(), From: gen.Pick(g, ids), To: []string{gen.Pick(g, ids)}})
	}
	g.R.Shuffle(len(edges), func(i, j int) { edges[i], edges[j] = edges[j], edges[i] })
	b.Edges = edges
	if g.Chance(0.3) && len(b.Nodes) > 1 {
		b.Nodes = b.Nodes[1:]
	}
	if g.Chance(0.3) {
		b.Nodes = append(b.Nodes, g.Node("n"+gen.Pick(g, gen.IDPool), 0.3))
	}
	return b
}

func operandShape(g *gen.G, i int) gen.Shape {
	sh := gen.Shape{MaxNodes: 5, MaxEdges: 6, WellFormed: i%3 != 0, Richness: 0.35, OddIDs: 0.05, Pool: gen.IDPool[:6]}
	if i%5 == 1 {
		sh.Richness = 0.9
	}
	return sh
}

// runC09: Union and Add on pairs/triples of node lists (ill-formed ones included).
func runC09(seed int64, n int, dir string, tier string) *Report {
	g := gen.New(seed)
	rep := NewReport("C09", seed)
	rep.Rule = "n triples (a,b,c) of random node lists (<=5 nodes, <=6 edges, ids from a 6-name pool; one third ill-formed: dangling edges/roots, duplicate ids); correspondence cases Union(a,b), Add(a,b), Union(a,a), Union(a,empty); non-trivial = both operands have nodes and share at least one identifier or edge endpoint; distinct by hash"
	cf := &CasesFile{Imports: "Model.Base Model.Graph Corr.CheckC08", Type: "case08", Eval: "mismatches"}
	addCase := func(kind graphops.Kind, a, b *sbom.NodeList) {
		op := &graphops.Op{Kind: kind, L2: b}
		cur := clone(a)
		bb := clone(b)
		if g.Chance(0.4) {
			// collections that are allocated but empty (what NewNode and the parsers leave behind): as values they are
			// empty, so nothing may depend on them
			allocateEmptyCollections(g, reflect.ValueOf(bb), 0.6, map[uintptr]bool{})
			allocateEmptyCollections(g, reflect.ValueOf(cur), 0.3, map[uintptr]bool{})
			rep.Count("operands=with-allocated-empty-collections")
		}
		op.L2 = bb
		beforeCoq := coqfmt.NodeList(cur)
		opCoq := op.Coq()
		after, outcome, pv := op.Apply(cur)
		in := map[string]any{"before": graphops.PJ(a), "op": (&graphops.Op{Kind: kind, L2: b}).Describe(), "outcome": outcome, "after": graphops.PJ(after)}
		if pv != nil {
			in["panic"] = fmt.Sprint(pv)
			rep.Fail(Failure{What: string(kind) + " panicked", Detail: fmt.Sprint(pv), Input: in})
		}
		c := fmt.Sprintf("(mk_case08 %s %s %d %s)", beforeCoq, opCoq, outcome, coqfmt.NodeList(after))
		shared := len(props.InterStr(props.NodeSet(a), props.NodeSet(b))) > 0
		cf.Add(c)
		rep.NoteCase(c, len(a.Nodes) > 0 && len(b.Nodes) > 0 && shared, in)
		rep.Count("op=" + string(kind))
	}
	for i := 0; i < n; i++ {
		a := g.NodeList(operandShape(g, i))
		b := g.NodeList(operandShape(g, i+1))
		c := g.NodeList(operandShape(g, i+2))
		if i%3 == 1 {
			a = g.NodeList(gen.Shape{MaxNodes: 5, MaxEdges: 7, WellFormed: true, Richness: 0.2, Pool: gen.IDPool[:6]})
			b = perturbed(g, a)
			rep.Count("operands=perturbed-copy")
		}
		if i%6 == 4 {
			// the same identifiers on both sides, every attribute drawn independently for each side: every
			// combination of "set here, set there" for every pair of attributes
			a = g.NodeList(gen.Shape{MaxNodes: 4, MaxEdges: 4, WellFormed: true, Richness: 0.5, Pool: gen.IDPool[:6]})
			b = clone(a)
			for k, nd := range b.Nodes {
				b.Nodes[k] = g.Node(nd.Id, 0.5)
			}
			rep.Count("operands=same-identifiers-independent-attributes")
		}
		if i%6 == 2 {
			// the same nodes up to what Equal ignores (order inside set-valued attributes, sub-second parts of
			// dates): the second operand's value is still the one the union takes
			a = g.NodeList(gen.Shape{MaxNodes: 4, MaxEdges: 4, WellFormed: true, Richness: 0.85, Pool: gen.IDPool[:6]})
			b = clone(a)
			for _, nd := range b.Nodes {
				g.ShuffleSets(nd.ProtoReflect())
				for _, ts := range []*timestamppb.Timestamp{nd.ReleaseDate, nd.BuildDate, nd.ValidUntilDate} {
					if ts != nil {
						ts.Nanos = (ts.Nanos + 1 + int32(g.Int(400000000))) % 1000000000
					}
				}
			}
			rep.Count("operands=equal-up-to-order-and-subseconds")
		}
		empty := &sbom.NodeList{}
		wfcount := 0
		for _, x := range []*sbom.NodeList{a, b, c} {
			if props.WellFormed(x) == nil {
				wfcount++
			}
		}
		rep.Count(fmt.Sprintf("wellformed_operands=%d", wfcount))
		addCase(graphops.Union, a, b)
		addCase(graphops.Add, a, b)
		if i%4 == 0 {
			addCase(graphops.Union, a, a)
			addCase(graphops.Union, a, empty)
			addCase(graphops.Union, empty, a)
		}

		// ---- direct oracle -----------------------------------------------------------
		U := func(x, y *sbom.NodeList) *sbom.NodeList { return clone(x).Union(clone(y)) }
		sa, sb := setsOf(a), setsOf(b)
		uab := U(a, b)
		su := setsOf(uab)
		in2 := pairInput([]string{"a", "b"}, a, b)
		rep.OracleEvals++
		wantN := props.UnionStr(sa.N, sb.N)
		wantR := props.UnionStr(sa.R, sb.R)
		wantE := props.Restrict(props.UnionTriple(props.TripleSet(a), props.TripleSet(b)), wantN)
		if !props.SameStrSet(su.N, wantN) {
			rep.Fail(Failure{What: "Union: node set is not the union of the operands' node sets", Input: in2})
		}
		if !props.SameStrSet(su.R, wantR) {
			rep.Fail(Failure{What: "Union: root elements are not the union of the operands' roots", Input: in2})
		}
		if !props.SameTripleSet(props.TripleSet(uab), wantE) {
			rep.Fail(Failure{What: "Union: edges are not the operands' edges restricted to present nodes", Input: in2})
		}
		// a collection that is allocated but empty is an empty value: the union (node by node, attribute by
		// attribute) and the in-place add must not depend on which of the two an operand holds
		{
			x, y := clone(a), clone(b)
			allocateEmptyCollections(g, reflect.ValueOf(x), 0.5, map[uintptr]bool{})
			allocateEmptyCollections(g, reflect.ValueOf(y), 0.8, map[uintptr]bool{})
			u2 := x.Union(y)
			x2 := clone(a)
			allocateEmptyCollections(g, reflect.ValueOf(x2), 0.5, map[uintptr]bool{})
			x2.Add(y)
			x3 := clone(a)
			x3.Add(clone(b))
			byID := func(l *sbom.NodeList) map[string]string {
				m := map[string]string{}
				for _, nd := range l.Nodes {
					m[nd.Id] += coqfmt.Node(nd) + "|"
				}
				return m
			}
			for pairName, pr := range map[string][2]*sbom.NodeList{"Union": {uab, u2}, "Add": {x3, x2}} {
				m1, m2 := byID(pr[0]), byID(pr[1])
				for id, v := range m1 {
					if m2[id] != v {
						rep.Fail(Failure{What: pairName + ": the attributes of a node of the result depend on whether an operand's empty collections are nil or allocated", Detail: "node " + id, Input: in2})
						break
					}
				}
			}
		}
		if !setsOf(U(a, a)).same(sa) {
			rep.Fail(Failure{What: "Union is not idempotent on node/root/edge sets", Input: pairInput([]string{"a"}, a)})
		}
		if !su.same(setsOf(U(b, a))) {
			rep.Fail(Failure{What: "Union is not commutative on node/root/edge sets", Input: in2})
		}
		if !setsOf(U(a, empty)).same(sa) || !setsOf(U(empty, a)).same(sa) {
			rep.Fail(Failure{What: "the empty list is not an identity of Union", Input: pairInput([]string{"a"}, a)})
		}
		l := setsOf(U(U(a, b), c))
		r := setsOf(U(a, U(b, c)))
		if !l.same(r) {
			f := Failure{What: "Union is not associative on node/root/edge sets", Detail: fmt.Sprintf("|E((a∪b)∪c)|=%d |E(a∪(b∪c))|=%d", len(l.E), len(r.E)), Input: pairInput([]string{"a", "b", "c"}, a, b, c)}
			if danglingResolvedElsewhere(a, b, c) {
				f.Finder = "union_assoc_dangling"
			}
			rep.Fail(f)
		}
		// in-place variant computes the same sets
		ia := clone(a)
		ia.Add(clone(b))
		if !setsOf(ia).same(su) {
			rep.Fail(Failure{What: "Add does not produce the same node/root/edge sets as Union", Input: in2})
		}
		// attribute precedence on shared nodes
		if uniqueIDs(a) && uniqueIDs(b) {
			ma, mb, mu, mi := byID(a), byID(b), byID(uab), byID(ia)
			for id, na := range ma {
				nb, ok := mb[id]
				if !ok {
					continue
				}
				rep.Count("shared_node_checked")
				if nu := mu[id]; nu == nil {
					rep.Fail(Failure{What: "Union lost a shared node", Input: in2})
				} else if d := attrRule(nu, nb, na); d != "" {
					rep.Fail(Failure{What: "Union: attribute of a shared node does not follow second-operand-wins", Detail: "node " + id + ": " + d, Input: in2})
				}
				if ni := mi[id]; ni == nil {
					rep.Fail(Failure{What: "Add lost a shared node", Input: in2})
				} else if d := attrRule(ni, na, nb); d != "" {
					rep.Fail(Failure{What: "Add: attribute of a shared node does not keep the receiver's non-empty value", Detail: "node " + id + ": " + d, Input: in2})
				}
			}
		}
	}
	// the recorded witness of K2, replayed on every run
	{
		a := &sbom.NodeList{Nodes: []*sbom.Node{{Id: "a"}}, Edges: []*sbom.Edge{{Type: sbom.Edge_contains, From: "a", To: []string{"c"}}}}
		b := &sbom.NodeList{}
		c := &sbom.NodeList{Nodes: []*sbom.Node{{Id: "c"}}}
		l := setsOf(clone(a).Union(clone(b)).Union(clone(c)))
		r := setsOf(clone(a).Union(clone(b).Union(clone(c))))
		rep.OracleEvals++
		if !l.same(r) {
			rep.Fail(Failure{What: "Union is not associative on node/root/edge sets", Finder: "union_assoc_dangling", Detail: "recorded witness K2", Input: pairInput([]string{"a", "b", "c"}, a, b, c)})
		}
	}
	rep.CasesFiles = cf.Write(filepath.Join(dir, "cases_C09"))
	rep.ShardSize = shardSize
	return rep
}

// runC10: Intersect on pairs of node lists.
func runC10(seed int64, n int, dir string, tier string) *Report {
	g := gen.New(seed)
	rep := NewReport("C10", seed)
	rep.Rule = "n pairs (a,b) of random node lists (<=5 nodes, <=6 edges, ids from a 6-name pool; one third ill-formed); correspondence cases Intersect(a,b), Intersect(a,a), Intersect(a,Union(a,b)), Intersect(a,empty); non-trivial = the operands share at least one identifier; distinct by hash"
	cf := &CasesFile{Imports: "Model.Base Model.Graph Corr.CheckC08", Type: "case08", Eval: "mismatches"}
	addCase := func(a, b *sbom.NodeList) {
		cur := clone(a)
		op := &graphops.Op{Kind: graphops.Intersect, L2: clone(b)}
		beforeCoq := coqfmt.NodeList(cur)
		opCoq := op.Coq()
		after, outcome, pv := op.Apply(cur)
		in := map[string]any{"before": graphops.PJ(a), "op": (&graphops.Op{Kind: graphops.Intersect, L2: b}).Describe(), "outcome": outcome, "after": graphops.PJ(after)}
		if pv != nil {
			in["panic"] = fmt.Sprint(pv)
			rep.Fail(Failure{What: "Intersect panicked", Detail: fmt.Sprint(pv), Input: in})
		}
		c := fmt.Sprintf("(mk_case08 %s %s %d %s)", beforeCoq, opCoq, outcome, coqfmt.NodeList(after))
		cf.Add(c)
		rep.NoteCase(c, len(props.InterStr(props.NodeSet(a), props.NodeSet(b))) > 0, in)
	}
	I := func(x, y *sbom.NodeList) *sbom.NodeList { return clone(x).Intersect(clone(y)) }
	// (source, type) pairs whose textual concatenation coincides (n1 + 5 and n + 15): keys built from an
	// identifier and a number must keep them apart
	for _, c := range []struct {
		d      string
		t1, t2 int32
	}{{"1", 5, 15}, {"1", 0, 10}, {"4", 4, 44}, {"2", 3, 23}, {"3", 9, 39}, {"1", 1, 11}} {
		mk := func(from string, t int32, to string) *sbom.NodeList {
			l := &sbom.NodeList{RootElements: []string{"n"}}
			for _, id := range []string{"n", "n" + c.d, "y", "z"} {
				l.Nodes = append(l.Nodes, &sbom.Node{Id: id, Name: "name-" + id})
			}
			l.Edges = []*sbom.Edge{{Type: sbom.Edge_Type(t), From: from, To: []string{to}}}
			return l
		}
		a, b := mk("n"+c.d, c.t1, "y"), mk("n", c.t2, "z")
		for _, pr := range [][2]*sbom.NodeList{{a, b}, {b, a}} {
			addCase(pr[0], pr[1])
			rep.OracleEvals++
			got := props.TripleSet(I(pr[0], pr[1]))
			want := props.TripleSet(pr[0])
			for k := range props.TripleSet(pr[1]) {
				want[k] = true
			}
			if !props.SameTripleSet(got, want) {
				rep.Fail(Failure{What: "Intersect: the edges of the result are not the operands' edges among the surviving nodes", Detail: fmt.Sprintf("source identifiers n%s / n with edge types %d / %d", c.d, c.t1, c.t2), Input: pairInput([]string{"a", "b"}, pr[0], pr[1])})
			}
		}
	}
	for i := 0; i < n; i++ {
		a := g.NodeList(operandShape(g, i))
		b := g.NodeList(operandShape(g, i+1))
		switch i % 6 {
		case 1, 3: // same keys, different targets
			a = g.NodeList(gen.Shape{MaxNodes: 5, MaxEdges: 7, WellFormed: true, Richness: 0.2, Pool: gen.IDPool[:6]})
			b = perturbed(g, a)
			rep.Count("operands=perturbed-copy")
		case 2: // nested
			b = clone(a)
			b.Nodes = append(b.Nodes, g.Node("zz", 0.3))
		case 4: // identical
			b = clone(a)
		case 5: // the same nodes up to what Equal ignores: order inside set-valued attributes, sub-second parts of dates
			a = g.NodeList(gen.Shape{MaxNodes: 4, MaxEdges: 4, WellFormed: true, Richness: 0.85, Pool: gen.IDPool[:6]})
			b = clone(a)
			for _, nd := range b.Nodes {
				g.ShuffleSets(nd.ProtoReflect())
				for _, ts := range []*timestamppb.Timestamp{nd.ReleaseDate, nd.BuildDate, nd.ValidUntilDate} {
					if ts != nil {
						ts.Nanos = (ts.Nanos + 1 + int32(g.Int(400000000))) % 1000000000
					}
				}
			}
			rep.Count("operands=equal-up-to-order-and-subseconds")
		}
		empty := &sbom.NodeList{}
		addCase(a, b)
		{
			// the same list VALUE as receiver and argument (not a copy of it): still the intersection
			self := clone(a)
			beforeCoq := coqfmt.NodeList(self)
			var got *sbom.NodeList
			pv := safely(func() { got = self.Intersect(self) })
			rep.OracleEvals++
			if pv != nil || got == nil {
				rep.Fail(Failure{What: "Intersect of a list with itself panicked or returned nothing", Detail: fmt.Sprint(pv), Input: pairInput([]string{"a"}, a)})
			} else {
				c := fmt.Sprintf("(mk_case08 %s (OpIntersect %s) 0 %s)", beforeCoq, beforeCoq, coqfmt.NodeList(got))
				cf.Add(c)
				rep.NoteCase(c, len(a.Nodes) > 0, map[string]any{"before": graphops.PJ(a), "op": "Intersect with the list itself (same value)", "after": graphops.PJ(got)})
				want := clone(a).Intersect(clone(a))
				if !setsOf(got).same(setsOf(want)) {
					rep.Fail(Failure{What: "Intersect: a list intersected with itself differs from the list intersected with a copy of itself", Input: pairInput([]string{"a"}, a)})
				}
			}
		}
		if i%4 == 0 {
			addCase(a, a)
			addCase(a, clone(a).Union(clone(b)))
			addCase(a, empty)
			addCase(empty, a)
		}
		rep.Count(fmt.Sprintf("shared_ids=%d", len(props.InterStr(props.NodeSet(a), props.NodeSet(b)))))

		// ---- direct oracle -----------------------------------------------------------
		rep.OracleEvals++
		in2 := pairInput([]string{"a", "b"}, a, b)
		iab := I(a, b)
		sa, sb, si := setsOf(a), setsOf(b), setsOf(iab)
		wantN := props.InterStr(sa.N, sb.N)
		if !props.SameStrSet(si.N, wantN) {
			rep.Fail(Failure{What: "Intersect: node set is not the intersection of the operands' node sets", Input: in2})
		}
		if uniqueIDs(iab) == false {
			rep.Fail(Failure{What: "Intersect: result has duplicate identifiers", Input: in2})
		}
		// roots: only operands' roots that survive, including all that are roots in both
		for r := range si.R {
			if !(sa.R[r] || sb.R[r]) || !wantN[r] {
				rep.Fail(Failure{What: "Intersect: a root element is not a surviving root of an operand", Detail: r, Input: in2})
			}
		}
		for r := range props.InterStr(sa.R, sb.R) {
			if wantN[r] && !si.R[r] {
				rep.Fail(Failure{What: "Intersect: a surviving node that is a root in both operands is not a root of the result", Detail: r, Input: in2})
			}
		}
		ta, tb, ti := props.TripleSet(a), props.TripleSet(b), props.TripleSet(iab)
		if !props.SubTriple(ti, props.Restrict(props.UnionTriple(ta, tb), wantN)) {
			rep.Fail(Failure{What: "Intersect: an edge of the result is not an operand edge between surviving nodes", Input: in2})
		}
		if !props.SubTriple(props.Restrict(props.InterTriple(ta, tb), wantN), ti) {
			rep.Fail(Failure{What: "Intersect: an edge found in both operands between surviving nodes is missing", Input: in2})
		}
		if !setsOf(I(a, a)).sameRes(sa) {
			rep.Fail(Failure{What: "Intersect is not idempotent on node/surviving-root/edge sets", Input: pairInput([]string{"a"}, a)})
		}
		if !si.same(setsOf(I(b, a))) {
			rep.Fail(Failure{What: "Intersect is not commutative on node/root/edge sets", Input: in2})
		}
		if !props.SameStrSet(setsOf(I(a, clone(a).Union(clone(b)))).N, sa.N) {
			rep.Fail(Failure{What: "Intersect with a union containing the operand does not give the operand's nodes", Input: in2})
		}
		if e := setsOf(I(a, empty)); len(e.N)+len(e.R)+len(e.E) != 0 {
			rep.Fail(Failure{What: "Intersect with the empty list is not empty", Input: pairInput([]string{"a"}, a)})
		}
		if e := setsOf(I(empty, a)); len(e.N)+len(e.R)+len(e.E) != 0 {
			rep.Fail(Failure{What: "Intersect of the empty list is not empty", Input: pairInput([]string{"a"}, a)})
		}
		if uniqueIDs(a) && uniqueIDs(b) {
			ma, mb, mi := byID(a), byID(b), byID(iab)
			for id, ni := range mi {
				rep.Count("shared_node_checked")
				if d := attrRule(ni, mb[id], ma[id]); d != "" {
					rep.Fail(Failure{What: "Intersect: attribute of a surviving node does not follow second-operand-wins", Detail: "node " + id + ": " + d, Input: in2})
				}
			}
		}
	}
	rep.CasesFiles = cf.Write(filepath.Join(dir, "cases_C10"))
	rep.ShardSize = shardSize
	return rep
}

// allocateEmptyCollections turns nil maps and nil slices of a message (and of the messages nested in it) into
// empty non-nil ones, each with probability p.
func allocateEmptyCollections(g *gen.G, v reflect.Value, p float64, seen map[uintptr]bool) {
	switch v.Kind() {
	case reflect.Ptr:
		if v.IsNil() || seen[v.Pointer()] {
			return
		}
		seen[v.Pointer()] = true
		allocateEmptyCollections(g, v.Elem(), p, seen)
	case reflect.Struct:
		for i := 0; i < v.NumField(); i++ {
			// (a person's contact list is the one collection whose nil and empty states are different values here)
			if v.Type().Field(i).IsExported() && !(v.Type().Name() == "Person" && v.Type().Field(i).Name == "Contacts") {
				allocateEmptyCollections(g, v.Field(i), p, seen)
			}
		}
	case reflect.Map:
		if v.IsNil() && v.CanSet() && g.Chance(p) {
			v.Set(reflect.MakeMap(v.Type()))
		}
	case reflect.Slice:
		if v.IsNil() && v.CanSet() && g.Chance(p) {
			v.Set(reflect.MakeSlice(v.Type(), 0, 0))
			return
		}
		for i := 0; i < v.Len(); i++ {
			allocateEmptyCollections(g, v.Index(i), p, seen)
		}
	}
}
