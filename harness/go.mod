module verifharness

go 1.22.4

require (
	github.com/CycloneDX/cyclonedx-go v0.9.0
	github.com/protobom/protobom v0.0.0
	github.com/spdx/tools-golang v0.5.5
	google.golang.org/protobuf v1.34.2
)

require (
	github.com/google/go-cmp v0.6.0 // indirect
	github.com/google/uuid v1.6.0 // indirect
)

replace github.com/protobom/protobom => /repo
