(* Order-free abstractions of a node list and the central facts about cleanEdges. *)
From Coq Require Import Lia Permutation.
From Verif Require Import Model.Base Model.Node Model.Graph Proofs.ListFacts.
Open Scope list_scope.

(* typed edge triples of an edge list *)
Definition InE (es : list edge) (f : string) (t : Z) (x : string) : Prop :=
  exists e, In e es /\ e_from e = f /\ e_type e = t /\ In x (e_to e).

(* every endpoint satisfies N *)
Definition closed (N : string -> Prop) (es : list edge) : Prop :=
  forall e, In e es -> N (e_from e) /\ forall x, In x (e_to e) -> N x.

(* at most one edge per source and type, no repeated targets *)
Definition norm (es : list edge) : Prop :=
  NoDup (map key_of es) /\ forall e, In e es -> NoDup (e_to e).

(* unique identifiers; every edge endpoint and root element names a present node *)
Definition wf (l : nodelist) : Prop :=
  NoDup (ids l) /\
  closed (fun i => In i (ids l)) (nl_edges l) /\
  incl (nl_root_elements l) (ids l).

Lemma closed_from N es e : closed N es -> In e es -> N (e_from e).
Proof. intros H He. destruct (H e He) as [Hf _]. exact Hf. Qed.

Lemma closed_to N es e x : closed N es -> In e es -> In x (e_to e) -> N x.
Proof. intros H He Hx. destruct (H e He) as [_ Ht]. apply Ht. exact Hx. Qed.

Lemma InE_app es1 es2 f t x : InE (es1 ++ es2) f t x <-> InE es1 f t x \/ InE es2 f t x.
Proof.
  unfold InE. split.
  - intros [e [He H]]. apply in_app_or in He as [He|He]; [left|right]; exists e; auto.
  - intros [[e [He H]]|[e [He H]]]; exists e; split; auto; apply in_or_app; auto.
Qed.

Lemma closed_app N es1 es2 : closed N (es1 ++ es2) <-> closed N es1 /\ closed N es2.
Proof.
  unfold closed. split.
  - intros H. split; intros e He; apply H; apply in_or_app; auto.
  - intros [H1 H2] e He. apply in_app_or in He as [He|He]; auto.
Qed.

Lemma closed_weaken (N N' : string -> Prop) es : (forall i, N i -> N' i) -> closed N es -> closed N' es.
Proof.
  intros HN H e He. destruct (H e He) as [Hf Ht]. split; auto.
Qed.

Lemma closed_InE N es : closed N es <-> (forall e, In e es -> N (e_from e)) /\ (forall f t x, InE es f t x -> N x).
Proof.
  split.
  - intros H. split.
    + intros e He. destruct (H e He) as [Hf _]. exact Hf.
    + intros f t x [e [He [_ [_ Hx]]]]. destruct (H e He) as [_ Ht]. apply Ht. assumption.
  - intros [H1 H2] e He. split; [auto|]. intros x Hx. apply (H2 (e_from e) (e_type e)). exists e. auto.
Qed.

(* ---- cleanEdges -------------------------------------------------------------- *)
Lemma group_tos_In present es k x :
  In x (group_tos present es k) <-> present x = true /\ InE es (fst k) (snd k) x.
Proof.
  unfold group_tos. rewrite dedup_In, filter_In, in_flat_map. split.
  - intros [[e [He Hx]] Hp]. apply filter_In in He as [He Hk]. apply ekey_eqb_eq in Hk.
    split; [assumption|]. exists e. subst k. unfold key_of; simpl. auto.
  - intros [Hp [e [He [Hf [Ht Hx]]]]]. split; [|assumption]. exists e. split; [|assumption].
    apply filter_In. split; [assumption|]. apply ekey_eqb_eq. unfold key_of.
    destruct k as [kf kt]; simpl in *; subst; reflexivity.
Qed.

Lemma group_tos_NoDup present es k : NoDup (group_tos present es k).
Proof. apply dedup_NoDup. Qed.

Definition clean_one (present : string -> bool) (es : list edge) (k : ekey) : list edge :=
  match group_tos present es k with
  | [] => []
  | tos => [ {| e_type := snd k; e_from := fst k; e_to := tos |} ]
  end.

Lemma clean_edges_unfold present es :
  clean_edges present es =
  flat_map (clean_one present es) (kdedup (map key_of (filter (fun e => present (e_from e)) es))).
Proof. reflexivity. Qed.

Lemma clean_one_In present es k e :
  In e (clean_one present es k) <->
  key_of e = k /\ e_to e = group_tos present es k /\ group_tos present es k <> [].
Proof.
  unfold clean_one. destruct (group_tos present es k) as [|y r] eqn:E.
  - simpl. split; [tauto|]. intros [_ [_ H]]. congruence.
  - simpl. split.
    + intros [<-|[]]. unfold key_of; simpl. destruct k; simpl. split; [reflexivity|]. split; [reflexivity|discriminate].
    + intros [Hk [Ht _]]. left. destruct e as [et ef eto]; unfold key_of in Hk; simpl in *. subst. reflexivity.
Qed.

Lemma clean_one_length present es k : (length (clean_one present es k) <= 1)%nat.
Proof. unfold clean_one. destruct (group_tos present es k); simpl; lia. Qed.

Lemma clean_edges_In present es e :
  In e (clean_edges present es) <->
  (exists e0, In e0 es /\ present (e_from e0) = true /\ key_of e0 = key_of e) /\
  e_to e = group_tos present es (key_of e) /\ e_to e <> [].
Proof.
  rewrite clean_edges_unfold, in_flat_map. split.
  - intros [k [Hk He]]. apply clean_one_In in He as [Hke [Hto Hne]]. subst k.
    apply kdedup_In, in_map_iff in Hk as [e0 [Hk0 He0]]. apply filter_In in He0 as [He0 Hp].
    split; [exists e0; auto|]. split; [assumption|]. rewrite Hto. assumption.
  - intros [[e0 [He0 [Hp Hk]]] [Hto Hne]]. exists (key_of e). split.
    + apply kdedup_In, in_map_iff. exists e0. split; [assumption|]. apply filter_In. auto.
    + apply clean_one_In. split; [reflexivity|]. split; [assumption|]. rewrite <- Hto. assumption.
Qed.

(* the specification of cleanEdges on triples *)
Theorem clean_edges_InE present es f t x :
  InE (clean_edges present es) f t x <->
  InE es f t x /\ present f = true /\ present x = true.
Proof.
  split.
  - intros [e [He [Hf [Ht Hx]]]]. apply clean_edges_In in He as [[e0 [He0 [Hp Hk]]] [Hto _]].
    rewrite Hto in Hx. apply group_tos_In in Hx as [Hpx HE].
    unfold key_of in *; simpl in *. subst f t. split; [assumption|]. split; [|assumption].
    injection Hk as H1 H2. rewrite <- H1. exact Hp.
  - intros [[e0 [He0 [Hf [Ht Hx]]]] [Hpf Hpx]].
    set (k := (f, t)).
    assert (Hg : In x (group_tos present es k)).
    { apply group_tos_In. split; [assumption|]. exists e0. auto. }
    exists {| e_type := t; e_from := f; e_to := group_tos present es k |}. simpl.
    split; [|auto]. apply clean_edges_In. unfold key_of; simpl. split.
    + exists e0. subst f t. auto.
    + split; [reflexivity|]. intros Hnil. fold k in Hnil. rewrite Hnil in Hg. contradiction.
Qed.

Lemma NoDup_map_flat_map {A B} (f : A -> list B) (key : B -> A) l :
  NoDup l -> (forall a b, In b (f a) -> key b = a) -> (forall a, (length (f a) <= 1)%nat) ->
  NoDup (map key (flat_map f l)).
Proof.
  intros Hnd Hkey Hlen. induction Hnd as [|x l Hx Hl IH]; simpl; [constructor|].
  rewrite map_app. apply NoDup_app_intro; [| assumption |].
  - specialize (Hlen x). destruct (f x) as [|b [|b' r]]; simpl in *; try lia; repeat constructor; auto.
  - intros a Ha1 Ha2. apply in_map_iff in Ha1 as [b1 [<- Hb1]]. apply in_map_iff in Ha2 as [b2 [Hk Hb2]].
    apply in_flat_map in Hb2 as [a2 [Ha2 Hb2]]. apply Hkey in Hb1. apply Hkey in Hb2. congruence.
Qed.

Theorem clean_edges_norm present es : norm (clean_edges present es).
Proof.
  split.
  - rewrite clean_edges_unfold. apply NoDup_map_flat_map.
    + apply kdedup_NoDup.
    + intros k e He. apply clean_one_In in He. tauto.
    + intros k. apply clean_one_length.
  - intros e He. apply clean_edges_In in He as [_ [Hto _]]. rewrite Hto. apply group_tos_NoDup.
Qed.

Theorem clean_edges_closed present es : closed (fun i => present i = true) (clean_edges present es).
Proof.
  intros e He. apply clean_edges_In in He as [[e0 [He0 [Hp Hk]]] [Hto _]]. split.
  - unfold key_of in Hk. injection Hk as H1 H2. rewrite <- H1. exact Hp.
  - intros x Hx. rewrite Hto in Hx. apply group_tos_In in Hx. tauto.
Qed.

Theorem clean_edges_nonempty present es e : In e (clean_edges present es) -> e_to e <> [].
Proof. intros He. apply clean_edges_In in He. tauto. Qed.

Lemma clean_edges_closed_mem X es : closed (fun i => In i X) (clean_edges (fun i => mem i X) es).
Proof.
  eapply closed_weaken; [|apply clean_edges_closed]. simpl. intros i Hi. apply mem_In. assumption.
Qed.

(* cleanEdges is the identity on the triples of a closed edge list *)
Lemma clean_edges_InE_closed X es f t x :
  closed (fun i => In i X) es ->
  (InE (clean_edges (fun i => mem i X) es) f t x <-> InE es f t x).
Proof.
  intros Hc. rewrite clean_edges_InE. split; [tauto|]. intros HE. split; [assumption|].
  destruct HE as [e [He [Hf [Ht Hx]]]]. destruct (Hc e He) as [H1 H2]. subst f.
  split; apply mem_In; auto.
Qed.
