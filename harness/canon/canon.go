// Package canon canonicalises JSON documents for comparison "up to the creation timestamp and the
// order of set-valued arrays": timestamps are blanked, every array is sorted by the canonical
// encoding of its elements, object members are sorted (encoding/json does that for maps).
package canon

import (
	"encoding/json"
	"sort"
)

var timeKeys = map[string]bool{"created": true, "timestamp": true}

func norm(v any) any {
	switch x := v.(type) {
	case map[string]any:
		for k, e := range x {
			if timeKeys[k] {
				x[k] = "T"
				continue
			}
			x[k] = norm(e)
		}
		return x
	case []any:
		type item struct {
			enc string
			v   any
		}
		items := make([]item, len(x))
		for i, e := range x {
			n := norm(e)
			b, _ := json.Marshal(n)
			items[i] = item{string(b), n}
		}
		sort.SliceStable(items, func(i, j int) bool { return items[i].enc < items[j].enc })
		out := make([]any, len(x))
		for i, it := range items {
			out[i] = it.v
		}
		return out
	default:
		return v
	}
}

// JSON returns the canonical form of a JSON text, or the text itself when it does not parse.
func JSON(b []byte) string {
	var v any
	if err := json.Unmarshal(b, &v); err != nil {
		return string(b)
	}
	out, _ := json.Marshal(norm(v))
	return string(out)
}
