(* C05 — Parsed graphs are well-formed, deterministic and layout-independent.  Statements only;
   proofs in Proofs/CdxFacts.v, Proofs/SpdxFacts.v, Proofs/IdentFacts.v.  The parsers are modelled
   from the decoded native structure on (Model/Cdx.v cdx_unser_nl, Model/Spdx.v spdx_unser_nl); the
   third-party JSON decoders in front of them are exercised, not modelled: layout independence and
   parse-twice agreement are decided on the real decoders by the harness, and follow for the
   modelled part because it is a function of the decoded value. *)
From Verif Require Import Model.Base Model.Node Model.Graph Model.Spdx Model.Cdx Model.Ident
  Proofs.GraphFacts Proofs.SetLaws Proofs.SpdxFacts Proofs.CdxFacts Proofs.IdentFacts Proofs.DecFacts Proofs.CdxCount.
Open Scope list_scope.

(* CycloneDX: every BOM value (any nesting, repeated or absent references, absent metadata
   component, self-containment) parses to a closed graph with unique identifiers *)
Theorem C05_cdx_parsed_graph_closed : forall b, wf (cdx_unser_nl b).
Proof. exact cdx_unser_wf. Qed.
Print Assumptions C05_cdx_parsed_graph_closed.

Theorem C05_cdx_identifiers_nonempty : forall b i, In i (ids (cdx_unser_nl b)) -> i <> "".
Proof. exact cdx_unser_ids_nonempty. Qed.
Print Assumptions C05_cdx_identifiers_nonempty.

(* every parsed identifier is a component's reference, or the generated one of its traversal position *)
Theorem C05_cdx_identifiers_origin : forall b i, In i (ids (cdx_unser_nl b)) ->
  exists c cc, i = (if String.eqb (c_ref c) "" then auto_id cc else c_ref c).
Proof. exact cdx_identifiers_origin. Qed.
Print Assumptions C05_cdx_identifiers_origin.

(* generated identifiers of different traversal positions differ (the traversal counter is positive) *)
Theorem C05_generated_identifiers_distinct : forall a b, 0 < a -> 0 < b -> auto_id a = auto_id b -> a = b.
Proof. exact auto_id_inj. Qed.
Print Assumptions C05_generated_identifiers_distinct.

(* no component is lost: the parsed identifiers are exactly the components' references and generated
   identifiers in traversal order (bcids, the counter made explicit), and when those are pairwise
   distinct there is one node per component *)
Theorem C05_cdx_identifiers_are_the_components : forall b,
  (forall i, In i (ids (cdx_unser_nl b)) <-> In i (bcids b)) /\ length (bcids b) = bsize b.
Proof. exact cdx_unser_cids. Qed.
Print Assumptions C05_cdx_identifiers_are_the_components.

Theorem C05_cdx_one_node_per_component : forall b, NoDup (bcids b) -> length (nl_nodes (cdx_unser_nl b)) = bsize b.
Proof. exact cdx_unser_node_count. Qed.
Print Assumptions C05_cdx_one_node_per_component.

(* SPDX: identifiers and endpoints are transferred verbatim; the graph is closed whenever the
   input's own references resolve, identifiers are as unique as the input's *)
Theorem C05_spdx_identifiers_verbatim : forall parse_time s,
  ids (spdx_unser_nl parse_time s) = map sp_id (sd_packages s) ++ map sf_id (sd_files s).
Proof. exact spdx_unser_ids. Qed.
Print Assumptions C05_spdx_identifiers_verbatim.

Theorem C05_spdx_parsed_graph_closed : forall parse_time s,
  NoDup (spdx_elements s) ->
  (forall r, In r (sd_rels s) -> In (rl_b r) (spdx_elements s) /\ (is_describes r = false -> In (rl_a r) (spdx_elements s))) ->
  wf (spdx_unser_nl parse_time s).
Proof. exact spdx_unser_wf. Qed.
Print Assumptions C05_spdx_parsed_graph_closed.

Theorem C05_spdx_dangling_only_from_input : forall parse_time s e x,
  In e (nl_edges (spdx_unser_nl parse_time s)) -> (x = e_from e \/ In x (e_to e)) -> ~ In x (spdx_elements s) ->
  exists r, In r (sd_rels s) /\ (x = rl_a r \/ x = rl_b r).
Proof. exact spdx_unser_dangling_only_from_input. Qed.
Print Assumptions C05_spdx_dangling_only_from_input.

(* the public identifier generator: non-empty, identifier-safe, protobom-prefixed, and independent
   of the UUID source whenever a seed is usable *)
Theorem C05_generator_nonempty : forall uuid seeds, new_id uuid seeds <> "".
Proof. exact new_id_nonempty. Qed.
Print Assumptions C05_generator_nonempty.

Theorem C05_generator_safe_alphabet : forall uuid seeds, all_safe uuid = true -> all_safe (new_id uuid seeds) = true.
Proof. exact new_id_safe. Qed.
Print Assumptions C05_generator_safe_alphabet.

Theorem C05_generator_deterministic : forall u1 u2 seeds, usable seeds = true -> new_id u1 seeds = new_id u2 seeds.
Proof. exact new_id_deterministic. Qed.
Print Assumptions C05_generator_deterministic.

Theorem C05_generator_prefix : forall uuid seeds, String.prefix "protobom-" (new_id uuid seeds) = true.
Proof. exact new_id_prefix. Qed.
Print Assumptions C05_generator_prefix.

(* non-vacuity: a BOM with a repeated reference, a missing one and self-containment; a seed list *)
Definition cx (r : string) (subs : list comp) : comp :=
  {| c_ref := r; c_type := "library"; c_name := "n"; c_version := ""; c_description := ""; c_copyright := "";
     c_licenses := []; c_hashes := []; c_xrefs := []; c_purl := ""; c_cpe := ""; c_supplier := None; c_sub := subs |}.
Example C05_example :
  let b := {| b_serial := "s"; b_version := 1; b_has_metadata := true; b_meta_comp := Some (cx "root" []);
              b_lifecycles := []; b_components := [cx "a" [cx "a" []; cx "" [cx "b" []]]; cx "b" []]; b_deps := [] |} in
  ids (cdx_unser_nl b) = ["root"; "a"; "protobom-auto--000000004"; "b"] /\
  bcids b = ["root"; "a"; "a"; "protobom-auto--000000004"; "b"; "b"] /\
  new_id "U" ["auto"; "a b/c"; "é"] = "protobom-auto--a-b-c-C195C169" /\ usable ["auto"; ""] = false.
Proof. vm_compute. repeat split. Qed.
