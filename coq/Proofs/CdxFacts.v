(* Facts about the CycloneDX translation model (Model/Cdx.v). *)
From Coq Require Import Lia Permutation.
From Verif Require Import Model.Base Model.Node Model.Graph Model.Match Model.Flat Model.Spdx Model.Cdx Gen.Tables
  Proofs.ListFacts Proofs.GraphFacts Proofs.OpsWf.
Open Scope list_scope.

(* ---- induction over nested components ------------------------------------------------------------ *)
Section CompInd.
  Variable P : comp -> Prop.
  Hypothesis step : forall c, Forall P (c_sub c) -> P c.
  Fixpoint comp_ind' (c : comp) : P c :=
    match c as c0 return P c0 with
    | mk_comp r t n v d cp l h x p cpe s sub =>
        step (mk_comp r t n v d cp l h x p cpe s sub)
             ((fix go (l : list comp) : Forall P l :=
                 match l with
                 | [] => Forall_nil P
                 | y :: q => Forall_cons y (comp_ind' y) (go q)
                 end) sub)
    end.
End CompInd.

(* ---- the unserializer builds well-formed graphs (C05) -------------------------------------------- *)
Lemma empty_wf : wf empty_nl.
Proof. split; [constructor|split]; [intros e []|intros x []]. Qed.

Lemma single_wf n : wf {| nl_nodes := [n]; nl_edges := []; nl_root_elements := [n_id n] |}.
Proof.
  split; [|split].
  - unfold ids; simpl. constructor; [intros []|constructor].
  - intros e [].
  - unfold ids; simpl. intros x Hx. exact Hx.
Qed.

Lemma relate_list_ok l l2 a t : has l a = true -> exists l', relate_list_at l l2 a t = Ok l' /\
  nl_root_elements l' = nl_root_elements l /\ (forall i, In i (ids l) -> In i (ids l')).
Proof.
  intros Ha. unfold relate_list_at. rewrite Ha. simpl. eexists. split; [reflexivity|]. split; [reflexivity|].
  intros i Hi. unfold ids; simpl. rewrite map_app. apply in_or_app. left. exact Hi.
Qed.

Definition frag_ok (rid : string) (nl : nodelist) : Prop :=
  wf nl /\ nl_root_elements nl = [rid] /\ In rid (ids nl).

Lemma comp_to_nl_ok : forall c cc, frag_ok (n_id (comp_to_node c (cc + 1))) (fst (comp_to_nl c cc)).
Proof.
  induction c as [c IH] using comp_ind'. intros cc.
  destruct c as [r t n v d cp l h x p cpe s sub]. cbn [comp_to_nl c_sub].
  set (nd := comp_to_node _ (cc + 1)). cbn [c_sub] in IH.
  set (nl0 := {| nl_nodes := [nd]; nl_edges := []; nl_root_elements := [n_id nd] |}).
  assert (H0 : frag_ok (n_id nd) nl0).
  { split; [apply single_wf|]. split; [reflexivity|]. unfold ids; simpl. left. reflexivity. }
  generalize (cc + 1) as k. revert H0. generalize nl0 as nl. clear nl0.
  induction sub as [|s1 rest IHs]; intros nl H0 k; cbn [fold_left fst]; [exact H0|].
  inversion IH as [|? ? Hs1 Hrest]; subst.
  destruct (comp_to_nl s1 k) as [snl k'] eqn:E.
  apply IHs; [exact Hrest|].
  destruct H0 as [Hwf [Hroot Hin]].
  assert (Hhas : has nl (n_id nd) = true) by (apply mem_In; exact Hin).
  destruct (relate_list_ok nl snl (n_id nd) Edge_Type_contains Hhas) as [l' [El' [Hr' Hids']]].
  rewrite El'. cbn [or_keep].
  split; [|split].
  - eapply relate_list_wf; [exact Hwf| |exact El'].
    specialize (Hs1 k). rewrite E in Hs1. exact (proj1 Hs1).
  - rewrite Hr'. exact Hroot.
  - apply Hids'. exact Hin.
Qed.

Theorem cdx_unser_wf b : wf (cdx_unser_nl b).
Proof.
  unfold cdx_unser_nl.
  set (st0 := match (if b_has_metadata b then b_meta_comp b else None) with
              | Some mc => let '(nl, k) := comp_to_nl mc 0 in (add empty_nl nl, k)
              | None => (empty_nl, 0)
              end).
  assert (H0 : wf (fst st0)).
  { unfold st0. destruct (if b_has_metadata b then b_meta_comp b else None) as [mc|]; [|exact empty_wf].
    pose proof (comp_to_nl_ok mc 0) as H. destruct (comp_to_nl mc 0) as [nl k]. cbn [fst] in *.
    apply add_wf; [exact empty_wf|exact (proj1 H)]. }
  revert H0. generalize st0 as st. generalize (b_components b) as cs.
  induction cs as [|c rest IH]; intros st H0; cbn [fold_left]; [exact H0|].
  apply IH. destruct st as [doc k]. cbn [fst] in H0.
  pose proof (comp_to_nl_ok c k) as H. destruct (comp_to_nl c k) as [nl k']. cbn [fst] in *.
  destruct (nl_root_elements doc) as [|r rr] eqn:Er.
  - apply add_wf; [exact H0|exact (proj1 H)].
  - assert (Hhas : has doc r = true).
    { apply mem_In. destruct H0 as [_ [_ Hr]]. apply Hr. rewrite Er. left. reflexivity. }
    destruct (relate_list_ok doc nl r Edge_Type_contains Hhas) as [l' [El' _]].
    rewrite El'. cbn [or_keep]. eapply relate_list_wf; [exact H0|exact (proj1 H)|exact El'].
Qed.

(* ---- identifiers of parsed nodes are never empty --------------------------------------------------- *)
Lemma comp_node_id_nonempty c cc : n_id (comp_to_node c cc) <> "".
Proof.
  unfold comp_to_node; cbn [n_id]. destruct (String.eqb (c_ref c) "") eqn:E.
  - unfold auto_id. discriminate.
  - apply String.eqb_neq in E. exact E.
Qed.

Lemma relate_list_ids l l2 a t l' i :
  relate_list_at l l2 a t = Ok l' -> In i (ids l') -> In i (ids l) \/ In i (ids l2).
Proof.
  unfold relate_list_at. destruct (negb (has l a)); [discriminate|]. intros H. injection H as <-.
  unfold ids; cbn [nl_nodes]. rewrite map_app. intros Hi. apply in_app_or in Hi as [Hi|Hi]; [left; exact Hi|right].
  apply in_map_iff in Hi as [n [<- Hn]]. apply filter_In in Hn as [Hn _]. apply in_map. exact Hn.
Qed.

Lemma add_ids_sub l l2 i : In i (ids (add l l2)) -> In i (ids l) \/ In i (ids l2).
Proof.
  unfold add, ids; cbn [nl_nodes]. fold (ids l). rewrite merge_nodes_ids by (intros a b; apply augment_id). intros Hi.
  apply in_app_or in Hi as [Hi|Hi]; [left; exact Hi|right]. apply filter_In in Hi as [Hi _]. exact Hi.
Qed.

Lemma comp_to_nl_ids (P : string -> Prop) :
  (forall c cc, P (n_id (comp_to_node c cc))) ->
  forall c cc i, In i (ids (fst (comp_to_nl c cc))) -> P i.
Proof.
  intros HP. induction c as [c IH] using comp_ind'. intros cc.
  destruct c as [r t n v d cp l h x p cpe s sub]. cbn [comp_to_nl c_sub]. cbn [c_sub] in IH.
  set (nd := comp_to_node _ (cc + 1)).
  set (nl0 := {| nl_nodes := [nd]; nl_edges := []; nl_root_elements := [n_id nd] |}).
  assert (H0 : forall i, In i (ids nl0) -> P i).
  { unfold nl0, ids; cbn [nl_nodes map]. intros i [<-|[]]. unfold nd. apply HP. }
  generalize (cc + 1) as k. revert H0. generalize nl0 as nl. clear nl0.
  induction sub as [|s1 rest IHs]; intros nl H0 k; cbn [fold_left fst]; [exact H0|].
  inversion IH as [|? ? Hs1 Hrest]; subst.
  destruct (comp_to_nl s1 k) as [snl k'] eqn:E.
  apply IHs; [exact Hrest|].
  destruct (relate_list_at nl snl (n_id nd) Edge_Type_contains) as [l'| | |] eqn:El'; cbn [or_keep]; try exact H0.
  intros i Hi. destruct (relate_list_ids _ _ _ _ _ _ El' Hi) as [Hi'|Hi']; [apply H0; exact Hi'|].
  specialize (Hs1 k i). rewrite E in Hs1. apply Hs1. exact Hi'.
Qed.

Theorem cdx_unser_ids (P : string -> Prop) b :
  (forall c cc, P (n_id (comp_to_node c cc))) -> forall i, In i (ids (cdx_unser_nl b)) -> P i.
Proof.
  intros HP. unfold cdx_unser_nl.
  set (st0 := match (if b_has_metadata b then b_meta_comp b else None) with
              | Some mc => let '(nl, k) := comp_to_nl mc 0 in (add empty_nl nl, k)
              | None => (empty_nl, 0)
              end).
  assert (H0 : forall i, In i (ids (fst st0)) -> P i).
  { unfold st0. destruct (if b_has_metadata b then b_meta_comp b else None) as [mc|]; [|intros i []].
    pose proof (comp_to_nl_ids P HP mc 0) as H. destruct (comp_to_nl mc 0) as [nl k]. cbn [fst] in *.
    intros i Hi. apply add_ids_sub in Hi as [[]|Hi]. apply H. exact Hi. }
  revert H0. generalize st0 as st. generalize (b_components b) as cs.
  induction cs as [|c rest IH]; intros st H0; cbn [fold_left]; [exact H0|].
  apply IH. destruct st as [doc k]. cbn [fst] in H0.
  pose proof (comp_to_nl_ids P HP c k) as H. destruct (comp_to_nl c k) as [nl k']. cbn [fst] in *.
  destruct (nl_root_elements doc) as [|r rr].
  - intros i Hi. apply add_ids_sub in Hi as [Hi|Hi]; [apply H0|apply H]; exact Hi.
  - destruct (relate_list_at doc nl r Edge_Type_contains) as [l'| | |] eqn:El'; cbn [or_keep]; try exact H0.
    intros i Hi. destruct (relate_list_ids _ _ _ _ _ _ El' Hi) as [Hi'|Hi']; [apply H0|apply H]; exact Hi'.
Qed.

Theorem cdx_unser_ids_nonempty b i : In i (ids (cdx_unser_nl b)) -> i <> "".
Proof. apply (cdx_unser_ids (fun i => i <> "")). apply comp_node_id_nonempty. Qed.

(* ---- the serializer's component forest: every node exactly once (C03) -------------------------- *)
Fixpoint refs (c : comp) : list string := c_ref c :: flat_map refs (c_sub c).

Lemma refs_set_sub c subs : refs (set_sub c subs) = c_ref c :: flat_map refs subs.
Proof. destruct c; reflexivity. Qed.

Lemma flat_map_app' {A B} (f : A -> list B) l1 l2 : flat_map f (l1 ++ l2) = flat_map f l1 ++ flat_map f l2.
Proof. induction l1 as [|x r IH]; simpl; [reflexivity|]. rewrite IH, app_assoc. reflexivity. Qed.

Section Build.
  Variables (cd : string -> comp) (ch : string -> list string) (Q : string -> Prop).
  Hypothesis Hcd : forall x, Q x -> c_ref (cd x) = x /\ c_sub (cd x) = [].
  Hypothesis Hch : forall x y, In y (ch x) -> Q y.

  Lemma refs_cd x : Q x -> refs (cd x) = [x].
  Proof.
    intros Hx. destruct (Hcd x Hx) as [H1 H2]. destruct (cd x) as [r t n v d cp l h xr p cpe s sub].
    cbn [c_ref c_sub] in *. subst. reflexivity.
  Qed.

  (* what one call places: itself and its nest, nothing twice, nothing that was placed before *)
  Definition build_post (placed : list string) (i : string) (r : comp * list string) : Prop :=
    exists new, snd r = new ++ placed /\ Permutation new (refs (fst r)) /\ NoDup (snd r) /\
                In i new /\ (forall x, In x new -> Q x).

  Lemma build_spec : forall fuel placed i, Q i -> ~ In i placed -> NoDup placed ->
    build_post placed i (build fuel cd ch placed i).
  Proof.
    induction fuel as [|f IH]; intros placed i Hi Hni Hnd.
    - cbn [build]. exists [i]. cbn [fst snd app]. rewrite (refs_cd i Hi).
      repeat split; [apply Permutation_refl|constructor; assumption|left; reflexivity|].
      intros x [<-|[]]. exact Hi.
    - cbn [build].
      set (inv := fun st : list comp * list string =>
                    exists new, snd st = new ++ placed /\ Permutation new (i :: flat_map refs (fst st)) /\ NoDup (snd st) /\
                                In i new /\ (forall x, In x new -> Q x)).
      assert (Hfold : forall cs st, (forall c, In c cs -> Q c) -> inv st ->
                inv (fold_left (build_step (build f cd ch)) cs st)).
      { induction cs as [|c rest IHc]; intros st Hcs Hinv; cbn [fold_left]; [exact Hinv|].
        apply IHc; [intros c' Hc'; apply Hcs; right; exact Hc'|].
        destruct st as [acc pl]. unfold build_step. destruct (mem c pl) eqn:Em; [exact Hinv|].
        destruct Hinv as [new [Epl [Hp [Hnd' [Hin HQ]]]]]. cbn [fst snd] in *. subst pl.
        assert (Hc : Q c) by (apply Hcs; left; reflexivity).
        apply mem_false in Em.
        destruct (IH (new ++ placed) c Hc Em Hnd') as [newc [E1 [E2 [E3 [E4 E5]]]]].
        destruct (build f cd ch (new ++ placed) c) as [sc pl']. cbn [fst snd] in *.
        exists (newc ++ new). cbn [fst snd]. subst pl'. rewrite app_assoc. split; [reflexivity|].
        split; [|split; [rewrite <- app_assoc; exact E3|split]].
        - rewrite flat_map_app'. cbn [flat_map]. rewrite app_nil_r.
          apply Permutation_trans with (l' := refs sc ++ (i :: flat_map refs acc)).
          + apply Permutation_app; assumption.
          + rewrite app_comm_cons. apply Permutation_app_comm.
        - apply in_or_app. right. exact Hin.
        - intros x Hx. apply in_app_or in Hx as [Hx|Hx]; [apply E5|apply HQ]; exact Hx. }
      specialize (Hfold (ch i) ([], i :: placed) (Hch i)).
      assert (H0 : inv ([], i :: placed)).
      { exists [i]. cbn [fst snd flat_map app]. repeat split; [apply Permutation_refl|constructor; assumption|left; reflexivity|].
        intros x [<-|[]]. exact Hi. }
      specialize (Hfold H0). unfold inv in Hfold.
      destruct (fold_left (build_step (build f cd ch)) (ch i) ([], i :: placed)) as [subs placed'].
      cbn [fst snd] in Hfold.
      destruct Hfold as [new [E1 [E2 [E3 [E4 E5]]]]].
      exists new. cbn [fst snd]. split; [exact E1|]. split; [|split; [exact E3|split; [exact E4|exact E5]]].
      destruct (Hcd i Hi) as [Hr Hs].
      destruct subs as [|s1 sr].
      + rewrite (refs_cd i Hi). exact E2.
      + rewrite refs_set_sub, Hr. exact E2.
  Qed.
End Build.

Section Assemble.
  Variables (fuel : nat) (order : list string) (root : string) (cd : string -> comp) (par : list (string * string)).
  Hypothesis Hnd : NoDup order.
  Hypothesis Hcd : forall x, In x order -> c_ref (cd x) = x /\ c_sub (cd x) = [].
  Hypothesis Hpar : forall x p, In (x, p) par -> In x order /\ x <> root.

  Definition Qa (x : string) : Prop := In x order /\ x <> root.

  Lemma children_Q x y : In y (children_of par x) -> Qa y.
  Proof.
    unfold children_of. intros H. apply in_map_iff in H as [[y' p] [<- H]]. apply filter_In in H as [H _].
    exact (Hpar _ _ H).
  Qed.

  Definition top_inv (st : list comp * list string) : Prop :=
    Permutation (snd st) (flat_map refs (fst st)) /\ NoDup (snd st) /\ forall x, In x (snd st) -> Qa x.

  Lemma top_step_inv b st i : In i order -> top_inv st ->
    let st' := top_step fuel root cd par b st i in
    top_inv st' /\ incl (snd st) (snd st') /\ (b = false -> i <> root -> In i (snd st')).
  Proof.
    intros Hi [Hp [Hn HQ]]. destruct st as [acc pl]. cbn [fst snd] in *. unfold top_step.
    destruct (String.eqb i root) eqn:Er.
    - cbn [orb]. cbn [fst snd]. split; [split; [exact Hp|split; [exact Hn|exact HQ]]|]. split; [apply incl_refl|].
      intros _ Hne. apply String.eqb_eq in Er. contradiction.
    - cbn [orb]. destruct (mem i pl) eqn:Em.
      + cbn [fst snd]. split; [split; [exact Hp|split; [exact Hn|exact HQ]]|]. split; [apply incl_refl|].
        intros _ _. apply mem_In. exact Em.
      + destruct (b && match sassoc i par with Some p => negb (String.eqb p root) | None => false end)%bool eqn:Eb.
        * cbn [fst snd]. split; [split; [exact Hp|split; [exact Hn|exact HQ]]|]. split; [apply incl_refl|].
          intros -> _. discriminate.
        * apply String.eqb_neq in Er. apply mem_false in Em.
          assert (HQi : Qa i) by (split; assumption).
          destruct (build_spec cd (children_of par) Qa (fun x Hx => Hcd x (proj1 Hx)) children_Q fuel pl i HQi Em Hn)
            as [new [E1 [E2 [E3 [E4 E5]]]]].
          destruct (build fuel cd (children_of par) pl i) as [c pl']. cbn [fst snd] in *. subst pl'.
          unfold top_inv; cbn [fst snd].
          split; [split; [|split; [exact E3|]]|split].
          -- rewrite flat_map_app'. cbn [flat_map]. rewrite app_nil_r.
             apply Permutation_trans with (l' := refs c ++ flat_map refs acc); [apply Permutation_app; assumption|].
             apply Permutation_app_comm.
          -- intros x Hx. apply in_app_or in Hx as [Hx|Hx]; [apply E5|apply HQ]; exact Hx.
          -- intros x Hx. apply in_or_app. right. exact Hx.
          -- intros _ _. apply in_or_app. left. exact E4.
  Qed.

  Lemma top_fold_inv b : forall l st, incl l order -> top_inv st ->
    let st' := fold_left (top_step fuel root cd par b) l st in
    top_inv st' /\ incl (snd st) (snd st') /\ (b = false -> forall i, In i l -> i <> root -> In i (snd st')).
  Proof.
    induction l as [|i r IH]; intros st Hl Hinv; cbn [fold_left].
    - split; [exact Hinv|]. split; [apply incl_refl|]. intros _ i [].
    - destruct (top_step_inv b st i (Hl i (or_introl eq_refl)) Hinv) as [H1 [H2 H3]].
      destruct (IH (top_step fuel root cd par b st i) (fun x Hx => Hl x (or_intror Hx)) H1) as [G1 [G2 G3]].
      split; [exact G1|]. split; [intros x Hx; apply G2, H2; exact Hx|].
      intros Hb j [<-|Hj] Hne; [apply G2, H3; assumption|apply G3; assumption].
  Qed.

  (* every node other than the root is emitted exactly once, for any fuel *)
  Theorem assemble_exactly_once :
    Permutation (flat_map refs (assemble_with fuel order root cd par)) (filter (fun i => negb (String.eqb i root)) order).
  Proof.
    unfold assemble_with.
    assert (H0 : top_inv ([], [])).
    { split; [apply Permutation_refl|]. split; [constructor|]. intros x []. }
    destruct (top_fold_inv true order ([], []) (incl_refl _) H0) as [H1 _].
    destruct (top_fold_inv false order _ (incl_refl _) H1) as [[Hp [Hn HQ]] [_ Hall]].
    set (st := fold_left (top_step fuel root cd par false) order _) in *.
    apply Permutation_trans with (l' := snd st); [apply Permutation_sym; exact Hp|].
    apply NoDup_Permutation; [exact Hn|apply NoDup_filter; exact Hnd|].
    intros x. rewrite filter_In. split.
    - intros Hx. destruct (HQ x Hx) as [Ho Hne]. split; [exact Ho|]. apply negb_eqb_true. exact Hne.
    - intros [Ho Hne]. apply negb_eqb_true in Hne. apply (Hall eq_refl); assumption.
  Qed.
End Assemble.

(* ---- the first pass over the edges ------------------------------------------------------------------ *)
Definition par_ok (root : string) (es : list edge) (xp : string * string) : Prop :=
  fst xp <> root /\ fst xp <> snd xp /\
  exists e, In e es /\ e_type e = Edge_Type_contains /\ e_from e = snd xp /\ In (fst xp) (e_to e).

Lemma sassoc_None {A} k (l : list (string * A)) : sassoc k l = None -> ~ In k (map fst l).
Proof.
  induction l as [|[k' v] r IH]; simpl; [intros _ []|].
  destruct (String.eqb k k') eqn:E; [discriminate|]. intros H [Hk|Hk].
  - subst. rewrite String.eqb_refl in E. discriminate.
  - exact (IH H Hk).
Qed.

Lemma record_contains_inv root es e : In e es -> e_type e = Edge_Type_contains ->
  forall tos p, incl tos (e_to e) -> Forall (par_ok root es) p /\ NoDup (map fst p) ->
  let p' := fold_left (fun p x => if (String.eqb x root || String.eqb x (e_from e))%bool then p
                                  else match sassoc x p with Some _ => p | None => p ++ [(x, e_from e)] end) tos p in
  Forall (par_ok root es) p' /\ NoDup (map fst p').
Proof.
  intros He Ht. induction tos as [|x r IH]; intros p Hs Hinv; cbn [fold_left]; [exact Hinv|].
  apply IH; [intros y Hy; apply Hs; right; exact Hy|].
  destruct (String.eqb x root || String.eqb x (e_from e))%bool eqn:E; [exact Hinv|].
  apply orb_false_iff in E as [E1 E2]. apply String.eqb_neq in E1, E2.
  destruct (sassoc x p) eqn:Es; [exact Hinv|].
  destruct Hinv as [Hf Hn]. split.
  - apply Forall_app. split; [exact Hf|]. constructor; [|constructor].
    split; [exact E1|]. split; [exact E2|]. exists e. cbn [fst snd].
    repeat split; try assumption. apply Hs. left. reflexivity.
  - rewrite map_app. cbn [map fst]. apply NoDup_app_intro; [exact Hn|constructor; [intros []|constructor]|].
    intros y Hy [<-|[]]. exact (sassoc_None _ _ Es Hy).
Qed.

Lemma parents_inv root es : Forall (par_ok root es) (parents root es) /\ NoDup (map fst (parents root es)).
Proof.
  unfold parents.
  assert (H : forall es0 p, incl es0 es -> Forall (par_ok root es) p /\ NoDup (map fst p) ->
            let p' := fold_left (fun p e => if Z.eqb (e_type e) Edge_Type_contains then record_contains root p e else p) es0 p in
            Forall (par_ok root es) p' /\ NoDup (map fst p')).
  { induction es0 as [|e r IH]; intros p Hs Hinv; cbn [fold_left]; [exact Hinv|].
    apply IH; [intros y Hy; apply Hs; right; exact Hy|].
    destruct (Z.eqb (e_type e) Edge_Type_contains) eqn:E; [|exact Hinv].
    apply Z.eqb_eq in E. unfold record_contains.
    apply (record_contains_inv root es e (Hs e (or_introl eq_refl)) E (e_to e) p (incl_refl _) Hinv). }
  apply (H es [] (incl_refl _)). split; constructor.
Qed.

Lemma last_comp_ref nodes i : In i (map n_id nodes) -> c_ref (last_comp nodes i) = i /\ c_sub (last_comp nodes i) = [].
Proof.
  intros Hi. unfold last_comp. destruct (last_node_In i nodes Hi) as [n En]. rewrite En.
  destruct (last_node_Some i nodes n En) as [_ Hid]. cbn [node_to_comp c_ref c_sub]. split; [exact Hid|reflexivity].
Qed.

(* the components a successful serialization emits, before generated references are blanked *)
Definition cdx_forest (nl : nodelist) (root : string) : list comp :=
  assemble (first_occurrences (ids nl)) root (last_comp (nl_nodes nl)) (parents root (nl_edges nl)).

Definition contains_closed (nl : nodelist) : Prop :=
  forall e, In e (nl_edges nl) -> e_type e = Edge_Type_contains -> forall x, In x (e_to e) -> In x (ids nl).

Theorem forest_exactly_once nl root : contains_closed nl ->
  Permutation (flat_map refs (cdx_forest nl root)) (filter (fun i => negb (String.eqb i root)) (dedup (ids nl))).
Proof.
  intros Hc. unfold cdx_forest, assemble, first_occurrences.
  apply assemble_exactly_once.
  - apply dedup_NoDup.
  - intros x Hx. apply last_comp_ref. exact (proj1 (dedup_In x _) Hx).
  - intros x p Hxp. destruct (parents_inv root (nl_edges nl)) as [Hf _].
    rewrite Forall_forall in Hf. destruct (Hf _ Hxp) as [H1 [_ [e [He [Ht [_ Hx]]]]]]. cbn [fst snd] in *.
    split; [|exact H1]. apply dedup_In. exact (Hc e He Ht x Hx).
Qed.

(* what a successful serialization is made of *)
Theorem cdx_ser_shape d b : cdx_ser d = Ok b ->
  exists md nl, d_metadata d = Some md /\ d_node_list d = Some nl /\
  ((nl_root_elements nl = [] /\ nl_nodes nl = [] /\ b_components b = [] /\ b_deps b = []) \/
   (exists root rn, nl_root_elements nl = [root] /\ first_node root (nl_nodes nl) = Some rn /\
      (forall e, In e (nl_edges nl) -> In (e_from e) (ids nl)) /\
      (forall e, In e (nl_edges nl) -> e_type e = Edge_Type_contains \/ e_type e = Edge_Type_dependsOn ->
                 forall x, In x (e_to e) -> In x (ids nl)) /\
      b_components b = map clear_auto (cdx_forest nl root) /\
      b_deps b = flat_map (fun e => if Z.eqb (e_type e) Edge_Type_dependsOn then [(e_from e, dedup (e_to e))] else []) (nl_edges nl) /\
      option_map c_ref (b_meta_comp b) = Some root)).
Proof.
  unfold cdx_ser. destruct (d_metadata d) as [md|]; [|discriminate]. destruct (d_node_list d) as [nl|]; [|discriminate].
  intros H. exists md, nl. split; [reflexivity|]. split; [reflexivity|].
  destruct (nl_root_elements nl) as [|root [|r2 rr]]; [| |discriminate].
  - left. destruct (nl_nodes nl); [|discriminate]. injection H as <-. repeat split.
  - right. destruct (first_node root (nl_nodes nl)) as [rn|] eqn:Ern; [|discriminate].
    destruct (all_ok phase_of (md_documentTypes md)) as [lcs| | |]; try discriminate.
    destruct (negb (forallb (fun e => mem (e_from e) (ids nl)) (nl_edges nl))) eqn:E1; [discriminate|].
    match type of H with (if negb ?c then _ else _) = _ => destruct c eqn:E2 end; cbn [negb] in H; [|discriminate].
    injection H as <-. exists root, rn. cbn [b_components b_deps b_meta_comp].
    apply negb_false_iff in E1. rewrite forallb_forall in E1, E2.
    split; [reflexivity|]. split; [exact Ern|].
    split; [intros e He; apply mem_In; exact (E1 e He)|].
    split.
    { intros e He Ht x Hx. specialize (E2 e He). apply orb_true_iff in E2 as [E2|E2].
      - apply negb_true_iff, orb_false_iff in E2 as [A B]. apply Z.eqb_neq in A, B. destruct Ht; contradiction.
      - rewrite forallb_forall in E2. apply mem_In. exact (E2 x Hx). }
    split; [reflexivity|]. split; [reflexivity|].
    destruct (first_node_Some root (nl_nodes nl) rn Ern) as [_ Hid].
    assert (Hsn : forall c nm, c_ref (set_name c nm) = c_ref c) by (intros [] ?; reflexivity).
    match goal with |- context [if ?c then _ else _] => destruct c end; cbn [option_map];
      rewrite ?Hsn; cbn [node_to_comp c_ref]; rewrite Hid; reflexivity.
Qed.

(* ---- the nesting never runs out of fuel (C07: the recursion of the real code terminates) ---------- *)
Lemma filter_length_le {A} (f g : A -> bool) l : (forall x, f x = true -> g x = true) ->
  (length (filter f l) <= length (filter g l))%nat.
Proof.
  intros H. induction l as [|x r IH]; simpl; [lia|].
  destruct (f x) eqn:E; [rewrite (H x E); simpl; lia|]. destruct (g x); simpl; lia.
Qed.

Lemma filter_length_lt {A} (f g : A -> bool) l c : (forall x, f x = true -> g x = true) ->
  In c l -> g c = true -> f c = false -> (length (filter f l) < length (filter g l))%nat.
Proof.
  intros H. induction l as [|x r IH]; intros Hc Hg Hf; [destruct Hc|]. simpl.
  destruct Hc as [->|Hc].
  - rewrite Hg, Hf. simpl. pose proof (filter_length_le f g r H). lia.
  - specialize (IH Hc Hg Hf). destruct (f x) eqn:E; [rewrite (H x E); simpl; lia|]. destruct (g x); simpl; lia.
Qed.

Lemma filter_len {A} (f : A -> bool) l : (length (filter f l) <= length l)%nat.
Proof. induction l as [|x r IH]; simpl; [lia|]. destruct (f x); simpl; lia. Qed.

Lemma fold_left_ext {A B} (f g : A -> B -> A) l : forall st, (forall st i, f st i = g st i) -> fold_left f l st = fold_left g l st.
Proof. induction l as [|x r IH]; intros st H; simpl; [reflexivity|]. rewrite H. apply IH. exact H. Qed.

Section Fuel.
  Variables (cd : string -> comp) (ch : string -> list string) (cand : list string).
  Hypothesis Hch : forall x y, In y (ch x) -> In y cand.

  Definition unplaced (pl : list string) : list string := filter (fun x => negb (mem x pl)) cand.

  Lemma build_incl : forall fuel placed i, incl (i :: placed) (snd (build fuel cd ch placed i)).
  Proof.
    induction fuel as [|f IH]; intros placed i; cbn [build]; [cbn [snd]; apply incl_refl|].
    assert (H : forall cs st, incl (snd st) (snd (fold_left (build_step (build f cd ch)) cs st))).
    { induction cs as [|c r IHc]; intros st; cbn [fold_left]; [apply incl_refl|].
      eapply incl_tran; [|apply IHc]. destruct st as [acc pl]. unfold build_step.
      destruct (mem c pl); [apply incl_refl|].
      specialize (IH pl c). destruct (build f cd ch pl c) as [sc pl']. cbn [snd] in *.
      intros x Hx. apply IH. right. exact Hx. }
    specialize (H (ch i) ([], i :: placed)).
    destruct (fold_left (build_step (build f cd ch)) (ch i) ([], i :: placed)) as [subs placed']. exact H.
  Qed.

  Lemma unplaced_mono pl pl' : incl pl pl' -> (length (unplaced pl') <= length (unplaced pl))%nat.
  Proof.
    intros H. apply filter_length_le. intros x Hx. apply negb_true_iff in Hx. apply negb_true_iff.
    apply mem_false. apply mem_false in Hx. intros Hin. apply Hx, H. exact Hin.
  Qed.

  Lemma unplaced_less pl c : In c cand -> ~ In c pl -> (length (unplaced (c :: pl)) < length (unplaced pl))%nat.
  Proof.
    intros Hc Hn. apply (filter_length_lt _ _ cand c).
    - intros x Hx. apply negb_true_iff in Hx. apply negb_true_iff. apply mem_false. apply mem_false in Hx.
      intros Hin. apply Hx. right. exact Hin.
    - exact Hc.
    - apply negb_true_iff, mem_false. exact Hn.
    - apply negb_false_iff, mem_In. left. reflexivity.
  Qed.

  Theorem build_fuel_enough : forall fuel placed i k, (length (unplaced (i :: placed)) < fuel)%nat ->
    build (fuel + k) cd ch placed i = build fuel cd ch placed i.
  Proof.
    induction fuel as [|f IH]; intros placed i k Hlt; [lia|].
    change (S f + k)%nat with (S (f + k)). cbn [build].
    assert (H : forall cs st, (forall c, In c cs -> In c cand) -> incl (i :: placed) (snd st) ->
              fold_left (build_step (build (f + k) cd ch)) cs st = fold_left (build_step (build f cd ch)) cs st).
    { induction cs as [|c r IHc]; intros st Hcs Hst; cbn [fold_left]; [reflexivity|].
      assert (E : build_step (build (f + k) cd ch) st c = build_step (build f cd ch) st c).
      { destruct st as [acc pl]. unfold build_step. destruct (mem c pl) eqn:Em; [reflexivity|].
        rewrite IH; [reflexivity|]. apply mem_false in Em. cbn [snd] in Hst.
        pose proof (unplaced_less pl c (Hcs c (or_introl eq_refl)) Em).
        pose proof (unplaced_mono _ _ Hst). lia. }
      rewrite E. apply IHc; [intros c' Hc'; apply Hcs; right; exact Hc'|].
      destruct st as [acc pl]. unfold build_step. destruct (mem c pl); [exact Hst|].
      pose proof (build_incl f pl c) as Hi. destruct (build f cd ch pl c) as [sc pl']. cbn [snd] in *.
      intros x Hx. apply Hi. right. apply Hst. exact Hx. }
    rewrite (H (ch i) ([], i :: placed) (Hch i) (incl_refl _)). reflexivity.
  Qed.
End Fuel.

Theorem assemble_fuel_enough order root cd par k :
  (forall x p, In (x, p) par -> In x order) ->
  assemble_with (S (length order) + k) order root cd par = assemble order root cd par.
Proof.
  intros Hpar. unfold assemble, assemble_with.
  assert (Hch : forall x y, In y (children_of par x) -> In y order).
  { unfold children_of. intros x y H. apply in_map_iff in H as [[y' p] [<- H]]. apply filter_In in H as [H _]. exact (Hpar _ _ H). }
  assert (E : forall b st i, top_step (S (length order) + k) root cd par b st i = top_step (S (length order)) root cd par b st i).
  { intros b [acc pl] i. unfold top_step.
    rewrite (build_fuel_enough cd (children_of par) order Hch (S (length order)) pl i k); [reflexivity|].
    unfold unplaced. pose proof (filter_len (fun x => negb (mem x (i :: pl))) order) as Hl. lia. }
  rewrite (fold_left_ext _ _ order _ (E true)). f_equal. apply fold_left_ext. exact (E false).
Qed.

(* ---- nesting is sound: a component is nested only under the node that contains it ---------------- *)
Fixpoint pairs (c : comp) : list (string * string) :=
  map (fun s => (c_ref c, c_ref s)) (c_sub c) ++ flat_map pairs (c_sub c).

Lemma pairs_set_sub c subs : pairs (set_sub c subs) = map (fun s => (c_ref c, c_ref s)) subs ++ flat_map pairs subs.
Proof. destruct c; reflexivity. Qed.

Section BuildPairs.
  Variables (cd : string -> comp) (ch : string -> list string) (Q : string -> Prop).
  Hypothesis Hcd : forall x, Q x -> c_ref (cd x) = x /\ c_sub (cd x) = [].
  Hypothesis Hch : forall x y, In y (ch x) -> Q y.

  Lemma pairs_cd x : Q x -> pairs (cd x) = [].
  Proof.
    intros Hx. destruct (Hcd x Hx) as [_ H2]. destruct (cd x) as [r t n v d cp l h xr p cpe s sub].
    cbn [c_sub] in H2. subst. reflexivity.
  Qed.

  Lemma build_ref_pairs : forall fuel placed i, Q i ->
    c_ref (fst (build fuel cd ch placed i)) = i /\
    forall p x, In (p, x) (pairs (fst (build fuel cd ch placed i))) -> In x (ch p).
  Proof.
    induction fuel as [|f IH]; intros placed i Hi.
    - cbn [build fst]. split; [exact (proj1 (Hcd i Hi))|]. rewrite (pairs_cd i Hi). intros p x [].
    - cbn [build].
      set (good := fun s : comp => In (c_ref s) (ch i) /\ forall p x, In (p, x) (pairs s) -> In x (ch p)).
      assert (Hfold : forall cs st, incl cs (ch i) -> Forall good (fst st) ->
                Forall good (fst (fold_left (build_step (build f cd ch)) cs st))).
      { induction cs as [|c r IHc]; intros st Hcs Hst; cbn [fold_left]; [exact Hst|].
        apply IHc; [intros y Hy; apply Hcs; right; exact Hy|].
        destruct st as [acc pl]. unfold build_step. destruct (mem c pl); [exact Hst|].
        assert (Hc : In c (ch i)) by (apply Hcs; left; reflexivity).
        destruct (IH pl c (Hch i c Hc)) as [H1 H2].
        destruct (build f cd ch pl c) as [sc pl']. cbn [fst] in *.
        apply Forall_app. split; [exact Hst|]. constructor; [|constructor].
        split; [rewrite H1; exact Hc|exact H2]. }
      specialize (Hfold (ch i) ([], i :: placed) (incl_refl _) (Forall_nil _)).
      destruct (fold_left (build_step (build f cd ch)) (ch i) ([], i :: placed)) as [subs placed'].
      cbn [fst] in *. destruct (Hcd i Hi) as [Hr Hs].
      destruct subs as [|s1 sr].
      + split; [exact Hr|]. rewrite (pairs_cd i Hi). intros p x [].
      + assert (Href : c_ref (set_sub (cd i) (s1 :: sr)) = i) by (destruct (cd i); exact Hr).
        split; [exact Href|]. rewrite pairs_set_sub, Hr. intros p x Hpx.
        rewrite Forall_forall in Hfold.
        apply in_app_or in Hpx as [Hpx|Hpx].
        * apply in_map_iff in Hpx as [s [E Hs']]. injection E as <- <-. exact (proj1 (Hfold s Hs')).
        * apply in_flat_map in Hpx as [s [Hs' Hpx]]. exact (proj2 (Hfold s Hs') p x Hpx).
  Qed.
End BuildPairs.

Lemma children_of_In par p x : In x (children_of par p) <-> In (x, p) par.
Proof.
  unfold children_of. rewrite in_map_iff. split.
  - intros [[x' p'] [<- H]]. apply filter_In in H as [H E]. cbn [snd fst] in *. apply String.eqb_eq in E. subst. exact H.
  - intros H. exists (x, p). split; [reflexivity|]. apply filter_In. split; [exact H|]. cbn [snd]. apply String.eqb_refl.
Qed.

Theorem assemble_pairs_sound fuel order root cd par :
  (forall x, In x order -> c_ref (cd x) = x /\ c_sub (cd x) = []) ->
  (forall x p, In (x, p) par -> In x order) ->
  forall p x, In (p, x) (flat_map pairs (assemble_with fuel order root cd par)) -> In (x, p) par.
Proof.
  intros Hcd Hpar. unfold assemble_with.
  set (good := fun s : comp => forall p x, In (p, x) (pairs s) -> In (x, p) par).
  assert (Hstep : forall b st i, In i order -> Forall good (fst st) -> Forall good (fst (top_step fuel root cd par b st i))).
  { intros b [acc pl] i Hi Hst. unfold top_step.
    destruct (String.eqb i root || mem i pl)%bool; [exact Hst|].
    destruct (b && _)%bool; [exact Hst|].
    pose proof (build_ref_pairs cd (children_of par) (fun x => In x order) Hcd
                  (fun x y Hy => Hpar y x (proj1 (children_of_In par x y) Hy)) fuel pl i Hi) as [_ H2].
    destruct (build fuel cd (children_of par) pl i) as [c pl']. cbn [fst] in *.
    apply Forall_app. split; [exact Hst|]. constructor; [|constructor].
    intros p x Hpx. apply children_of_In. exact (H2 p x Hpx). }
  assert (Hfold : forall b l st, incl l order -> Forall good (fst st) -> Forall good (fst (fold_left (top_step fuel root cd par b) l st))).
  { intros b. induction l as [|i r IH]; intros st Hl Hst; cbn [fold_left]; [exact Hst|].
    apply IH; [intros y Hy; apply Hl; right; exact Hy|]. apply Hstep; [apply Hl; left; reflexivity|exact Hst]. }
  pose proof (Hfold false order _ (incl_refl _) (Hfold true order ([], []) (incl_refl _) (Forall_nil _))) as H.
  rewrite Forall_forall in H. intros p x Hpx. apply in_flat_map in Hpx as [s [Hs Hpx]]. exact (H s Hs p x Hpx).
Qed.

(* in a successful serialization every nesting is a contains edge of the document *)
Theorem forest_pairs_are_contains_edges nl root p x : contains_closed nl ->
  In (p, x) (flat_map pairs (cdx_forest nl root)) ->
  x <> root /\ x <> p /\ exists e, In e (nl_edges nl) /\ e_type e = Edge_Type_contains /\ e_from e = p /\ In x (e_to e).
Proof.
  intros Hc H. unfold cdx_forest, assemble in H.
  destruct (parents_inv root (nl_edges nl)) as [Hf _]. rewrite Forall_forall in Hf.
  apply assemble_pairs_sound in H.
  - exact (Hf _ H).
  - intros y Hy. apply last_comp_ref. exact (proj1 (dedup_In y _) Hy).
  - intros y q Hyq. destruct (Hf _ Hyq) as [_ [_ [e [He [Ht [_ Hx]]]]]]. cbn [fst] in Hx. apply dedup_In. exact (Hc e He Ht y Hx).
Qed.

(* ---- dependencies: complete, and closed over the document's nodes --------------------------------- *)
Theorem cdx_deps_closed d b f tos : cdx_ser d = Ok b -> In (f, tos) (b_deps b) ->
  exists nl, d_node_list d = Some nl /\ In f (ids nl) /\ forall x, In x tos -> In x (ids nl).
Proof.
  intros H Hin. destruct (cdx_ser_shape d b H) as [md [nl [_ [Enl [[_ [_ [_ Ed]]]|[root [rn [_ [_ [Hfrom [Hto [_ [Ed _]]]]]]]]]]]]].
  - rewrite Ed in Hin. destruct Hin.
  - exists nl. split; [exact Enl|]. rewrite Ed in Hin. apply in_flat_map in Hin as [e [He Hin]].
    destruct (Z.eqb (e_type e) Edge_Type_dependsOn) eqn:Et; [|destruct Hin].
    destruct Hin as [E|[]]. injection E as <- <-. apply Z.eqb_eq in Et.
    split; [exact (Hfrom e He)|]. intros x Hx. apply (Hto e He (or_intror Et)). exact (proj1 (dedup_In x _) Hx).
Qed.

Theorem cdx_deps_complete d b nl e x : cdx_ser d = Ok b -> d_node_list d = Some nl ->
  In e (nl_edges nl) -> In (e_from e) (ids nl) -> e_type e = Edge_Type_dependsOn -> In x (e_to e) ->
  exists tos, In (e_from e, tos) (b_deps b) /\ In x tos.
Proof.
  intros H Enl He Hsrc Ht Hx.
  destruct (cdx_ser_shape d b H) as [md [nl' [_ [Enl' [[_ [En [_ _]]]|[root [rn [_ [Efn [_ [_ [_ [Ed _]]]]]]]]]]]]];
    rewrite Enl in Enl'; injection Enl' as <-.
  - exfalso. unfold ids in Hsrc. rewrite En in Hsrc. destruct Hsrc.
  - exists (dedup (e_to e)). split; [|apply dedup_In; exact Hx]. rewrite Ed. apply in_flat_map. exists e. split; [exact He|].
    rewrite Ht, Z.eqb_refl. left. reflexivity.
Qed.

(* ---- totality: exactly when the CycloneDX serializer succeeds (C07) -------------------------------- *)
Lemma all_ok_Ok {A B} (f : A -> result B) l : (forall x, In x l -> exists y, f x = Ok y) <-> exists ys, all_ok f l = Ok ys.
Proof.
  induction l as [|x r IH]; cbn [all_ok].
  - split; [intros _; exists []; reflexivity|intros _ y []].
  - split.
    + intros H. destruct (H x (or_introl eq_refl)) as [y Ey]. rewrite Ey.
      destruct (proj1 IH (fun z Hz => H z (or_intror Hz))) as [ys Eys]. rewrite Eys. exists (y :: ys). reflexivity.
    + intros [ys E] z [<-|Hz].
      * destruct (f x) as [y| | |]; try discriminate. exists y. reflexivity.
      * apply (proj2 IH); [|exact Hz]. destruct (f x); try discriminate. destruct (all_ok f r) as [ys'| | |]; try discriminate.
        exists ys'. reflexivity.
Qed.

Lemma cdx_ser_not_panic d : cdx_ser d <> Panic /\ cdx_ser d <> Fatal.
Proof.
  unfold cdx_ser. destruct (d_metadata d); [|split; discriminate]. destruct (d_node_list d) as [nl|]; [|split; discriminate].
  destruct (nl_root_elements nl) as [|r [|r2 rr]]; [destruct (nl_nodes nl); split; discriminate| |split; discriminate].
  destruct (first_node r (nl_nodes nl)); [|split; discriminate].
  destruct (all_ok phase_of _); try (split; discriminate).
  destruct (negb _); [split; discriminate|]. destruct (negb _); split; discriminate.
Qed.

Definition cdx_serializable (d : document) : Prop :=
  exists md nl, d_metadata d = Some md /\ d_node_list d = Some nl /\
  ((nl_root_elements nl = [] /\ nl_nodes nl = []) \/
   (exists root, nl_root_elements nl = [root] /\ In root (ids nl) /\
      (forall dt, In dt (md_documentTypes md) -> exists ph, phase_of dt = Ok ph) /\
      (forall e, In e (nl_edges nl) -> In (e_from e) (ids nl)) /\
      (forall e, In e (nl_edges nl) -> e_type e = Edge_Type_contains \/ e_type e = Edge_Type_dependsOn ->
                 forall x, In x (e_to e) -> In x (ids nl)))).

Theorem cdx_ser_ok_iff d : (exists b, cdx_ser d = Ok b) <-> cdx_serializable d.
Proof.
  split.
  - intros [b H]. pose proof H as H'. unfold cdx_ser in H'.
    destruct (cdx_ser_shape d b H) as [md [nl [Em [En [[Er [Enn _]]|[root [rn [Er [Ef [Hfrom [Hto _]]]]]]]]]]].
    + exists md, nl. split; [exact Em|]. split; [exact En|]. left. split; assumption.
    + exists md, nl. split; [exact Em|]. split; [exact En|]. right. exists root. split; [exact Er|].
      split; [destruct (first_node_Some _ _ _ Ef) as [Hin <-]; apply in_map; exact Hin|].
      split; [|split; assumption].
      rewrite Em, En, Er, Ef in H'. apply all_ok_Ok.
      destruct (all_ok phase_of (md_documentTypes md)) as [lcs| | |]; try discriminate. exists lcs. reflexivity.
  - intros [md [nl [Em [En [[Er Enn]|[root [Er [Hroot [Hdt [Hfrom Hto]]]]]]]]]]; unfold cdx_ser; rewrite Em, En, Er.
    + rewrite Enn. eexists. reflexivity.
    + destruct (first_node_In root (nl_nodes nl) Hroot) as [rn [Ef _]]. rewrite Ef.
      destruct (proj1 (all_ok_Ok phase_of (md_documentTypes md)) Hdt) as [lcs El]. rewrite El.
      assert (E1 : forallb (fun e => mem (e_from e) (ids nl)) (nl_edges nl) = true).
      { apply forallb_forall. intros e He. apply mem_In. exact (Hfrom e He). }
      rewrite E1. cbn [negb].
      assert (E2 : forallb (fun e => (negb (Z.eqb (e_type e) Edge_Type_contains || Z.eqb (e_type e) Edge_Type_dependsOn)
                                     || forallb (fun i => mem i (ids nl)) (e_to e))%bool) (nl_edges nl) = true).
      { apply forallb_forall. intros e He.
        destruct (Z.eqb (e_type e) Edge_Type_contains) eqn:A; [|destruct (Z.eqb (e_type e) Edge_Type_dependsOn) eqn:B; [|reflexivity]].
        - cbn [orb negb]. apply forallb_forall. intros x Hx. apply mem_In. apply Z.eqb_eq in A. exact (Hto e He (or_introl A) x Hx).
        - cbn [orb negb]. apply forallb_forall. intros x Hx. apply mem_In. apply Z.eqb_eq in B. exact (Hto e He (or_intror B) x Hx). }
      rewrite E2. cbn [negb]. eexists. reflexivity.
Qed.

(* the assembly the serializer runs is the fuel-free one: more fuel changes nothing *)
Theorem forest_fuel_irrelevant nl root k : contains_closed nl ->
  assemble_with (S (length (dedup (ids nl))) + k) (dedup (ids nl)) root (last_comp (nl_nodes nl)) (parents root (nl_edges nl))
  = cdx_forest nl root.
Proof.
  intros Hc. unfold cdx_forest, first_occurrences. apply assemble_fuel_enough.
  intros x p Hxp. destruct (parents_inv root (nl_edges nl)) as [Hf _]. rewrite Forall_forall in Hf.
  destruct (Hf _ Hxp) as [_ [_ [e [He [Ht [_ Hx]]]]]]. cbn [fst] in Hx. apply dedup_In. exact (Hc e He Ht x Hx).
Qed.

(* ---- the parser's output is no larger than its input (C04) ---------------------------------------- *)
Fixpoint csize (c : comp) : nat := S (list_sum (map csize (c_sub c))).

Lemma relate_list_nodes_len l l2 a t l' : relate_list_at l l2 a t = Ok l' ->
  (length (nl_nodes l') <= length (nl_nodes l) + length (nl_nodes l2))%nat.
Proof.
  unfold relate_list_at. destruct (negb (has l a)); [discriminate|]. intros H. injection H as <-. cbn [nl_nodes].
  rewrite app_length. pose proof (filter_len (fun n => negb (mem (n_id n) (ids l))) (nl_nodes l2)) as Hl. lia.
Qed.

Lemma comp_to_nl_size : forall c cc, (length (nl_nodes (fst (comp_to_nl c cc))) <= csize c)%nat.
Proof.
  induction c as [c IH] using comp_ind'. intros cc.
  destruct c as [r t n v d cp l h x p cpe s sub]. cbn [comp_to_nl c_sub csize]. cbn [c_sub] in IH.
  set (nd := comp_to_node _ (cc + 1)).
  set (nl0 := {| nl_nodes := [nd]; nl_edges := []; nl_root_elements := [n_id nd] |}).
  assert (H0 : (length (nl_nodes nl0) <= 1)%nat) by (cbn; lia).
  change (S (list_sum (map csize sub))) with (1 + list_sum (map csize sub))%nat.
  clearbody nd. revert H0. generalize 1%nat as base. generalize (cc + 1) as k. generalize nl0 as nl. clear nl0.
  induction sub as [|s1 rest IHs]; intros nl k base H0; cbn [fold_left fst map list_sum].
  - lia.
  - inversion IH as [|? ? Hs1 Hrest]; subst.
    destruct (comp_to_nl s1 k) as [snl k'] eqn:E.
    specialize (IHs Hrest (or_keep nl (relate_list_at nl snl (n_id nd) Edge_Type_contains)) k' (base + csize s1)%nat).
    assert (Hle : (length (nl_nodes (or_keep nl (relate_list_at nl snl (n_id nd) Edge_Type_contains))) <= base + csize s1)%nat).
    { specialize (Hs1 k). rewrite E in Hs1. cbn [fst] in Hs1.
      destruct (relate_list_at nl snl (n_id nd) Edge_Type_contains) as [l'| | |] eqn:El; cbn [or_keep]; try lia.
      pose proof (relate_list_nodes_len _ _ _ _ _ El). lia. }
    change (list_sum (csize s1 :: map csize rest)) with (csize s1 + list_sum (map csize rest))%nat.
    rewrite Nat.add_assoc. exact (IHs Hle).
Qed.

Definition bsize (b : cbom) : nat :=
  (match (if b_has_metadata b then b_meta_comp b else None) with Some mc => csize mc | None => 0 end
   + list_sum (map csize (b_components b)))%nat.

Lemma add_nodes_len l l2 : (length (nl_nodes (add l l2)) <= length (nl_nodes l) + length (nl_nodes l2))%nat.
Proof.
  rewrite <- !(map_length n_id). change (map n_id (nl_nodes (add l l2))) with (ids (add l l2)).
  unfold add, ids at 1; cbn [nl_nodes]. fold (ids l). rewrite merge_nodes_ids by (intros a b; apply augment_id).
  rewrite app_length.
  pose proof (filter_len (fun i => negb (mem i (ids l))) (map n_id (nl_nodes l2))) as Hl. unfold ids in *. lia.
Qed.

(* no more nodes than components: the conversion does not blow its input up *)
Theorem cdx_unser_size b : (length (nl_nodes (cdx_unser_nl b)) <= bsize b)%nat.
Proof.
  unfold cdx_unser_nl, bsize.
  set (st0 := match (if b_has_metadata b then b_meta_comp b else None) with
              | Some mc => let '(nl, k) := comp_to_nl mc 0 in (add empty_nl nl, k)
              | None => (empty_nl, 0)
              end).
  set (base := match (if b_has_metadata b then b_meta_comp b else None) with Some mc => csize mc | None => 0%nat end).
  assert (H0 : (length (nl_nodes (fst st0)) <= base)%nat).
  { unfold st0, base. destruct (if b_has_metadata b then b_meta_comp b else None) as [mc|]; [|cbn; lia].
    pose proof (comp_to_nl_size mc 0) as H. destruct (comp_to_nl mc 0) as [nl k]. cbn [fst] in *.
    pose proof (add_nodes_len empty_nl nl). cbn [empty_nl nl_nodes length] in *. lia. }
  clearbody st0 base. revert st0 base H0. generalize (b_components b) as cs.
  induction cs as [|c rest IH]; intros st base H0; cbn [fold_left map].
  - cbn. lia.
  - change (list_sum (csize c :: map csize rest)) with (csize c + list_sum (map csize rest))%nat.
    rewrite Nat.add_assoc. apply IH. destruct st as [doc k]. cbn [fst] in H0.
    pose proof (comp_to_nl_size c k) as H. destruct (comp_to_nl c k) as [nl k']. cbn [fst] in *.
    destruct (nl_root_elements doc) as [|r rr].
    + pose proof (add_nodes_len doc nl). lia.
    + destruct (relate_list_at doc nl r Edge_Type_contains) as [l'| | |] eqn:El; cbn [or_keep]; try lia.
      pose proof (relate_list_nodes_len _ _ _ _ _ El). lia.
Qed.

(* ---- per node: the attributes CycloneDX expresses (C02) -------------------------------------------- *)
Definition cdx_native_purposes : list Z :=
  [Purpose_APPLICATION; Purpose_CONTAINER; Purpose_DATA; Purpose_DEVICE; Purpose_DEVICE_DRIVER; Purpose_FIRMWARE;
   Purpose_FRAMEWORK; Purpose_LIBRARY; Purpose_MACHINE_LEARNING_MODEL; Purpose_OPERATING_SYSTEM; Purpose_PLATFORM].

Definition purpose_rt (p : Z) : Z :=
  slook cdx_type_to_purpose_tab 0 (match zassoc p purpose_to_cdx_tab with Some t => t | None => "" end).

Lemma native_purposes_rt : forallb (fun p => (Z.eqb (purpose_rt p) p && negb (Z.eqb p Purpose_FILE))%bool) cdx_native_purposes = true.
Proof. vm_compute. reflexivity. Qed.

Lemma file_type_rt : slook cdx_type_to_purpose_tab 0 "file" = Purpose_FILE.
Proof. vm_compute. reflexivity. Qed.

Theorem cdx_scalar_attributes n cc : let n' := comp_to_node (node_to_comp n) cc in
  (n_id n <> "" -> n_id n' = n_id n) /\ n_name n' = n_name n /\ n_version n' = n_version n /\
  n_description n' = n_description n /\ n_copyright n' = n_copyright n.
Proof.
  cbn zeta. unfold comp_to_node, node_to_comp; cbn [n_id n_name n_version n_description n_copyright c_ref c_name c_version c_description c_copyright].
  split; [|repeat split]. intros H. apply String.eqb_neq in H. rewrite H. reflexivity.
Qed.

Theorem cdx_kind_and_type n cc : let n' := comp_to_node (node_to_comp n) cc in
  (n_type n = Node_NodeType_FILE -> n_type n' = Node_NodeType_FILE /\ n_primary_purpose n' = [Purpose_FILE]) /\
  (forall p r, n_type n = Node_NodeType_PACKAGE -> n_primary_purpose n = p :: r -> In p cdx_native_purposes ->
     n_type n' = Node_NodeType_PACKAGE /\ n_primary_purpose n' = [p]).
Proof.
  cbn zeta. unfold comp_to_node, node_to_comp; cbn [n_type n_primary_purpose c_type]. split.
  - intros E. rewrite E. vm_compute. split; reflexivity.
  - intros p r Ht Hp Hin. rewrite Ht, Hp. change (Node_NodeType_PACKAGE =? Node_NodeType_FILE) with false. cbn iota.
    pose proof native_purposes_rt as H. rewrite forallb_forall in H. specialize (H p Hin).
    apply andb_true_iff in H as [H1 H2]. apply Z.eqb_eq in H1. unfold purpose_rt in H1. rewrite H1.
    apply negb_true_iff in H2. rewrite H2. split; reflexivity.
Qed.

(* the licence list is NOT preserved beyond its first entry: K13 *)
Theorem cdx_licence_list_refuted : exists n cc,
  n_licenses (comp_to_node (node_to_comp n) cc) <> n_licenses n /\ length (n_licenses n) = 2%nat.
Proof.
  exists {| n_id := "n"; n_type := 0; n_name := "n"; n_version := ""; n_file_name := ""; n_url_home := "";
            n_url_download := ""; n_licenses := ["MIT"; "Apache-2.0"]; n_license_concluded := ""; n_license_comments := "";
            n_copyright := ""; n_source_info := ""; n_comment := ""; n_summary := ""; n_description := "";
            n_attribution := []; n_suppliers := []; n_originators := []; n_release_date := None;
            n_build_date := None; n_valid_until_date := None; n_external_references := [];
            n_file_types := []; n_identifiers := []; n_hashes := []; n_primary_purpose := [] |}, 1.
  split; [vm_compute; discriminate|reflexivity].
Qed.

Theorem cdx_single_licence n cc l : n_licenses n = [l] -> l <> "" -> n_licenses (comp_to_node (node_to_comp n) cc) = [l].
Proof.
  intros E Hl. unfold comp_to_node, node_to_comp; cbn [n_licenses c_licenses]. rewrite E. cbn [map lic_list filter cl_expression cl_has_license cl_id].
  apply String.eqb_neq in Hl. unfold lic_list. cbn [filter cl_expression cl_has_license cl_id]. rewrite Hl. cbn. reflexivity.
Qed.

Theorem cdx_no_licence n cc : n_licenses n = [] -> n_licenses (comp_to_node (node_to_comp n) cc) = [].
Proof. intros E. unfold comp_to_node, node_to_comp; cbn [n_licenses c_licenses]. rewrite E. reflexivity. Qed.

(* serial number and lifecycle phases of the document *)
Theorem cdx_serial_and_lifecycles d b md : cdx_ser d = Ok b -> d_metadata d = Some md ->
  b_serial b = md_id md /\
  ((exists nl, d_node_list d = Some nl /\ nl_nodes nl = [] /\ nl_root_elements nl = []) \/ all_ok phase_of (md_documentTypes md) = Ok (b_lifecycles b)).
Proof.
  unfold cdx_ser. intros H Em. rewrite Em in H. destruct (d_node_list d) as [nl|]; [|discriminate].
  destruct (nl_root_elements nl) as [|root [|r2 rr]] eqn:Er; [| |discriminate].
  - destruct (nl_nodes nl) eqn:En; [|discriminate]. injection H as <-. split; [reflexivity|]. left. exists nl. repeat split; assumption.
  - destruct (first_node root (nl_nodes nl)); [|discriminate].
    destruct (all_ok phase_of (md_documentTypes md)) as [lcs| | |]; try discriminate.
    destruct (negb _); [discriminate|]. destruct (negb _); [discriminate|]. injection H as <-. split; [reflexivity|]. right. reflexivity.
Qed.

Lemma phase_type_rt : forallb (fun t => match phase_of {| dt_type := Some t; dt_name := None; dt_description := None |} with
                                        | Ok (ph, _, _) => match sassoc ph phase_to_sbomtype_tab with Some t' => Z.eqb t' t | None => false end
                                        | _ => false
                                        end)
    [DocumentType_SBOMType_BUILD; DocumentType_SBOMType_DESIGN; DocumentType_SBOMType_ANALYZED; DocumentType_SBOMType_SOURCE;
     DocumentType_SBOMType_DECOMISSION; DocumentType_SBOMType_DEPLOYED; DocumentType_SBOMType_DISCOVERY] = true.
Proof. vm_compute. reflexivity. Qed.
