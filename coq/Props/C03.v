(* C03 — Translation never silently drops or invents nodes, edges or references.  Statements only;
   proofs in Proofs/SpdxFacts.v (SPDX 2.3) and Proofs/CdxFacts.v (CycloneDX).  Both serializers are
   compared with the real ones on every run (seams of Corr/CheckSpdx.v, Corr/CheckCdx.v); the
   statements below are about what they emit for arbitrary documents, not only round-trippable ones. *)
From Coq Require Import Permutation.
From Verif Require Import Model.Base Model.Node Model.Graph Model.Spdx Model.Cdx Gen.Tables
  Gen.Schema Proofs.GraphFacts Proofs.SpdxFacts Proofs.CdxFacts Proofs.SpecTables.
Open Scope list_scope.

(* ---- SPDX 2.3 ---- *)
(* one package or file per node (every node exactly once: a permutation of the identifiers),
   whatever its purposes; the relationships are exactly one per edge target plus one DESCRIBES per root *)
Theorem C03_spdx_every_node_once : forall fmt_time self d md nl,
  d_metadata d = Some md -> d_node_list d = Some nl ->
  (forall n, In n (nl_nodes nl) -> n_type n = Node_NodeType_PACKAGE \/ n_type n = Node_NodeType_FILE) ->
  exists s, spdx_ser fmt_time self d = Ok s /\
    Permutation (map sp_id (sd_packages s) ++ map sf_id (sd_files s)) (ids nl) /\
    sd_rels s = flat_map edge_rels (nl_edges nl) ++ map root_rel (nl_root_elements nl).
Proof. exact spdx_complete. Qed.
Print Assumptions C03_spdx_every_node_once.

(* every typed edge target is a relationship of the output, and nothing else is but the roots *)
Theorem C03_spdx_every_relationship : forall fmt_time self d md nl s a b t,
  d_metadata d = Some md -> d_node_list d = Some nl -> spdx_ser fmt_time self d = Ok s ->
  (In {| rl_a := a; rl_b := b; rl_special := ""; rl_type := t |} (sd_rels s) <->
   (exists ty, InE (nl_edges nl) a ty b /\ t = edge_to_spdx2 ty) \/ (a = DOCUMENT /\ t = "DESCRIBES" /\ In b (nl_root_elements nl))).
Proof. exact spdx_relationships. Qed.
Print Assumptions C03_spdx_every_relationship.

(* ... and the type names are those of the SPDX 2.3 specification (written out in Proofs/SpecTables.v by the
   names of the protobuf enum values): a pair of names swapped consistently in the writer's and the reader's
   table keeps every round trip intact and is excluded here *)
Theorem C03_relationship_names_are_spdx23 : forall t s,
  In (t, s) edge_to_spdx2_tab <-> In (t, s) spdx23_relationship_names.
Proof. exact relationship_names_are_spdx23. Qed.
Print Assumptions C03_relationship_names_are_spdx23.

(* the hash algorithms both formats support are written under the formats' own names *)
Theorem C03_hash_names_are_the_formats : 
  (forall a s, In (a, s) hash_to_spdx_tab -> In (a, s) spdx23_checksum_names) /\
  (forall a s, In (a, s) spdx23_checksum_names -> In (a, s) hash_to_spdx_tab \/ (a, s) = (HashAlgorithm_MD2, "MD2")) /\
  (forall a s, In (a, s) hash_to_cdx_tab <-> In (a, s) cdx_hash_alg_names).
Proof. split; [exact (proj1 checksum_names_are_spdx23) | split; [exact (proj2 checksum_names_are_spdx23) | exact hash_names_are_cyclonedx]]. Qed.
Print Assumptions C03_hash_names_are_the_formats.

(* package identifiers are written to SPDX under the category and type of Annex F, and read back from them *)
Theorem C03_identifier_refs_are_spdx23 : forall k c t,
  In (k, (c, t)) spdx23_identifier_refs ->
  In (k, c) ident_to_spdx2_category_tab /\ In (k, t) ident_to_spdx2_type_tab /\ In (t, k) spdx_ident_type_tab.
Proof. exact identifier_refs_are_spdx23. Qed.
Print Assumptions C03_identifier_refs_are_spdx23.

(* no relationship refers to an element that was not emitted (closed documents) *)
Theorem C03_spdx_no_dangling_reference : forall fmt_time self d md nl s r,
  d_metadata d = Some md -> d_node_list d = Some nl -> spdx_ser fmt_time self d = Ok s ->
  (forall n, In n (nl_nodes nl) -> n_type n = Node_NodeType_PACKAGE \/ n_type n = Node_NodeType_FILE) ->
  closed (fun i => In i (ids nl)) (nl_edges nl) -> incl (nl_root_elements nl) (ids nl) ->
  In r (sd_rels s) ->
  (rl_a r = DOCUMENT \/ In (rl_a r) (map sp_id (sd_packages s) ++ map sf_id (sd_files s))) /\
  In (rl_b r) (map sp_id (sd_packages s) ++ map sf_id (sd_files s)).
Proof. exact spdx_no_dangling. Qed.
Print Assumptions C03_spdx_no_dangling_reference.

(* ---- CycloneDX ---- *)
(* every node other than the root is a component exactly once, whatever the shape of the graph
   (DAG, cycles, several containers) and whatever the fuel; the root is the metadata component *)
Theorem C03_cdx_every_node_exactly_once : forall d b, cdx_ser d = Ok b ->
  forall nl root, d_node_list d = Some nl -> nl_root_elements nl = [root] ->
  b_components b = map clear_auto (cdx_forest nl root) /\
  Permutation (flat_map refs (cdx_forest nl root)) (filter (fun i => negb (String.eqb i root)) (dedup (ids nl))) /\
  option_map c_ref (b_meta_comp b) = Some root.
Proof. exact cdx_every_node_once. Qed.
Print Assumptions C03_cdx_every_node_exactly_once.

(* nothing is nested that the document does not contain *)
Theorem C03_cdx_nesting_is_containment : forall d b, cdx_ser d = Ok b ->
  forall nl root p x, d_node_list d = Some nl -> nl_root_elements nl = [root] ->
  In (p, x) (flat_map pairs (cdx_forest nl root)) ->
  exists e, In e (nl_edges nl) /\ e_type e = Edge_Type_contains /\ e_from e = p /\ In x (e_to e).
Proof. exact cdx_nesting_is_containment. Qed.
Print Assumptions C03_cdx_nesting_is_containment.

(* every dependency edge is in the dependency list, and the list names only nodes of the document
   (all of which are emitted, by the theorem above) *)
Theorem C03_cdx_dependencies_complete : forall d b nl e x, cdx_ser d = Ok b -> d_node_list d = Some nl ->
  In e (nl_edges nl) -> In (e_from e) (ids nl) -> e_type e = Edge_Type_dependsOn -> In x (e_to e) ->
  exists tos, In (e_from e, tos) (b_deps b) /\ In x tos.
Proof. exact cdx_deps_complete. Qed.
Print Assumptions C03_cdx_dependencies_complete.

Theorem C03_cdx_no_dangling_reference : forall d b f tos, cdx_ser d = Ok b -> In (f, tos) (b_deps b) ->
  exists nl, d_node_list d = Some nl /\ In f (ids nl) /\ forall x, In x tos -> In x (ids nl).
Proof. exact cdx_deps_closed. Qed.
Print Assumptions C03_cdx_no_dangling_reference.

(* ---- reading back: identity attributes, for every node (no class) ---- *)
Theorem C03_spdx_identity_attributes : forall parse_time fmt_time n,
  let p := pkg_to_node parse_time (node_to_pkg fmt_time n) in
  let f := file_to_node (node_to_file n) in
  (n_id p = n_id n /\ n_name p = n_name n /\ n_version p = n_version n) /\ (n_id f = n_id n /\ n_name f = n_name n).
Proof. exact spdx_identity. Qed.
Print Assumptions C03_spdx_identity_attributes.

Theorem C03_cdx_identity_attributes : forall n cc, n_id n <> "" ->
  let n' := comp_to_node (node_to_comp n) cc in
  n_id n' = n_id n /\ n_name n' = n_name n /\ n_version n' = n_version n.
Proof. exact cdx_identity. Qed.
Print Assumptions C03_cdx_identity_attributes.

(* the hashes and package identifiers both formats support *)
Theorem C03_hashes_both_formats : forall parse_time fmt_time n cc,
  (spdx_hash_class (n_hashes n) -> n_hashes (pkg_to_node parse_time (node_to_pkg fmt_time n)) = n_hashes n) /\
  (cdx_hash_class (n_hashes n) -> n_hashes (comp_to_node (node_to_comp n) cc) = n_hashes n).
Proof. intros. split; [apply spdx_package_hashes|apply cdx_node_hashes]. Qed.
Print Assumptions C03_hashes_both_formats.

Theorem C03_identifiers_both_formats : forall parse_time fmt_time n cc,
  (Forall spdx_extref_class (n_external_references n) -> spdx_ident_class (n_identifiers n) ->
     n_identifiers (pkg_to_node parse_time (node_to_pkg fmt_time n)) = n_identifiers n) /\
  (cdx_ident_class (n_identifiers n) -> n_identifiers (comp_to_node (node_to_comp n) cc) = n_identifiers n).
Proof. intros. split; [apply spdx_package_identifiers|apply cdx_node_identifiers]. Qed.
Print Assumptions C03_identifiers_both_formats.

(* non-vacuity: a cyclic, doubly-contained graph with a dependency between non-root nodes *)
Definition nd3 (i : string) : node :=
  {| n_id := i; n_type := 0; n_name := "n"; n_version := ""; n_file_name := ""; n_url_home := "";
     n_url_download := ""; n_licenses := []; n_license_concluded := ""; n_license_comments := "";
     n_copyright := ""; n_source_info := ""; n_comment := ""; n_summary := ""; n_description := "";
     n_attribution := []; n_suppliers := []; n_originators := []; n_release_date := None;
     n_build_date := None; n_valid_until_date := None; n_external_references := [];
     n_file_types := []; n_identifiers := []; n_hashes := []; n_primary_purpose := [1; 16] |}.
Definition ex3 : document :=
  {| d_metadata := Some {| md_id := "x"; md_version := "1"; md_name := ""; md_date := None; md_tools := []; md_authors := []; md_comment := ""; md_documentTypes := [] |};
     d_node_list := Some {| nl_nodes := [nd3 "r"; nd3 "a"; nd3 "b"; nd3 "c"];
                            nl_edges := [ {| e_type := Edge_Type_contains; e_from := "a"; e_to := ["b"] |};
                                          {| e_type := Edge_Type_contains; e_from := "b"; e_to := ["a"; "c"] |};
                                          {| e_type := Edge_Type_contains; e_from := "r"; e_to := ["c"] |};
                                          {| e_type := Edge_Type_dependsOn; e_from := "b"; e_to := ["c"; "c"] |} ];
                            nl_root_elements := ["r"] |} |}.
Example C03_example :
  match cdx_ser ex3 with
  | Ok b => (flat_map refs (b_components b), flat_map pairs (b_components b), b_deps b) = (["a"; "b"; "c"], [("a", "b"); ("b", "c")], [("b", ["c"])])
  | _ => False
  end.
Proof. vm_compute. reflexivity. Qed.
