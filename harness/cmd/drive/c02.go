package main

import (
	"bytes"
	"fmt"
	"path/filepath"
	"sort"
	"strings"

	cdx "github.com/CycloneDX/cyclonedx-go"
	"github.com/protobom/protobom/pkg/formats"
	"github.com/protobom/protobom/pkg/native"
	"github.com/protobom/protobom/pkg/native/serializers"
	"github.com/protobom/protobom/pkg/native/unserializers"
	"github.com/protobom/protobom/pkg/reader"
	"github.com/protobom/protobom/pkg/sbom"
	"github.com/protobom/protobom/pkg/writer"

	"google.golang.org/protobuf/proto"

	"verifharness/coqfmt"
	"verifharness/gen"
	"verifharness/nativefmt"
	"verifharness/props"
)

// cdxSeams: the model seams on one document (Serialize; JSON layer at the given spec version;
// Unserialize on the decoded BOM).
func cdxSeams(rep *Report, cf caseAdder, d *sbom.Document, kind, version string) {
	ser := serializers.NewCDX(version, "json")
	var nat any
	var err error
	var pv any
	func() {
		defer func() { pv = recover() }()
		nat, err = ser.Serialize(d, &native.SerializeOptions{}, nil)
	}()
	in := map[string]any{"kind": kind, "document": docJSON(d), "spec_version": version}
	if pv != nil {
		rep.Fail(Failure{What: "the CycloneDX serializer panicked", Detail: fmt.Sprint(pv), Input: in})
		return
	}
	obs := "None"
	var bom *cdx.BOM
	if err == nil {
		bom = nat.(*cdx.BOM)
		obs = "(Some " + nativefmt.CBom(bom) + ")"
	}
	c := fmt.Sprintf("(CSer %s %s)", coqfmt.Document(d), obs)
	if !tooLarge(rep, c) {
		cf.Add(c)
		rep.NoteCase(c, d.NodeList != nil && len(d.NodeList.Nodes) >= 3, map[string]any{"seam": "Serialize", "kind": kind, "document": docJSON(d)})
		rep.Count("seam=A:" + kind)
	}
	if bom == nil {
		return
	}
	written := nativefmt.CBom(bom) // before Render: the encoder converts the BOM in place for older spec versions
	var buf bytes.Buffer
	if err := ser.Render(bom, &buf, &native.RenderOptions{Indent: 2}, nil); err != nil {
		rep.Count("render_error")
		return
	}
	decoded := new(cdx.BOM)
	if err := cdx.NewBOMDecoder(bytes.NewReader(buf.Bytes()), cdx.BOMFileFormatJSON).Decode(decoded); err != nil {
		rep.Fail(Failure{What: "the CycloneDX decoder rejected the CycloneDX writer's output", Detail: err.Error(), Input: in})
		return
	}
	if kind == "tree" {
		c2 := fmt.Sprintf("(CChan %s %s %s)", written, nativefmt.CBom(decoded), coqfmt.Bool(version == "1.5"))
		if !tooLarge(rep, c2) {
			cf.Add(c2)
			rep.NoteCase(c2, true, map[string]any{"seam": "JSON layer", "kind": kind, "spec_version": version, "document": docJSON(d)})
			rep.Count("seam=C:" + kind)
		}
	}
	doc2, uerr := unserializers.NewCDX(version, "json").Unserialize(bytes.NewReader(buf.Bytes()), &native.UnserializeOptions{}, nil)
	if uerr != nil || doc2 == nil {
		rep.Fail(Failure{What: "the CycloneDX parser rejected the CycloneDX writer's output", Detail: fmt.Sprint(uerr), Input: in})
		return
	}
	var dts []string
	for _, dt := range doc2.Metadata.DocumentTypes {
		t := "None"
		if dt.Type != nil {
			t = fmt.Sprintf("(Some %d)", *dt.Type)
		}
		dts = append(dts, fmt.Sprintf("(%s, %s, %s)", coqfmt.Str(dt.GetName()), coqfmt.Str(dt.GetDescription()), t))
	}
	c3 := fmt.Sprintf("(CUnser %s %s [%s])", nativefmt.CBom(decoded), coqfmt.NodeList(doc2.NodeList), strings.Join(dts, "; "))
	if !tooLarge(rep, c3) {
		cf.Add(c3)
		rep.NoteCase(c3, len(doc2.NodeList.Nodes) >= 3, map[string]any{"seam": "Unserialize", "kind": kind, "document": docJSON(d)})
		rep.Count("seam=B:" + kind)
	}
}

func init() { runners["C02"] = runC02 }

func containsTriples(nl *sbom.NodeList) map[props.Triple]bool {
	out := map[props.Triple]bool{}
	for t := range props.TripleSet(nl) {
		if t.Type == sbom.Edge_contains {
			out[t] = true
		}
	}
	return out
}

// cdxAttrDiff: the C02 statement per node; "" when it holds.
func cdxAttrDiff(a, b *sbom.Node) string {
	var diffs []string
	chk := func(name, x, y string) {
		if x != y {
			diffs = append(diffs, fmt.Sprintf("%s: wrote %q, read %q", name, x, y))
		}
	}
	if a.Type != b.Type {
		diffs = append(diffs, fmt.Sprintf("kind: wrote %v, read %v", a.Type, b.Type))
	}
	chk("name", a.Name, b.Name)
	chk("version", a.Version, b.Version)
	chk("description", a.Description, b.Description)
	chk("copyright", a.Copyright, b.Copyright)
	if a.Type != sbom.Node_FILE && len(a.PrimaryPurpose) > 0 {
		if len(b.PrimaryPurpose) != 1 || b.PrimaryPurpose[0] != a.PrimaryPurpose[0] {
			diffs = append(diffs, fmt.Sprintf("component type: wrote %v, read %v", a.PrimaryPurpose, b.PrimaryPurpose))
		}
	}
	for algo, v := range a.Hashes {
		if b.Hashes[algo] != v {
			diffs = append(diffs, fmt.Sprintf("hash %d: wrote %q, read %q", algo, v, b.Hashes[algo]))
		}
	}
	if len(b.Hashes) != len(a.Hashes) {
		diffs = append(diffs, "hash count differs")
	}
	for _, k := range []int32{1, 3} {
		if a.Identifiers[k] != b.Identifiers[k] {
			diffs = append(diffs, fmt.Sprintf("identifier %d: wrote %q, read %q", k, a.Identifiers[k], b.Identifiers[k]))
		}
	}
	if strings.Join(a.Licenses, "|") != strings.Join(b.Licenses, "|") {
		diffs = append(diffs, fmt.Sprintf("licences: wrote %v, read %v", a.Licenses, b.Licenses))
	}
	ref := func(e *sbom.ExternalReference) string {
		var hs []string
		for k, v := range e.Hashes {
			hs = append(hs, fmt.Sprintf("%d=%s", k, v))
		}
		sort.Strings(hs)
		return fmt.Sprintf("%d|%s|%s|%s", e.Type, e.Url, e.Comment, strings.Join(hs, ","))
	}
	var wr, rd []string
	for _, e := range a.ExternalReferences {
		wr = append(wr, ref(e))
	}
	for _, e := range b.ExternalReferences {
		rd = append(rd, ref(e))
	}
	sort.Strings(wr)
	sort.Strings(rd)
	if strings.Join(wr, "\n") != strings.Join(rd, "\n") {
		diffs = append(diffs, fmt.Sprintf("external references: wrote %v, read %v", wr, rd))
	}
	return strings.Join(diffs, "; ")
}

func runC02(seed int64, n int, dir string, tier string) *Report {
	g := gen.New(seed)
	rep := NewReport("C02", seed)
	rep.Rule = "n single-rooted containment trees (1..9 nodes, random depth and fan-out, a parent's children spread over several contains edges, every permutation class of the stored edge list by random shuffling, node list in random order), CycloneDX-expressible attributes, times CycloneDX 1.4 and 1.5; written with the real writer, read with the real reader (auto-detection); node set, containment triples, per-node attributes, serial number, version, lifecycles (1.5), second pass; non-trivial = depth >= 3; distinct by hash"
	cf := &CasesFile{Imports: "Model.Base Model.Graph Model.Cdx Corr.CheckCdx", Type: "case_cdx", Eval: "mismatches"}
	for i := 0; i < n; i++ {
		d := g.CDXTreeDocument(9)
		cdxSeams(rep, cf, d, "tree", gen.Pick(g, []string{"1.4", "1.5"}))
		if i%3 == 0 {
			// beyond the class: arbitrary single-rooted graphs (DAGs, cycles, dependsOn, other edge types)
			w := g.CDXTreeDocument(7)
			ids := props.Keys(props.NodeSet(w.NodeList))
			for k := g.Int(5); k > 0; k-- {
				w.NodeList.Edges = append(w.NodeList.Edges, &sbom.Edge{Type: gen.Pick(g, []sbom.Edge_Type{sbom.Edge_contains, sbom.Edge_dependsOn, sbom.Edge_dependsOn, sbom.Edge_other}), From: gen.Pick(g, ids), To: []string{gen.Pick(g, ids), gen.Pick(g, ids)}})
			}
			cdxSeams(rep, cf, w, "single-rooted-graph", "1.5")
		}
		for _, f := range []formats.Format{formats.CDX14JSON, formats.CDX15JSON} {
			rep.OracleEvals++
			in := map[string]any{"format": string(f), "document": docJSON(d)}
			var buf bytes.Buffer
			if err := writer.New(writer.WithFormat(f)).WriteStream(d, nopCloser{&buf}); err != nil {
				rep.Fail(Failure{What: "the CycloneDX writer failed on a single-rooted containment tree", Detail: err.Error(), Input: in})
				continue
			}
			d2, err := reader.New().ParseStream(bytes.NewReader(buf.Bytes()))
			if err != nil {
				rep.Fail(Failure{What: "the reader failed on the CycloneDX writer's output", Detail: err.Error(), Input: in})
				continue
			}
			a, b := d.NodeList, d2.NodeList
			rep.NoteInput(fmt.Sprint(i, f, len(a.Nodes)), len(a.Edges) >= 2, map[string]any{"nodes": len(a.Nodes), "edges": len(a.Edges), "format": string(f)})
			if !props.SameStrSet(props.NodeSet(a), props.NodeSet(b)) {
				rep.Fail(Failure{What: "CycloneDX round trip changed the set of nodes", Detail: fmt.Sprintf("wrote %v read %v", props.Keys(props.NodeSet(a)), props.Keys(props.NodeSet(b))), Input: in})
				continue
			}
			if !props.SameTripleSet(containsTriples(a), containsTriples(b)) {
				rep.Fail(Failure{What: "CycloneDX round trip changed the containment tree", Detail: fmt.Sprintf("wrote %d contains triples, read %d", len(containsTriples(a)), len(containsTriples(b))), Input: in})
			}
			if len(b.RootElements) != 1 || b.RootElements[0] != a.RootElements[0] {
				rep.Fail(Failure{What: "CycloneDX round trip changed the root element", Detail: fmt.Sprint(b.RootElements), Input: in})
			}
			mb := byID(b)
			for _, na := range a.Nodes {
				if diff := cdxAttrDiff(na, mb[na.Id]); diff != "" {
					f := Failure{What: "CycloneDX round trip changed a CycloneDX-expressible attribute", Detail: "node " + na.Id + ": " + diff, Input: in}
					// K13: only the licence list differs, and what came back is exactly its first entry
					if nb := mb[na.Id]; len(na.Licenses) >= 2 && len(nb.Licenses) == 1 && nb.Licenses[0] == na.Licenses[0] {
						cp := proto.Clone(na).(*sbom.Node)
						cp.Licenses = nb.Licenses
						if cdxAttrDiff(cp, nb) == "" {
							f.Finder = "cdx_later_licences_dropped"
							rep.Fail(f)
							continue
						}
					}
					rep.Fail(f)
					break
				}
			}
			if d2.Metadata.Id != d.Metadata.Id || d2.Metadata.Version != d.Metadata.Version {
				rep.Fail(Failure{What: "CycloneDX round trip changed the serial number or the document version", Detail: fmt.Sprintf("%q %q", d2.Metadata.Id, d2.Metadata.Version), Input: in})
			}
			if f == formats.CDX15JSON {
				var w1, r1 []string
				// a typed entry by its type; a custom one by "no type" plus name and description
				lc := func(dt *sbom.DocumentType) string {
					if dt.Type == nil {
						return fmt.Sprintf("custom(%q,%q)", dt.GetName(), dt.GetDescription())
					}
					return fmt.Sprint(dt.GetType())
				}
				for _, dt := range d.Metadata.DocumentTypes {
					w1 = append(w1, lc(dt))
				}
				for _, dt := range d2.Metadata.DocumentTypes {
					r1 = append(r1, lc(dt))
				}
				if strings.Join(w1, ",") != strings.Join(r1, ",") {
					rep.Fail(Failure{What: "CycloneDX 1.5 round trip changed the lifecycle types", Detail: fmt.Sprintf("wrote %v read %v", w1, r1), Input: in})
				}
			}
			// second pass
			var buf2 bytes.Buffer
			if err := writer.New(writer.WithFormat(f)).WriteStream(d2, nopCloser{&buf2}); err != nil {
				rep.Fail(Failure{What: "second CycloneDX pass: writer failed", Detail: err.Error(), Input: in})
				continue
			}
			d3, err := reader.New().ParseStream(bytes.NewReader(buf2.Bytes()))
			if err != nil {
				rep.Fail(Failure{What: "second CycloneDX pass: reader failed", Detail: err.Error(), Input: in})
				continue
			}
			if f == formats.CDX15JSON {
				var l2, l3 []string
				for _, dt := range d2.Metadata.DocumentTypes {
					l2 = append(l2, fmt.Sprintf("%v|%q|%q|%v", dt.Type == nil, dt.GetName(), dt.GetDescription(), dt.GetType()))
				}
				for _, dt := range d3.Metadata.DocumentTypes {
					l3 = append(l3, fmt.Sprintf("%v|%q|%q|%v", dt.Type == nil, dt.GetName(), dt.GetDescription(), dt.GetType()))
				}
				if strings.Join(l2, ",") != strings.Join(l3, ",") || d3.Metadata.Id != d2.Metadata.Id || d3.Metadata.Version != d2.Metadata.Version {
					rep.Fail(Failure{What: "a second CycloneDX write-then-read pass changed the lifecycle entries, the serial number or the version", Detail: fmt.Sprintf("after one pass %v, after two %v", l2, l3), Input: in})
				}
			}
			if !sameNodeListCanon(d2.NodeList, d3.NodeList) {
				f := Failure{What: "a second CycloneDX write-then-read pass changed the document further", Input: in}
				// K13 again: the concluded licence of a node that lost licences in the first pass is
				// recomputed from the one licence that is left
				x2, x3 := proto.Clone(d2.NodeList).(*sbom.NodeList), proto.Clone(d3.NodeList).(*sbom.NodeList)
				multi := map[string]bool{}
				for _, nd := range d.NodeList.Nodes {
					multi[nd.Id] = len(nd.Licenses) >= 2
				}
				for _, l := range []*sbom.NodeList{x2, x3} {
					for _, nd := range l.Nodes {
						if multi[nd.Id] {
							nd.LicenseConcluded = ""
						}
					}
				}
				if sameNodeListCanon(x2, x3) {
					f.Finder = "cdx_later_licences_dropped"
				}
				rep.Fail(f)
			}
		}
	}
	rep.CasesFiles = cf.Write(filepath.Join(dir, "cases_C02"))
	rep.ShardSize = shardSize
	return rep
}
