(* C04 — Parsers are total on untrusted input.  Statements only; proofs in Proofs/CdxFacts.v,
   Proofs/SniffFacts.v and below.  PARTIAL by construction: what is proved is the protobom part of
   the pipeline — format detection on the decoded declaration, the dispatch, and the conversion of
   whatever the third-party decoders return (for every value of the decoded structures, including
   absent metadata, licence entries without a licence object, empty and repeated references).  The
   decoders themselves (encoding/json, tools-golang, cyclonedx-go) are a parameter here; their
   totality, the nil entries they can produce inside lists, and running time are exercised by the
   harness (every single schema fault at every JSON path, arbitrary bytes, a watchdog), not proved. *)
From Coq Require Import Lia.
From Verif Require Import Model.Base Model.Node Model.Graph Model.Match Model.Sniff Model.Spdx Model.Cdx Gen.Tables
  Proofs.GraphFacts Proofs.SniffFacts Proofs.SpdxFacts Proofs.CdxFacts.
Open Scope list_scope.

Inductive decoded := DecSpdx (s : sdoc) | DecCdx (b : cbom) | DecFail.

Section Pipeline.
  Variable parse_time : string -> option ts.
  (* the third-party decoder for a detected format, on the bytes at hand *)
  Variable decode : string -> decoded.

  (* reader.ParseStream: detect, dispatch, convert *)
  Definition parse (d : option decl) (lines : list string) : result nodelist :=
    match sniff d lines with
    | Ok f => match decode f with
              | DecSpdx s => Ok (spdx_unser_nl parse_time s)
              | DecCdx b => Ok (cdx_unser_nl b)
              | DecFail => Err
              end
    | Err => Err
    | Panic => Panic
    | Fatal => Fatal
    end.

  (* a document (whose node list is present) or an error; never a panic, never both, never neither *)
  Theorem C04_document_or_error : forall d lines,
    parse d lines = Err \/ exists nl, parse d lines = Ok nl.
  Proof.
    intros d lines. unfold parse. destruct (sniff_total d lines) as [[f E]|E]; rewrite E; [|left; reflexivity].
    destruct (decode f); [right; eexists; reflexivity|right; eexists; reflexivity|left; reflexivity].
  Qed.

  (* what a CycloneDX parse returns is a closed graph, whatever was decoded *)
  Theorem C04_cdx_result_well_formed : forall d lines f b,
    sniff d lines = Ok f -> decode f = DecCdx b -> exists nl, parse d lines = Ok nl /\ wf nl.
  Proof.
    intros d lines f b E1 E2. unfold parse. rewrite E1, E2. eexists. split; [reflexivity|apply cdx_unser_wf].
  Qed.
End Pipeline.
Print Assumptions C04_document_or_error.
Print Assumptions C04_cdx_result_well_formed.

(* the conversion does not blow its input up: no more nodes than components / elements, no more
   edges and roots than relationships *)
Theorem C04_cdx_output_bounded : forall b, (length (nl_nodes (cdx_unser_nl b)) <= bsize b)%nat.
Proof. exact cdx_unser_size. Qed.
Print Assumptions C04_cdx_output_bounded.

Theorem C04_spdx_output_bounded : forall parse_time s,
  let nl := spdx_unser_nl parse_time s in
  length (nl_nodes nl) = (length (sd_packages s) + length (sd_files s))%nat /\
  (length (nl_edges nl) + length (nl_root_elements nl) = length (sd_rels s))%nat.
Proof.
  intros parse_time s. cbn [spdx_unser_nl nl_nodes nl_edges nl_root_elements]. rewrite app_length, !map_length.
  split; [reflexivity|].
  induction (sd_rels s) as [|r rest IH]; [reflexivity|]. cbn [filter]. destruct (is_describes r); cbn [negb length]; lia.
Qed.
Print Assumptions C04_spdx_output_bounded.

(* licence entries without a licence object, with an empty one, or with neither are skipped *)
Theorem C04_licence_entries_without_object : forall ls,
  lic_list (ls ++ [ {| cl_expression := ""; cl_has_license := false; cl_id := "whatever" |} ]) = lic_list ls /\
  lic_string ({| cl_expression := ""; cl_has_license := false; cl_id := "whatever" |} :: ls) = lic_string ls.
Proof.
  intros ls. split.
  - unfold lic_list. rewrite filter_app. cbn [filter cl_expression cl_has_license String.eqb negb andb orb]. rewrite app_nil_r. reflexivity.
  - reflexivity.
Qed.
Print Assumptions C04_licence_entries_without_object.

Example C04_example :
  let b := {| b_serial := ""; b_version := 0; b_has_metadata := false; b_meta_comp := None; b_lifecycles := [];
              b_components := [ {| c_ref := ""; c_type := ""; c_name := ""; c_version := ""; c_description := ""; c_copyright := "";
                                  c_licenses := [ {| cl_expression := ""; cl_has_license := false; cl_id := "" |} ];
                                  c_hashes := [("nonsense", "x")]; c_xrefs := []; c_purl := ""; c_cpe := ""; c_supplier := None; c_sub := [] |} ];
              b_deps := [("nowhere", ["nothing"])] |} in
  ids (cdx_unser_nl b) = ["protobom-auto--000000001"] /\ nl_root_elements (cdx_unser_nl b) = ["protobom-auto--000000001"].
Proof. vm_compute. split; reflexivity. Qed.
