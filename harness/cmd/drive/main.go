// Command drive runs the real protobom implementation on generated inputs and
// writes (a) a Coq file with the observed cases for the correspondence evaluator and
// (b) a JSON report with the input distribution, samples, per-case replay data and
// the verdicts of the direct property oracles.
//
//	drive <property> -seed N -n N -out DIR [-mode corr|oracle|both]
package main

import (
	"crypto/sha256"
	"encoding/hex"
	"encoding/json"
	"flag"
	"fmt"
	"io"
	"os"
	"path/filepath"
	"sort"
	"strings"

	"github.com/sirupsen/logrus"
)

type Failure struct {
	What   string `json:"what"`             // which clause of the property failed
	Detail string `json:"detail"`           // observed vs expected
	Finder string `json:"finder,omitempty"` // name of a known-finding matcher that recognises this input, if any
	Input  any    `json:"input"`            // replayable description of the failing input
}

type Report struct {
	Property     string         `json:"property"`
	Seed         int64          `json:"seed"`
	Cases        int            `json:"cases"`
	Distinct     int            `json:"distinct_nontrivial"`
	Rule         string         `json:"rule"`
	Distribution map[string]int `json:"distribution"`
	Samples      []any          `json:"samples"`
	OracleEvals  int            `json:"oracle_evaluations"`
	OracleFails  []Failure      `json:"oracle_failures"`
	CaseInputs   []any          `json:"case_inputs"` // index-aligned with the Coq cases
	CasesFiles   []string       `json:"cases_files"`
	ShardSize    int            `json:"shard_size"`
	Notes        []string       `json:"notes,omitempty"`

	seen map[string]bool
}

func NewReport(prop string, seed int64) *Report {
	return &Report{Property: prop, Seed: seed, Distribution: map[string]int{}, seen: map[string]bool{}, OracleFails: []Failure{}, Samples: []any{}, CaseInputs: []any{}}
}

func (r *Report) Count(key string) { r.Distribution[key]++ }

// NoteCase records one case: its Coq text (for distinctness), whether it is non-trivial, and
// the replayable description.
func (r *Report) NoteCase(coq string, nontrivial bool, input any) {
	r.Cases++
	h := sha256.Sum256([]byte(coq))
	k := hex.EncodeToString(h[:8])
	if nontrivial && !r.seen[k] {
		r.seen[k] = true
		r.Distinct++
	}
	r.CaseInputs = append(r.CaseInputs, input)
	if len(r.Samples) < 3 && nontrivial {
		r.Samples = append(r.Samples, input)
	}
}

// NoteInput records an input the oracle was evaluated on but for which no correspondence case was
// written: it counts, but takes no slot in the case-indexed list of inputs (entry i of that list must
// describe case i of the cases files, so that a mismatch is reported with the right input).
func (r *Report) NoteInput(key string, nontrivial bool, input any) {
	r.Cases++
	h := sha256.Sum256([]byte(key))
	k := hex.EncodeToString(h[:8])
	if nontrivial && !r.seen[k] {
		r.seen[k] = true
		r.Distinct++
	}
	if len(r.Samples) < 3 && nontrivial {
		r.Samples = append(r.Samples, input)
	}
}

func (r *Report) Fail(f Failure) {
	if len(r.OracleFails) < 200 {
		r.OracleFails = append(r.OracleFails, f)
	}
}

func (r *Report) Write(dir string) {
	b, err := json.MarshalIndent(r, "", " ")
	if err != nil {
		die("%v", err)
	}
	if err := os.WriteFile(filepath.Join(dir, "report_"+r.Property+".json"), b, 0o644); err != nil {
		die("%v", err)
	}
}

// CasesFile accumulates Coq terms and writes them chunked.
type CasesFile struct {
	Imports string // e.g. "Model.Base Model.Graph Corr.CheckC08"
	Type    string // Coq type of one case
	Eval    string // function applied to the whole list, result printed as M
	Items   []string
}

func (c *CasesFile) Add(s string) { c.Items = append(c.Items, s) }

// caseAdder receives correspondence cases; wrapAdder wraps each in a constructor of a sum type.
type caseAdder interface{ Add(string) }
type wrapAdder struct {
	cf   *CasesFile
	ctor string
}

func (w wrapAdder) Add(s string) { w.cf.Add("(" + w.ctor + " " + s + ")") }

// tooLarge: a case the evaluator should not be given (documents parsed from the larger real SBOMs
// print to megabytes); the oracle still runs on it.
func tooLarge(rep *Report, c string) bool {
	if len(c) > 250000 {
		rep.Count("seam_skipped:case-over-250kB")
		return true
	}
	return false
}

const xlateImports = "Model.Base Model.Graph Model.Spdx Model.Cdx Corr.CheckSpdx Corr.CheckCdx Corr.CheckXlate"

func newXlateCases() (*CasesFile, caseAdder, caseAdder) {
	cf := &CasesFile{Imports: xlateImports, Type: "case_x", Eval: "mismatches"}
	return cf, wrapAdder{cf, "XS"}, wrapAdder{cf, "XC"}
}

// Write writes the cases as shards of at most shardSize cases: <base>_<k>.v. It returns
// the shard paths; case i of shard k is global case k*shardSize+i.
const shardSize = 120

var writtenCases int

func (c *CasesFile) Write(base string) []string {
	writtenCases += len(c.Items)
	var paths []string
	n := len(c.Items)
	for k := 0; k == 0 || k*shardSize < n; k++ {
		lo, hi := k*shardSize, (k+1)*shardSize
		if hi > n {
			hi = n
		}
		path := fmt.Sprintf("%s_%d.v", base, k)
		c.writeShard(path, c.Items[lo:hi])
		paths = append(paths, path)
	}
	return paths
}

func (c *CasesFile) writeShard(path string, items []string) {
	var b strings.Builder
	fmt.Fprintf(&b, "(* written by /verif/harness/cmd/drive; not committed *)\nFrom Verif Require Import %s.\nOpen Scope string_scope.\nOpen Scope Z_scope.\nOpen Scope list_scope.\n\n", c.Imports)
	// chunks of at most 30 cases and about 200 kB: coqc's parser overflows its stack on very large terms
	var names []string
	for i := 0; i < len(items); {
		j, size := i, 0
		for j < len(items) && j-i < 30 && (j == i || size+len(items[j]) < 200000) {
			size += len(items[j])
			j++
		}
		name := fmt.Sprintf("chunk%d", len(names))
		names = append(names, name)
		fmt.Fprintf(&b, "Definition %s : list (%s) := [\n  %s\n].\n\n", name, c.Type, strings.Join(items[i:j], ";\n  "))
		i = j
	}
	if len(names) == 0 {
		fmt.Fprintf(&b, "Definition cases : list (%s) := [].\n", c.Type)
	} else {
		fmt.Fprintf(&b, "Definition cases : list (%s) := %s.\n", c.Type, strings.Join(names, " ++ "))
	}
	fmt.Fprintf(&b, "Definition M := Eval vm_compute in (%s cases).\nPrint M.\n", c.Eval)
	if err := os.WriteFile(path, []byte(b.String()), 0o644); err != nil {
		die("%v", err)
	}
}

func die(f string, a ...any) {
	fmt.Fprintf(os.Stderr, "drive: "+f+"\n", a...)
	os.Exit(2)
}

type runner func(seed int64, n int, dir string, tier string) *Report

var runners = map[string]runner{}

func main() {
	logrus.SetOutput(io.Discard)
	if len(os.Args) < 2 {
		var ks []string
		for k := range runners {
			ks = append(ks, k)
		}
		sort.Strings(ks)
		die("usage: drive <property> -seed N -n N -out DIR   (properties: %s)", strings.Join(ks, " "))
	}
	prop := os.Args[1]
	fs := flag.NewFlagSet("drive", flag.ExitOnError)
	seed := fs.Int64("seed", 1, "PRNG seed")
	n := fs.Int("n", 100, "number of histories / inputs")
	out := fs.String("out", "", "output directory")
	tier := fs.String("tier", "quick", "quick|thorough")
	_ = fs.Parse(os.Args[2:])
	if *out == "" {
		die("-out required")
	}
	run, ok := runners[prop]
	if !ok {
		die("unknown property %s", prop)
	}
	if err := os.MkdirAll(*out, 0o755); err != nil {
		die("%v", err)
	}
	rep := run(*seed, *n, *out, *tier)
	if writtenCases != len(rep.CaseInputs) {
		// entry i of case_inputs must describe case i: a mismatch would be reported with the wrong input
		fmt.Fprintf(os.Stderr, "drive: %s: %d cases written but %d case inputs recorded\n", prop, writtenCases, len(rep.CaseInputs))
		os.Exit(3)
	}
	rep.Write(*out)
}
