package main

import (
	"errors"
	"fmt"
	"path/filepath"
	"strings"

	"github.com/protobom/protobom/pkg/sbom"
	"google.golang.org/protobuf/encoding/protojson"
	"google.golang.org/protobuf/proto"

	"verifharness/coqfmt"
	"verifharness/gen"
	"verifharness/graphops"
)

func init() { runners["C16"] = runC16 }

func nodeJSON(n *sbom.Node) any {
	if n == nil {
		return nil
	}
	b, err := protojson.Marshal(n)
	if err != nil {
		return map[string]any{"unprintable_as_json": err.Error(), "coq": coqfmt.Node(n)}
	}
	return rawJSON(b)
}

type rawJSON []byte

func (j rawJSON) MarshalJSON() ([]byte, error) { return j, nil }

func coqNodes(ns []*sbom.Node) string { return coqfmt.List(ns, coqfmt.Node) }

func coqOptNode(n *sbom.Node) string {
	if n == nil {
		return "None"
	}
	return "(Some " + coqfmt.Node(n) + ")"
}

func inList(nl *sbom.NodeList, n *sbom.Node) bool {
	for _, m := range nl.Nodes {
		if m == n {
			return true
		}
	}
	return false
}

func specPurl(n *sbom.Node) string {
	if n.Type == sbom.Node_FILE {
		return ""
	}
	return n.Identifiers[int32(sbom.SoftwareIdentifierType_PURL)]
}

// the documented matching rule, written independently of the implementation
func specHashMatch(n, probe *sbom.Node) bool {
	nonEmptyAgreement := false
	for algo, pv := range probe.Hashes {
		nv, ok := n.Hashes[algo]
		if !ok {
			continue
		}
		if nv != pv {
			return false
		}
		if pv != "" {
			nonEmptyAgreement = true
		}
	}
	return nonEmptyAgreement
}

// returns (node, ambiguous)
func specMatch(nl *sbom.NodeList, probe *sbom.Node) (*sbom.Node, bool) {
	var H []*sbom.Node
	for _, n := range nl.Nodes {
		if specHashMatch(n, probe) {
			H = append(H, n)
		}
	}
	tp := specPurl(probe)
	switch {
	case len(H) == 1:
		return H[0], false
	case len(H) == 0:
		if tp == "" {
			return nil, false
		}
		var P []*sbom.Node
		for _, n := range nl.Nodes {
			if specPurl(n) == tp {
				P = append(P, n)
			}
		}
		if len(P) == 1 {
			return P[0], false
		}
		return nil, len(P) > 1
	default:
		if tp == "" {
			return nil, true
		}
		var P []*sbom.Node
		for _, n := range H {
			if specPurl(n) == tp {
				P = append(P, n)
			}
		}
		if len(P) == 1 {
			return P[0], false
		}
		return nil, true
	}
}

func specIdentType(t string) int32 {
	switch t {
	case "purl":
		return 1
	case "cpe22Type":
		return 2
	case "cpe23Type":
		return 3
	case "gitoid":
		return 4
	}
	switch strings.TrimSpace(strings.ToLower(t)) {
	case "cpe22", "cpe2.2":
		return 2
	case "cpe23", "cpe2.3":
		return 3
	}
	return 0
}

var hashVals = []string{"aa", "bb", ""}

func (r *Report) c16Probe(g *gen.G, nl *sbom.NodeList) *sbom.Node {
	p := &sbom.Node{Id: "probe"}
	if len(nl.Nodes) > 0 && g.Chance(0.7) {
		// derive the probe from a node of the list, then perturb
		src := gen.Pick(g, nl.Nodes)
		p = proto.Clone(src).(*sbom.Node)
		p.Id = "probe"
	}
	if g.Chance(0.5) {
		if p.Hashes == nil {
			p.Hashes = map[int32]string{}
		}
		p.Hashes[int32(1+g.Int(2))] = gen.Pick(g, []string{"aa", "aa", "bb", ""})
	}
	if g.Chance(0.2) {
		p.Hashes = nil
	}
	if g.Chance(0.3) {
		if p.Identifiers == nil {
			p.Identifiers = map[int32]string{}
		}
		p.Identifiers[1] = gen.Pick(g, []string{"pkg:npm/foo@1.0", "pkg:npm/bar@2.0", ""})
	}
	if g.Chance(0.15) {
		p.Type = sbom.Node_FILE
	}
	return p
}

func c16List(g *gen.G, unique bool) *sbom.NodeList {
	nl := &sbom.NodeList{}
	n := g.Int(6)
	ids := []string{"a", "b", "c", "d", "e", "f"}
	g.R.Shuffle(len(ids), func(i, j int) { ids[i], ids[j] = ids[j], ids[i] })
	for i := 0; i < n; i++ {
		id := ids[i]
		if !unique && g.Chance(0.4) {
			id = ids[0]
		}
		nd := &sbom.Node{Id: id, Name: gen.Pick(g, []string{"x", "y", "", "x"})}
		if g.Chance(0.25) {
			nd.Type = sbom.Node_FILE
		}
		if g.Chance(0.7) {
			nd.Hashes = map[int32]string{}
			k := 1 + g.Int(2)
			for j := 0; j < k; j++ {
				nd.Hashes[int32(1+g.Int(2))] = gen.Pick(g, []string{"aa", "aa", "aa", "bb", ""})
			}
		}
		if g.Chance(0.6) {
			nd.Identifiers = map[int32]string{}
			if g.Chance(0.8) {
				nd.Identifiers[1] = gen.Pick(g, []string{"pkg:npm/foo@1.0", "pkg:npm/foo@1.0", "pkg:npm/bar@2.0", "pkg:/npm/odd@1", "pkg:golang/x@1", ""})
			}
			if g.Chance(0.4) {
				nd.Identifiers[int32(2+g.Int(3))] = gen.Pick(g, []string{"v1", "v2"})
			}
			if g.Chance(0.1) {
				nd.Identifiers[0] = "v1"
			}
		}
		nl.Nodes = append(nl.Nodes, nd)
		if g.Chance(0.4) {
			nl.RootElements = append(nl.RootElements, id)
		}
		if i > 0 && g.Chance(0.5) {
			nl.Edges = append(nl.Edges, &sbom.Edge{Type: sbom.Edge_contains, From: nl.Nodes[g.Int(i)].Id, To: []string{id}})
		}
	}
	if g.Chance(0.2) {
		nl.RootElements = append(nl.RootElements, "ghost")
	}
	return nl
}

func runC16(seed int64, n int, dir string, tier string) *Report {
	g := gen.New(seed)
	rep := NewReport("C16", seed)
	rep.Rule = "n random node lists (<=5 nodes; hashes over 4 algorithms with values aa/bb/empty; purls shared, distinct, empty, on FILE nodes; one in five lists has repeated node identifiers) x {by id, by name, by identifier type/value (all accepted spellings), root nodes, purl type, 3 matching probes derived from list nodes and perturbed}; every matching probe is evaluated 20 times and on a shuffled list; non-trivial = the list has >=2 nodes; distinct by hash"
	cf := &CasesFile{Imports: "Model.Base Model.Graph Model.Match Corr.CheckC16", Type: "case16", Eval: "mismatches"}
	add := func(nl *sbom.NodeList, q, a string, in map[string]any) {
		c := fmt.Sprintf("(mk_case16 %s %s %s)", coqfmt.NodeList(nl), q, a)
		cf.Add(c)
		in["list"] = graphops.PJ(nl)
		rep.NoteCase(c, len(nl.Nodes) >= 2, in)
	}
	identSpellings := []string{"purl", "cpe22Type", "cpe23Type", "gitoid", "cpe22", "CPE23", " cpe2.3 ", "cpe2.2", "PURL", "Gitoid", "nonsense", ""}
	for i := 0; i < n; i++ {
		unique := i%5 != 4
		nl := c16List(g, unique)
		rep.Count(fmt.Sprintf("unique_ids=%v", unique))
		rep.Count(fmt.Sprintf("nodes=%d", len(nl.Nodes)))

		// by id
		id := gen.Pick(g, []string{"a", "b", "c", "zz"})
		got := nl.GetNodeByID(id)
		add(nl, "(QById "+coqfmt.Str(id)+")", "(ANode "+coqOptNode(got)+")", map[string]any{"query": "GetNodeByID", "id": id})
		rep.OracleEvals++
		exists := false
		for _, m := range nl.Nodes {
			if m.Id == id {
				exists = true
			}
		}
		if (got != nil) != exists || (got != nil && (got.Id != id || !inList(nl, got))) {
			rep.Fail(Failure{What: "GetNodeByID does not return a node with that identifier exactly when one exists", Input: map[string]any{"list": graphops.PJ(nl), "id": id}})
		}
		// by name
		nm := gen.Pick(g, []string{"x", "y", ""})
		gotN := nl.GetNodesByName(nm)
		add(nl, "(QByName "+coqfmt.Str(nm)+")", "(ANodes "+coqNodes(gotN)+")", map[string]any{"query": "GetNodesByName", "name": nm})
		rep.OracleEvals++
		checkFilter(rep, nl, gotN, func(m *sbom.Node) bool { return m.Name == nm }, "GetNodesByName", map[string]any{"name": nm})
		// by identifier
		t := gen.Pick(g, identSpellings)
		v := gen.Pick(g, []string{"v1", "v2", "pkg:npm/foo@1.0", ""})
		gotI := nl.GetNodesByIdentifier(t, v)
		add(nl, fmt.Sprintf("(QByIdent %s %s)", coqfmt.Str(t), coqfmt.Str(v)), "(ANodes "+coqNodes(gotI)+")", map[string]any{"query": "GetNodesByIdentifier", "type": t, "value": v})
		rep.OracleEvals++
		ty := specIdentType(t)
		checkFilter(rep, nl, gotI, func(m *sbom.Node) bool { x, ok := m.Identifiers[ty]; return ok && x == v }, "GetNodesByIdentifier", map[string]any{"type": t, "value": v})
		// roots
		gotR := nl.GetRootNodes()
		add(nl, "QRoots", "(ANodes "+coqNodes(gotR)+")", map[string]any{"query": "GetRootNodes"})
		if unique {
			rep.OracleEvals++
			roots := map[string]bool{}
			for _, r := range nl.RootElements {
				roots[r] = true
			}
			checkFilter(rep, nl, gotR, func(m *sbom.Node) bool { return roots[m.Id] }, "GetRootNodes", map[string]any{})
		}
		// roots again, on a copy whose root entries are reversed and whose first entry is repeated: root
		// membership is a set criterion, so every root node is returned once, in list order (no PRNG draws here)
		if len(nl.RootElements) > 0 {
			nr := clone(nl)
			rs := append([]string{}, nl.RootElements...)
			for a, b := 0, len(rs)-1; a < b; a, b = a+1, b-1 {
				rs[a], rs[b] = rs[b], rs[a]
			}
			nr.RootElements = append(rs, rs[0], nl.RootElements[0])
			gotRR := nr.GetRootNodes()
			add(nr, "QRoots", "(ANodes "+coqNodes(gotRR)+")", map[string]any{"query": "GetRootNodes", "roots": "reversed, repeated"})
			if unique {
				rep.OracleEvals++
				roots := map[string]bool{}
				for _, r := range nr.RootElements {
					roots[r] = true
				}
				checkFilter(rep, nr, gotRR, func(m *sbom.Node) bool { return roots[m.Id] }, "GetRootNodes", map[string]any{"roots": "reversed, repeated"})
			}
		}
		// purl type
		pt := gen.Pick(g, []string{"npm", "golang", "none", "go", "git", "gen", "n", "", "github", "generic"})
		gotP := clone(nl).GetNodesByPurlType(pt)
		add(nl, "(QPurlType "+coqfmt.Str(pt)+")", "(AList "+coqfmt.NodeList(gotP)+")", map[string]any{"query": "GetNodesByPurlType", "purl_type": pt})
		rep.OracleEvals++
		checkFilter(rep, nl, gotP.Nodes, func(m *sbom.Node) bool {
			p := specPurl(m)
			return strings.HasPrefix(p, "pkg:"+pt+"/") || strings.HasPrefix(p, "pkg:/"+pt+"/")
		}, "GetNodesByPurlType", map[string]any{"purl_type": pt})

		// matching
		for k := 0; k < 3; k++ {
			probe := rep.c16Probe(g, nl)
			in := map[string]any{"query": "GetMatchingNode", "probe": nodeJSON(probe)}
			gotM, err := nl.GetMatchingNode(probe)
			amb := errors.Is(err, sbom.ErrorMoreThanOneMatch)
			if err != nil && !amb {
				rep.Fail(Failure{What: "GetMatchingNode returned an undocumented error", Detail: err.Error(), Input: in})
			}
			errz := 0
			if amb {
				errz = 1
			}
			if unique {
				add(nl, "(QMatch "+coqfmt.Node(probe)+")", fmt.Sprintf("(AMatch %d %s)", errz, coqOptNode(gotM)), in)
			}
			rep.OracleEvals++
			in2 := map[string]any{"list": graphops.PJ(nl), "probe": nodeJSON(probe)}
			finder := ""
			if !unique {
				finder = "matching_duplicate_ids"
			}
			if gotM != nil && !inList(nl, gotM) {
				rep.Fail(Failure{What: "GetMatchingNode returned a node that is not an element of the list", Input: in2})
			}
			wantN, wantAmb := specMatch(nl, probe)
			if unique && (wantN != gotM || wantAmb != amb) {
				rep.Fail(Failure{What: "GetMatchingNode does not follow the documented matching rule", Detail: fmt.Sprintf("got (%v, ambiguous=%v) want (%v, ambiguous=%v)", idOf(gotM), amb, idOf(wantN), wantAmb), Input: in2})
			}
			// independence of map iteration order (20 runs) and of node order (shuffled copies)
			for rpt := 0; rpt < 20; rpt++ {
				m2, err2 := nl.GetMatchingNode(probe)
				if m2 != gotM || (err2 != nil) != (err != nil) {
					rep.Fail(Failure{What: "GetMatchingNode is not deterministic (map iteration order)", Input: in2, Finder: finder})
					break
				}
			}
			for rpt := 0; rpt < 3; rpt++ {
				sh := &sbom.NodeList{Nodes: append([]*sbom.Node{}, nl.Nodes...), Edges: nl.Edges, RootElements: nl.RootElements}
				g.R.Shuffle(len(sh.Nodes), func(a, b int) { sh.Nodes[a], sh.Nodes[b] = sh.Nodes[b], sh.Nodes[a] })
				m2, err2 := sh.GetMatchingNode(probe)
				if m2 != gotM || (err2 != nil) != (err != nil) {
					rep.Fail(Failure{What: "GetMatchingNode depends on the order of the nodes", Detail: fmt.Sprintf("got %v then %v", idOf(gotM), idOf(m2)), Input: in2, Finder: finder})
					break
				}
			}
		}
	}
	// recorded witness of the duplicate-identifier finding
	{
		a1 := &sbom.Node{Id: "a", Name: "first", Hashes: map[int32]string{1: "aa"}}
		a2 := &sbom.Node{Id: "a", Name: "second", Hashes: map[int32]string{1: "aa"}}
		probe := &sbom.Node{Id: "p", Hashes: map[int32]string{1: "aa"}}
		l1 := &sbom.NodeList{Nodes: []*sbom.Node{a1, a2}}
		l2 := &sbom.NodeList{Nodes: []*sbom.Node{a2, a1}}
		m1, _ := l1.GetMatchingNode(probe)
		m2, _ := l2.GetMatchingNode(probe)
		rep.OracleEvals++
		if m1 != m2 {
			rep.Fail(Failure{What: "GetMatchingNode depends on the order of the nodes", Finder: "matching_duplicate_ids", Detail: "recorded witness: two nodes with identifier a and the probe's hash", Input: map[string]any{"list": graphops.PJ(l1), "probe": nodeJSON(probe)}})
		}
	}
	rep.CasesFiles = cf.Write(filepath.Join(dir, "cases_C16"))
	rep.ShardSize = shardSize
	return rep
}

func idOf(n *sbom.Node) string {
	if n == nil {
		return "<nil>"
	}
	return n.Id + "/" + n.Name
}

// checkFilter: got must be exactly the nodes of nl (as pointers, in list order) satisfying crit.
func checkFilter(rep *Report, nl *sbom.NodeList, got []*sbom.Node, crit func(*sbom.Node) bool, what string, in map[string]any) {
	var want []*sbom.Node
	for _, m := range nl.Nodes {
		if crit(m) {
			want = append(want, m)
		}
	}
	in["list"] = graphops.PJ(nl)
	if len(got) != len(want) {
		rep.Fail(Failure{What: what + " does not return precisely the nodes satisfying the criterion", Detail: fmt.Sprintf("got %d nodes, want %d", len(got), len(want)), Input: in})
		return
	}
	for i := range got {
		if got[i].Id != want[i].Id || !crit(got[i]) {
			rep.Fail(Failure{What: what + " does not return precisely the nodes satisfying the criterion", Input: in})
			return
		}
	}
}
