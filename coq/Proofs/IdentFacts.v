(* Facts about the identifier generator model (Model/Ident.v). *)
From Coq Require Import Lia Decimal DecimalString.
From Verif Require Import Model.Base Model.Ident.
Open Scope list_scope.

Lemma all_safe_app a b : all_safe (a ++ b)%string = (all_safe a && all_safe b)%bool.
Proof. induction a as [|c a IH]; simpl; [reflexivity|]. rewrite IH, andb_assoc. reflexivity. Qed.

Lemma uint_digits_safe d : all_safe (NilEmpty.string_of_uint d) = true.
Proof. induction d; simpl; try rewrite IHd; reflexivity. Qed.

Lemma dec_safe z : all_safe (dec z) = true.
Proof.
  unfold dec, NilZero.string_of_int. destruct (Z.to_int z) as [d|d].
  - unfold NilZero.string_of_uint. destruct d; try apply uint_digits_safe. reflexivity.
  - simpl. unfold NilZero.string_of_uint. destruct d; try apply uint_digits_safe. reflexivity.
Qed.

Lemma sanitize_safe s : all_safe (sanitize s) = true.
Proof.
  induction s as [|c r IH]; [reflexivity|]. cbn [sanitize].
  destruct (sep_char c); [simpl; exact IH|].
  destruct (safe_char c) eqn:E; [simpl; rewrite E; exact IH|].
  cbn [append all_safe]. rewrite all_safe_app, dec_safe, IH. reflexivity.
Qed.

Definition all_safe_list (l : list string) : Prop := forall s, In s l -> all_safe s = true.

Lemma join_safe l : all_safe_list l -> all_safe (join "-" l) = true.
Proof.
  induction l as [|x r IH]; intros H; [reflexivity|].
  assert (Hx : all_safe x = true) by (apply H; left; reflexivity).
  assert (Hr : all_safe_list r) by (intros s Hs; apply H; right; exact Hs).
  destruct r as [|y q]; [exact Hx|].
  change (join "-" (x :: y :: q)) with (x ++ "-" ++ join "-" (y :: q))%string.
  rewrite !all_safe_app, Hx, (IH Hr). reflexivity.
Qed.

Lemma is_known_safe s : is_known s = true -> all_safe s = true.
Proof.
  unfold is_known. intros H. apply orb_true_iff in H as [H|H]; apply String.eqb_eq in H; subst; reflexivity.
Qed.

Lemma scan_inv seeds : forall known valid k v,
  scan seeds known valid = (k, v) ->
  all_safe_list known -> all_safe_list valid -> (forall s, In s valid -> s <> "") ->
  all_safe_list k /\ all_safe_list v /\ (forall s, In s v -> s <> "") /\ (exists r, k = known ++ r) /\ (exists r, v = valid ++ r).
Proof.
  induction seeds as [|s r IH]; intros known valid k v H Hk Hv Hne; cbn [scan] in H.
  - injection H as <- <-. repeat split; try assumption; exists []; rewrite app_nil_r; reflexivity.
  - destruct (is_known s && match valid with [] => true | _ => false end)%bool eqn:E.
    + apply andb_true_iff in E as [E _].
      apply IH in H; try assumption.
      * destruct H as [A [B [C [[r1 D] F]]]]. repeat split; try assumption.
        exists ([s] ++ r1). rewrite D, <- app_assoc. reflexivity.
      * intros x Hx. apply in_app_or in Hx as [Hx|[<-|[]]]; [apply Hk; exact Hx|apply is_known_safe; exact E].
    + destruct (String.eqb (sanitize s) "") eqn:E2.
      * apply IH in H; assumption.
      * apply IH in H; try assumption.
        -- destruct H as [A [B [C [D [r1 F]]]]]. repeat split; try assumption.
           exists ([sanitize s] ++ r1). rewrite F, <- app_assoc. reflexivity.
        -- intros x Hx. apply in_app_or in Hx as [Hx|[<-|[]]]; [apply Hv; exact Hx|apply sanitize_safe].
        -- intros x Hx. apply in_app_or in Hx as [Hx|[<-|[]]]; [apply Hne; exact Hx|apply String.eqb_neq; exact E2].
Qed.

Lemma scan_start seeds k v : scan seeds ["protobom"] [] = (k, v) ->
  all_safe_list k /\ all_safe_list v /\ (forall s, In s v -> s <> "") /\ exists r, k = "protobom" :: r.
Proof.
  intros E. destruct (scan_inv seeds _ _ _ _ E) as [A [B [C [[r D] _]]]].
  - intros s [<-|[]]. reflexivity.
  - intros s [].
  - intros s [].
  - repeat split; try assumption. exists r. exact D.
Qed.

Lemma assemble_safe known valid : all_safe_list known -> all_safe_list valid -> all_safe (assemble_id known valid) = true.
Proof.
  intros Hk Hv. unfold assemble_id. destruct valid as [|v r]; [apply join_safe; exact Hk|].
  apply join_safe. intros s Hs. apply in_app_or in Hs as [Hs|[<-|Hs]].
  - apply Hk. exact Hs.
  - cbn [append all_safe]. rewrite (Hv v (or_introl eq_refl)). reflexivity.
  - apply Hv. right. exact Hs.
Qed.

(* every identifier the generator returns is over the identifier-safe alphabet *)
Theorem new_id_safe uuid seeds : all_safe uuid = true -> all_safe (new_id uuid seeds) = true.
Proof.
  intros Hu. unfold new_id. destruct (scan seeds ["protobom"] []) as [k v] eqn:E.
  destruct (scan_start seeds _ _ E) as [Hk [Hv _]].
  apply assemble_safe; [exact Hk|]. destruct v; [|exact Hv]. intros s [<-|[]]. exact Hu.
Qed.

Lemma join_cons_nonempty x r : x <> "" -> join "-" (x :: r) <> "".
Proof.
  intros Hx. destruct r as [|y q]; [exact Hx|].
  change (join "-" (x :: y :: q)) with (x ++ "-" ++ join "-" (y :: q))%string.
  destruct x; [contradiction|discriminate].
Qed.

(* ... and is never empty *)
Theorem new_id_nonempty uuid seeds : new_id uuid seeds <> "".
Proof.
  unfold new_id. destruct (scan seeds ["protobom"] []) as [k v] eqn:E.
  destruct (scan_start seeds _ _ E) as [_ [_ [_ [r ->]]]].
  unfold assemble_id. destruct (match v with [] => [uuid] | _ :: _ => v end); cbn [app]; apply join_cons_nonempty; discriminate.
Qed.

(* with a usable seed the result does not depend on the UUID source *)
Theorem new_id_deterministic u1 u2 seeds : usable seeds = true -> new_id u1 seeds = new_id u2 seeds.
Proof.
  unfold usable, new_id. destruct (scan seeds ["protobom"] []) as [k v]. cbn [snd].
  destruct v; [discriminate|reflexivity].
Qed.

(* the generated identifier starts with the protobom prefix *)
Theorem new_id_prefix uuid seeds : String.prefix "protobom-" (new_id uuid seeds) = true.
Proof.
  unfold new_id. destruct (scan seeds ["protobom"] []) as [k v] eqn:E.
  destruct (scan_start seeds _ _ E) as [_ [_ [_ [r ->]]]].
  unfold assemble_id.
  destruct (match v with [] => [uuid] | _ :: _ => v end) as [|w q] eqn:Ev.
  - destruct v; discriminate.
  - cbn [app]. destruct (r ++ ("-" ++ w)%string :: q) as [|y t] eqn:Er.
    + destruct r; discriminate.
    + change (join "-" ("protobom" :: y :: t)) with ("protobom" ++ "-" ++ join "-" (y :: t))%string. cbn. destruct (match t with [] => y | _ => _ end); reflexivity.
Qed.
