package gen

import (
	"fmt"

	"google.golang.org/protobuf/reflect/protoreflect"
)

// MutateOne changes exactly one attribute somewhere inside m (nested messages included),
// chosen by reflection over the schema, and returns a description of the change. Changes are
// changes of content: empty-versus-absent collections and sub-second parts of dates are not
// touched.
func (g *G) MutateOne(m protoreflect.Message) string {
	fds := m.Descriptor().Fields()
	fd := fds.Get(g.Int(fds.Len()))
	path := string(m.Descriptor().Name()) + "." + string(fd.Name())
	switch {
	case fd.IsMap():
		mp := m.Mutable(fd).Map()
		var keys []protoreflect.MapKey
		mp.Range(func(k protoreflect.MapKey, _ protoreflect.Value) bool { keys = append(keys, k); return true })
		if len(keys) > 0 && g.Chance(0.6) {
			// deterministic choice: smallest key
			k := keys[0]
			for _, o := range keys {
				if o.Int() < k.Int() {
					k = o
				}
			}
			mp.Set(k, protoreflect.ValueOfString(mp.Get(k).String()+"x"))
			return path + fmt.Sprintf("[%d] value changed", k.Int())
		}
		k := int32(70 + g.Int(5))
		if g.Chance(0.25) {
			// an entry whose value is the empty string is still an entry
			mp.Set(protoreflect.ValueOfInt32(k).MapKey(), protoreflect.ValueOfString(""))
			return path + fmt.Sprintf("[%d] added with an empty value", k)
		}
		mp.Set(protoreflect.ValueOfInt32(k).MapKey(), protoreflect.ValueOfString("mut"))
		return path + fmt.Sprintf("[%d] added", k)
	case fd.IsList():
		l := m.Mutable(fd).List()
		switch fd.Kind() {
		case protoreflect.StringKind:
			if l.Len() > 0 && g.Chance(0.5) {
				i := g.Int(l.Len())
				l.Set(i, protoreflect.ValueOfString(l.Get(i).String()+"x"))
				return path + fmt.Sprintf("[%d] changed", i)
			}
			l.Append(protoreflect.ValueOfString("mut"))
			return path + " element added"
		case protoreflect.EnumKind:
			l.Append(protoreflect.ValueOfEnum(protoreflect.EnumNumber(1 + g.Int(5))))
			return path + " element added"
		case protoreflect.MessageKind:
			if l.Len() > 0 && g.Chance(0.7) {
				i := g.Int(l.Len())
				return path + fmt.Sprintf("[%d].", i) + g.MutateOne(l.Get(i).Message())
			}
			el := l.NewElement()
			// give the new element some content
			efds := el.Message().Descriptor().Fields()
			for j := 0; j < efds.Len(); j++ {
				if efds.Get(j).Kind() == protoreflect.StringKind && !efds.Get(j).IsList() && !efds.Get(j).IsMap() {
					el.Message().Set(efds.Get(j), protoreflect.ValueOfString("mut"))
					break
				}
			}
			l.Append(el)
			return path + " element added"
		}
	case fd.Kind() == protoreflect.MessageKind:
		if fd.Message().FullName() == "google.protobuf.Timestamp" {
			tm := m.Mutable(fd).Message()
			sf := tm.Descriptor().Fields().ByName("seconds")
			tm.Set(sf, protoreflect.ValueOfInt64(tm.Get(sf).Int()+1+int64(g.Int(100))))
			return path + " seconds changed"
		}
		return path + "." + g.MutateOne(m.Mutable(fd).Message())
	case fd.Kind() == protoreflect.StringKind:
		m.Set(fd, protoreflect.ValueOfString(m.Get(fd).String()+"x"))
		return path + " changed"
	case fd.Kind() == protoreflect.BoolKind:
		m.Set(fd, protoreflect.ValueOfBool(!m.Get(fd).Bool()))
		return path + " flipped"
	case fd.Kind() == protoreflect.EnumKind:
		m.Set(fd, protoreflect.ValueOfEnum(m.Get(fd).Enum()+1))
		return path + " changed"
	}
	panic("MutateOne: unsupported field " + string(fd.FullName()))
}

// ShuffleSets permutes every repeated field of m that the schema treats as a set (all
// repeated fields except Person.contacts, whose order the flat string keeps).
func (g *G) ShuffleSets(m protoreflect.Message) {
	fds := m.Descriptor().Fields()
	for i := 0; i < fds.Len(); i++ {
		fd := fds.Get(i)
		if !fd.IsList() || !m.Has(fd) {
			continue
		}
		if fd.FullName() == "protobom.protobom.Person.contacts" {
			continue
		}
		l := m.Mutable(fd).List()
		n := l.Len()
		vals := make([]protoreflect.Value, n)
		for j := 0; j < n; j++ {
			vals[j] = l.Get(j)
		}
		g.R.Shuffle(n, func(a, b int) { vals[a], vals[b] = vals[b], vals[a] })
		// rebuild
		l.Truncate(0)
		for _, v := range vals {
			l.Append(v)
		}
		if fd.Kind() == protoreflect.MessageKind {
			for j := 0; j < n; j++ {
				g.ShuffleSets(l.Get(j).Message())
			}
		}
	}
}

// MutationPoints counts the places where MutateAt can change m (every attribute at every nesting
// level: scalars, list elements, list growth, map values, map growth, dates).
func MutationPoints(m protoreflect.Message) int {
	n := 0
	walkPoints(m, &n, -1)
	return n
}

// LastOld holds the previous value of the attribute changed by the latest MutateAt / MutateOne
// call when that attribute is a string (empty otherwise).
var LastOld string

// MutateAt applies the k-th single-attribute change (0 <= k < MutationPoints(m)) and describes it.
func MutateAt(m protoreflect.Message, k int) string {
	n := 0
	LastOld = ""
	return walkPoints(m, &n, k)
}

func walkPoints(m protoreflect.Message, n *int, target int) string {
	hit := func() bool { *n++; return *n-1 == target }
	fds := m.Descriptor().Fields()
	name := string(m.Descriptor().Name())
	for i := 0; i < fds.Len(); i++ {
		fd := fds.Get(i)
		path := name + "." + string(fd.Name())
		switch {
		case fd.IsMap():
			var keys []int64
			m.Get(fd).Map().Range(func(k protoreflect.MapKey, _ protoreflect.Value) bool { keys = append(keys, k.Int()); return true })
			sortInt64(keys)
			for _, k := range keys {
				if hit() {
					mp := m.Mutable(fd).Map()
					mk := protoreflect.ValueOfInt32(int32(k)).MapKey()
					LastOld = mp.Get(mk).String()
					mp.Set(mk, protoreflect.ValueOfString(mp.Get(mk).String()+"x"))
					return fmt.Sprintf("%s[%d] value changed", path, k)
				}
			}
			if hit() {
				m.Mutable(fd).Map().Set(protoreflect.ValueOfInt32(77).MapKey(), protoreflect.ValueOfString("mut"))
				return path + "[77] added"
			}
			if hit() {
				m.Mutable(fd).Map().Set(protoreflect.ValueOfInt32(78).MapKey(), protoreflect.ValueOfString(""))
				return path + "[78] added with an empty value"
			}
		case fd.IsList():
			ln := m.Get(fd).List().Len()
			for j := 0; j < ln; j++ {
				switch fd.Kind() {
				case protoreflect.StringKind:
					if hit() {
						l := m.Mutable(fd).List()
						LastOld = l.Get(j).String()
						l.Set(j, protoreflect.ValueOfString(l.Get(j).String()+"x"))
						return fmt.Sprintf("%s[%d] changed", path, j)
					}
				case protoreflect.MessageKind:
					if target < 0 {
						walkPoints(m.Get(fd).List().Get(j).Message(), n, target)
					} else if d := walkPoints(m.Mutable(fd).List().Get(j).Message(), n, target); d != "" {
						return fmt.Sprintf("%s[%d].%s", path, j, d)
					}
				}
			}
			if hit() {
				l := m.Mutable(fd).List()
				switch fd.Kind() {
				case protoreflect.StringKind:
					l.Append(protoreflect.ValueOfString("mut"))
				case protoreflect.EnumKind:
					l.Append(protoreflect.ValueOfEnum(27))
				case protoreflect.MessageKind:
					el := l.NewElement()
					efds := el.Message().Descriptor().Fields()
					for j := 0; j < efds.Len(); j++ {
						if efds.Get(j).Kind() == protoreflect.StringKind && !efds.Get(j).IsList() && !efds.Get(j).IsMap() {
							el.Message().Set(efds.Get(j), protoreflect.ValueOfString("mut"))
							break
						}
					}
					l.Append(el)
				}
				return path + " element added"
			}
		case fd.Kind() == protoreflect.MessageKind:
			if fd.Message().FullName() == "google.protobuf.Timestamp" {
				if hit() {
					tm := m.Mutable(fd).Message()
					sf := tm.Descriptor().Fields().ByName("seconds")
					tm.Set(sf, protoreflect.ValueOfInt64(tm.Get(sf).Int()+7))
					return path + " seconds changed"
				}
			}
		case fd.Kind() == protoreflect.StringKind:
			if hit() {
				LastOld = m.Get(fd).String()
				m.Set(fd, protoreflect.ValueOfString(m.Get(fd).String()+"x"))
				return path + " changed"
			}
		case fd.Kind() == protoreflect.BoolKind:
			if hit() {
				m.Set(fd, protoreflect.ValueOfBool(!m.Get(fd).Bool()))
				return path + " flipped"
			}
		case fd.Kind() == protoreflect.EnumKind:
			if hit() {
				m.Set(fd, protoreflect.ValueOfEnum(m.Get(fd).Enum()+1))
				return path + " changed"
			}
		}
	}
	return ""
}

func sortInt64(a []int64) {
	for i := 1; i < len(a); i++ {
		for j := i; j > 0 && a[j] < a[j-1]; j-- {
			a[j], a[j-1] = a[j-1], a[j]
		}
	}
}
