module verifharness

go 1.22.4

require (
	github.com/CycloneDX/cyclonedx-go v0.9.0
	github.com/protobom/protobom v0.0.0
	github.com/sirupsen/logrus v1.9.3
	github.com/spdx/tools-golang v0.5.5
	google.golang.org/protobuf v1.34.2
)

require (
	github.com/anchore/go-struct-converter v0.0.0-20230627203149-c72ef8859ca9 // indirect
	github.com/blang/semver/v4 v4.0.0 // indirect
	github.com/common-nighthawk/go-figure v0.0.0-20210622060536-734e95fb86be // indirect
	github.com/google/go-cmp v0.6.0 // indirect
	github.com/google/uuid v1.6.0 // indirect
	github.com/spf13/cobra v1.8.0 // indirect
	github.com/spf13/pflag v1.0.5 // indirect
	golang.org/x/sys v0.20.0 // indirect
	sigs.k8s.io/release-utils v0.8.2 // indirect
)

replace github.com/protobom/protobom => /repo
