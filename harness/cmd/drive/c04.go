package main

import (
	"bytes"
	"fmt"
	"os"
	"path/filepath"
	"strings"
	"time"

	"github.com/protobom/protobom/pkg/formats"
	"github.com/protobom/protobom/pkg/reader"
	"github.com/protobom/protobom/pkg/sbom"

	"verifharness/gen"
	"verifharness/jsonfault"
)

func init() { runners["C04"] = runC04 }

type parseOutcome struct {
	kind string // doc err panic hang both neither bad-doc
	err  string
	doc  *sbom.Document
	dur  time.Duration
}

func parseOnce(data []byte, format formats.Format) parseOutcome {
	var po parseOutcome
	t0 := time.Now()
	fin, pv := callWithTimeout(20*time.Second, func() {
		r := reader.New()
		var doc *sbom.Document
		var err error
		if format == "" {
			doc, err = r.ParseStream(bytes.NewReader(data))
		} else {
			doc, err = r.ParseStreamWithOptions(bytes.NewReader(data), &reader.Options{Format: format})
		}
		switch {
		case doc != nil && err != nil:
			po = parseOutcome{kind: "both", err: err.Error()}
		case doc == nil && err == nil:
			po = parseOutcome{kind: "neither"}
		case err != nil:
			po = parseOutcome{kind: "err", err: err.Error()}
		case doc.Metadata == nil || doc.NodeList == nil:
			po = parseOutcome{kind: "bad-doc", doc: doc}
		default:
			po = parseOutcome{kind: "doc", doc: doc}
		}
	})
	po.dur = time.Since(t0)
	if !fin {
		return parseOutcome{kind: "hang", dur: po.dur}
	}
	if pv != nil {
		return parseOutcome{kind: "panic", err: fmt.Sprint(pv), dur: po.dur}
	}
	return po
}

// seedDocuments: representative SPDX and CycloneDX documents (the repository's real SBOMs, trimmed
// by size, plus writer output of generated documents).
func seedDocuments(g *gen.G, tier string) map[string][]byte {
	out := map[string][]byte{}
	globs := []string{"/repo/pkg/formats/testdata/*.json", "/repo/test/conformance/testdata/*/*/json/*.json", "/repo/examples/*/*.json"}
	for _, gl := range globs {
		files, _ := filepath.Glob(gl)
		for _, f := range files {
			b, err := os.ReadFile(f)
			if err != nil || len(b) > 80000 {
				continue
			}
			out[strings.TrimPrefix(f, "/repo/")] = b
		}
	}
	return out
}

func runC04(seed int64, n int, dir string, tier string) *Report {
	g := gen.New(seed)
	rep := NewReport("C04", seed)
	rep.Rule = "every single schema fault (null, absent, wrong type x4, empty, oversized, duplicated element, deep nesting, duplicated member) at up to n JSON paths of each seed document, and double faults (a second fault on a sample of the single-fault mutants: 6 x 6 paths per document, 40 x 14 in the thorough tier) (the repository's real SPDX and CycloneDX SBOMs under 80 kB and writer output of generated documents), parsed with auto-detection and with the format stated; plus random byte strings and truncations; scaling probes (valid documents grown along one dimension: licences, components, nesting depth, hashes and references, reference-less components, SPDX packages and relationships; parsed size and time against the cube of the input growth); outcomes: document / error / panic / hang / both / neither; non-trivial = mutant that still parses to a document; distinct by hash of (path, fault)"
	cf, xs, xc := newXlateCases()
	seamBudget, seamSeen := 2*n, 0
	seeds := seedDocuments(g, tier)
	// writer output of generated documents
	for i := 0; i < 3; i++ {
		d := randomDocument(g)
		for _, f := range []formats.Format{formats.SPDX23JSON, formats.CDX15JSON} {
			a := serializeBytes(d, f)
			if a != nil {
				seeds[fmt.Sprintf("generated-%d-%s", i, shortFmt(f))] = a
			}
		}
	}
	names := make([]string, 0, len(seeds))
	for k := range seeds {
		names = append(names, k)
	}
	sortStrings(names)
	var worst time.Duration
	for _, name := range names {
		data := seeds[name]
		base := parseOnce(data, "")
		rep.Count("seed:" + base.kind)
		handle := func(m jsonfault.Mutant) bool {
			po := parseOnce(m.Data, "")
			rep.OracleEvals++
			rep.Count("mutant:" + po.kind)
			rep.Count("fault:" + strings.SplitN(m.Fault, "-", 2)[0])
			if po.dur > worst {
				worst = po.dur
			}
			in := map[string]any{"seed_document": name, "path": m.Path, "fault": m.Fault, "bytes": len(m.Data)}
			if len(m.Data) < 3000 {
				in["input"] = string(m.Data)
			}
			rep.NoteInput(name+m.Path+m.Fault, po.kind == "doc", in)
			if po.kind == "doc" {
				// the model's unserializer on what the third-party decoder returns for this mutant
				seamSeen++
				if seamSeen%7 == 0 && len(cf.Items) < seamBudget && len(m.Data) < 30000 {
					cdxUnserSeam(rep, xc, m.Data, "mutant", in)
					spdxUnserSeam(rep, xs, m.Data, "mutant", in)
				}
			}
			switch po.kind {
			case "panic":
				rep.Fail(Failure{What: "a parser panicked on schema-violating input", Detail: po.err, Input: in})
			case "hang":
				rep.Fail(Failure{What: "a parser did not return within 20s", Input: in})
				return false // a stuck goroutine keeps burning CPU: stop this seed
			case "both", "neither":
				rep.Fail(Failure{What: "a parser returned " + po.kind + " of a document and an error", Input: in})
			case "bad-doc":
				rep.Fail(Failure{What: "a parser returned a document without metadata or node list", Input: in})
			}
			return true
		}
		jsonfault.Each(data, n, handle)
		for _, m := range jsonfault.DuplicateMembers(data) {
			handle(m)
		}
		// double faults: a second single fault on top of a sample of the single-fault mutants
		per, second := 6, 6
		if tier == "thorough" {
			per, second = 40, 14
		}
		var firsts []jsonfault.Mutant
		k := 0
		jsonfault.Each(data, n, func(m jsonfault.Mutant) bool {
			k++
			if len(m.Data) < 60000 && g.Chance(float64(per)/float64(10*n+1)) && len(firsts) < per {
				firsts = append(firsts, m)
			}
			return true
		})
		for _, m1 := range firsts {
			jsonfault.Each(m1.Data, second, func(m2 jsonfault.Mutant) bool {
				rep.Count("double-fault")
				return handle(jsonfault.Mutant{Path: m1.Path + " & " + m2.Path, Fault: m1.Fault + " & " + m2.Fault, Data: m2.Data})
			})
		}
	}
	// arbitrary bytes and truncations
	for i := 0; i < n; i++ {
		var data []byte
		if i%2 == 0 && len(names) > 0 {
			src := seeds[names[g.Int(len(names))]]
			data = src[:g.Int(len(src))]
		} else {
			data = make([]byte, g.Int(200))
			for k := range data {
				data[k] = byte(g.Int(256))
			}
		}
		for _, f := range []formats.Format{"", formats.SPDX23JSON, formats.CDX14JSON} {
			po := parseOnce(data, f)
			rep.OracleEvals++
			rep.Count("bytes:" + po.kind)
			if po.kind == "panic" || po.kind == "hang" || po.kind == "both" || po.kind == "neither" || po.kind == "bad-doc" {
				rep.Fail(Failure{What: "a parser misbehaved on arbitrary bytes: " + po.kind, Detail: po.err, Input: map[string]any{"bytes_hex_prefix": fmt.Sprintf("%x", data[:min(len(data), 60)]), "format": string(f)}})
			}
		}
	}
	// text that is not JSON reaches the line-based part of format detection: every truncation of tag-value
	// headers (a file cut short inside its version line is an ordinary damaged input)
	for _, text := range []string{"SPDXVersion: SPDX-2.3\nDataLicense: CC0-1.0\nSPDXID: SPDXRef-DOCUMENT\n", "# comment\r\nSPDXVersion: SPDX-2.2\r\nDataLicense: CC0-1.0\r\n", "SPDXVersion:SPDX-2.3"} {
		for k := 0; k <= len(text); k++ {
			for _, tail := range []string{"", "\n", "\r\n"} {
				data := []byte(text[:k] + tail)
				po := parseOnce(data, "")
				rep.OracleEvals++
				rep.Count("tag-value-prefix:" + po.kind)
				if po.kind == "panic" || po.kind == "hang" || po.kind == "both" || po.kind == "neither" || po.kind == "bad-doc" {
					rep.Fail(Failure{What: "a parser misbehaved on a truncated tag-value text: " + po.kind, Detail: po.err, Input: map[string]any{"input": string(data)}})
				}
			}
		}
	}
	runScaleProbes(rep)
	rep.Notes = append(rep.Notes, fmt.Sprintf("slowest single parse: %v", worst))
	rep.CasesFiles = cf.Write(filepath.Join(dir, "cases_C04"))
	rep.ShardSize = shardSize
	return rep
}

func serializeBytes(d *sbom.Document, f formats.Format) []byte {
	so := serializeRaw(d, f)
	return so
}
