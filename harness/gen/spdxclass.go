package gen

import (
	"fmt"
	"strings"

	"github.com/protobom/protobom/pkg/sbom"
)

// identifiers are case sensitive: "Document" and "document" are ordinary element identifiers, only "DOCUMENT" is the document's own
var spdxIDs = []string{"a", "b", "c", "pkg-1", "lib.so.1", "File-A", "n0", "x.y-z", "Z9", "Document", "document", "DOCUMENT-2",
	// the special relationship targets are words, not identifiers: elements may be called like them
	"NONE", "NOASSERTION"}

var plainTexts = []string{"x", "foo", "bar 1.0", "Apache-2.0", "MIT", "héllo wörld", "日本語", "a b  c", "(c) 2024 X", "v1.2.3", "https://example.com/p"}

func (g *G) plain() string { return Pick(g, plainTexts) }

// SPDXClassNode: a node whose attributes SPDX 2.3 can carry (random subset).
func (g *G) SPDXClassNode(id string) *sbom.Node {
	n := &sbom.Node{Id: id}
	if g.Chance(0.3) {
		n.Type = sbom.Node_FILE
	}
	on := func() bool { return g.Chance(0.45) }
	if on() {
		n.Name = g.plain()
	}
	if on() {
		n.LicenseConcluded = Pick(g, []string{"MIT", "Apache-2.0", "NOASSERTION", "GPL-2.0-only OR MIT"})
	}
	if on() {
		n.LicenseComments = g.plain()
	}
	if on() {
		n.Copyright = Pick(g, []string{"(c) 2024 X", "  padded  ", "NONE", "Copyright Y"})
	}
	if on() {
		n.Comment = g.plain()
	}
	if on() {
		n.Hashes = map[int32]string{}
		for k := 1 + g.Int(3); k > 0; k-- {
			n.Hashes[int32(1+g.Int(17))] = Pick(g, []string{"aa", "bb", "0123abcd"})
		}
	}
	if n.Type == sbom.Node_FILE {
		if on() {
			n.FileTypes = []string{Pick(g, []string{"TEXT", "BINARY", "SOURCE"})}
		}
		return n
	}
	if on() {
		n.Version = g.plain()
	}
	if on() {
		n.FileName = g.plain()
	}
	if on() {
		n.UrlHome = "https://example.com/home"
	}
	if on() {
		n.UrlDownload = Pick(g, []string{"https://example.com/dl.tgz", "NOASSERTION", "git+https://x/y"})
	}
	if on() {
		n.SourceInfo = g.plain()
	}
	if on() {
		n.Summary = g.plain()
	}
	if on() {
		n.Description = g.plain()
	}
	if on() {
		n.Attribution = []string{g.plain()}
	}
	if on() {
		n.ReleaseDate = g.Time()
	}
	if on() {
		n.BuildDate = g.Time()
	}
	if on() {
		n.ValidUntilDate = g.Time()
	}
	if on() {
		n.PrimaryPurpose = []sbom.Purpose{sbom.Purpose(1 + g.Int(28))}
		if g.Chance(0.3) {
			n.PrimaryPurpose = append(n.PrimaryPurpose, sbom.Purpose(1+g.Int(28)))
		}
	}
	if on() {
		n.Identifiers = map[int32]string{}
		if g.Chance(0.7) {
			n.Identifiers[1] = "pkg:npm/foo@1.0"
		}
		if g.Chance(0.4) {
			n.Identifiers[3] = "cpe:2.3:a:x:y:1:*:*:*:*:*:*:*"
		}
		if g.Chance(0.2) {
			n.Identifiers[2] = "cpe:/a:x:y:1"
		}
		if g.Chance(0.2) {
			n.Identifiers[4] = "gitoid:blob:sha1:abc"
		}
	}
	if on() {
		for k := 1 + g.Int(2); k > 0; k-- {
			e := &sbom.ExternalReference{Url: fmt.Sprintf("https://e.example/%d", g.Int(3)), Type: sbom.ExternalReference_ExternalReferenceType(g.Int(61))}
			if g.Chance(0.4) {
				e.Comment = g.plain()
			}
			n.ExternalReferences = append(n.ExternalReferences, e)
		}
	}
	if on() {
		p := &sbom.Person{Name: Pick(g, []string{"ACME Inc", "Jane Doe", "The Authors"}), IsOrg: g.Chance(0.5)}
		if g.Chance(0.3) {
			p.Email = "a@b.c"
		}
		n.Suppliers = []*sbom.Person{p}
		if g.Chance(0.2) {
			n.Suppliers = append(n.Suppliers, &sbom.Person{Name: "second"})
		}
	}
	if on() {
		n.Originators = []*sbom.Person{{Name: Pick(g, []string{"Origin Org", "John Roe"}), IsOrg: g.Chance(0.5)}}
		// a second, different originator on some nodes (SPDX keeps the first); decided without a further draw
		if n.Originators[0].Name == "John Roe" {
			n.Originators = append(n.Originators, &sbom.Person{Name: "Second Origin", IsOrg: !n.Originators[0].IsOrg, Email: "s@o.rg"})
		}
	}
	return n
}

// SPDXClassDocument: unique valid SPDX identifiers, closed edges and roots, every graph shape.
func (g *G) SPDXClassDocument() *sbom.Document {
	d := sbom.NewDocument()
	d.Metadata.Id = "https://spdx.org/spdxdocs/x#DOCUMENT"
	d.Metadata.Name = g.plain()
	if g.Chance(0.4) {
		d.Metadata.Tools = []*sbom.Tool{{Name: "tool", Version: Pick(g, []string{"", "1.0"})}}
	}
	ids := append([]string{}, spdxIDs...)
	g.R.Shuffle(len(ids), func(i, j int) { ids[i], ids[j] = ids[j], ids[i] })
	nn := 1 + g.Int(6)
	for i := 0; i < nn; i++ {
		d.NodeList.Nodes = append(d.NodeList.Nodes, g.SPDXClassNode(ids[i]))
	}
	present := ids[:nn]
	for k := g.Int(8); k > 0; k-- {
		e := &sbom.Edge{Type: sbom.Edge_Type(1 + g.Int(44)), From: Pick(g, present)}
		for j := 1 + g.Int(3); j > 0; j-- {
			e.To = append(e.To, Pick(g, present)) // self loops, repeated targets, cycles
		}
		d.NodeList.Edges = append(d.NodeList.Edges, e)
	}
	// the relationship types the reader treats specially (DESCRIBES from the document, CONTAINS) also occur
	// between ordinary elements, in any spelling of the source identifier
	for _, id := range present {
		if strings.EqualFold(strings.TrimSuffix(id, "-2"), "document") && g.Chance(0.7) {
			d.NodeList.Edges = append(d.NodeList.Edges, &sbom.Edge{Type: sbom.Edge_describes, From: id, To: []string{Pick(g, present)}})
		}
	}
	if g.Chance(0.15) {
		d.NodeList.Edges = append(d.NodeList.Edges, &sbom.Edge{Type: sbom.Edge_describes, From: Pick(g, present), To: []string{Pick(g, present)}})
	}
	for _, id := range present {
		if g.Chance(0.35) {
			d.NodeList.RootElements = append(d.NodeList.RootElements, id)
		}
	}
	return d
}
