// Command storechild performs ONE file-system store operation with the real implementation and
// prints the outcome as JSON. It runs as a separate process so that process exits, panics and
// kills are observable by the harness (exit status / signal), and so that it can be run under a
// different uid or under strace.
//
//	storechild store <dir> <document.pb> <noclobber:true|false>
//	storechild retrieve <dir> <identifier-hex>
//	storechild storenil <dir>
//	storechild script <dir> <file>     a whole history in ONE process: one JSON array per line, ["store", doc.pb,
//	                                   "true|false"], ["retrieve", id-hex], ["storenil"], ["wipe"] (the directory is
//	                                   removed), ["remove", entry-name], ["litter", entry-name] (foreign files next to an entry); one outcome line per command
package main

import (
	"encoding/base64"
	"encoding/hex"
	"encoding/json"
	"fmt"
	"os"
	"path/filepath"
	"runtime"
	"strings"

	"github.com/protobom/protobom/pkg/sbom"
	"github.com/protobom/protobom/pkg/storage"
	"google.golang.org/protobuf/proto"
)

type out struct {
	Outcome string `json:"outcome"` // ok | err | panic
	Error   string `json:"error,omitempty"`
	Doc     string `json:"doc,omitempty"` // base64 of the deterministic marshalling of a retrieved document
}

func emit(o out) {
	b, _ := json.Marshal(o)
	fmt.Println(string(b))
}

func main() {
	// every system call of the store on one OS thread: strace's fault injection counts calls per
	// thread, so "kill at the k-th call" walks through the store only if the store stays on the thread
	// that is being counted
	runtime.LockOSThread()
	defer func() {
		if r := recover(); r != nil {
			emit(out{Outcome: "panic", Error: fmt.Sprint(r)})
			os.Exit(3)
		}
	}()
	if len(os.Args) < 3 {
		fmt.Fprintln(os.Stderr, "usage: storechild store|retrieve|storenil ...")
		os.Exit(2)
	}
	fs := storage.NewFileSystem()
	fs.Options.Path = os.Args[2]
	if os.Args[1] == "script" {
		runScript(os.Args[2], os.Args[3])
		return
	}
	switch os.Args[1] {
	case "store":
		data, err := os.ReadFile(os.Args[3])
		if err != nil {
			fmt.Fprintln(os.Stderr, err)
			os.Exit(2)
		}
		doc := &sbom.Document{}
		if err := proto.Unmarshal(data, doc); err != nil {
			fmt.Fprintln(os.Stderr, err)
			os.Exit(2)
		}
		if err := fs.Store(doc, &storage.StoreOptions{NoClobber: os.Args[4] == "true"}); err != nil {
			emit(out{Outcome: "err", Error: err.Error()})
			return
		}
		emit(out{Outcome: "ok"})
	case "storenil":
		if err := fs.Store(nil, nil); err != nil {
			emit(out{Outcome: "err", Error: err.Error()})
			return
		}
		emit(out{Outcome: "ok"})
	case "retrieve":
		id, err := hex.DecodeString(os.Args[3])
		if err != nil {
			fmt.Fprintln(os.Stderr, err)
			os.Exit(2)
		}
		doc, err := fs.Retrieve(string(id), nil)
		if err != nil {
			emit(out{Outcome: "err", Error: err.Error()})
			return
		}
		if doc == nil {
			emit(out{Outcome: "ok", Doc: "nil"})
			return
		}
		b, err := proto.MarshalOptions{Deterministic: true}.Marshal(doc)
		if err != nil {
			emit(out{Outcome: "err", Error: "re-marshal: " + err.Error()})
			return
		}
		emit(out{Outcome: "ok", Doc: base64.StdEncoding.EncodeToString(b)})
	default:
		os.Exit(2)
	}
}

// runScript runs a history inside one process (state the library keeps between calls is then part of it);
// every second store or retrieve goes through a freshly constructed backend value for the same directory.
func runScript(dir, file string) {
	raw, err := os.ReadFile(file)
	if err != nil {
		fmt.Fprintln(os.Stderr, err)
		os.Exit(2)
	}
	shared := storage.NewFileSystem()
	shared.Options.Path = dir
	for i, line := range strings.Split(strings.TrimSpace(string(raw)), "\n") {
		var cmd []string
		if err := json.Unmarshal([]byte(line), &cmd); err != nil || len(cmd) == 0 {
			fmt.Fprintln(os.Stderr, "bad script line", i)
			os.Exit(2)
		}
		fs := shared
		if i%2 == 1 {
			fs = storage.NewFileSystem()
			fs.Options.Path = dir
		}
		func() {
			defer func() {
				if r := recover(); r != nil {
					emit(out{Outcome: "panic", Error: fmt.Sprint(r)})
				}
			}()
			switch cmd[0] {
			case "store":
				data, err := os.ReadFile(cmd[1])
				doc := &sbom.Document{}
				if err != nil || proto.Unmarshal(data, doc) != nil {
					fmt.Fprintln(os.Stderr, "cannot read", cmd[1])
					os.Exit(2)
				}
				so := &storage.StoreOptions{NoClobber: cmd[2] == "true"}
				if cmd[2] == "nil" {
					so = nil // no options at all: the defaults apply
				}
				if err := fs.Store(doc, so); err != nil {
					emit(out{Outcome: "err", Error: err.Error()})
					return
				}
				emit(out{Outcome: "ok"})
			case "storenil":
				if err := fs.Store(nil, nil); err != nil {
					emit(out{Outcome: "err", Error: err.Error()})
					return
				}
				emit(out{Outcome: "ok"})
			case "retrieve":
				id, _ := hex.DecodeString(cmd[1])
				doc, err := fs.Retrieve(string(id), nil)
				if err != nil {
					emit(out{Outcome: "err", Error: err.Error()})
					return
				}
				if doc == nil {
					emit(out{Outcome: "ok", Doc: "nil"})
					return
				}
				b, err := proto.MarshalOptions{Deterministic: true}.Marshal(doc)
				if err != nil {
					emit(out{Outcome: "err", Error: "re-marshal: " + err.Error()})
					return
				}
				emit(out{Outcome: "ok", Doc: base64.StdEncoding.EncodeToString(b)})
			case "wipe":
				_ = os.RemoveAll(dir)
				emit(out{Outcome: "ok"})
			case "remove":
				_ = os.Remove(filepath.Join(dir, cmd[1]))
				emit(out{Outcome: "ok"})
			case "litter":
				// foreign files next to an entry, long ones
				junk := []byte(strings.Repeat("leftover ", 600))
				for _, suffix := range []string{".tmp", ".tmp-1", "~", ".bak"} {
					_ = os.WriteFile(filepath.Join(dir, cmd[1]+suffix), junk, 0o644)
				}
				emit(out{Outcome: "ok"})
			default:
				os.Exit(2)
			}
		}()
	}
}
