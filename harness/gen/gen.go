// Package gen holds the random generators shared by all correspondence and oracle
// modes. Every random choice derives from one *rand.Rand so a seed replays exactly.
package gen

import (
	"fmt"
	"math/rand"

	"github.com/protobom/protobom/pkg/sbom"
	"google.golang.org/protobuf/proto"
	"google.golang.org/protobuf/types/known/timestamppb"
)

type G struct {
	R *rand.Rand
}

func New(seed int64) *G { return &G{R: rand.New(rand.NewSource(seed))} }

func (g *G) Chance(p float64) bool { return g.R.Float64() < p }
func (g *G) Int(n int) int {
	if n <= 0 {
		return 0
	}
	return g.R.Intn(n)
}

func Pick[T any](g *G, xs []T) T { return xs[g.Int(len(xs))] }

// IDs used for nodes: a small pool so that operands overlap, plus a few awkward ones.
var IDPool = []string{"a", "b", "c", "d", "e", "f", "g", "h"}
var OddIDs = []string{"", "x+y", "a:b", "SPDXRef-a", "DOCUMENT", "é", "a b", "+++", "a+++contains"}

var texts = []string{"", "", "x", "foo", "bar 1.0", "Apache-2.0", "MIT", "NOASSERTION", "NONE", "a:b", "héllo wörld", "日本", "q\"uote", "tab\tx", " lead", "https://example.com/x", "pkg:npm/foo@1.0", "line\nbreak"}

func (g *G) Text() string { return Pick(g, texts) }
func (g *G) NonEmptyText() string {
	for {
		if s := g.Text(); s != "" {
			return s
		}
	}
}

func (g *G) Strs(max int) []string {
	n := g.Int(max + 1)
	if n == 0 {
		if g.Chance(0.5) {
			return nil
		}
		return []string{}
	}
	out := make([]string, n)
	for i := range out {
		out[i] = g.NonEmptyText()
	}
	return out
}

// package urls of several types, some of which are prefixes of others (go / golang, git / github, gen /
// generic), the "pkg:/type/" spelling some tools write, and "pkg://host/..." (an empty type)
var purls = []string{"pkg:npm/foo@1.0", "pkg:npm/bar@2.0", "pkg:golang/x/y@v1", "pkg:/npm/odd@1", "pkg:deb/debian/z@1", "notapurl", "",
	"pkg:github/o/r@1", "pkg:generic/thing@1", "pkg://github.com/example/app@v1.0.0", "pkg:go/short@1"}

func (g *G) HashMap(max int) map[int32]string {
	n := g.Int(max + 1)
	if n == 0 {
		if g.Chance(0.5) {
			return nil
		}
		return map[int32]string{}
	}
	m := map[int32]string{}
	for i := 0; i < n; i++ {
		algo := int32(g.Int(18))
		if g.Chance(0.05) {
			algo = int32(g.Int(40) + 18)
		}
		m[algo] = Pick(g, []string{"aa", "bb", "cc", "", "deadbeef"})
	}
	return m
}

func (g *G) Identifiers() map[int32]string {
	if g.Chance(0.4) {
		return nil
	}
	m := map[int32]string{}
	if g.Chance(0.7) {
		m[int32(sbom.SoftwareIdentifierType_PURL)] = Pick(g, purls)
	}
	if g.Chance(0.3) {
		m[int32(sbom.SoftwareIdentifierType_CPE23)] = "cpe:2.3:a:x:y:1:*:*:*:*:*:*:*"
	}
	if g.Chance(0.15) {
		m[int32(sbom.SoftwareIdentifierType_CPE22)] = "cpe:/a:x:y:1"
	}
	if g.Chance(0.15) {
		m[int32(sbom.SoftwareIdentifierType_GITOID)] = "gitoid:blob:sha1:abc"
	}
	if g.Chance(0.05) {
		m[int32(g.Int(10)+5)] = "odd"
	}
	return m
}

func (g *G) Time() *timestamppb.Timestamp {
	secs := []int64{0, 1, 1700000000, 1700000001, 86400, 253402300799, 1234567890}
	t := &timestamppb.Timestamp{Seconds: Pick(g, secs)}
	if g.Chance(0.3) {
		t.Nanos = int32(Pick(g, []int{1, 500000000, 999999999}))
	}
	return t
}

func (g *G) Person(depth int) *sbom.Person {
	p := &sbom.Person{Name: g.Text(), IsOrg: g.Chance(0.5)}
	if g.Chance(0.4) {
		p.Email = Pick(g, []string{"a@b.c", "x@y.z"})
	}
	if g.Chance(0.2) {
		p.Url = "https://p.example"
	}
	if g.Chance(0.2) {
		p.Phone = "+1 555"
	}
	if depth > 0 && g.Chance(0.3) {
		n := g.Int(3)
		p.Contacts = []*sbom.Person{}
		for i := 0; i < n; i++ {
			p.Contacts = append(p.Contacts, g.Person(depth-1))
		}
	}
	return p
}

func (g *G) Persons(max int) []*sbom.Person {
	n := g.Int(max + 1)
	if n == 0 {
		if g.Chance(0.5) {
			return nil
		}
		return []*sbom.Person{}
	}
	out := make([]*sbom.Person, n)
	for i := range out {
		out[i] = g.Person(2)
	}
	return out
}

func (g *G) ExtRef() *sbom.ExternalReference {
	e := &sbom.ExternalReference{
		Type: sbom.ExternalReference_ExternalReferenceType(g.Int(61)),
	}
	if g.Chance(0.85) {
		e.Url = Pick(g, []string{"https://e.example/1", "https://e.example/2", "git+https://x"})
	}
	if g.Chance(0.3) {
		e.Comment = g.Text()
	}
	if g.Chance(0.2) {
		e.Authority = g.Text()
	}
	if g.Chance(0.3) {
		e.Hashes = g.HashMap(2)
	}
	return e
}

func (g *G) ExtRefs(max int) []*sbom.ExternalReference {
	n := g.Int(max + 1)
	if n == 0 {
		if g.Chance(0.5) {
			return nil
		}
		return []*sbom.ExternalReference{}
	}
	out := make([]*sbom.ExternalReference, n)
	for i := range out {
		out[i] = g.ExtRef()
	}
	return out
}

func (g *G) Purposes(max int) []sbom.Purpose {
	n := g.Int(max + 1)
	if n == 0 {
		return nil
	}
	out := make([]sbom.Purpose, n)
	for i := range out {
		out[i] = sbom.Purpose(g.Int(29))
	}
	return out
}

// Node generates a node with the given id. richness in [0,1] is the probability that
// each attribute is populated.
func (g *G) Node(id string, richness float64) *sbom.Node {
	n := &sbom.Node{Id: id}
	if g.Chance(0.25) {
		n.Type = sbom.Node_FILE
	}
	on := func() bool { return g.Chance(richness) }
	if on() {
		n.Name = g.Text()
	}
	if on() {
		n.Version = g.Text()
	}
	if on() {
		n.FileName = g.Text()
	}
	if on() {
		n.UrlHome = g.Text()
	}
	if on() {
		n.UrlDownload = g.Text()
	}
	if on() {
		n.Licenses = g.Strs(3)
	}
	if on() {
		n.LicenseConcluded = g.Text()
	}
	if on() {
		n.LicenseComments = g.Text()
	}
	if on() {
		n.Copyright = g.Text()
	}
	if on() {
		n.SourceInfo = g.Text()
	}
	if on() {
		n.Comment = g.Text()
	}
	if on() {
		n.Summary = g.Text()
	}
	if on() {
		n.Description = g.Text()
	}
	if on() {
		n.Attribution = g.Strs(2)
	}
	if on() {
		n.Suppliers = g.Persons(2)
	}
	if on() {
		n.Originators = g.Persons(2)
	}
	if on() {
		n.ReleaseDate = g.Time()
	}
	if on() {
		n.BuildDate = g.Time()
	}
	if on() {
		n.ValidUntilDate = g.Time()
	}
	if on() {
		n.ExternalReferences = g.ExtRefs(2)
	}
	if on() {
		n.FileTypes = g.Strs(2)
	}
	if on() {
		n.Identifiers = g.Identifiers()
	}
	if on() {
		n.Hashes = g.HashMap(3)
	}
	if on() {
		n.PrimaryPurpose = g.Purposes(2)
	}
	// repeated entries in collections (legal, and relevant to set semantics)
	if g.Chance(0.25) && len(n.Licenses) > 0 {
		n.Licenses = append(n.Licenses, n.Licenses[0])
	}
	if g.Chance(0.25) && len(n.Suppliers) > 0 {
		n.Suppliers = append(n.Suppliers, proto.Clone(n.Suppliers[g.Int(len(n.Suppliers))]).(*sbom.Person))
	}
	if g.Chance(0.25) && len(n.Originators) > 0 {
		n.Originators = append(n.Originators, proto.Clone(n.Originators[0]).(*sbom.Person))
	}
	if g.Chance(0.25) && len(n.ExternalReferences) > 0 {
		n.ExternalReferences = append(n.ExternalReferences, proto.Clone(n.ExternalReferences[g.Int(len(n.ExternalReferences))]).(*sbom.ExternalReference))
	}
	if g.Chance(0.2) && len(n.PrimaryPurpose) > 0 {
		n.PrimaryPurpose = append(n.PrimaryPurpose, n.PrimaryPurpose[0])
	}
	return n
}

// Shape describes how a node list is generated.
type Shape struct {
	MaxNodes   int
	MaxEdges   int
	WellFormed bool    // unique ids, closed edges and roots
	Richness   float64 // attribute density
	OddIDs     float64 // probability that an id is drawn from OddIDs
	Pool       []string
}

func (g *G) id(s Shape) string {
	if g.Chance(s.OddIDs) {
		return Pick(g, OddIDs)
	}
	pool := s.Pool
	if pool == nil {
		pool = IDPool
	}
	return Pick(g, pool)
}

func (g *G) EdgeType() sbom.Edge_Type {
	switch {
	case g.Chance(0.35):
		return sbom.Edge_contains
	case g.Chance(0.3):
		return sbom.Edge_dependsOn
	case g.Chance(0.03):
		return sbom.Edge_Type(45 + g.Int(20)) // unknown enum number
	default:
		return sbom.Edge_Type(g.Int(45))
	}
}

// NodeList generates a node list of the given shape.
func (g *G) NodeList(s Shape) *sbom.NodeList {
	nl := &sbom.NodeList{}
	if g.Chance(0.5) {
		nl = sbom.NewNodeList()
	}
	nn := g.Int(s.MaxNodes + 1)
	seen := map[string]bool{}
	for i := 0; i < nn; i++ {
		id := g.id(s)
		if s.WellFormed && seen[id] {
			continue
		}
		seen[id] = true
		nl.Nodes = append(nl.Nodes, g.Node(id, s.Richness*g.R.Float64()*2))
	}
	var present []string
	for _, n := range nl.Nodes {
		present = append(present, n.Id)
	}
	endpoint := func() (string, bool) {
		if s.WellFormed || g.Chance(0.7) {
			if len(present) == 0 {
				return "", false
			}
			return Pick(g, present), true
		}
		return g.id(s), true
	}
	ne := g.Int(s.MaxEdges + 1)
	for i := 0; i < ne; i++ {
		from, ok := endpoint()
		if !ok {
			break
		}
		e := &sbom.Edge{Type: g.EdgeType(), From: from}
		nt := 1 + g.Int(3)
		if g.Chance(0.05) {
			nt = 0
		}
		for j := 0; j < nt; j++ {
			to, _ := endpoint()
			e.To = append(e.To, to)
		}
		nl.Edges = append(nl.Edges, e)
	}
	// roots
	for _, id := range present {
		if g.Chance(0.35) {
			nl.RootElements = append(nl.RootElements, id)
		}
	}
	if s.WellFormed && len(nl.RootElements) > 0 && g.Chance(0.08) {
		// a repeated root entry is still "names a present node"
		nl.RootElements = append(nl.RootElements, nl.RootElements[0])
	}
	if !s.WellFormed && g.Chance(0.4) {
		nl.RootElements = append(nl.RootElements, g.id(s))
	}
	g.R.Shuffle(len(nl.RootElements), func(i, j int) {
		nl.RootElements[i], nl.RootElements[j] = nl.RootElements[j], nl.RootElements[i]
	})
	return nl
}

func (s Shape) String() string {
	return fmt.Sprintf("nodes<=%d edges<=%d wf=%v rich=%.2f odd=%.2f", s.MaxNodes, s.MaxEdges, s.WellFormed, s.Richness, s.OddIDs)
}

// Identifiers that look like, but are not, the reader's generated ones ("protobom-" followed by flags
// containing "auto" before the first "--"): a writer must keep them as it keeps any other identifier.
var KeptRefLike = []string{"spring-boot-autoconfigure", "postcss-autoprefixer", "x-auto--y", "lib-auto", "-auto", "auto--1"}

// The same inside the protobom- namespace: minted by the public identifier generator from a name, not by the reader.
var KeptProtobomRefLike = []string{"protobom--autoconf", "protobom-node--gulp-autotest", "protobom--x-auto", "protobom-node--a--b-auto"}

// RenameSome renames up to k random nodes of nl to distinct identifiers drawn from family (nodes,
// edge endpoints and root elements alike). Identifiers already present are not reused.
func (g *G) RenameSome(nl *sbom.NodeList, family []string, k int) int {
	present := map[string]bool{}
	for _, n := range nl.Nodes {
		present[n.Id] = true
	}
	ren := map[string]string{}
	for _, i := range g.R.Perm(len(nl.Nodes)) {
		if len(ren) >= k {
			break
		}
		to := Pick(g, family)
		if present[to] || nl.Nodes[i].Id == "" {
			continue
		}
		if _, dup := ren[nl.Nodes[i].Id]; dup {
			continue
		}
		present[to] = true
		ren[nl.Nodes[i].Id] = to
	}
	sub := func(s string) string {
		if t, ok := ren[s]; ok {
			return t
		}
		return s
	}
	for _, n := range nl.Nodes {
		n.Id = sub(n.Id)
	}
	for _, e := range nl.Edges {
		e.From = sub(e.From)
		for i := range e.To {
			e.To[i] = sub(e.To[i])
		}
	}
	for i := range nl.RootElements {
		nl.RootElements[i] = sub(nl.RootElements[i])
	}
	return len(ren)
}
