package main

import (
	"bytes"
	"fmt"
	"path/filepath"
	"time"

	"github.com/protobom/protobom/pkg/formats"
	"github.com/protobom/protobom/pkg/sbom"
	"github.com/protobom/protobom/pkg/writer"
	"google.golang.org/protobuf/encoding/protojson"
	"google.golang.org/protobuf/proto"

	"verifharness/canon"
	"verifharness/coqfmt"
	"verifharness/gen"
)

func init() { runners["C07"] = runC07 }

var allWriterFormats = []formats.Format{formats.SPDX23JSON, formats.CDX10JSON, formats.CDX11JSON, formats.CDX12JSON, formats.CDX13JSON, formats.CDX14JSON, formats.CDX15JSON}

func docJSON(d *sbom.Document) any {
	if d == nil {
		return nil
	}
	b, err := protojson.Marshal(d)
	if err != nil {
		return map[string]any{"unprintable_as_json": err.Error(), "summary": gen.Describe(d)}
	}
	return rawJSON(b)
}

type serOutcome struct {
	kind string // ok err panic hang
	out  string // canonical JSON
	err  string
}

func serializeOnce(d *sbom.Document, f formats.Format) serOutcome {
	var so serOutcome
	fin, pv := callWithTimeout(10*time.Second, func() {
		var buf bytes.Buffer
		w := writer.New(writer.WithFormat(f))
		err := w.WriteStream(d, nopCloser{&buf})
		if err != nil {
			so = serOutcome{kind: "err", err: err.Error()}
			return
		}
		so = serOutcome{kind: "ok", out: canon.JSON(buf.Bytes())}
	})
	if !fin {
		return serOutcome{kind: "hang"}
	}
	if pv != nil {
		return serOutcome{kind: "panic", err: fmt.Sprint(pv)}
	}
	return so
}

func runC07(seed int64, n int, dir string, tier string) *Report {
	g := gen.New(seed)
	rep := NewReport("C07", seed)
	rep.Rule = "n arbitrary Document values (absent metadata or node list, nil list elements, unknown enum numbers, empty/duplicate identifiers, dangling edges, cycles, no or many roots, document types with absent parts) x 7 registered formats; each serialized, serialized again, and serialized once more after serializing other documents; outputs compared as canonical JSON (timestamps blanked, arrays sorted); non-trivial = document with at least 2 nodes; distinct by hash"
	cf, xs, xc := newXlateCases()
	coqfmt.DropNil = true
	defer func() { coqfmt.DropNil = false }()
	var prev []*sbom.Document
	for i := 0; i < n; i++ {
		d := g.WildDocument()
		if i%10 == 0 {
			d = randomDocument(g) // plain well-formed documents too
		}
		if coqfmt.Lossy(d) {
			// nil elements nested inside nodes (or lists of nil elements only): the oracle below covers
			// them; the model has no value for them
			rep.Count("seams_skipped:nested-nil")
		} else {
			spdxSeams(rep, xs, g, d, "wild")
			cdxSeams(rep, xc, d, "wild", gen.Pick(g, []string{"1.3", "1.4", "1.5"}))
		}
		for _, f := range allWriterFormats {
			rep.OracleEvals++
			before := proto.Clone(d).(*sbom.Document)
			a := serializeOnce(d, f)
			in := map[string]any{"format": string(f), "document": docJSON(before)}
			rep.Count(fmt.Sprintf("%s:%s", shortFmt(f), a.kind))
			switch a.kind {
			case "panic":
				rep.Fail(Failure{What: "a registered serializer panicked", Detail: a.err, Input: in})
				continue
			case "hang":
				rep.Fail(Failure{What: "a registered serializer did not return within 10s", Input: in})
				continue
			}
			// determinism: again, and after other serializations
			b := serializeOnce(d, f)
			for _, p := range prev {
				serializeOnce(p, gen.Pick(g, allWriterFormats))
			}
			c := serializeOnce(d, f)
			if b.kind != a.kind || c.kind != a.kind || b.out != a.out || c.out != a.out {
				rep.Fail(Failure{What: "serializing the same document again gave a different result", Detail: fmt.Sprintf("%s / %s / %s", a.kind, b.kind, c.kind), Input: in})
			}
		}
		prev = append(prev, d)
		if len(prev) > 3 {
			prev = prev[1:]
		}
		rep.NoteCase(fmt.Sprint(i, gen.Describe(d)), d.NodeList != nil && len(d.NodeList.Nodes) >= 2, map[string]any{"document": gen.Describe(d)})
	}
	rep.CasesFiles = cf.Write(filepath.Join(dir, "cases_C07"))
	rep.ShardSize = shardSize
	return rep
}

func shortFmt(f formats.Format) string {
	t, v := f.Type(), f.Version()
	return t + v
}

func serializeRaw(d *sbom.Document, f formats.Format) []byte {
	var out []byte
	fin, pv := callWithTimeout(10*time.Second, func() {
		var buf bytes.Buffer
		if err := writer.New(writer.WithFormat(f)).WriteStream(d, nopCloser{&buf}); err == nil {
			out = buf.Bytes()
		}
	})
	if !fin || pv != nil {
		return nil
	}
	return out
}

func sortStrings(a []string) {
	for i := 1; i < len(a); i++ {
		for j := i; j > 0 && a[j] < a[j-1]; j-- {
			a[j], a[j-1] = a[j-1], a[j]
		}
	}
}
