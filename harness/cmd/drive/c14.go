package main

import (
	"fmt"
	"path/filepath"

	"github.com/protobom/protobom/pkg/sbom"
	"google.golang.org/protobuf/proto"
	"google.golang.org/protobuf/reflect/protoreflect"
	"google.golang.org/protobuf/types/known/timestamppb"

	"verifharness/coqfmt"
	"verifharness/gen"
)

func init() { runners["C14"] = runC14 }

func valIn(fd protoreflect.FieldDescriptor, v protoreflect.Value, l protoreflect.List) bool {
	for i := 0; i < l.Len(); i++ {
		if fd.Kind() == protoreflect.MessageKind {
			// persons and external references are identified the way Node.Equal identifies them: by
			// their flat strings (which tell a person with absent contacts from one with none)
			if sameMessage(v.Message().Interface(), l.Get(i).Message().Interface()) {
				return true
			}
		} else if v.Equal(l.Get(i)) {
			return true
		}
	}
	return false
}

func sameMessage(a, b proto.Message) bool {
	switch x := a.(type) {
	case *sbom.Person:
		// field by field and contact by contact, independently of the library's own rendering of a person
		// (an absent contact list and an empty one are different values here, as they are for Equal)
		if y, ok := b.(*sbom.Person); ok {
			return samePerson(x, y)
		}
	case *sbom.ExternalReference:
		// field by field, independently of the library's own rendering of a reference
		if y, ok := b.(*sbom.ExternalReference); ok {
			if x.Url != y.Url || x.Comment != y.Comment || x.Authority != y.Authority || x.Type != y.Type || len(x.Hashes) != len(y.Hashes) {
				return false
			}
			for k, v := range x.Hashes {
				if w, ok := y.Hashes[k]; !ok || w != v {
					return false
				}
			}
			return true
		}
	}
	return proto.Equal(a, b)
}

func samePerson(x, y *sbom.Person) bool {
	if x == nil || y == nil {
		return x == y
	}
	if x.Name != y.Name || x.IsOrg != y.IsOrg || x.Email != y.Email || x.Url != y.Url || x.Phone != y.Phone {
		return false
	}
	if (x.Contacts == nil) != (y.Contacts == nil) || len(x.Contacts) != len(y.Contacts) {
		return false
	}
	for i := range x.Contacts {
		if !samePerson(x.Contacts[i], y.Contacts[i]) {
			return false
		}
	}
	return true
}

func unixOf(m protoreflect.Message, fd protoreflect.FieldDescriptor) (int64, bool) {
	if !m.Has(fd) {
		return 0, false
	}
	return m.Get(fd).Message().Interface().(*timestamppb.Timestamp).AsTime().Unix(), true
}

// sameAttr: the attribute fd has the same content in a and b (sets for lists and maps, seconds for dates).
func sameAttr(fd protoreflect.FieldDescriptor, a, b protoreflect.Message) bool {
	switch {
	case fd.IsMap():
		ma, mb := a.Get(fd).Map(), b.Get(fd).Map()
		if ma.Len() != mb.Len() {
			return false
		}
		same := true
		ma.Range(func(k protoreflect.MapKey, v protoreflect.Value) bool {
			if !mb.Has(k) || mb.Get(k).String() != v.String() {
				same = false
			}
			return same
		})
		return same
	case fd.IsList():
		la, lb := a.Get(fd).List(), b.Get(fd).List()
		for i := 0; i < la.Len(); i++ {
			if !valIn(fd, la.Get(i), lb) {
				return false
			}
		}
		for i := 0; i < lb.Len(); i++ {
			if !valIn(fd, lb.Get(i), la) {
				return false
			}
		}
		return true
	case fd.Kind() == protoreflect.MessageKind: // timestamp
		ua, oka := unixOf(a, fd)
		ub, okb := unixOf(b, fd)
		return oka == okb && ua == ub
	default:
		return a.Get(fd).Equal(b.Get(fd))
	}
}

// rebuild applies the reported additions and removals to a copy of a, attribute by attribute.
func rebuild(a *sbom.Node, d *sbom.NodeDiff) *sbom.Node {
	out := cloneNode(a) // proto.Clone alone turns an empty contact list into an absent one
	o, ad, rm := out.ProtoReflect(), d.Added.ProtoReflect(), d.Removed.ProtoReflect()
	fds := o.Descriptor().Fields()
	for i := 0; i < fds.Len(); i++ {
		fd := fds.Get(i)
		switch {
		case fd.IsMap():
			m := o.Mutable(fd).Map()
			rm.Get(fd).Map().Range(func(k protoreflect.MapKey, _ protoreflect.Value) bool { m.Clear(k); return true })
			ad.Get(fd).Map().Range(func(k protoreflect.MapKey, v protoreflect.Value) bool { m.Set(k, v); return true })
		case fd.IsList():
			old := o.Get(fd).List()
			var keep []protoreflect.Value
			for j := 0; j < old.Len(); j++ {
				if !valIn(fd, old.Get(j), rm.Get(fd).List()) {
					keep = append(keep, old.Get(j))
				}
			}
			al := ad.Get(fd).List()
			for j := 0; j < al.Len(); j++ {
				keep = append(keep, al.Get(j))
			}
			o.Clear(fd)
			nl := o.Mutable(fd).List()
			for _, v := range keep {
				nl.Append(v)
			}
		case fd.Kind() == protoreflect.MessageKind:
			if ad.Has(fd) {
				o.Set(fd, ad.Get(fd))
			} else if rm.Has(fd) {
				o.Clear(fd)
			}
		case fd.Kind() == protoreflect.EnumKind:
			if ad.Get(fd).Enum() != rm.Get(fd).Enum() {
				o.Set(fd, ad.Get(fd))
			}
		default: // strings
			if ad.Get(fd).String() != "" {
				o.Set(fd, ad.Get(fd))
			} else if rm.Get(fd).String() != "" {
				o.Clear(fd)
			}
		}
	}
	return out
}

func runC14(seed int64, n int, dir string, tier string) *Report {
	g := gen.New(seed)
	rep := NewReport("C14", seed)
	rep.Rule = "n rounds; each: a random node a (all schema fields, duplicates in lists, nested persons, external references with hashes) diffed against (i) itself, (ii) a copy with 1..4 attributes changed by reflection over the schema, (iii) a copy with collections reordered, (iv) an unrelated node, (v) an empty node, in both directions; non-trivial = the pair differs in at least one attribute; distinct by hash"
	cf := &CasesFile{Imports: "Model.Base Model.Graph Model.Diff Corr.CheckC14", Type: "case14", Eval: "mismatches"}
	empty := &sbom.Node{}
	check := func(a, b *sbom.Node, kind string) {
		d := a.Diff(b)
		isnil := d == nil
		added, removed, cnt := empty, empty, 0
		if d != nil {
			added, removed, cnt = d.Added, d.Removed, d.DiffCount
		}
		c := fmt.Sprintf("(mk_case14 %s %s %s %s %s %d)", coqfmt.Node(a), coqfmt.Node(b), coqfmt.Bool(isnil), coqfmt.Node(added), coqfmt.Node(removed), cnt)
		cf.Add(c)
		in := map[string]any{"kind": kind, "a": nodeJSON(a), "b": nodeJSON(b), "diff_nil": isnil, "added": nodeJSON(added), "removed": nodeJSON(removed), "count": cnt}
		// ---- oracle -------------------------------------------------------------------
		rep.OracleEvals++
		fds := a.ProtoReflect().Descriptor().Fields()
		differing := 0
		for i := 0; i < fds.Len(); i++ {
			if !sameAttr(fds.Get(i), a.ProtoReflect(), b.ProtoReflect()) {
				differing++
			}
		}
		rep.NoteCase(c, differing > 0, in)
		rep.Count("pair=" + kind)
		finder := ""
		if hasSeparator(a.VerifFlatString()) || hasSeparator(b.VerifFlatString()) {
			finder = "flat_separator_collision"
		}
		if isnil != (differing == 0) {
			rep.Fail(Failure{What: "Node.Diff reports a difference although no attribute differs, or none although one does", Detail: fmt.Sprintf("diff nil=%v, attributes differing=%d", isnil, differing), Input: in, Finder: finderIfPersonish(finder, a, b)})
			return
		}
		if cnt != differing {
			rep.Fail(Failure{What: "Node.Diff does not count each differing attribute once", Detail: fmt.Sprintf("DiffCount=%d, attributes differing=%d", cnt, differing), Input: in, Finder: finderIfPersonish(finder, a, b)})
		}
		if d != nil {
			rb := rebuild(a, d)
			for i := 0; i < fds.Len(); i++ {
				if !sameAttr(fds.Get(i), rb.ProtoReflect(), b.ProtoReflect()) {
					rep.Fail(Failure{What: "the reported additions and removals do not rebuild the second node's attributes", Detail: "attribute " + string(fds.Get(i).Name()), Input: in, Finder: finderIfPersonish(finder, a, b)})
					break
				}
			}
		}
	}
	for i := 0; i < n; i++ {
		rich := 0.1 + 0.85*g.R.Float64()
		a := g.Node(gen.Pick(g, gen.IDPool), rich)
		check(a, a, "self")
		check(a, cloneNode(a), "copy")
		m := cloneNode(a)
		for k := 1 + g.Int(4); k > 0; k-- {
			g.MutateOne(m.ProtoReflect())
		}
		check(a, m, "mutated")
		check(m, a, "mutated-reverse")
		sh := cloneNode(a)
		g.ShuffleSets(sh.ProtoReflect())
		check(a, sh, "reordered")
		o := g.Node(gen.Pick(g, gen.IDPool), rich)
		check(a, o, "unrelated")
		if len(a.ExternalReferences) > 0 {
			// the same text moved from one field of a reference to another: still a different reference
			mv := cloneNode(a)
			x := mv.ExternalReferences[g.Int(len(mv.ExternalReferences))]
			switch {
			case x.Comment != "" && x.Authority == "":
				x.Authority, x.Comment = x.Comment, ""
			case x.Authority != "" && x.Comment == "":
				x.Comment, x.Authority = x.Authority, ""
			case x.Comment != x.Authority:
				x.Comment, x.Authority = x.Authority, x.Comment
			default:
				x.Authority = x.Url
			}
			check(a, mv, "extref-field-moved")
			check(mv, a, "extref-field-moved-reverse")
		}
		if i%6 == 0 {
			// every single-attribute change, at every nesting level (contacts of contacts included)
			pts := gen.MutationPoints(a.ProtoReflect())
			for k := 0; k < pts; k++ {
				mk := cloneNode(a)
				gen.MutateAt(mk.ProtoReflect(), k)
				check(a, mk, "one-point-changed")
			}
		}
		if i%4 == 0 {
			check(a, &sbom.Node{}, "to-empty")
			check(&sbom.Node{}, a, "from-empty")
		}
		if i%5 == 0 {
			t := cloneNode(a)
			if t.Type == sbom.Node_FILE {
				t.Type = sbom.Node_PACKAGE
			} else {
				t.Type = sbom.Node_FILE
			}
			check(a, t, "kind-changed")
		}
	}
	rep.CasesFiles = cf.Write(filepath.Join(dir, "cases_C14"))
	rep.ShardSize = shardSize
	return rep
}

// The separator-collision finding (K1) can only explain a diff anomaly in attributes that are
// keyed by a flat string: persons and external references.
func finderIfPersonish(finder string, a, b *sbom.Node) string {
	if finder == "" {
		return ""
	}
	if len(a.Suppliers)+len(a.Originators)+len(a.ExternalReferences)+len(b.Suppliers)+len(b.Originators)+len(b.ExternalReferences) == 0 {
		return ""
	}
	return finder
}
