(* Base definitions shared by every model file: byte strings, membership, the result type.
   Definitions only; proofs live under Proofs/. *)
From Coq Require Export String ZArith List Bool Ascii.
From Coq Require Import Decimal DecimalString.
From Verif Require Export Gen.Schema.
Export ListNotations.
Open Scope string_scope.
Open Scope Z_scope.

(* strings the harness cannot print as a literal come as byte lists *)
Definition bs (l : list Z) : string :=
  string_of_list_ascii (map (fun z => ascii_of_N (Z.to_N z)) l).

(* Go's strconv / %d for integers *)
Definition dec (z : Z) : string := NilZero.string_of_int (Z.to_int z).

(* outcome of an operation that can fail in Go *)
Inductive result (A : Type) :=
  | Ok (a : A)      (* returned a value (and a nil error) *)
  | Err             (* returned a non-nil error (or a nil result where documented) *)
  | Panic           (* runtime panic *)
  | Fatal.          (* process exit (logrus.Fatal / os.Exit) *)
Arguments Ok {A} a. Arguments Err {A}. Arguments Panic {A}. Arguments Fatal {A}.

Definition mem (x : string) (l : list string) : bool := existsb (String.eqb x) l.

(* first-occurrence de-duplication *)
Fixpoint dedup (l : list string) : list string :=
  match l with
  | [] => []
  | x :: r => x :: filter (fun y => negb (String.eqb x y)) (dedup r)
  end.

Fixpoint zmem (x : Z) (l : list Z) : bool :=
  match l with [] => false | y :: r => Z.eqb x y || zmem x r end.

(* association lists, as printed by the generator and the harness *)
Fixpoint zassoc {A} (k : Z) (l : list (Z * A)) : option A :=
  match l with
  | [] => None
  | (k', v) :: r => if Z.eqb k k' then Some v else zassoc k r
  end.

Fixpoint sassoc {A} (k : string) (l : list (string * A)) : option A :=
  match l with
  | [] => None
  | (k', v) :: r => if String.eqb k k' then Some v else sassoc k r
  end.

(* protobuf enum String(): the declared name, or the decimal number *)
Definition enum_name (names : list (Z * string)) (z : Z) : string :=
  match zassoc z names with Some s => s | None => dec z end.

(* insertion sort on strings by byte order (Go's sort.Strings) *)
Fixpoint sinsert (x : string) (l : list string) : list string :=
  match l with
  | [] => [x]
  | y :: r => if String.leb x y then x :: l else y :: sinsert x r
  end.
Definition ssort (l : list string) : list string := fold_right sinsert [] l.

Fixpoint zinsert (x : Z) (l : list Z) : list Z :=
  match l with
  | [] => [x]
  | y :: r => if Z.leb x y then x :: l else y :: zinsert x r
  end.
Definition zsort (l : list Z) : list Z := fold_right zinsert [] l.

Definition strs_eqb := list_eqb String.eqb.

Definition join (sep : string) : list string -> string :=
  fix go l :=
    match l with
    | [] => ""
    | [x] => x
    | x :: r => x ++ sep ++ go r
    end.
