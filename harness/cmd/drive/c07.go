package main

import (
	"bytes"
	"context"
	"fmt"
	"os"
	"os/exec"
	"path/filepath"
	"strings"
	"time"

	"github.com/protobom/protobom/pkg/formats"
	"github.com/protobom/protobom/pkg/sbom"
	"github.com/protobom/protobom/pkg/writer"
	"google.golang.org/protobuf/encoding/protojson"
	"google.golang.org/protobuf/proto"

	"verifharness/canon"
	"verifharness/coqfmt"
	"verifharness/gen"
)

func init() { runners["C07"] = runC07 }

var allWriterFormats = []formats.Format{formats.SPDX23JSON, formats.CDX10JSON, formats.CDX11JSON, formats.CDX12JSON, formats.CDX13JSON, formats.CDX14JSON, formats.CDX15JSON}

func docJSON(d *sbom.Document) any {
	if d == nil {
		return nil
	}
	b, err := protojson.Marshal(d)
	if err != nil {
		return map[string]any{"unprintable_as_json": err.Error(), "summary": gen.Describe(d)}
	}
	return rawJSON(b)
}

type serOutcome struct {
	kind string // ok err panic hang
	out  string // canonical JSON
	err  string
}

func serializeOnce(d *sbom.Document, f formats.Format) serOutcome {
	var so serOutcome
	fin, pv := callWithTimeout(10*time.Second, func() {
		var buf bytes.Buffer
		w := writer.New(writer.WithFormat(f))
		err := w.WriteStream(d, nopCloser{&buf})
		if err != nil {
			so = serOutcome{kind: "err", err: err.Error()}
			return
		}
		so = serOutcome{kind: "ok", out: canon.JSON(buf.Bytes())}
	})
	if !fin {
		return serOutcome{kind: "hang"}
	}
	if pv != nil {
		return serOutcome{kind: "panic", err: fmt.Sprint(pv)}
	}
	return so
}

// failAfter accepts n bytes and then fails every write.
type failAfter struct{ n int }

func (w *failAfter) Write(p []byte) (int, error) {
	if len(p) <= w.n {
		w.n -= len(p)
		return len(p), nil
	}
	k := w.n
	w.n = 0
	return k, fmt.Errorf("no space left on device")
}
func (w *failAfter) Close() error { return nil }

func writeToFailingStream(d *sbom.Document, f formats.Format, n int) {
	callWithTimeout(10*time.Second, func() {
		_ = writer.New(writer.WithFormat(f)).WriteStream(d, &failAfter{n: n})
	})
}

func runC07(seed int64, n int, dir string, tier string) *Report {
	g := gen.New(seed)
	rep := NewReport("C07", seed)
	rep.Rule = "n arbitrary Document values (absent metadata or node list, nil list elements, unknown enum numbers, empty/duplicate identifiers, dangling edges, cycles, no or many roots, document types with absent parts) x 7 registered formats; each serialized, serialized again, and serialized once more after serializing other documents and after writes to streams that fail half way; outputs compared as canonical JSON (timestamps blanked, arrays sorted); plus documents with containment and dependency cycles of eight shapes serialized in a child process (runaway recursion ends a process); non-trivial = document with at least 2 nodes; distinct by hash"
	cf, xs, xc := newXlateCases()
	coqfmt.DropNil = true
	defer func() { coqfmt.DropNil = false }()
	var prev []*sbom.Document
	// identifiers that resemble the reader's generated ones: each as a non-root node of a two-node document
	refLike := append(append([]string{"protobom--libfoo", "protobom-", "protobom", "protobom---x", "protobom-auto", "protobom-auto--", "protobom-x-auto--1", "protobom-auto--000000001"}, gen.KeptRefLike...), gen.KeptProtobomRefLike...)
	var fixed []*sbom.Document
	for _, id := range refLike {
		d := sbom.NewDocument()
		d.Metadata.Id = "urn:uuid:reflike"
		d.NodeList.Nodes = []*sbom.Node{{Id: "root", Name: "root", Type: sbom.Node_PACKAGE}, {Id: id, Name: "n", Version: "1", Type: sbom.Node_PACKAGE}}
		d.NodeList.RootElements = []string{"root"}
		d.NodeList.Edges = []*sbom.Edge{{Type: sbom.Edge_contains, From: "root", To: []string{id}}}
		fixed = append(fixed, d)
	}
	// attributes of which a node can carry several that compete for one output field: which one is written
	// must not depend on the order a map happens to be walked in
	{
		d := sbom.NewDocument()
		d.Metadata.Id = "urn:uuid:competing"
		d.NodeList.Nodes = []*sbom.Node{{Id: "root", Name: "root", Type: sbom.Node_PACKAGE,
			Identifiers: map[int32]string{int32(sbom.SoftwareIdentifierType_CPE22): "cpe:/a:x:y:1", int32(sbom.SoftwareIdentifierType_CPE23): "cpe:2.3:a:x:y:1:*:*:*:*:*:*:*", int32(sbom.SoftwareIdentifierType_PURL): "pkg:npm/y@1", int32(sbom.SoftwareIdentifierType_GITOID): "gitoid:blob:sha1:aa"}},
			{Id: "n", Name: "n", Version: "1", Type: sbom.Node_PACKAGE,
				Identifiers:    map[int32]string{int32(sbom.SoftwareIdentifierType_CPE22): "cpe:/a:x:n:1", int32(sbom.SoftwareIdentifierType_CPE23): "cpe:2.3:a:x:n:1:*:*:*:*:*:*:*"},
				Hashes:         map[int32]string{int32(sbom.HashAlgorithm_SHA1): "aa", int32(sbom.HashAlgorithm_SHA256): "bb", int32(sbom.HashAlgorithm_MD5): "cc"},
				PrimaryPurpose: []sbom.Purpose{sbom.Purpose_LIBRARY, sbom.Purpose_APPLICATION, sbom.Purpose_FRAMEWORK},
				Licenses:       []string{"MIT", "Apache-2.0"}}}
		d.NodeList.Nodes = append(d.NodeList.Nodes, &sbom.Node{Id: "m", Name: "m", Type: sbom.Node_PACKAGE}, &sbom.Node{Id: "k", Name: "k", Type: sbom.Node_PACKAGE})
		d.NodeList.RootElements = []string{"root"}
		// a dependency edge that repeats a target before naming others (what RelateNodeAtID leaves behind)
		d.NodeList.Edges = []*sbom.Edge{{Type: sbom.Edge_contains, From: "root", To: []string{"n", "m", "k"}},
			{Type: sbom.Edge_dependsOn, From: "n", To: []string{"m", "m", "k", "m", "root"}}}
		before := map[formats.Format]serOutcome{}
		for _, f := range allWriterFormats {
			before[f] = serializeOnce(d, f)
		}
		for _, f := range allWriterFormats {
			if now := serializeOnce(d, f); now.kind != before[f].kind || now.out != before[f].out {
				rep.Fail(Failure{What: "serializing the same document again gave a different result", Detail: "after the document had been serialized in the other formats (a dependency edge with a repeated target)", Input: map[string]any{"format": string(f), "document": docJSON(d)}})
			}
		}
		for _, f := range allWriterFormats {
			first := serializeOnce(d, f)
			rep.OracleEvals++
			for k := 0; k < 12; k++ {
				if again := serializeOnce(d, f); again.kind != first.kind || again.out != first.out {
					rep.Fail(Failure{What: "serializing the same document again gave a different result", Detail: fmt.Sprintf("serialization %d differs from the first (a node with several identifiers, hashes and purposes)", k+2), Input: map[string]any{"format": string(f), "document": docJSON(d)}})
					break
				}
			}
		}
	}
	// containment cycles that nothing enters from the root or from a top-level component: every member is
	// written once, and which of them ends up on top, with whom nested under whom, is the same in every run
	{
		d := sbom.NewDocument()
		d.Metadata.Id = "urn:uuid:rings"
		for _, id := range []string{"root", "ring-a", "ring-b", "tri-c", "tri-d", "tri-e", "plain"} {
			d.NodeList.Nodes = append(d.NodeList.Nodes, &sbom.Node{Id: id, Name: id, Version: "1", Type: sbom.Node_PACKAGE})
		}
		d.NodeList.RootElements = []string{"root"}
		d.NodeList.Edges = []*sbom.Edge{{Type: sbom.Edge_contains, From: "root", To: []string{"plain"}},
			{Type: sbom.Edge_contains, From: "ring-a", To: []string{"ring-b"}}, {Type: sbom.Edge_contains, From: "ring-b", To: []string{"ring-a"}},
			{Type: sbom.Edge_contains, From: "tri-c", To: []string{"tri-d"}}, {Type: sbom.Edge_contains, From: "tri-d", To: []string{"tri-e"}}, {Type: sbom.Edge_contains, From: "tri-e", To: []string{"tri-c"}}}
		for _, f := range allWriterFormats {
			first := serializeOnce(d, f)
			rep.OracleEvals++
			for k := 0; k < 24; k++ {
				if again := serializeOnce(d, f); again.kind != first.kind || again.out != first.out {
					rep.Fail(Failure{What: "serializing the same document again gave a different result", Detail: fmt.Sprintf("serialization %d differs from the first (containment cycles not reachable from the root)", k+2), Input: map[string]any{"format": string(f), "document": docJSON(d)}})
					break
				}
			}
		}
	}
	// one per-call options value (no format of its own) handed to writers of different formats in turn:
	// each writes its own format, whatever the value was used for before
	{
		d := randomDocument(g)
		if len(d.NodeList.RootElements) > 1 {
			d.NodeList.RootElements = d.NodeList.RootElements[:1]
		}
		shared := &writer.Options{}
		for _, f := range []formats.Format{formats.CDX15JSON, formats.SPDX23JSON, formats.CDX14JSON, formats.SPDX23JSON, formats.CDX15JSON} {
			want := serializeOnce(d, f)
			var buf bytes.Buffer
			err := writer.New(writer.WithFormat(f)).WriteStreamWithOptions(d, nopCloser{&buf}, shared)
			rep.OracleEvals++
			got := serOutcome{kind: "ok", out: canon.JSON(buf.Bytes())}
			if err != nil {
				got = serOutcome{kind: "err"}
			}
			if got.kind != want.kind || (got.kind == "ok" && got.out != want.out) {
				rep.Fail(Failure{What: "serializing the same document again gave a different result", Detail: "with a per-call options value that an earlier write, by a writer of another format, had been given", Input: map[string]any{"format": string(f), "document": docJSON(d)}})
			}
		}
	}
	for i := 0; i < n+len(fixed); i++ {
		var d *sbom.Document
		if i >= n {
			d = fixed[i-n]
		} else {
			d = g.WildDocument()
		}
		if i < n && i%10 == 0 {
			d = randomDocument(g) // plain well-formed documents too
		}
		if i < n && i%5 == 1 {
			// well-formed documents whose identifiers resemble the reader's generated ones in every way short of
			// being one: with and without the protobom- prefix, with no flag, with "auto" after the separator
			d = randomDocument(g)
			fam := append([]string{"protobom--libfoo", "protobom-", "protobom", "protobom---x", "protobom-auto", "protobom-auto--", "protobom-x-auto--1"}, gen.KeptProtobomRefLike...)
			if i%10 == 6 {
				fam = append(fam, gen.KeptRefLike...)
			}
			if len(d.NodeList.RootElements) > 1 {
				d.NodeList.RootElements = d.NodeList.RootElements[:1] // one root: the CycloneDX serializers go all the way
			}
			g.RenameSome(d.NodeList, fam, 2+g.Int(3))
		}
		if coqfmt.Lossy(d) {
			// nil elements nested inside nodes (or lists of nil elements only): the oracle below covers
			// them; the model has no value for them
			rep.Count("seams_skipped:nested-nil")
		} else {
			spdxSeams(rep, xs, g, d, "wild")
			cdxSeams(rep, xc, d, "wild", gen.Pick(g, []string{"1.3", "1.4", "1.5"}))
		}
		firstOut := map[formats.Format]serOutcome{}
		for pass := 0; pass < 2; pass++ {
			if pass == 1 {
				// every format again after all the others have seen the document: what one serializer does to
				// the document must not show in another's output
				for _, f := range allWriterFormats {
					if was, ok := firstOut[f]; ok {
						if now := serializeOnce(d, f); now.kind != was.kind || now.out != was.out {
							rep.Fail(Failure{What: "serializing the same document again gave a different result", Detail: "after the document had been serialized in the other formats", Input: map[string]any{"format": string(f), "document": docJSON(d)}})
						}
					}
				}
				break
			}
			for _, f := range allWriterFormats {
				rep.OracleEvals++
				before := proto.Clone(d).(*sbom.Document)
				a := serializeOnce(d, f)
				firstOut[f] = a
				in := map[string]any{"format": string(f), "document": docJSON(before)}
				rep.Count(fmt.Sprintf("%s:%s", shortFmt(f), a.kind))
				switch a.kind {
				case "panic":
					rep.Fail(Failure{What: "a registered serializer panicked", Detail: a.err, Input: in})
					continue
				case "hang":
					rep.Fail(Failure{What: "a registered serializer did not return within 10s", Input: in})
					continue
				}
				// determinism: again, and after other serializations
				b := serializeOnce(d, f)
				for _, p := range prev {
					serializeOnce(p, gen.Pick(g, allWriterFormats))
					// a write that fails half way (full disk, closed pipe) is part of "whatever was serialized before"
					writeToFailingStream(p, gen.Pick(g, allWriterFormats), 1+g.Int(400))
				}
				writeToFailingStream(d, f, 1+g.Int(200))
				c := serializeOnce(d, f)
				if b.kind != a.kind || c.kind != a.kind || b.out != a.out || c.out != a.out {
					rep.Fail(Failure{What: "serializing the same document again gave a different result", Detail: fmt.Sprintf("%s / %s / %s", a.kind, b.kind, c.kind), Input: in})
				}
			}
		}
		prev = append(prev, d)
		if len(prev) > 3 {
			prev = prev[1:]
		}
		rep.NoteInput(fmt.Sprint(i, gen.Describe(d)), d.NodeList != nil && len(d.NodeList.Nodes) >= 2, map[string]any{"document": gen.Describe(d)})
	}
	// ---- cycles: documents a serializer accepts (one root, closed edges) whose containment or
	// dependency edges form cycles of every kind; serialized in a child process, because runaway
	// recursion ends the process instead of panicking
	exe, _ := os.Executable()
	child := filepath.Join(filepath.Dir(exe), "serchild")
	if _, err := os.Stat(child); err != nil {
		rep.Notes = append(rep.Notes, "serchild not built: cycle documents skipped")
	} else {
		tmp, _ := os.MkdirTemp("", "verif-c07-")
		defer os.RemoveAll(tmp)
		for i := 0; i < n/3+8; i++ {
			d := cyclicDocument(g, i)
			raw, _ := proto.Marshal(d)
			f := filepath.Join(tmp, fmt.Sprintf("d%d.pb", i))
			_ = os.WriteFile(f, raw, 0o644)
			survived := true
			for _, fm := range []formats.Format{formats.CDX15JSON, formats.CDX13JSON, formats.SPDX23JSON} {
				ctx, cancel := context.WithTimeout(context.Background(), 20*time.Second)
				cmd := exec.CommandContext(ctx, child, f, string(fm))
				var so, se bytes.Buffer
				cmd.Stdout, cmd.Stderr = &so, &se
				err := cmd.Run()
				cancel()
				rep.OracleEvals++
				out := strings.TrimSpace(so.String())
				kind := strings.SplitN(out+" ", " ", 2)[0]
				rep.Count("cycle-doc:" + shortFmt(fm) + ":" + kind)
				in := map[string]any{"format": string(fm), "document": docJSON(d), "shape": cycleShapes[i%len(cycleShapes)]}
				if err != nil || (kind != "ok" && kind != "err") {
					msg := se.String()
					if len(msg) > 600 {
						msg = msg[:600]
					}
					rep.Fail(Failure{What: "a registered serializer panicked, hung or terminated the process on a document with cyclic edges", Detail: fmt.Sprintf("%v %s %s", err, out, msg), Input: in})
					survived = false
				}
			}
			if survived {
				// the model's nesting on the same cycles (in-process only once the child has survived)
				spdxSeams(rep, xs, g, d, "cycle")
				cdxSeams(rep, xc, d, "cycle", "1.5")
			}
		}
	}
	rep.CasesFiles = cf.Write(filepath.Join(dir, "cases_C07"))
	rep.ShardSize = shardSize
	return rep
}

var cycleShapes = []string{"two-cycle among non-root nodes", "three-cycle among non-root nodes", "self loop", "cycle through the root", "cycle entered from the root's child", "cycle not reachable from the root", "dependency cycle", "two disjoint cycles"}

// cyclicDocument: one root r, nodes a..e, every edge endpoint a node; shape i of cycleShapes.
func cyclicDocument(g *gen.G, i int) *sbom.Document {
	d := sbom.NewDocument()
	d.Metadata.Id, d.Metadata.Name = "urn:uuid:cycle", "cycle"
	for _, id := range []string{"r", "a", "b", "c", "d", "e"} {
		d.NodeList.Nodes = append(d.NodeList.Nodes, &sbom.Node{Id: id, Name: id, PrimaryPurpose: []sbom.Purpose{sbom.Purpose_LIBRARY}})
	}
	d.NodeList.RootElements = []string{"r"}
	ce := func(t sbom.Edge_Type, from string, to ...string) {
		d.NodeList.Edges = append(d.NodeList.Edges, &sbom.Edge{Type: t, From: from, To: to})
	}
	c := sbom.Edge_contains
	switch i % len(cycleShapes) {
	case 0:
		ce(c, "a", "b")
		ce(c, "b", "a")
	case 1:
		ce(c, "a", "b")
		ce(c, "b", "c")
		ce(c, "c", "a")
	case 2:
		ce(c, "a", "a")
		ce(c, "r", "a")
	case 3:
		ce(c, "r", "a")
		ce(c, "a", "r")
	case 4:
		ce(c, "r", "a")
		ce(c, "a", "b")
		ce(c, "b", "c")
		ce(c, "c", "b")
	case 5:
		ce(c, "r", "e")
		ce(c, "c", "d")
		ce(c, "d", "c")
	case 6:
		ce(sbom.Edge_dependsOn, "a", "b")
		ce(sbom.Edge_dependsOn, "b", "a")
		ce(c, "r", "a", "b")
	default:
		ce(c, "a", "b")
		ce(c, "b", "a")
		ce(c, "c", "d")
		ce(c, "d", "e")
		ce(c, "e", "c")
	}
	// stored order and extra edges vary
	g.R.Shuffle(len(d.NodeList.Edges), func(x, y int) { d.NodeList.Edges[x], d.NodeList.Edges[y] = d.NodeList.Edges[y], d.NodeList.Edges[x] })
	if g.Chance(0.4) {
		ce(c, "r", gen.Pick(g, []string{"a", "b", "c", "d", "e"}))
	}
	return d
}

func shortFmt(f formats.Format) string {
	t, v := f.Type(), f.Version()
	return t + v
}

func serializeRaw(d *sbom.Document, f formats.Format) []byte {
	var out []byte
	fin, pv := callWithTimeout(10*time.Second, func() {
		var buf bytes.Buffer
		if err := writer.New(writer.WithFormat(f)).WriteStream(d, nopCloser{&buf}); err == nil {
			out = buf.Bytes()
		}
	})
	if !fin || pv != nil {
		return nil
	}
	return out
}

func sortStrings(a []string) {
	for i := 1; i < len(a); i++ {
		for j := i; j > 0 && a[j] < a[j-1]; j-- {
			a[j], a[j-1] = a[j-1], a[j]
		}
	}
}
