package main

import (
	"fmt"
	"go/ast"
	"go/parser"
	"go/token"
	"os"
	"sort"
	"strings"
)

// Operand writes (C11). For every function and method of the graph package and of the serializers this
// records, per "root" (root 0 is the receiver, root i the i-th parameter; only roots through which the
// caller's value can be reached: pointers, slices, maps, interfaces and named types), where the body
//   - stores through the root (assigns to a field, an element or a map entry reached from it, increments
//     one, deletes a map entry, sorts, reverses, copies into or merges into something reached from it), or
//   - hands something reached from the root on to another function or method of these packages, and as
//     which of the callee's roots.
//
// Locals initialised from something reached from a root (x := n.Hashes; for _, e := range nl.Edges; the
// result of a method called on it, other than Copy) carry the root with them. A dereferenced copy
// (x := *n) does not. Callees are resolved by name within the analysed packages.
type opFunc struct {
	name   string   // Type.Method or function name, prefixed with the package
	short  string   // method or function name only
	roots  []string // names, index 0 = receiver ("" when none)
	body   *ast.BlockStmt
	export bool
}

var mutatingCalls = map[string]int{ // external functions that write their n-th argument (0-based)
	"sort.Strings": 0, "sort.Ints": 0, "sort.Slice": 0, "sort.SliceStable": 0, "sort.Sort": 0, "sort.Stable": 0, "sort.Float64s": 0,
	"slices.Sort": 0, "slices.SortFunc": 0, "slices.SortStableFunc": 0, "slices.Reverse": 0,
	"proto.Merge": 0, "proto.Reset": 0, "maps.Copy": 0, "maps.DeleteFunc": 0,
	"copy": 0, "delete": 0, "clear": 0,
}

func refLikeType(e ast.Expr) bool {
	switch x := e.(type) {
	case *ast.StarExpr, *ast.ArrayType, *ast.MapType, *ast.InterfaceType, *ast.Ellipsis, *ast.SelectorExpr:
		return true
	case *ast.Ident:
		switch x.Name {
		case "string", "bool", "int", "int32", "int64", "uint", "uint32", "uint64", "float64", "byte", "rune", "error":
			return false
		}
		return true
	}
	return false
}

func opWrites(dirs map[string]string) (writes, calls, funcs []string) {
	fset := token.NewFileSet()
	var fns []*opFunc
	byShort := map[string][]*opFunc{}
	for pk, dir := range dirs {
		pkgs, err := parser.ParseDir(fset, dir, func(fi os.FileInfo) bool {
			n := fi.Name()
			return !strings.HasSuffix(n, "_test.go") && !strings.HasSuffix(n, "_verif.go") && !strings.HasSuffix(n, ".pb.go")
		}, 0)
		if err != nil {
			fail("%v", err)
		}
		for _, p := range pkgs {
			for _, f := range p.Files {
				for _, d := range f.Decls {
					fd, ok := d.(*ast.FuncDecl)
					if !ok || fd.Body == nil {
						continue
					}
					of := &opFunc{short: fd.Name.Name, body: fd.Body, export: fd.Name.IsExported()}
					of.name = pk + "." + fd.Name.Name
					recv := ""
					if fd.Recv != nil && len(fd.Recv.List) == 1 {
						rt := fd.Recv.List[0].Type
						if st, ok := rt.(*ast.StarExpr); ok {
							rt = st.X
						}
						if id, ok := rt.(*ast.Ident); ok {
							of.name = pk + "." + id.Name + "." + fd.Name.Name
							of.export = of.export && id.IsExported()
						}
						if len(fd.Recv.List[0].Names) == 1 {
							recv = fd.Recv.List[0].Names[0].Name
						}
					}
					of.roots = []string{recv}
					for _, fl := range fd.Type.Params.List {
						ref := refLikeType(fl.Type)
						if len(fl.Names) == 0 {
							of.roots = append(of.roots, "")
						}
						for _, nm := range fl.Names {
							if ref && nm.Name != "_" {
								of.roots = append(of.roots, nm.Name)
							} else {
								of.roots = append(of.roots, "")
							}
						}
					}
					fns = append(fns, of)
					byShort[of.short] = append(byShort[of.short], of)
				}
			}
		}
	}
	sort.Slice(fns, func(i, j int) bool { return fns[i].name < fns[j].name })
	seen := map[string]bool{}
	emit := func(dst *[]string, s string) {
		if !seen[s] {
			seen[s] = true
			*dst = append(*dst, s)
		}
	}
	for _, f := range fns {
		taint := map[string]map[int]bool{}
		for i, r := range f.roots {
			if r != "" {
				taint[r] = map[int]bool{i: true}
			}
		}
		// the roots an expression is reached from; top=true: the expression as a whole is assigned or passed
		// (a dereference then yields a copy), top=false: something inside it is stored to
		var rootsOf func(e ast.Expr, top bool) map[int]bool
		rootsOf = func(e ast.Expr, top bool) map[int]bool {
			switch x := e.(type) {
			case *ast.Ident:
				return taint[x.Name]
			case *ast.SelectorExpr:
				return rootsOf(x.X, false)
			case *ast.IndexExpr:
				return rootsOf(x.X, false)
			case *ast.SliceExpr:
				return rootsOf(x.X, top)
			case *ast.ParenExpr:
				return rootsOf(x.X, top)
			case *ast.TypeAssertExpr:
				return rootsOf(x.X, top)
			case *ast.StarExpr:
				if top {
					return nil
				}
				return rootsOf(x.X, false)
			case *ast.UnaryExpr:
				if x.Op == token.AND {
					return rootsOf(x.X, false)
				}
			case *ast.CallExpr:
				if se, ok := x.Fun.(*ast.SelectorExpr); ok && se.Sel.Name != "Copy" {
					return rootsOf(se.X, false)
				}
				if id, ok := x.Fun.(*ast.Ident); ok && id.Name == "append" && len(x.Args) > 0 {
					return rootsOf(x.Args[0], true)
				}
			}
			return nil
		}
		addTaint := func(name string, rs map[int]bool) bool {
			if name == "_" || len(rs) == 0 {
				return false
			}
			ch := false
			if taint[name] == nil {
				taint[name] = map[int]bool{}
			}
			for r := range rs {
				if !taint[name][r] {
					taint[name][r] = true
					ch = true
				}
			}
			return ch
		}
		for changed := true; changed; {
			changed = false
			ast.Inspect(f.body, func(n ast.Node) bool {
				switch x := n.(type) {
				case *ast.AssignStmt:
					if len(x.Lhs) == len(x.Rhs) {
						for i, l := range x.Lhs {
							if id, ok := l.(*ast.Ident); ok {
								if addTaint(id.Name, rootsOf(x.Rhs[i], true)) {
									changed = true
								}
							}
						}
					} else if len(x.Rhs) == 1 {
						if id, ok := x.Lhs[0].(*ast.Ident); ok {
							if addTaint(id.Name, rootsOf(x.Rhs[0], true)) {
								changed = true
							}
						}
					}
				case *ast.ValueSpec:
					if len(x.Names) == len(x.Values) {
						for i, id := range x.Names {
							if addTaint(id.Name, rootsOf(x.Values[i], true)) {
								changed = true
							}
						}
					}
				case *ast.RangeStmt:
					if id, ok := x.Value.(*ast.Ident); ok && x.Value != nil {
						if addTaint(id.Name, rootsOf(x.X, false)) {
							changed = true
						}
					}
				}
				return true
			})
		}
		resliced := map[string]*ast.SliceExpr{}
		ast.Inspect(f.body, func(n ast.Node) bool {
			if as, ok := n.(*ast.AssignStmt); ok && len(as.Lhs) == len(as.Rhs) {
				for i, l := range as.Lhs {
					if id, ok := l.(*ast.Ident); ok {
						if se, ok := as.Rhs[i].(*ast.SliceExpr); ok && se.High != nil && len(rootsOf(se.X, true)) > 0 {
							resliced[id.Name] = se
						}
					}
				}
			}
			return true
		})
		text := func(e ast.Expr) string {
			var b strings.Builder
			var w func(e ast.Expr)
			w = func(e ast.Expr) {
				switch x := e.(type) {
				case *ast.Ident:
					b.WriteString(x.Name)
				case *ast.SelectorExpr:
					w(x.X)
					b.WriteString("." + x.Sel.Name)
				case *ast.IndexExpr:
					w(x.X)
					b.WriteString("[]")
				case *ast.SliceExpr:
					w(x.X)
					b.WriteString("[:]")
				case *ast.StarExpr:
					b.WriteString("*")
					w(x.X)
				case *ast.ParenExpr:
					w(x.X)
				case *ast.CallExpr:
					w(x.Fun)
					b.WriteString("()")
				default:
					b.WriteString("?")
				}
			}
			w(e)
			return b.String()
		}
		store := func(e ast.Expr, how string) {
			if _, ok := e.(*ast.Ident); ok && how != "sorted" && how != "written by a library call" {
				return // rebinding a local or a parameter is not a store through it
			}
			for r := range rootsOf(e, false) {
				emit(&writes, fmt.Sprintf("(\"%s\", %d, \"%s\", \"%s\")", f.name, r, text(e), how))
			}
		}
		ast.Inspect(f.body, func(n ast.Node) bool {
			switch x := n.(type) {
			case *ast.AssignStmt:
				for _, l := range x.Lhs {
					store(l, "assigned")
				}
			case *ast.IncDecStmt:
				store(x.X, "incremented")
			case *ast.RangeStmt:
				for _, l := range []ast.Expr{x.Key, x.Value} {
					if l != nil && x.Tok == token.ASSIGN {
						store(l, "assigned")
					}
				}
			case *ast.CallExpr:
				if id, ok := x.Fun.(*ast.Ident); ok && id.Name == "append" && len(x.Args) > 1 {
					// append(s[:k], ...) writes the elements of s from k on; so does appending to a local
					// that was set to such a re-slice (t := s[:0]; t = append(t, ...))
					a0 := x.Args[0]
					if id0, ok := a0.(*ast.Ident); ok && resliced[id0.Name] != nil {
						a0 = resliced[id0.Name]
					}
					if se, ok := a0.(*ast.SliceExpr); ok && se.High != nil {
						for r := range rootsOf(se.X, true) {
							emit(&writes, fmt.Sprintf("(\"%s\", %d, \"%s\", \"appended over\")", f.name, r, text(se)))
						}
					}
				}
				fname := ""
				var recvExpr ast.Expr
				switch fx := x.Fun.(type) {
				case *ast.Ident:
					fname = fx.Name
				case *ast.SelectorExpr:
					if id, ok := fx.X.(*ast.Ident); ok && taint[id.Name] == nil && (id.Obj == nil) {
						fname = id.Name + "." + fx.Sel.Name // package-qualified call
					}
					if fname == "" {
						recvExpr = fx.X
						fname = fx.Sel.Name
					}
				}
				if k := mutatingCallsIndex(fname); k >= 0 && recvExpr == nil {
					if k < len(x.Args) {
						how := "written by a library call"
						if strings.HasPrefix(fname, "sort.") || strings.HasPrefix(fname, "slices.") {
							how = "sorted"
						}
						store(x.Args[k], how)
					}
					return true
				}
				short := fname
				if i := strings.LastIndex(short, "."); i >= 0 {
					short = short[i+1:]
				}
				qual := ""
				if recvExpr == nil {
					if i := strings.LastIndex(fname, "."); i >= 0 {
						qual = fname[:i] // a package-qualified call: only a function of that analysed package can be meant
					}
				}
				for _, callee := range byShort[short] {
					if qual != "" && !(strings.HasPrefix(callee.name, qual+".") && strings.Count(callee.name, ".") == 1) {
						continue
					}
					hasRecv := callee.roots[0] != "" || strings.Count(callee.name, ".") == 2
					if (recvExpr != nil) != hasRecv {
						// a package-qualified function (sbom.NewNode) or a method: receivers must match up
						if !(recvExpr != nil && !hasRecv) {
							continue
						}
					}
					if recvExpr != nil && hasRecv {
						for r := range rootsOf(recvExpr, false) {
							emit(&calls, fmt.Sprintf("(\"%s\", %d, \"%s\", 0)", f.name, r, callee.name))
						}
					}
					for i, a := range x.Args {
						if i+1 >= len(callee.roots) {
							break
						}
						for r := range rootsOf(a, true) {
							emit(&calls, fmt.Sprintf("(\"%s\", %d, \"%s\", %d)", f.name, r, callee.name, i+1))
						}
					}
				}
			}
			return true
		})
		if f.export {
			for i, r := range f.roots {
				if r != "" {
					funcs = append(funcs, fmt.Sprintf("(\"%s\", %d)", f.name, i))
				}
			}
		}
	}
	sort.Strings(writes)
	sort.Strings(calls)
	return writes, calls, funcs
}

func mutatingCallsIndex(name string) int {
	if k, ok := mutatingCalls[name]; ok {
		return k
	}
	return -1
}
