From Verif Require Import Model.Base Corr.Canon.
Definition case04 := nat.
Definition mismatches (cs : list case04) : list nat := [].
