"""Per-property configuration of bin/check."""

TRUSTED_BASE = [
    "Coq 8.16.1 kernel, including its vm_compute machine (used by finite-table proofs and by the correspondence evaluator); native_compute is not used",
    "no axioms declared; Print Assumptions is re-run under every property theorem on every check (expected: Closed under the global context)",
    "translator harness/cmd/gen: protobuf descriptors -> coq/Gen/Schema.v, exhaustive evaluation of the real enum/string conversion functions -> coq/Gen/Tables.v (regenerated on every run)",
    "correspondence check (differential testing): harness/cmd/drive runs the real implementation, prints inputs and observed results as Coq terms, coqc evaluates the hand-written model on them; its reach is bounded by the generators (distribution recorded)",
    "Go harness itself (generators, printers coqfmt, direct oracles) and the verif-tagged export shims in /repo",
    "no extraction is used",
]

GRAPH_NOTE = "modelled: pkg/sbom/nodelist.go graph operations and pkg/sbom/node.go Update/Augment/Copy as Gallina functions (Model/Graph.v, Model/Node.v); Go map iteration order is abstracted (results compared in canonical order); pointer sharing is not part of this value-level model (see C11/C12)"

PROPS = {
    "C08": dict(
        props_v="Props/C08.v",
        corr_v=["Corr/CheckC08.v"],
        n_quick=110, n_thorough=3000,
        explanation="Theorems: cleanEdges specification and normal form; every editing/extraction operation maps well-formed lists to well-formed lists (induction over arbitrary operation sequences); merge/remove/extract results normalised; RemoveNodes exactness; a pool machine over several live lists (an operation's list argument is another live list or the receiver itself) keeps every list of the pool well-formed over any history and changes only the slot it writes (frame). Tie: one-step refinement of the real NodeList against Model/Graph.v on random single-list histories, on random histories over a pool of three live lists (every live list observed after every step: the written one against the model's step, the others against the frame) and on every history of three (thorough: four) menu operations over two fixed pools (search support; a sample goes to the evaluator). One genuine defect repaired (b355a2b: RelateNodeListAtID shared the argument's root slice).",
        assumptions=[GRAPH_NOTE],
    ),
    "C09": dict(
        props_v="Props/C09.v",
        corr_v=["Corr/CheckC08.v"],
        n_quick=110, n_thorough=3000,
        explanation="Theorems (all operands, ill-formed included): exact characterisation of nodes, roots and edges of Union and Add; idempotence, commutativity, identity on (nodes, roots, edges among present nodes); associativity under edge-closedness (+ refutation witness of the unrestricted statement = known finding K2); attribute precedence for every generated schema field (Union: second wins; Add: receiver wins). Tie: Union/Add observed on random pairs/triples vs Model/Graph.v.",
        assumptions=[GRAPH_NOTE, "attribute rule theorems quantify over operands with unique identifiers (with duplicates the code updates the last indexed node; that behaviour is in the model and in the correspondence, not in the attr theorems)"],
    ),
    "C10": dict(
        props_v="Props/C10.v",
        corr_v=["Corr/CheckC08.v"],
        n_quick=130, n_thorough=3000,
        explanation="Theorems (all operands): nodes = intersection; root and edge containment bounds exactly as stated; idempotence (on nodes, surviving roots, edges among present nodes), commutativity, absorption, emptiness; result always well-formed and normalised; second-operand-wins for every generated schema field. Tie: Intersect observed on random pairs vs Model/Graph.v.",
        assumptions=[GRAPH_NOTE],
    ),
    "C15": dict(
        props_v="Props/C15.v",
        corr_v=["Corr/CheckC08.v"],
        n_quick=70, n_thorough=2500,
        explanation="Theorems (all lists: cyclic, self loops, dangling targets, duplicate ids, any root set; all starts; all depths >= 1): node sets of NodeSiblings/NodeDescendants/NodeGraph = one-hop / depth-bounded / unbounded reachability with the root-boundary rule; edges = the list's edges among returned nodes; start node sole root; monotone in depth; independent of node/edge/root order; the traversal fuel (number of nodes) always suffices (simple-path argument), which is the model-level termination statement. Tie: the three traversals observed on random multigraphs vs Model/Graph.v; oracle = textbook BFS in Go incl. an exhaustive 3-node sweep; calls run under a 5 s watchdog.",
        assumptions=[GRAPH_NOTE, "termination of the Go recursion itself is observed (watchdog), the theorem is about the model's fuel"],
    ),
    "C16": dict(
        props_v="Props/C16.v",
        corr_v=["Corr/CheckC16.v"],
        n_quick=250, n_thorough=4000,
        explanation="Theorems: by id / name / identifier / root membership / purl type return precisely the nodes meeting the criterion (identifier-type spellings from the generated tables); GetMatchingNode equals the documented rule on lists with unique identifiers, never returns a node outside the list (all lists), is sound, and is invariant under every permutation of the node list (unique identifiers; refuted with repeated identifiers = known finding K11). Tie: all six lookups observed on random lists vs Model/Match.v; matching repeated 20x and on shuffled lists.",
        assumptions=[GRAPH_NOTE, "strings.ToLower/TrimSpace are modelled for ASCII (generator uses ASCII spellings)", "Go map iteration order is abstracted: the model iterates in list order and the theorem proves the outcome independent of it"],
    ),
    "C11": dict(
        props_v="Props/C11.v",
        corr_v=["Corr/CheckHeap.v"],
        n_quick=30, n_thorough=600,
        explanation="PARTIAL. Theorems (object-graph model, Model/Heap.v: message structs, slice backing arrays and maps as locations): the copying operations only allocate — every location of the heap the operands live in is unchanged, for every heap and value — hence every snapshot of an operand after the call equals the one before it, and stores into a private result are invisible through a shared operand; a computation that allocates and stores only into its own allocations leaves every earlier snapshot as it was (the discipline of the sorted copies in Equal and flatString). Static tie (translator): the stores made through a receiver or parameter and the calls handing such a value on are extracted from pkg/sbom, pkg/native/serializers and pkg/writer on every run (Gen/Locks.v: operand_writes, operand_calls, operand_roots); Writes is defined inductively over these tables and no chain of calls, however long, leads from one of the 32 comparing, hashing, diffing, copying, look-up, traversing, uniting, intersecting and serializing operations to a store through one of its operands, nor from the writer's entry points to a store through the document they are given, nor from a documented mutator to a store through anything but its receiver. Observed, not proved (aliases through fresh containers, third-party code, reflection are invisible to the table): for every read-only or value-returning public operation (compare, checksum, diff, copy, look-ups, traversals, union, intersect, 7 serializers) the harness records the operands' real object graph by pointer identity before and after the call and the Coq evaluator checks it is the same graph (values order-sensitively, shape, sharing); a race-detector build runs the operations from 16 goroutines on one shared document and compares with sequential results.",
        assumptions=["the comparing/hashing/diffing/look-up/traversal/serializing operations are functions of the operand graph in the value models of C07, C13-C16; that their implementation performs no write is what the before/after observation and the race detector decide", "absence of data races for all interleavings is not a theorem: it follows for operations that do not write, which is observed", "the operand-write extractor (harness/cmd/locks/opwrites.go) is syntactic: callees are resolved by name within pkg/sbom and the serializers, locals carry the roots they were initialised from, third-party functions other than sort.*, slices.Sort*/Reverse, copy, delete, clear, proto.Merge/Reset, maps.Copy/DeleteFunc are assumed not to write their arguments"],
    ),
    "C12": dict(
        props_v="Props/C12.v",
        corr_v=["Corr/CheckHeap.v"],
        n_quick=30, n_thorough=600,
        explanation="Theorems (object-graph model): for every heap and every value, the model's deep copy only extends the heap and no location is reachable both from the copy and from the source (any nesting, any field, lists and maps included); the snapshot of the copy equals the snapshot of the source with the method's nil/empty conventions applied (a copy compares equal to its source), on every well-typed heap; a store to a location a value does not reach leaves every snapshot of it unchanged (so mutating one side never changes the other); later allocations never alter earlier results. Correspondence: Node/Edge/Person/ExternalReference/NodeList Copy against the model's deep copy on the real object graph recorded by pointer identity (same values, same shape, same sharing, including each method's nil/empty conventions; field positions from the generated Go struct table). Union and Intersect: separation of result and operands evaluated on the observed graphs with the same predicate (not modelled on this level), plus histories of two calls sharing a receiver with spare capacity and an overwrite of every mutable part of the later result. Three genuine defects repaired (753edef, caa1ae7, 6d22e2c).",
        assumptions=["Union / Intersect independence is decided on observed graphs, their heap-level assembly is not modelled (partial for those two)", "sub-slice aliasing with different base pointers is not represented (does not occur in the code)"],
    ),
    "C13": dict(
        props_v="Props/C13.v",
        corr_v=["Corr/CheckC13.v"],
        n_quick=110, n_thorough=3000,
        explanation="Theorems: Node/Edge/NodeList equality are equivalence relations; equality <-> checksum equality under injectivity of SHA-256 (premise); invariance under every permutation of set-valued attributes, edge targets, nodes, edges, roots (via: insertion sort is canonical on multisets, with transitivity of the byte order proved); every schema field contributes to the flat string; scalar attributes render injectively; external-reference hashes covered; edge equality is discriminating in full on separator-free values (equal edges have the same source, type name and targets up to order). The unrestricted 'equal only if every attribute equal' is refuted by vm_compute witnesses (K1 separator collisions, K6 shadowed duplicate) and kept visible. Tie: the model's flat strings are compared byte for byte with the implementation's (verif export) on random nodes/edges/persons/external references; oracle mutates one attribute at a time by reflection over the schema.",
        assumptions=["modelled: flatString of Node/Edge/Person/ExternalReference, NodeList.Equal (Model/Flat.v); SHA-256 is a Section variable assumed injective where a theorem says so", "render-level injectivity for collection-valued attributes is NOT proved (false without separator-freeness: K1); covered by the single-attribute mutation oracle only"],
    ),
    "C14": dict(
        props_v="Props/C14.v",
        corr_v=["Corr/CheckC14.v"],
        n_quick=110, n_thorough=3000,
        explanation="Theorems (all ordered pairs of nodes whose maps have unique keys, every generated schema field): Diff of a node with itself is nil; Diff is nil exactly when every attribute has the same content (sets for lists/maps, seconds for dates); each differing attribute contributes exactly one to DiffCount; applying the reported additions and removals to the first node rebuilds the second node's attributes (explicit apply_diff). Tie: Node.Diff observed (Added, Removed, DiffCount) on random pairs vs Model/Diff.v; oracle recomputes sameness, count and reconstruction by reflection over the schema.",
        assumptions=["modelled: pkg/sbom/diff.go (Model/Diff.v); persons and external references are identified by their flat strings, as in the code", "map-valued attributes are association lists with unique keys (premise maps_unique; true of every Go map)"],
    ),
    "C18": dict(
        props_v="Props/C18.v",
        corr_v=["Corr/CheckC18.v"],
        n_quick=150, n_thorough=5000,
        explanation="Theorems (all histories of constructor calls with arbitrary option lists, interleaved with calls): the configuration of the i-th instance equals the library defaults with its own constructor options applied (induction over the history with a heap invariant: instance objects are distinct from each other and from the package-level defaults object); the defaults object is never written; a constructor without options yields the defaults; a per-call option set changes no instance (removing the call from any history leaves every configuration unchanged). Tie: random writer and reader histories against fake drivers that record the options actually used; every live instance's option fields read after every step.",
        assumptions=["modelled: pkg/writer New + options + WriteStream(WithOptions), pkg/reader New + options + ParseStreamWithOptions, as a heap of option objects (Model/Opts.v)", "the fall-back of a per-call option set (format -> instance, render options -> library defaults, format options -> none) is modelled as coded and validated by correspondence; the property does not fix it"],
    ),
    "C19": dict(
        props_v="Props/C19.v",
        corr_v=["Corr/CheckC19.v"],
        n_quick=70, n_thorough=1500,
        explanation="Theorems (all documents, all identifier strings, all directory states, both no-clobber settings; premises: decode(encode d)=d, entry naming injective): store-then-retrieve, key isolation, no-clobber preserves, missing directory created then usable, Retrieve never panics/exits and never returns a document other than the one asked for (absent, unreadable, undecodable, empty or foreign entries give an error), id-less/nil documents are rejected, only hashed names are created, and any sequence of store/retrieve calls refines a map from identifiers to documents (induction). Tie: random histories with hostile identifiers and injected faults, every call in a child process (exit status observable), a third of them as the unprivileged user nobody; oracle: store-then-retrieve, right-document, confinement walk of the scratch tree.",
        assumptions=["modelled: pkg/storage/filesystem.go over an abstract directory state (Model/Store.v); protobuf Marshal/Unmarshal, SHA-256 hex naming and the kernel's permission checks are parameters with stated hypotheses", "real kernel file-system semantics are exercised only by the correspondence"],
    ),
    "C20": dict(
        props_v="Props/C20.v",
        corr_v=["Corr/CheckC20.v"],
        n_quick=6, n_thorough=60,
        explanation="Theorem (every crash prefix and torn write of the modelled call sequence create-temp/write/chmod/fsync/close/rename, first store and overwrite, any un-synced prefix surviving): a later Retrieve of that identifier returns what it returned before the store or the complete new document, and other identifiers are unaffected; listing-level version free of codec assumptions; the in-place write of the unrepaired code is refuted in the same model. Tie (partial: real kernels may reorder more than the model): the real Store's syscalls observed by strace equal the model's call sequence; the Go-enumerated post-crash listings equal Coq's crash_states as sets and each is materialised and read by the real Retrieve in a fresh process; the real process is SIGKILLed at every file-system call index (strace fault injection).",
        assumptions=["crash model: sequential prefixes of the call sequence, torn writes, volatile un-fsynced data (any prefix), atomic rename; reordering beyond that is outside the model", "protobuf codec and entry naming as in C19"],
    ),
    "C06": dict(
        props_v="Props/C06.v",
        corr_v=["Corr/CheckC06.v"],
        n_quick=50, n_thorough=1500,
        explanation="Theorems: the declaration the real writer emits for SPDX 2.3 and CycloneDX 1.3/1.4/1.5 JSON (table regenerated from the writer on every run) is detected as exactly that format; a format is reported only when the top-level declaration states its type and version, and the reported constant's Type/Version/Encoding accessors (generated from the code) agree with the declaration; error otherwise (exact characterisation); tag-value fall-back reports only for a line carrying both the tag and the version; totality; the stream is left at offset 0. Tie (partial: decoding bytes into the declaration is encoding/json's, layout independence is validated, not proved): SniffReader observed on writer output x formats x indentations x re-encodings, near-miss declarations, fragment texts and binary input; result and Seek offset compared with Model/Sniff.v.",
        assumptions=["modelled: pkg/formats/sniffer.go decision logic and rewind (Model/Sniff.v); encoding/json decoding of the top-level object is an input of the model", "strings.EqualFold against the word cyclonedx is modelled by ASCII case folding (exact for this word)"],
    ),
    "C17": dict(
        props_v="Props/C17.v",
        corr_v=["Corr/CheckC17.v"],
        n_quick=120, n_thorough=3000,
        explanation="Proof obligations over tables regenerated from the Go AST on every run: the lock discipline of the package-level registries, and no method of a shared driver value (registered unserializers and serializers, the sniffer) writes its receiver. PARTIAL (a theorem cannot exhibit the Go scheduler or memory model). Theorems: the access table extracted from the Go sources on every run (which package-level variable each function of reader/writer/formats reads, writes, calls atomically or publishes, and under which mutex) satisfies the lock discipline; for any table that passes, any two thread accesses to the same variable with a write are both atomic sync operations or hold a common mutex one of them exclusively, and no package-level object is published into instances; sequential registry semantics (lookup after register/unregister, independence across formats). Tie: regenerated table (syntactic, fail-closed extractor); sequential registry histories vs the registry model; oracle: race-detector build stressing every entry-point mix from 16 goroutines with per-call comparison against sequential results.",
        assumptions=["the lockset extractor is syntactic (trusted to see every access to the listed package-level variables; aborts on constructs it does not understand)", "mutual exclusion of sync.RWMutex, atomicity of sync.Map/sync.Once methods and the Go memory model are trusted, not modelled", "data races in code reached through instances (not package-level state) are visible only to the race-detector stress", "lazy initialisation: sync.Once is trusted; that initialisation completes before the first concurrent use returns is checked by fresh-process first-use runs, not by the lock table"],
    ),
    "C02": dict(
        props_v="Props/C02.v",
        corr_v=["Corr/CheckSpdx.v", "Corr/CheckCdx.v", "Corr/CheckXlate.v"],
        n_quick=70, n_thorough=2500,
        explanation="Theorems: (round trip) for every document of the class — one root; unique, non-empty, non-reserved identifiers; every stored edge with a target is a containment edge between nodes; containment a tree under the root (witnessed by a depth function, every node but the root contained, and in one node only) — and nothing assumed about the order of the stored edges, how children are spread over edges, depth or fan-out: write-then-read returns the same node set, the same typed edge triples and the same root (cdx_tree_roundtrip: composition of the two-pass assembly, proved equal to the parent relation, with the set-level specification of RelateNodeListAtID/Add through the recursive component conversion); every tree of the class is accepted; the result is again in the class (second pass). (Any graph) every non-root node is written exactly once, nesting only under a containing node, nesting depth never limited by fuel; every BOM reads back closed with unique non-empty identifiers. (Per node) id, name, version, description, copyright; file/package kind and native component type for every purpose CycloneDX has a type for; hash maps over the 12 CycloneDX algorithms; purl and CPE 2.3; external references (type among the 39 with a counterpart of their own, URL, comment, hashes) — all by the generated tables; licence list of length 0 or 1 (longer lists: refuted by witness, known finding K13); serial number, lifecycle phases. Correspondence on three seams: Serialize vs cdx_ser, JSON layer identity on the class at 1.4 and 1.5, Unserialize vs cdx_unser_nl.",
        assumptions=["modelled: serializer_cdx.go Serialize/componentsMaps/dependencies/components/clearAutoRefs/nodeToComponent and unserializer_cdx.go Unserialize/componentToNodeList/componentToNode/licence and external-reference helpers as struct-level functions (Model/Cdx.v); the cyclonedx-go encoder/decoder pair is observed to be the identity on the class (CChan cases), not modelled", "suppliers and metadata tools/authors are outside the property"],
    ),
    "C03": dict(
        props_v="Props/C03.v",
        corr_v=["Corr/CheckSpdx.v", "Corr/CheckCdx.v", "Corr/CheckXlate.v"],
        n_quick=60, n_thorough=1500,
        explanation="Theorems (arbitrary documents, not only round-trippable ones). SPDX 2.3: packages and files are a permutation of the node identifiers (every node exactly once, whatever its purposes), the relationships are exactly one per typed edge target plus one DESCRIBES per root, and no relationship names an element that was not emitted when the graph is closed. CycloneDX: every node other than the root is a component exactly once (DAGs, cycles, several containers), the root is the metadata component; a component is nested only under a node that contains it; every dependency edge is in the dependency list and the list names only nodes of the document. Reading back: identifier, name and version of every node (no class), hash maps and package identifiers over what each format spells. Correspondence: both Serialize seams and both Unserialize seams on generated graphs and on documents parsed from the repository's SBOMs and their mutants; oracle: writer output decoded with encoding/json only (every node once, every expressible relationship, no dangling reference) and read back (identity attributes).",
        assumptions=["modelled: Model/Spdx.v and Model/Cdx.v (see C01, C02)", "reading back is checked for the formats that have a registered reader (SPDX 2.3, CycloneDX 1.3-1.5); CycloneDX 1.0/1.1 output is refused by the encoder for every document", "oracle exemptions for reading back: CycloneDX before 1.4 writes version 0.0.0 for none (third-party encoder), a root without a name is written under the document's name"],
    ),
    "C04": dict(
        props_v="Props/C04.v",
        corr_v=["Corr/CheckSpdx.v", "Corr/CheckCdx.v", "Corr/CheckXlate.v"],
        n_quick=60, n_thorough=400,
        explanation="PARTIAL. Theorems: the pipeline detect -> dispatch -> convert returns a document or an error for every declaration, every line list and every behaviour of the third-party decoder (a parameter), never a panic, both or neither; a CycloneDX result is always a closed graph; the conversion does not blow its input up (no more nodes than components / elements, edges plus roots = relationships); licence entries without a licence object are skipped; REFUTED for the concluded-licence string: n+1 licence entries give at least 2^n characters (known finding K14). Oracle (the part no model reaches): every single schema fault (null, absent, four wrong types, empty, oversized, duplicated element, deep nesting, duplicated member) at up to n JSON paths of every SBOM in the repository under 80 kB and of writer output, plus truncations and random bytes, through reader.ParseStream with and without a stated format, under a 20 s watchdog; double faults by sampling; scaling probes along six dimensions (parsed size and time against the cube of the input growth); outcome classes document / error / panic / hang / both / neither / document without parts. Correspondence: for mutants the decoders accept, the real Unserialize against the model on the decoded structure.",
        assumptions=["not proved: totality and running time of encoding/json, tools-golang and cyclonedx-go; nil entries inside decoded lists (the printers skip them, as the repaired code does); double faults are sampled (a second fault on 6 single-fault mutants per document, 40 in the thorough tier), not enumerated", "modelled: Model/Sniff.v (C06), Model/Spdx.v, Model/Cdx.v unserializers"],
    ),
    "C05": dict(
        props_v="Props/C05.v",
        corr_v=["Corr/CheckSpdx.v", "Corr/CheckCdx.v", "Corr/CheckXlate.v"],
        n_quick=60, n_thorough=1500,
        explanation="Theorems: every CycloneDX BOM value (any nesting, repeated or absent references, absent metadata component, self-containment) parses to a closed graph with unique identifiers, none of them empty, each either a component's reference or the generated identifier of its traversal position; the parsed identifiers are exactly the components' references and generated identifiers in traversal order, generated identifiers of different positions differ, and when all are pairwise distinct there is one node per component; SPDX identifiers and relationship endpoints are transferred verbatim, so the graph is closed whenever the input's references resolve and identifiers are as unique as the input's, and a dangling endpoint is always one the input left dangling; NewNodeIdentifier (model: Model/Ident.v, UUID as a parameter) is non-empty, over [a-zA-Z0-9.-] for every seed list, protobom-prefixed, and independent of the UUID whenever a seed is usable. Oracle on the real decoders: parse twice, two other JSON layouts (whitespace and member order; plus string escapes), auto-detection vs stated format; correspondence: Unserialize seams on generated native documents and mutants, generator vs model on seed lists. Known finding K12 (escaped spellings in strings tools-golang reads raw).",
        assumptions=["layout independence lives in the third-party decoders and is decided by the oracle, not by a theorem; the modelled conversion is a function of the decoded value", "generated identifiers: injectivity of the zero-padded decimal rendering is proved (auto_id_inj); that the traversal hands every component its own counter value is part of the model and of the Unserialize seam, the node-count oracle decides it on the implementation"],
    ),
    "C07": dict(
        props_v="Props/C07.v",
        corr_v=["Corr/CheckSpdx.v", "Corr/CheckCdx.v", "Corr/CheckXlate.v"],
        n_quick=60, n_thorough=1200,
        explanation="Theorems: for every Document value both serializers return an output or an error, never a panic or exit; exactly which documents are accepted (SPDX: metadata and node list present; CycloneDX: additionally nothing at all, or one root that is a node, known document types, edge sources known and containment/dependency targets known — unknown enum numbers, empty and duplicate identifiers, cycles, dangling edges of other types are accepted); the nesting recursion terminates (any fuel above the number of distinct identifiers gives the same forest); the result is independent of the serialization history. Oracle: arbitrary Document values (absent parts, nil elements, unknown enums, duplicate and empty identifiers, dangling edges, cycles, no or many roots) x 7 registered formats, twice and once more after other serializations, canonical JSON compared, 10 s watchdog. Correspondence: Serialize seams on the same documents.",
        assumptions=["documents with nil elements nested inside nodes (nil supplier, nil contact, nil external reference) or with lists of nil elements only are covered by the oracle, not by the model", "CycloneDX 1.0/1.1 are refused by the cyclonedx-go encoder for every document (observed)"],
    ),
    "C01": dict(
        props_v="Props/C01.v",
        corr_v=["Corr/CheckSpdx.v"],
        n_quick=70, n_thorough=2500,
        explanation="Theorems: (graph) every document of the SPDX-representable class - any graph shape - comes back with the same nodes and package/file kinds, the same typed edges (one target per edge) and the same roots; all 44 relationship types and all 16 shared checksum algorithms are inverse pairs of the generated tables; (attributes) names, versions, URLs, licence/copyright texts with the NOASSERTION/NONE/trim conventions, comments, summary, description, attribution, dates to the second (premise: RFC 3339 parse(format t) = t to the second), first supplier and first originator; native primary purposes, the eight SPDX-carried external reference types (OTHER otherwise) and the four identifier kinds by computation over tables regenerated from the code; second pass: read-back edges are a fixed point. Tie: three seams compared with the real code on every run (Serialize struct, tools-golang JSON layer, Unserialize) on random class documents at random indentation; oracle: the statement itself through the public writer/reader incl. a second pass. Checksum maps over the 16 SPDX algorithms (packages and files), external references of the reference types SPDX carries and package identifiers of the four kinds SPDX spells come back unchanged (kvsort_unique + generated tables).",
        assumptions=["modelled: serializer_spdx23.go, unserializer_spdx23.go and the tools-golang JSON layer as struct-level functions (Model/Spdx.v); RFC 3339 formatting/parsing is an oracle (table per case; premise in the theorems)", "per-node theorems are about the conversion pair (node_to_pkg / pkg_to_node, node_to_file / file_to_node); the JSON layer between them is the identity on the class (spdx_chan, proved for the class in the graph theorem and observed on every run)"],
    ),
}

NOT_APPLICABLE = {}
LEVEL_TEXT = {}
LEVEL_NOTE = {}
