package main

import (
	"fmt"
	"go/ast"
	"go/parser"
	"go/token"
	"os"
	"sort"
	"strings"
)

// Format drivers and the sniffer are shared values: one unserializer or serializer per format sits in a
// package-level registry and every reader or writer calls its methods, concurrently. Their methods must
// therefore not write the receiver. receiverWrites lists, for the driver types of a package, every
// place where a method assigns to a field of its receiver, increments one, or takes a field's address
// (which lets a callee write it): (method, field, how).
func receiverWrites(dir string, types map[string]bool) []string {
	fset := token.NewFileSet()
	pkgs, err := parser.ParseDir(fset, dir, func(fi os.FileInfo) bool {
		return !strings.HasSuffix(fi.Name(), "_test.go") && !strings.HasSuffix(fi.Name(), "_verif.go")
	}, 0)
	if err != nil {
		fail("%v", err)
	}
	var out []string
	for _, p := range pkgs {
		for _, f := range p.Files {
			for _, d := range f.Decls {
				fd, ok := d.(*ast.FuncDecl)
				if !ok || fd.Body == nil || fd.Recv == nil || len(fd.Recv.List) != 1 || len(fd.Recv.List[0].Names) != 1 {
					continue
				}
				rt := fd.Recv.List[0].Type
				if st, ok := rt.(*ast.StarExpr); ok {
					rt = st.X
				}
				id, ok := rt.(*ast.Ident)
				if !ok || !types[id.Name] {
					continue
				}
				recv := fd.Recv.List[0].Names[0].Name
				if recv == "_" {
					continue
				}
				method := p.Name + "." + id.Name + "." + fd.Name.Name
				// the field of the receiver an expression designates, if it is rooted at the receiver
				var fieldOf func(e ast.Expr) string
				fieldOf = func(e ast.Expr) string {
					switch x := e.(type) {
					case *ast.SelectorExpr:
						if r, ok := x.X.(*ast.Ident); ok && r.Name == recv && r.Obj != nil && r.Obj.Kind == ast.Var {
							return x.Sel.Name
						}
						return fieldOf(x.X)
					case *ast.IndexExpr:
						return fieldOf(x.X)
					case *ast.StarExpr:
						if r, ok := x.X.(*ast.Ident); ok && r.Name == recv {
							return "*"
						}
						return fieldOf(x.X)
					case *ast.ParenExpr:
						return fieldOf(x.X)
					}
					return ""
				}
				ast.Inspect(fd.Body, func(n ast.Node) bool {
					switch x := n.(type) {
					case *ast.AssignStmt:
						for _, l := range x.Lhs {
							if fl := fieldOf(l); fl != "" {
								out = append(out, fmt.Sprintf("(\"%s\", \"%s\", \"assigned\")", method, fl))
							}
						}
					case *ast.IncDecStmt:
						if fl := fieldOf(x.X); fl != "" {
							out = append(out, fmt.Sprintf("(\"%s\", \"%s\", \"incremented\")", method, fl))
						}
					case *ast.UnaryExpr:
						if x.Op == token.AND {
							if fl := fieldOf(x.X); fl != "" {
								out = append(out, fmt.Sprintf("(\"%s\", \"%s\", \"address taken\")", method, fl))
							}
						}
					case *ast.RangeStmt:
						for _, l := range []ast.Expr{x.Key, x.Value} {
							if l != nil {
								if fl := fieldOf(l); fl != "" {
									out = append(out, fmt.Sprintf("(\"%s\", \"%s\", \"assigned\")", method, fl))
								}
							}
						}
					}
					return true
				})
			}
		}
	}
	sort.Strings(out)
	return out
}
