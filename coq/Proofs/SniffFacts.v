(* Format detection is sound with respect to the declaration, agrees with the writer, is total and
   non-consuming (C06). *)
From Verif Require Import Model.Base Model.Match Model.Sniff Gen.Tables.
Open Scope list_scope.

(* a reported format's accessors agree with the declaration *)
Theorem sniff_json_sound bom spec spdx f :
  sniff_json (bom, spec, spdx) = Ok f ->
  exists ty ver, fmt_info f = Some (ty, ver, "json") /\
    ((is_cdx bom = true /\ ty = "cyclonedx" /\ spec = ver) \/
     (is_cdx bom = false /\ ty = "spdx" /\ spdx = ("SPDX-" ++ ver)%string)).
Proof.
  unfold sniff_json. destruct (is_cdx bom) eqn:Ec.
  - destruct (String.eqb_spec spec "1.3") as [->|_]; [intros H; injection H as <-; exists "cyclonedx", "1.3"; split; [reflexivity|left; auto]|].
    destruct (String.eqb_spec spec "1.4") as [->|_]; [intros H; injection H as <-; exists "cyclonedx", "1.4"; split; [reflexivity|left; auto]|].
    destruct (String.eqb_spec spec "1.5") as [->|_]; [intros H; injection H as <-; exists "cyclonedx", "1.5"; split; [reflexivity|left; auto]|].
    discriminate.
  - destruct (String.eqb_spec spdx "SPDX-2.2") as [->|_]; [intros H; injection H as <-; exists "spdx", "2.2"; split; [reflexivity|right; auto]|].
    destruct (String.eqb_spec spdx "SPDX-2.3") as [->|_]; [intros H; injection H as <-; exists "spdx", "2.3"; split; [reflexivity|right; auto]|].
    discriminate.
Qed.

(* nothing is reported unless the declaration names a known type and version *)
Theorem sniff_json_error bom spec spdx :
  sniff_json (bom, spec, spdx) = Err <->
  (is_cdx bom = true /\ spec <> "1.3" /\ spec <> "1.4" /\ spec <> "1.5") \/
  (is_cdx bom = false /\ spdx <> "SPDX-2.2" /\ spdx <> "SPDX-2.3").
Proof.
  unfold sniff_json. destruct (is_cdx bom).
  - destruct (String.eqb_spec spec "1.3"); [split; [discriminate|intros [[_ [H _]]|[H _]]; congruence]|].
    destruct (String.eqb_spec spec "1.4"); [split; [discriminate|intros [[_ [_ [H _]]]|[H _]]; congruence]|].
    destruct (String.eqb_spec spec "1.5"); [split; [discriminate|intros [[_ [_ [_ H]]]|[H _]]; congruence]|].
    split; auto.
  - destruct (String.eqb_spec spdx "SPDX-2.2"); [split; [discriminate|intros [[H _]|[_ [H _]]]; congruence]|].
    destruct (String.eqb_spec spdx "SPDX-2.3"); [split; [discriminate|intros [[H _]|[_ [_ H]]]; congruence]|].
    split; auto.
Qed.

(* the tag-value fall-back reports a format only for a line that carries the tag and that version *)
Theorem sniff_lines_sound lines f :
  sniff_lines lines = Ok f ->
  exists l ver, In l lines /\ contains "SPDXVersion:" l = true /\ contains ("SPDX-" ++ ver)%string l = true /\
                fmt_info f = Some ("spdx", ver, "text").
Proof.
  induction lines as [|l r IH]; simpl; [discriminate|].
  unfold sniff_line. destruct (contains "SPDXVersion:" l) eqn:Et.
  - destruct (contains "SPDX-2.2" l) eqn:E2; [intros H; injection H as <-; exists l, "2.2"; auto|].
    destruct (contains "SPDX-2.3" l) eqn:E3; [intros H; injection H as <-; exists l, "2.3"; auto|].
    intros H. destruct (IH H) as [l' [v [H1 H2]]]. exists l', v. auto.
  - intros H. destruct (IH H) as [l' [v [H1 H2]]]. exists l', v. auto.
Qed.

(* totality: detection returns a format or an error, never anything else *)
Theorem sniff_total d lines : (exists f, sniff d lines = Ok f) \/ sniff d lines = Err.
Proof.
  destruct d as [[[bom spec] spdx]|]; simpl.
  - unfold sniff_json. destruct (is_cdx bom);
      repeat match goal with |- context [if String.eqb ?a ?b then _ else _] => destruct (String.eqb a b); [left; eexists; reflexivity|] end;
      right; reflexivity.
  - induction lines as [|l r IH]; simpl; [right; reflexivity|].
    destruct (sniff_line l); [left; eexists; reflexivity|exact IH].
Qed.

Theorem sniff_rewinds s d lines : s_pos (snd (sniff_reader s d lines)) = 0.
Proof. reflexivity. Qed.

(* the writer's declaration for each output format that can also be read is detected as exactly
   that format (the header table is regenerated from the real writer on every run) *)
Definition detectable (f : string) : bool :=
  existsb (String.eqb f) [F_SPDX23JSON; F_CDX13JSON; F_CDX14JSON; F_CDX15JSON].

Definition writer_agrees : bool :=
  forallb (fun fh => negb (detectable (fst fh) && existsb (String.eqb (fst fh)) readable_formats)
                     || match sniff_json (snd fh) with Ok f => String.eqb f (fst fh) | _ => false end)
          writer_headers
  && forallb (fun f => existsb (fun fh => String.eqb (fst fh) f) writer_headers)
             [F_SPDX23JSON; F_CDX13JSON; F_CDX14JSON; F_CDX15JSON].

Theorem sniff_writer_output : writer_agrees = true.
Proof. vm_compute. reflexivity. Qed.
