(* Correspondence evaluator for the graph operations (C08, shared by C09/C10/C15).
   A case is one observed step of the real NodeList: the state printed before the
   call, the operation with its arguments, the outcome (0 returned, 1 error or nil result, 2 panic), and the state (or returned list) printed after it. *)
From Verif Require Import Model.Base Model.Graph Corr.Canon.
Open Scope list_scope.

Definition step_r (l : nodelist) (o : op) : result nodelist :=
  match o with
  | OpRelateNode n a t => relate_node_at l n a t
  | OpRelateList l2 a t => relate_list_at l l2 a t
  | OpSiblings i => node_siblings l i
  | OpGraph i => node_graph l i
  | _ => Ok (step l o)
  end.

Record case08 := mk_case08 { c_before : nodelist; c_op : op; c_outcome : Z; c_after : nodelist }.

Definition case_ok (c : case08) : bool :=
  match step_r (c_before c) (c_op c) with
  | Ok l' => Z.eqb (c_outcome c) 0 && nl_same l' (c_after c)
  | Err => Z.eqb (c_outcome c) 1
  | _ => false
  end.

Definition mismatches (cs : list case08) : list nat := failing case_ok cs.

(* Histories over a pool of live graphs (C08 "any sequence of these operations"): the
   model is functional, so a step changes the slot it writes and nothing else.  A step
   of the real code is printed as one [One] case for the slot written and one [Frame]
   case for every other live graph, whose structure (identifiers in order, edges, root
   elements in order) must be what it was before the call. *)
Definition struct_same (a b : nodelist) : bool :=
  strs_eqb (map n_id (nl_nodes a)) (map n_id (nl_nodes b))
  && strs_eqb (nl_root_elements a) (nl_root_elements b)
  && nodelist_eqb {| nl_nodes := []; nl_edges := canon_edges (nl_edges a); nl_root_elements := [] |}
                  {| nl_nodes := []; nl_edges := canon_edges (nl_edges b); nl_root_elements := [] |}.

Inductive case08x :=
  | One (c : case08)
  | Frame (before after : nodelist)
  | SelfRel (before : nodelist) (at_ : string) (t : Z) (outcome : Z) (after : nodelist).

Definition case_ok_x (c : case08x) : bool :=
  match c with
  | One c => case_ok c
  | Frame b a => struct_same b a
  | SelfRel b at_ t o a =>
      match relate_self_at b at_ t with
      | Ok l' => Z.eqb o 0 && nl_same l' a
      | Err => Z.eqb o 1
      | _ => false
      end
  end.

Definition mismatches_x (cs : list case08x) : list nat := failing case_ok_x cs.
