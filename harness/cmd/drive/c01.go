package main

import (
	"bytes"
	"fmt"
	"path/filepath"
	"sort"
	"strings"
	"time"

	"github.com/protobom/protobom/pkg/formats"
	"github.com/protobom/protobom/pkg/native"
	"github.com/protobom/protobom/pkg/native/serializers"
	"github.com/protobom/protobom/pkg/native/unserializers"
	"github.com/protobom/protobom/pkg/reader"
	"github.com/protobom/protobom/pkg/sbom"
	"github.com/protobom/protobom/pkg/writer"
	spdxjson "github.com/spdx/tools-golang/json"
	"github.com/spdx/tools-golang/spdx"
	"google.golang.org/protobuf/types/known/timestamppb"

	"verifharness/coqfmt"
	"verifharness/gen"
	"verifharness/nativefmt"
	"verifharness/props"
)

func init() { runners["C01"] = runC01 }

func tsCoq(t *timestamppb.Timestamp) string {
	return fmt.Sprintf("(%s, %s)", coqfmt.Z(t.Seconds), coqfmt.Z(int64(t.Nanos)))
}

func docTimes(d *sbom.Document) string {
	var rows []string
	seen := map[string]bool{}
	add := func(t *timestamppb.Timestamp) {
		if t == nil {
			return
		}
		k := tsCoq(t)
		if !seen[k] {
			seen[k] = true
			rows = append(rows, fmt.Sprintf("(%s, %s)", k, coqfmt.Str(t.AsTime().UTC().Format(time.RFC3339))))
		}
	}
	if d.NodeList != nil {
		for _, n := range d.NodeList.Nodes {
			if n != nil {
				add(n.ReleaseDate)
				add(n.BuildDate)
				add(n.ValidUntilDate)
			}
		}
	}
	return "[" + strings.Join(rows, "; ") + "]"
}

func parseTimes(s *spdx.Document) string {
	var rows []string
	seen := map[string]bool{}
	add := func(str string) {
		if str == "" || seen[str] {
			return
		}
		seen[str] = true
		t, err := time.Parse(time.RFC3339Nano, str)
		if err != nil {
			rows = append(rows, fmt.Sprintf("(%s, None)", coqfmt.Str(str)))
			return
		}
		rows = append(rows, fmt.Sprintf("(%s, Some %s)", coqfmt.Str(str), tsCoq(timestamppb.New(t))))
	}
	for _, p := range s.Packages {
		if p != nil {
			add(p.ReleaseDate)
			add(p.BuiltDate)
			add(p.ValidUntilDate)
		}
	}
	return "[" + strings.Join(rows, "; ") + "]"
}

// spdxSeams runs the three seams on one document and adds the cases.
func spdxSeams(rep *Report, cf caseAdder, g *gen.G, d *sbom.Document, kind string) (doc2 *sbom.Document, wrote []byte) {
	ser := serializers.NewSPDX23()
	var native_ any
	var err error
	var pv any
	func() {
		defer func() { pv = recover() }()
		native_, err = ser.Serialize(d, &native.SerializeOptions{}, nil)
	}()
	in := map[string]any{"kind": kind, "document": docJSON(d)}
	if pv != nil {
		rep.Fail(Failure{What: "the SPDX serializer panicked", Detail: fmt.Sprint(pv), Input: in})
		return nil, nil
	}
	self := "protobom-"
	obs := "None"
	var sd *spdx.Document
	if err == nil {
		sd = native_.(*spdx.Document)
		obs = "(Some " + nativefmt.SDoc(sd) + ")"
		if sd.CreationInfo != nil && len(sd.CreationInfo.Creators) > 0 {
			self = sd.CreationInfo.Creators[0].Creator
		}
	}
	c := fmt.Sprintf("(SSer %s %s %s %s)", coqfmt.Document(d), docTimes(d), coqfmt.Str(self), obs)
	if !tooLarge(rep, c) {
		cf.Add(c)
		rep.NoteCase(c, d.NodeList != nil && len(d.NodeList.Nodes) >= 2, map[string]any{"seam": "Serialize", "kind": kind, "document": docJSON(d)})
		rep.Count("seam=A:" + kind)
	}
	if sd == nil {
		return nil, nil
	}
	var buf bytes.Buffer
	indent := g.Int(9)
	rerr := ser.Render(sd, &buf, &native.RenderOptions{Indent: indent}, nil)
	var decoded *spdx.Document
	if rerr == nil {
		func() {
			defer func() {
				if r := recover(); r != nil {
					decoded = nil
				}
			}()
			decoded, _ = spdxjson.Read(bytes.NewReader(buf.Bytes()))
		}()
	}
	obsC := "None"
	if decoded != nil {
		obsC = "(Some " + nativefmt.SDoc(decoded) + ")"
	}
	if kind == "class" {
		// the JSON layer (third-party encoder and decoder) is modelled on the class only
		c2 := fmt.Sprintf("(SChan %s %s)", nativefmt.SDoc(sd), obsC)
		if !tooLarge(rep, c2) {
			cf.Add(c2)
			rep.NoteCase(c2, len(sd.Packages)+len(sd.Files) >= 2, map[string]any{"seam": "JSON layer", "kind": kind, "document": docJSON(d), "indent": indent})
			rep.Count("seam=C:" + kind)
		}
	}
	if decoded == nil {
		return nil, nil
	}
	doc2, uerr := unserializers.NewSPDX23().Unserialize(bytes.NewReader(buf.Bytes()), &native.UnserializeOptions{}, nil)
	if uerr != nil || doc2 == nil {
		rep.Fail(Failure{What: "the SPDX parser rejected the SPDX writer's output", Detail: fmt.Sprint(uerr), Input: in})
		return nil, buf.Bytes()
	}
	c3 := fmt.Sprintf("(SUnser %s %s %s)", nativefmt.SDoc(decoded), parseTimes(decoded), coqfmt.NodeList(doc2.NodeList))
	if !tooLarge(rep, c3) {
		cf.Add(c3)
		rep.NoteCase(c3, len(doc2.NodeList.Nodes) >= 2, map[string]any{"seam": "Unserialize", "kind": kind, "document": docJSON(d)})
		rep.Count("seam=B:" + kind)
	}
	return doc2, buf.Bytes()
}

var spdxNativePurposes = map[sbom.Purpose]bool{sbom.Purpose_APPLICATION: true, sbom.Purpose_FRAMEWORK: true, sbom.Purpose_LIBRARY: true, sbom.Purpose_CONTAINER: true,
	sbom.Purpose_OPERATING_SYSTEM: true, sbom.Purpose_DEVICE: true, sbom.Purpose_FIRMWARE: true, sbom.Purpose_SOURCE: true, sbom.Purpose_ARCHIVE: true,
	sbom.Purpose_FILE: true, sbom.Purpose_INSTALL: true, sbom.Purpose_OTHER: true}

var spdxCarriedExtRefs = map[sbom.ExternalReference_ExternalReferenceType]bool{sbom.ExternalReference_BOWER: true, sbom.ExternalReference_MAVEN_CENTRAL: true,
	sbom.ExternalReference_NPM: true, sbom.ExternalReference_NUGET: true, sbom.ExternalReference_SECURITY_ADVISORY: true, sbom.ExternalReference_SECURITY_FIX: true,
	sbom.ExternalReference_SECURITY_OTHER: true, sbom.ExternalReference_OTHER: true}

// spdxAttrDiff: the C01 statement per node (a = original, b = read back); "" when it holds.
func spdxAttrDiff(a, b *sbom.Node) string {
	chk := func(name, x, y string) string {
		if x != y {
			return fmt.Sprintf("%s: wrote %q, read %q", name, x, y)
		}
		return ""
	}
	if a.Type != b.Type {
		return "kind differs"
	}
	var diffs []string
	add := func(s string) {
		if s != "" {
			diffs = append(diffs, s)
		}
	}
	add(chk("name", a.Name, b.Name))
	add(chk("licence comments", a.LicenseComments, b.LicenseComments))
	add(chk("comment", a.Comment, b.Comment))
	lc := a.LicenseConcluded
	if lc == "NOASSERTION" && a.Type != sbom.Node_FILE {
		lc = "" // the parser reads a package's NOASSERTION as "no value"; files keep it verbatim
	}
	add(chk("concluded licence", lc, b.LicenseConcluded))
	cp := strings.TrimSpace(a.Copyright)
	if a.Type == sbom.Node_FILE && cp == "" {
		cp = "NONE"
	}
	add(chk("copyright", cp, b.Copyright))
	// checksums: the 16 algorithms shared with SPDX
	for algo, v := range a.Hashes {
		if sbom.HashAlgorithm(algo).ToSPDX() == "" {
			continue
		}
		if b.Hashes[algo] != v {
			add(fmt.Sprintf("checksum %v: wrote %q, read %q", sbom.HashAlgorithm(algo), v, b.Hashes[algo]))
		}
	}
	for algo := range b.Hashes {
		if _, ok := a.Hashes[algo]; !ok {
			add(fmt.Sprintf("checksum %v invented", sbom.HashAlgorithm(algo)))
		}
	}
	if a.Type == sbom.Node_FILE {
		return strings.Join(diffs, "; ")
	}
	add(chk("version", a.Version, b.Version))
	add(chk("file name", a.FileName, b.FileName))
	add(chk("home page", a.UrlHome, b.UrlHome))
	dl := a.UrlDownload
	if dl == "" {
		dl = "NOASSERTION"
	}
	add(chk("download location", dl, b.UrlDownload))
	add(chk("source info", a.SourceInfo, b.SourceInfo))
	add(chk("summary", a.Summary, b.Summary))
	add(chk("description", a.Description, b.Description))
	for k, v := range a.Identifiers {
		if k >= 1 && k <= 4 && b.Identifiers[k] != v {
			add(fmt.Sprintf("identifier %d: wrote %q, read %q", k, v, b.Identifiers[k]))
		}
	}
	date := func(name string, x, y *timestamppb.Timestamp) {
		switch {
		case x == nil && y == nil:
		case x == nil || y == nil:
			add(name + ": present on one side only")
		case x.AsTime().Unix() != y.AsTime().Unix():
			add(fmt.Sprintf("%s: wrote %d, read %d", name, x.AsTime().Unix(), y.AsTime().Unix()))
		}
	}
	date("release date", a.ReleaseDate, b.ReleaseDate)
	date("build date", a.BuildDate, b.BuildDate)
	date("valid-until date", a.ValidUntilDate, b.ValidUntilDate)
	if len(a.PrimaryPurpose) > 0 && spdxNativePurposes[a.PrimaryPurpose[0]] {
		if len(b.PrimaryPurpose) != 1 || b.PrimaryPurpose[0] != a.PrimaryPurpose[0] {
			add(fmt.Sprintf("primary purpose: wrote %v, read %v", a.PrimaryPurpose[0], b.PrimaryPurpose))
		}
	}
	person := func(name string, x, y []*sbom.Person) {
		if len(x) == 0 {
			if len(y) != 0 {
				add(name + " invented")
			}
			return
		}
		if len(y) != 1 {
			add(fmt.Sprintf("%s: wrote one, read %d", name, len(y)))
			return
		}
		want := x[0].Name
		if x[0].Email != "" {
			want = fmt.Sprintf("%s (%s)", x[0].Name, x[0].Email)
		}
		if y[0].Name != want || y[0].IsOrg != x[0].IsOrg {
			add(fmt.Sprintf("%s: wrote %q org=%v, read %q org=%v", name, want, x[0].IsOrg, y[0].Name, y[0].IsOrg))
		}
	}
	person("first supplier", a.Suppliers, b.Suppliers)
	person("first originator", a.Originators, b.Originators)
	// external references with a URL: type (normalised), URL, comment
	var wantRefs, gotRefs []string
	for _, e := range a.ExternalReferences {
		if e.Url == "" {
			continue
		}
		t := e.Type
		if !spdxCarriedExtRefs[t] {
			t = sbom.ExternalReference_OTHER
		}
		wantRefs = append(wantRefs, fmt.Sprintf("%d|%s|%s", t, e.Url, e.Comment))
	}
	for _, e := range b.ExternalReferences {
		gotRefs = append(gotRefs, fmt.Sprintf("%d|%s|%s", e.Type, e.Url, e.Comment))
	}
	sort.Strings(wantRefs)
	sort.Strings(gotRefs)
	if strings.Join(wantRefs, "\n") != strings.Join(gotRefs, "\n") {
		add(fmt.Sprintf("external references: wrote %v, read %v", wantRefs, gotRefs))
	}
	return strings.Join(diffs, "; ")
}

func runC01(seed int64, n int, dir string, tier string) *Report {
	g := gen.New(seed)
	rep := NewReport("C01", seed)
	rep.Rule = "n documents of the SPDX-representable class (unique identifiers over [A-Za-z0-9.-], closed edges and roots; cycles, self loops, repeated targets, several edges per source/type, several roots, isolated nodes; all 44 relationship types; all 17 checksum algorithms; random attribute subsets incl. dates, first supplier/originator, identifiers, external references of all 61 types, one or two primary purposes; unicode text) at a random indentation 0..8; three model seams per document (Serialize, JSON layer, Unserialize) plus the property itself: graph, roots, per-node attributes, second pass; non-trivial = at least two nodes; distinct by hash"
	cf := &CasesFile{Imports: "Model.Base Model.Graph Model.Spdx Corr.CheckSpdx", Type: "case_spdx", Eval: "mismatches"}
	for i := 0; i < n; i++ {
		d := g.SPDXClassDocument()
		doc2, out := spdxSeams(rep, cf, g, d, "class")
		in := map[string]any{"document": docJSON(d)}
		rep.OracleEvals++
		if doc2 == nil {
			rep.Fail(Failure{What: "a document of the SPDX-representable class could not be written and read back", Input: in})
			continue
		}
		// through the public writer/reader too (auto-detection)
		var buf bytes.Buffer
		if err := writer.New(writer.WithFormat(formats.SPDX23JSON)).WriteStream(d, nopCloser{&buf}); err != nil {
			rep.Fail(Failure{What: "writer failed on a document of the SPDX-representable class", Detail: err.Error(), Input: in})
			continue
		}
		doc2b, err := reader.New().ParseStream(bytes.NewReader(buf.Bytes()))
		if err != nil {
			rep.Fail(Failure{What: "reader failed on the SPDX writer's output", Detail: err.Error(), Input: in})
			continue
		}
		_ = out
		for pass, got := range []*sbom.Document{doc2, doc2b} {
			a, b := d.NodeList, got.NodeList
			if !props.SameStrSet(props.NodeSet(a), props.NodeSet(b)) {
				rep.Fail(Failure{What: "SPDX round trip changed the set of nodes", Detail: fmt.Sprintf("wrote %v read %v (path %d)", props.Keys(props.NodeSet(a)), props.Keys(props.NodeSet(b)), pass), Input: in})
				continue
			}
			if !props.SameTripleSet(props.TripleSet(a), props.TripleSet(b)) {
				rep.Fail(Failure{What: "SPDX round trip changed the set of typed edges", Input: in})
			}
			if !props.SameStrSet(props.RootSet(a), props.RootSet(b)) {
				rep.Fail(Failure{What: "SPDX round trip changed the root elements", Input: in})
			}
			mb := byID(b)
			for _, na := range a.Nodes {
				if diff := spdxAttrDiff(na, mb[na.Id]); diff != "" {
					rep.Fail(Failure{What: "SPDX round trip changed an attribute SPDX 2.3 can carry", Detail: "node " + na.Id + ": " + diff, Input: in})
					break
				}
			}
		}
		// a second pass changes nothing further
		var buf2 bytes.Buffer
		if err := writer.New(writer.WithFormat(formats.SPDX23JSON)).WriteStream(doc2b, nopCloser{&buf2}); err == nil {
			if doc3, err := reader.New().ParseStream(bytes.NewReader(buf2.Bytes())); err == nil {
				if !sameNodeListCanon(doc2b.NodeList, doc3.NodeList) {
					rep.Fail(Failure{What: "a second SPDX write-then-read pass changed the document further", Input: in})
				}
			} else {
				rep.Fail(Failure{What: "second SPDX pass: reader failed", Detail: err.Error(), Input: in})
			}
		} else {
			rep.Fail(Failure{What: "second SPDX pass: writer failed", Detail: err.Error(), Input: in})
		}
	}
	rep.CasesFiles = cf.Write(filepath.Join(dir, "cases_C01"))
	rep.ShardSize = shardSize
	return rep
}

// sameNodeListCanon: equality of two node lists up to the order of nodes, edges, targets, roots.
func sameNodeListCanon(a, b *sbom.NodeList) bool {
	if !props.SameStrSet(props.NodeSet(a), props.NodeSet(b)) || !props.SameTripleSet(props.TripleSet(a), props.TripleSet(b)) || !props.SameStrSet(props.RootSet(a), props.RootSet(b)) {
		return false
	}
	mb := byID(b)
	for _, n := range a.Nodes {
		m := mb[n.Id]
		if m == nil || !n.Equal(m) {
			return false
		}
	}
	return len(a.Nodes) == len(b.Nodes)
}
