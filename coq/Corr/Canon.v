(* Canonical forms used by the correspondence evaluators: everything the code obtains
   from a Go map iteration (edge order, target order after cleanEdges, node order of
   extracted lists, root order) is sorted before model and implementation are compared. *)
From Verif Require Import Model.Base Model.Graph.
Open Scope list_scope.

Definition key_leb (a b : edge) : bool :=
  match String.compare (e_from a) (e_from b) with
  | Lt => true
  | Gt => false
  | Eq => Z.leb (e_type a) (e_type b)
  end.

Fixpoint einsert (x : edge) (l : list edge) : list edge :=
  match l with
  | [] => [x]
  | y :: r => if key_leb x y then x :: l else y :: einsert x r
  end.

Fixpoint ninsert (x : node) (l : list node) : list node :=
  match l with
  | [] => [x]
  | y :: r => if String.leb (n_id x) (n_id y) then x :: l else y :: ninsert x r
  end.

Definition canon_edge (e : edge) : edge :=
  {| e_type := e_type e; e_from := e_from e; e_to := ssort (e_to e) |}.

Definition canon_edges (es : list edge) : list edge :=
  fold_right einsert [] (map canon_edge es).

Definition canon_nl (l : nodelist) : nodelist :=
  {| nl_nodes := fold_right ninsert [] (nl_nodes l);
     nl_edges := canon_edges (nl_edges l);
     nl_root_elements := ssort (nl_root_elements l) |}.

Definition nl_same (a b : nodelist) : bool := nodelist_eqb (canon_nl a) (canon_nl b).

(* indices (from 0) of the cases on which [ok] is false *)
Definition failing {A} (ok : A -> bool) (cs : list A) : list nat :=
  let fix go (i : nat) (l : list A) : list nat :=
      match l with
      | [] => []
      | c :: r => if ok c then go (S i) r else i :: go (S i) r
      end in
  go O cs.
