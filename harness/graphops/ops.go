// Package graphops describes the graph-editing and extraction operations of
// sbom.NodeList as data: how to generate them, run them on the real code and print
// them as terms of the Coq type Model.Graph.op.
package graphops

import (
	"fmt"

	"github.com/protobom/protobom/pkg/sbom"
	"google.golang.org/protobuf/encoding/protojson"

	"verifharness/coqfmt"
	"verifharness/gen"
)

type Kind string

const (
	Clean       Kind = "Clean"
	Add         Kind = "Add"
	Union       Kind = "Union"
	Intersect   Kind = "Intersect"
	Remove      Kind = "Remove"
	RelateNode  Kind = "RelateNode"
	RelateList  Kind = "RelateList"
	Siblings    Kind = "Siblings"
	Graph       Kind = "Graph"
	Descendants Kind = "Descendants"
	ByPurlType  Kind = "ByPurlType"
)

var AllKinds = []Kind{Clean, Add, Union, Intersect, Remove, RelateNode, RelateList, Siblings, Graph, Descendants, ByPurlType}

type Op struct {
	Kind  Kind
	L2    *sbom.NodeList `json:"-"`
	IDs   []string
	Node  *sbom.Node `json:"-"`
	At    string
	T     sbom.Edge_Type
	ID    string
	Depth int
	Purl  string
}

// Outcome of running an operation: 0 returned normally, 1 reported an error or returned
// nil, 2 panicked.
const (
	OK    = 0
	Err   = 1
	Panic = 2
)

// Apply runs the operation on the real implementation. For in-place operations the
// returned list is cur itself (after the call); for value-returning ones it is the
// returned list. PanicVal is set when the call panicked.
func (o *Op) Apply(cur *sbom.NodeList) (after *sbom.NodeList, outcome int, panicVal any) {
	defer func() {
		if r := recover(); r != nil {
			after, outcome, panicVal = cur, Panic, r
		}
	}()
	switch o.Kind {
	case Clean:
		cur.VerifCleanEdges()
		return cur, OK, nil
	case Add:
		cur.Add(o.L2)
		return cur, OK, nil
	case Union:
		return cur.Union(o.L2), OK, nil
	case Intersect:
		return cur.Intersect(o.L2), OK, nil
	case Remove:
		cur.RemoveNodes(o.IDs)
		return cur, OK, nil
	case RelateNode:
		if err := cur.RelateNodeAtID(o.Node, o.At, o.T); err != nil {
			return cur, Err, nil
		}
		return cur, OK, nil
	case RelateList:
		if err := cur.RelateNodeListAtID(o.L2, o.At, o.T); err != nil {
			return cur, Err, nil
		}
		return cur, OK, nil
	case Siblings:
		r := cur.NodeSiblings(o.ID)
		if r == nil {
			return cur, Err, nil
		}
		return r, OK, nil
	case Graph:
		r := cur.NodeGraph(o.ID)
		if r == nil {
			return cur, Err, nil
		}
		return r, OK, nil
	case Descendants:
		return cur.NodeDescendants(o.ID, o.Depth), OK, nil
	case ByPurlType:
		return cur.GetNodesByPurlType(o.Purl), OK, nil
	}
	panic("unknown op kind " + string(o.Kind))
}

func (o *Op) Coq() string {
	switch o.Kind {
	case Clean:
		return "OpClean"
	case Add:
		return "(OpAdd " + coqfmt.NodeList(o.L2) + ")"
	case Union:
		return "(OpUnion " + coqfmt.NodeList(o.L2) + ")"
	case Intersect:
		return "(OpIntersect " + coqfmt.NodeList(o.L2) + ")"
	case Remove:
		return "(OpRemove " + coqfmt.Strs(o.IDs) + ")"
	case RelateNode:
		return fmt.Sprintf("(OpRelateNode %s %s %s)", coqfmt.Node(o.Node), coqfmt.Str(o.At), coqfmt.Z(int64(o.T)))
	case RelateList:
		return fmt.Sprintf("(OpRelateList %s %s %s)", coqfmt.NodeList(o.L2), coqfmt.Str(o.At), coqfmt.Z(int64(o.T)))
	case Siblings:
		return "(OpSiblings " + coqfmt.Str(o.ID) + ")"
	case Graph:
		return "(OpGraph " + coqfmt.Str(o.ID) + ")"
	case Descendants:
		return fmt.Sprintf("(OpDescendants %s %d%%nat)", coqfmt.Str(o.ID), o.Depth)
	case ByPurlType:
		return "(OpByPurlType " + coqfmt.Str(o.Purl) + ")"
	}
	panic("unknown op kind")
}

// JSON-friendly description for replay files.
func (o *Op) Describe() map[string]any {
	m := map[string]any{"kind": string(o.Kind)}
	if o.L2 != nil {
		m["arg_nodelist"] = PJ(o.L2)
	}
	if o.Node != nil {
		b, _ := protojson.Marshal(o.Node)
		m["arg_node"] = jsonRaw(b)
	}
	switch o.Kind {
	case Remove:
		m["ids"] = o.IDs
	case RelateNode, RelateList:
		m["at"] = o.At
		m["edge_type"] = int32(o.T)
	case Siblings, Graph:
		m["id"] = o.ID
	case Descendants:
		m["id"] = o.ID
		m["depth"] = o.Depth
	case ByPurlType:
		m["purl_type"] = o.Purl
	}
	return m
}

type jsonRaw []byte

func (j jsonRaw) MarshalJSON() ([]byte, error) {
	if len(j) == 0 {
		return []byte("null"), nil
	}
	return j, nil
}

// PJ renders a node list as protojson (for replay files).
func PJ(nl *sbom.NodeList) any {
	if nl == nil {
		return nil
	}
	b, err := protojson.Marshal(nl)
	if err != nil {
		return map[string]any{"unprintable_as_json": err.Error(), "coq": coqfmt.NodeList(nl)}
	}
	return jsonRaw(b)
}

// Random generates an operation applicable to cur. wf asks for well-formed arguments.
func Random(g *gen.G, cur *sbom.NodeList, kinds []Kind, sh gen.Shape) *Op {
	k := gen.Pick(g, kinds)
	o := &Op{Kind: k}
	anyID := func() string {
		if len(cur.Nodes) > 0 && g.Chance(0.85) {
			return gen.Pick(g, cur.Nodes).Id
		}
		if g.Chance(0.3) {
			return gen.Pick(g, gen.OddIDs)
		}
		return gen.Pick(g, gen.IDPool)
	}
	switch k {
	case Add, Union, Intersect, RelateList:
		o.L2 = g.NodeList(sh)
	}
	switch k {
	case Remove:
		n := g.Int(4)
		for i := 0; i < n; i++ {
			o.IDs = append(o.IDs, anyID())
		}
		if g.Chance(0.25) {
			// names no node of the list: nothing to remove, the result is still to be normalised
			o.IDs = []string{"no-such-node", "nor-this-one"}[:1+g.Int(2)]
		}
	case RelateNode:
		id := gen.Pick(g, gen.IDPool)
		if g.Chance(sh.OddIDs) {
			id = gen.Pick(g, gen.OddIDs)
		}
		o.Node = g.Node(id, sh.Richness)
		o.At = anyID()
		o.T = g.EdgeType()
		if g.Chance(0.12) {
			o.Node.Id = o.At // a node related at itself
		}
	case RelateList:
		o.At = anyID()
		o.T = g.EdgeType()
	case Siblings, Graph:
		o.ID = anyID()
	case Descendants:
		o.ID = anyID()
		o.Depth = 1 + g.Int(4)
	case ByPurlType:
		o.Purl = gen.Pick(g, []string{"npm", "golang", "deb", "none", "", "go", "git", "/"})
	}
	return o
}
