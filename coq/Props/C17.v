(* C17 — registries, detection, parsing and writing are safe under concurrency (PARTIAL: a theorem
   cannot exhibit the Go scheduler or memory model; what is logic is modelled).
   Statements only; proofs in Proofs/ConcFacts.v.  The access table Gen/Locks.v is extracted from
   the Go sources of pkg/reader, pkg/writer and pkg/formats on every run. *)
From Verif Require Import Model.Base Model.Conc Gen.Locks Proofs.ConcFacts.
Open Scope list_scope.

(* the code as it is now satisfies the lock discipline *)
Theorem C17_discipline_holds : check_table lock_table = true.
Proof. exact discipline_ok. Qed.
Print Assumptions C17_discipline_holds.

(* the registered format drivers and the sniffer are values shared by every reader and writer: none of
   their methods assigns to a field of the receiver, increments one or hands out its address, so
   concurrent calls on one driver share only fields that are never written after construction *)
Theorem C17_shared_drivers_are_not_written : receiver_writes = [].
Proof. exact drivers_stateless_ok. Qed.
Print Assumptions C17_shared_drivers_are_not_written.

(* what the discipline means for any two calls, in any number of goroutines *)
Theorem C17_discipline_meaning : forall t,
  check_table t = true ->
  forall a b, In a (thread_accesses t) -> In b (thread_accesses t) ->
    is_escape a = false /\
    (a_var a = a_var b -> is_write a = true \/ is_write b = true ->
     (is_atomic a = true /\ is_atomic b = true) \/
     exists m xa xb, In (m, xa) (a_locks a) /\ In (m, xb) (a_locks b) /\ (xa = true \/ xb = true)).
Proof. exact discipline_meaning. Qed.
Print Assumptions C17_discipline_meaning.

(* registry semantics under the lock: a lookup after a registration sees it, after a removal does
   not; operations on other formats do not interfere *)
Theorem C17_registry_sequential_semantics : forall r f g d,
  snd (reg_step (fst (reg_step r (RReg f d))) (RGet f)) = Some d /\
  snd (reg_step (fst (reg_step r (RUnreg f))) (RGet f)) = None /\
  (f <> g -> snd (reg_step (fst (reg_step r (RReg g d))) (RGet f)) = snd (reg_step r (RGet f))).
Proof.
  intros r f g d. split; [apply reg_get_after_reg|]. split; [apply reg_get_after_unreg|].
  intros H. apply (registry_independent_formats r f g d H).
Qed.
Print Assumptions C17_registry_sequential_semantics.

(* the extracted table is not trivial: it contains locked writes and locked reads *)
Example C17_nonvacuous :
  existsb (fun a => is_write a && match a_locks a with [] => false | _ => true end) (thread_accesses lock_table) = true /\
  (10 <= length (thread_accesses lock_table))%nat.
Proof. split; vm_compute; [reflexivity|]. repeat constructor. Qed.
