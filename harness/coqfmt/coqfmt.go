// Package coqfmt prints Go values as Coq terms of the generated schema records
// (coq/Gen/Schema.v). Messages are printed positionally in descriptor order, so the
// printer and the generated records agree by construction.
package coqfmt

import (
	"fmt"
	"sort"
	"strings"

	"github.com/protobom/protobom/pkg/sbom"
	"google.golang.org/protobuf/proto"
	"google.golang.org/protobuf/reflect/protoreflect"
)

// Str prints a Go string (arbitrary bytes) as a Coq term of type string.
func Str(s string) string {
	plain := true
	for i := 0; i < len(s); i++ {
		if s[i] < 0x20 || s[i] > 0x7e {
			plain = false
			break
		}
	}
	if plain {
		return `"` + strings.ReplaceAll(s, `"`, `""`) + `"`
	}
	var b strings.Builder
	b.WriteString("(bs [")
	for i := 0; i < len(s); i++ {
		if i > 0 {
			b.WriteByte(';')
		}
		fmt.Fprintf(&b, "%d", s[i])
	}
	b.WriteString("])")
	return b.String()
}

func Bool(v bool) string {
	if v {
		return "true"
	}
	return "false"
}

func Z(v int64) string {
	if v < 0 {
		return fmt.Sprintf("(%d)", v)
	}
	return fmt.Sprintf("%d", v)
}

func List[T any](xs []T, f func(T) string) string {
	parts := make([]string, len(xs))
	for i, x := range xs {
		parts[i] = f(x)
	}
	return "[" + strings.Join(parts, "; ") + "]"
}

func Strs(xs []string) string { return List(xs, Str) }

func Opt(present bool, s string) string {
	if !present {
		return "None"
	}
	return "(Some " + s + ")"
}

var ctor = map[string]string{
	"Node": "mk_node", "Edge": "mk_edge", "Person": "mk_person", "ExternalReference": "mk_extref", "NodeList": "mk_nodelist",
	"Document": "mk_document", "Metadata": "mk_metadata", "Tool": "mk_tool", "DocumentType": "mk_doctype",
}

// DropNil makes the printers leave nil elements of repeated message fields out.
var DropNil bool

// the lists whose nil elements the translations skip; nil elements elsewhere read as empty messages
var dropNilFields = map[string]bool{
	"protobom.protobom.NodeList.nodes": true, "protobom.protobom.NodeList.edges": true,
	"protobom.protobom.Metadata.tools": true, "protobom.protobom.Metadata.authors": true,
	"protobom.protobom.Metadata.documentTypes": true,
}

// Msg prints any protobom message as a Coq record value. nil prints as the zero record;
// use OptMsg where absence matters.
func Msg(m proto.Message) string {
	return msg(m.ProtoReflect())
}

func msg(m protoreflect.Message) string {
	md := m.Descriptor()
	c, ok := ctor[string(md.Name())]
	if !ok {
		panic("coqfmt: unknown message " + string(md.FullName()))
	}
	var b strings.Builder
	b.WriteString("(" + c)
	fds := md.Fields()
	for i := 0; i < fds.Len(); i++ {
		fd := fds.Get(i)
		b.WriteByte(' ')
		b.WriteString(field(m, fd))
	}
	if md.Name() == "Person" {
		nilc := true
		if m.IsValid() {
			if p, ok := m.Interface().(*sbom.Person); ok && p != nil {
				nilc = p.Contacts == nil
			}
		}
		b.WriteByte(' ')
		b.WriteString(Bool(nilc))
	}
	b.WriteString(")")
	return b.String()
}

func scalar(fd protoreflect.FieldDescriptor, v protoreflect.Value) string {
	switch fd.Kind() {
	case protoreflect.StringKind:
		return Str(v.String())
	case protoreflect.BoolKind:
		return Bool(v.Bool())
	case protoreflect.EnumKind:
		return Z(int64(v.Enum()))
	case protoreflect.Int32Kind, protoreflect.Int64Kind:
		return Z(v.Int())
	case protoreflect.MessageKind:
		if fd.Message().FullName() == "google.protobuf.Timestamp" {
			tm := v.Message()
			s := tm.Get(tm.Descriptor().Fields().ByName("seconds")).Int()
			n := tm.Get(tm.Descriptor().Fields().ByName("nanos")).Int()
			return "(" + Z(s) + ", " + Z(n) + ")"
		}
		return msg(v.Message())
	}
	panic("coqfmt: unsupported kind " + fd.Kind().String())
}

func field(m protoreflect.Message, fd protoreflect.FieldDescriptor) string {
	switch {
	case fd.IsMap():
		type kv struct {
			k int64
			v string
		}
		var kvs []kv
		m.Get(fd).Map().Range(func(k protoreflect.MapKey, v protoreflect.Value) bool {
			kvs = append(kvs, kv{k.Int(), v.String()})
			return true
		})
		sort.Slice(kvs, func(i, j int) bool { return kvs[i].k < kvs[j].k })
		return List(kvs, func(e kv) string { return "(" + Z(e.k) + ", " + Str(e.v) + ")" })
	case fd.IsList():
		l := m.Get(fd).List()
		parts := make([]string, 0, l.Len())
		for i := 0; i < l.Len(); i++ {
			if fd.Kind() == protoreflect.MessageKind && !l.Get(i).Message().IsValid() {
				// nil element of a repeated message field: printed as the zero record, or left out
				// when the model is to be compared on the list without its nil elements
				if !(DropNil && dropNilFields[string(fd.FullName())]) {
					parts = append(parts, msg(l.Get(i).Message()))
				}
				continue
			}
			parts = append(parts, scalar(fd, l.Get(i)))
		}
		return "[" + strings.Join(parts, "; ") + "]"
	case fd.Kind() == protoreflect.MessageKind:
		if !m.Has(fd) {
			return "None"
		}
		return "(Some " + scalar(fd, m.Get(fd)) + ")"
	case fd.HasOptionalKeyword():
		if !m.Has(fd) {
			return "None"
		}
		return "(Some " + scalar(fd, m.Get(fd)) + ")"
	default:
		return scalar(fd, m.Get(fd))
	}
}

// Node etc. are typed conveniences.
func Node(n *sbom.Node) string         { return Msg(n) }
func Edge(e *sbom.Edge) string         { return Msg(e) }
func NodeList(nl *sbom.NodeList) string { return Msg(nl) }
func Document(d *sbom.Document) string { return Msg(d) }

// Lossy reports whether printing m (with DropNil) loses a distinction the code can observe: a nil
// element in a list other than the top-level ones, or a top-level list made of nil elements only.
func Lossy(m proto.Message) bool {
	if m == nil || !m.ProtoReflect().IsValid() {
		return false
	}
	return lossy(m.ProtoReflect())
}

func lossy(m protoreflect.Message) bool {
	fds := m.Descriptor().Fields()
	for i := 0; i < fds.Len(); i++ {
		fd := fds.Get(i)
		if fd.IsMap() || fd.Kind() != protoreflect.MessageKind || fd.Message().FullName() == "google.protobuf.Timestamp" {
			continue
		}
		if fd.IsList() {
			l := m.Get(fd).List()
			nils := 0
			for j := 0; j < l.Len(); j++ {
				e := l.Get(j).Message()
				if !e.IsValid() {
					nils++
					if !dropNilFields[string(fd.FullName())] {
						return true
					}
					continue
				}
				if lossy(e) {
					return true
				}
			}
			if nils > 0 && nils == l.Len() {
				return true
			}
			continue
		}
		if m.Has(fd) && lossy(m.Get(fd).Message()) {
			return true
		}
	}
	return false
}
