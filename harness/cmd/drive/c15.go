package main

import (
	"fmt"
	"path/filepath"
	"runtime/debug"
	"strings"
	"time"

	"github.com/protobom/protobom/pkg/sbom"

	"verifharness/coqfmt"
	"verifharness/gen"
	"verifharness/graphops"
	"verifharness/props"
)

func init() { runners["C15"] = runC15 }

// callWithTimeout runs f and reports whether it returned within d (and whether it panicked).
func callWithTimeout(d time.Duration, f func()) (finished bool, panicVal any) {
	done := make(chan any, 1)
	go func() {
		defer func() {
			r := recover()
			if r != nil {
				r = fmt.Sprintf("%v\n%s", r, trimStack(debug.Stack()))
			}
			done <- r
		}()
		f()
	}()
	select {
	case pv := <-done:
		return true, pv
	case <-time.After(d):
		return false, nil
	}
}

type extraction struct {
	N map[string]bool
	E map[props.Triple]bool // required edges (followed by the traversal)
}

func hops(nl *sbom.NodeList, x string, present map[string]bool) []props.Triple {
	var out []props.Triple
	for _, e := range nl.Edges {
		if e.From != x {
			continue
		}
		for _, t := range e.To {
			if present[t] {
				out = append(out, props.Triple{From: x, Type: e.Type, To: t})
			}
		}
	}
	return out
}

// textbook traversals, written from the property statement
func specSiblings(nl *sbom.NodeList, s string) extraction {
	present := props.NodeSet(nl)
	ex := extraction{N: map[string]bool{s: true}, E: map[props.Triple]bool{}}
	for _, h := range hops(nl, s, present) {
		ex.N[h.To] = true
		ex.E[h] = true
	}
	return ex
}

func specDescendants(nl *sbom.NodeList, s string, depth int) extraction {
	present := props.NodeSet(nl)
	roots := props.RootSet(nl)
	ex := extraction{N: map[string]bool{s: true}, E: map[props.Triple]bool{}}
	frontier := []string{s}
	for level := 1; level < depth; level++ {
		var next []string
		for _, x := range frontier {
			if x != s && roots[x] {
				continue
			}
			for _, h := range hops(nl, x, present) {
				ex.E[h] = true
				if !ex.N[h.To] {
					ex.N[h.To] = true
					next = append(next, h.To)
				}
			}
		}
		frontier = next
	}
	return ex
}

func specGraph(nl *sbom.NodeList, s string) extraction {
	present := props.NodeSet(nl)
	roots := props.RootSet(nl)
	ex := extraction{N: map[string]bool{s: true}, E: map[props.Triple]bool{}}
	stack := []string{s}
	for len(stack) > 0 {
		x := stack[len(stack)-1]
		stack = stack[:len(stack)-1]
		for _, h := range hops(nl, x, present) {
			if roots[h.To] && h.To != s {
				continue
			}
			if roots[h.To] && h.To == s {
				// an edge back to the start node: among returned nodes
				ex.E[h] = true
				continue
			}
			ex.E[h] = true
			if !ex.N[h.To] {
				ex.N[h.To] = true
				stack = append(stack, h.To)
			}
		}
	}
	return ex
}

func hasEmptyID(nl *sbom.NodeList) bool {
	for _, n := range nl.Nodes {
		if n.Id == "" {
			return true
		}
	}
	return false
}

func shuffled(g *gen.G, nl *sbom.NodeList) *sbom.NodeList {
	c := cloneListExact(nl)
	g.R.Shuffle(len(c.Nodes), func(i, j int) { c.Nodes[i], c.Nodes[j] = c.Nodes[j], c.Nodes[i] })
	g.R.Shuffle(len(c.Edges), func(i, j int) { c.Edges[i], c.Edges[j] = c.Edges[j], c.Edges[i] })
	for _, e := range c.Edges {
		g.R.Shuffle(len(e.To), func(i, j int) { e.To[i], e.To[j] = e.To[j], e.To[i] })
	}
	return c
}

// checkExtraction evaluates the C15 statement for one list and start node on the implementation.
func checkExtraction(rep *Report, g *gen.G, nl *sbom.NodeList, s string, maxDepth int) {
	present := props.NodeSet(nl)
	// K8 is recognised only when the empty identifier is the start node or is reachable from it
	finder := ""
	if hasEmptyID(nl) && (s == "" || specGraph(nl, s).N[""] || specDescendants(nl, s, 5).N[""]) {
		finder = "empty_identifier"
	}
	in := func(op string, depth int) map[string]any {
		return map[string]any{"list": graphops.PJ(nl), "start": s, "operation": op, "depth": depth}
	}
	verify := func(op string, depth int, res *sbom.NodeList, want extraction, exactNodes bool) {
		rep.OracleEvals++
		if res == nil {
			rep.Fail(Failure{What: op + " returned nil for a present start node", Input: in(op, depth), Finder: finder})
			return
		}
		gotN := props.NodeSet(res)
		if !props.SameStrSet(gotN, want.N) {
			rep.Fail(Failure{What: op + ": returned nodes are not exactly the nodes reachable under the stated rule", Detail: fmt.Sprintf("got %v want %v", props.Keys(gotN), props.Keys(want.N)), Input: in(op, depth), Finder: finder})
			return
		}
		if !uniqueIDs(res) && uniqueIDs(nl) {
			rep.Fail(Failure{What: op + ": duplicate node in the result", Input: in(op, depth)})
		}
		gotE := props.TripleSet(res)
		if !props.SubTriple(gotE, props.Restrict(props.TripleSet(nl), gotN)) {
			rep.Fail(Failure{What: op + ": result has an edge that is not an edge of the list among returned nodes", Input: in(op, depth), Finder: finder})
		}
		if !props.SubTriple(want.E, gotE) {
			rep.Fail(Failure{What: op + ": an edge the traversal followed is missing from the result", Input: in(op, depth), Finder: finder})
		}
		if len(res.RootElements) != 1 || res.RootElements[0] != s {
			rep.Fail(Failure{What: op + ": the start node is not the sole root element", Detail: fmt.Sprint(res.RootElements), Input: in(op, depth)})
		}
	}
	run := func(op string, depth int, f func() *sbom.NodeList) (*sbom.NodeList, bool) {
		var res *sbom.NodeList
		fin, pv := callWithTimeout(5*time.Second, func() { res = f() })
		if !fin {
			rep.Fail(Failure{What: op + " did not terminate within 5s", Input: in(op, depth)})
			return nil, false
		}
		if pv != nil {
			rep.OracleEvals++
			rep.Fail(Failure{What: op + " panicked", Detail: fmt.Sprint(pv), Input: in(op, depth), Finder: ""})
			return nil, false
		}
		return res, true
	}
	if !present[s] {
		return
	}
	if res, ok := run("NodeSiblings", 0, func() *sbom.NodeList { return clone(nl).NodeSiblings(s) }); ok {
		verify("NodeSiblings", 0, res, specSiblings(nl, s), true)
	}
	if res, ok := run("NodeGraph", 0, func() *sbom.NodeList { return clone(nl).NodeGraph(s) }); ok {
		verify("NodeGraph", 0, res, specGraph(nl, s), true)
		if res != nil && uniqueIDs(nl) {
			sh := shuffled(g, nl)
			if r2, ok := run("NodeGraph", 0, func() *sbom.NodeList { return sh.NodeGraph(s) }); ok && r2 != nil {
				if !props.SameStrSet(props.NodeSet(res), props.NodeSet(r2)) || !props.SameTripleSet(props.TripleSet(res), props.TripleSet(r2)) {
					rep.Fail(Failure{What: "NodeGraph depends on the order of nodes or edges", Input: in("NodeGraph", 0)})
				}
			}
		}
	}
	var prev map[string]bool
	for d := 1; d <= maxDepth; d++ {
		res, ok := run("NodeDescendants", d, func() *sbom.NodeList { return clone(nl).NodeDescendants(s, d) })
		if !ok {
			break
		}
		verify("NodeDescendants", d, res, specDescendants(nl, s, d), true)
		cur := props.NodeSet(res)
		if prev != nil && !props.SubStr(prev, cur) {
			rep.Fail(Failure{What: "NodeDescendants is not monotone in the depth", Input: in("NodeDescendants", d)})
		}
		prev = cur
		if uniqueIDs(nl) && d == 2 {
			sh := shuffled(g, nl)
			if r2, ok := run("NodeDescendants", d, func() *sbom.NodeList { return sh.NodeDescendants(s, d) }); ok {
				if !props.SameStrSet(cur, props.NodeSet(r2)) || !props.SameTripleSet(props.TripleSet(res), props.TripleSet(r2)) {
					rep.Fail(Failure{What: "NodeDescendants depends on the order of nodes or edges", Input: in("NodeDescendants", d)})
				}
			}
		}
	}
}

func runC15(seed int64, n int, dir string, tier string) *Report {
	g := gen.New(seed)
	rep := NewReport("C15", seed)
	rep.Rule = "correspondence: n random multigraphs (<=5 nodes, <=8 edges, several edges per source/type, dangling targets, occasional duplicate or empty ids, arbitrary root sets) x every start node x {Siblings, Graph, Descendants depth 1..4}; oracle: the same plus an exhaustive sweep of every 3-node digraph (512 edge sets over 9 ordered pairs incl. self loops) x 8 root sets x 3 starts (thorough: plus a dangling target); non-trivial = start node has an outgoing edge; distinct by hash"
	cf := &CasesFile{Imports: "Model.Base Model.Graph Corr.CheckC08", Type: "case08", Eval: "mismatches"}
	addCase := func(nl *sbom.NodeList, op *graphops.Op) {
		cur := clone(nl)
		beforeCoq := coqfmt.NodeList(cur)
		opCoq := op.Coq()
		var after *sbom.NodeList
		var outcome int
		var pv any
		fin, _ := callWithTimeout(5*time.Second, func() { after, outcome, pv = op.Apply(cur) })
		if !fin {
			rep.Fail(Failure{What: string(op.Kind) + " did not terminate within 5s", Input: map[string]any{"list": graphops.PJ(nl), "op": op.Describe()}})
			return
		}
		in := map[string]any{"before": graphops.PJ(nl), "op": op.Describe(), "outcome": outcome, "after": graphops.PJ(after)}
		if pv != nil {
			in["panic"] = fmt.Sprint(pv)
		}
		c := fmt.Sprintf("(mk_case08 %s %s %d %s)", beforeCoq, opCoq, outcome, coqfmt.NodeList(after))
		nontrivial := false
		for _, e := range nl.Edges {
			if e.From == op.ID {
				nontrivial = true
			}
		}
		cf.Add(c)
		rep.NoteCase(c, nontrivial, in)
		rep.Count("op=" + string(op.Kind))
		rep.Count(fmt.Sprintf("outcome=%d", outcome))
	}
	for i := 0; i < n; i++ {
		sh := gen.Shape{MaxNodes: 5, MaxEdges: 8, WellFormed: i%4 != 0, Richness: 0.05, OddIDs: 0.0, Pool: gen.IDPool[:6]}
		if i%9 == 0 {
			sh.OddIDs = 0.2
		}
		nl := g.NodeList(sh)
		if i%6 == 5 && len(nl.Nodes) > 0 {
			// give one node the empty identifier, consistently
			old := gen.Pick(g, nl.Nodes).Id
			for _, nd := range nl.Nodes {
				if nd.Id == old {
					nd.Id = ""
				}
			}
			for _, e := range nl.Edges {
				if e.From == old {
					e.From = ""
				}
				for k := range e.To {
					if e.To[k] == old {
						e.To[k] = ""
					}
				}
			}
			for k := range nl.RootElements {
				if nl.RootElements[k] == old {
					nl.RootElements[k] = ""
				}
			}
			rep.Count("with_empty_identifier")
		}
		rep.Count(fmt.Sprintf("nodes=%d", len(nl.Nodes)))
		starts := props.Keys(props.NodeSet(nl))
		if g.Chance(0.2) {
			starts = append(starts, "nosuch")
		}
		for _, s := range starts {
			k := g.Int(3)
			switch k {
			case 0:
				addCase(nl, &graphops.Op{Kind: graphops.Siblings, ID: s})
			case 1:
				addCase(nl, &graphops.Op{Kind: graphops.Graph, ID: s})
			default:
				addCase(nl, &graphops.Op{Kind: graphops.Descendants, ID: s, Depth: 1 + g.Int(4)})
			}
			checkExtraction(rep, g, nl, s, 4)
		}
		// several extractions on ONE list value, in a random order of stored edges: each must give what it
		// gives on a fresh copy (an extraction that damages its source shows in the later ones)
		if len(starts) > 0 {
			shared := clone(nl)
			g.R.Shuffle(len(shared.Edges), func(a, b int) { shared.Edges[a], shared.Edges[b] = shared.Edges[b], shared.Edges[a] })
			pristine := clone(shared)
			for k := 0; k < 5; k++ {
				op := &graphops.Op{Kind: gen.Pick(g, []graphops.Kind{graphops.Descendants, graphops.Graph, graphops.Siblings, graphops.Descendants}), ID: gen.Pick(g, starts), Depth: 1 + g.Int(4)}
				var got, want *sbom.NodeList
				var o1, o2 int
				callWithTimeout(5*time.Second, func() { got, o1, _ = op.Apply(shared) })
				callWithTimeout(5*time.Second, func() { want, o2, _ = op.Apply(clone(pristine)) })
				rep.OracleEvals++
				if o1 != o2 || (o1 == graphops.OK && (!props.SameStrSet(props.NodeSet(got), props.NodeSet(want)) || !props.SameTripleSet(props.TripleSet(got), props.TripleSet(want)) || !props.SameStrSet(props.RootSet(got), props.RootSet(want)))) {
					rep.Fail(Failure{What: "an extraction gave another result on a list that earlier extractions had been applied to than on a fresh copy of it", Detail: fmt.Sprintf("call %d: %s", k+1, op.Kind), Input: map[string]any{"list": graphops.PJ(pristine), "op": op.Describe(), "got": graphops.PJ(got), "on_a_fresh_copy": graphops.PJ(want)}})
					break
				}
			}
		}
	}
	// recorded witness of K8, replayed on every run
	{
		w := &sbom.NodeList{Nodes: []*sbom.Node{{Id: ""}, {Id: "x"}}, Edges: []*sbom.Edge{{Type: sbom.Edge_contains, From: "", To: []string{"x"}}}}
		checkExtraction(rep, g, w, "", 2)
	}
	// exhaustive small scope (oracle only)
	names := []string{"a", "b", "c"}
	var pairs [][2]string
	for _, x := range names {
		for _, y := range names {
			pairs = append(pairs, [2]string{x, y})
		}
	}
	extra := 0
	if tier == "thorough" {
		extra = 1 // plus one dangling target per source
	}
	step := 1
	if tier == "quick" {
		step = 7 // a stride through the enumeration keeps the quick tier short
	}
	count := 0
	for mask := 0; mask < 1<<len(pairs); mask += step {
		for rmask := 0; rmask < 8; rmask++ {
			nl := &sbom.NodeList{}
			for _, x := range names {
				nl.Nodes = append(nl.Nodes, &sbom.Node{Id: x})
			}
			for b, p := range pairs {
				if mask&(1<<b) != 0 {
					nl.Edges = append(nl.Edges, &sbom.Edge{Type: sbom.Edge_contains, From: p[0], To: []string{p[1]}})
				}
			}
			if extra == 1 {
				nl.Edges = append(nl.Edges, &sbom.Edge{Type: sbom.Edge_dependsOn, From: "a", To: []string{"zz", "b"}})
			}
			for b, x := range names {
				if rmask&(1<<b) != 0 {
					nl.RootElements = append(nl.RootElements, x)
				}
			}
			for _, s := range names {
				checkExtraction(rep, g, nl, s, 4)
				count++
			}
		}
	}
	rep.Count(fmt.Sprintf("exhaustive_small_scope_configs=%d", count))
	rep.CasesFiles = cf.Write(filepath.Join(dir, "cases_C15"))
	rep.ShardSize = shardSize
	return rep
}

// trimStack keeps the frames of a panic stack that are inside the library under test.
func trimStack(b []byte) string {
	var keep []string
	lines := strings.Split(string(b), "\n")
	for i := 0; i+1 < len(lines); i++ {
		if strings.Contains(lines[i+1], "/repo/") || strings.Contains(lines[i+1], "tools-golang") || strings.Contains(lines[i+1], "cyclonedx-go") {
			keep = append(keep, strings.TrimSpace(lines[i])+" @ "+strings.TrimSpace(lines[i+1]))
		}
	}
	if len(keep) > 6 {
		keep = keep[:6]
	}
	return strings.Join(keep, "\n")
}
