(* The vocabulary of the two formats, written out from the specifications (SPDX 2.3 clause 11.1
   relationship types, clauses 7.10 / 8.4 checksum algorithms; CycloneDX 1.5 hash-alg), keyed by the
   names of the protobuf enum values.  The regenerated tables of the code (Gen/Tables.v) are compared
   with these: a pair of entries swapped consistently in both directions keeps every round trip
   intact and is visible only here. *)
From Verif Require Import Model.Base Gen.Schema Gen.Tables.
Open Scope list_scope.

Definition spdx23_relationship_names : list (Z * string) := [
  (Edge_Type_amends, "AMENDS");
  (Edge_Type_ancestor, "ANCESTOR_OF");
  (Edge_Type_buildDependency, "BUILD_DEPENDENCY_OF");
  (Edge_Type_buildTool, "BUILD_TOOL_OF");
  (Edge_Type_contains, "CONTAINS");
  (Edge_Type_contained_by, "CONTAINED_BY");
  (Edge_Type_copy, "COPY_OF");
  (Edge_Type_dataFile, "DATA_FILE_OF");
  (Edge_Type_dependencyManifest, "DEPENDENCY_MANIFEST_OF");
  (Edge_Type_dependsOn, "DEPENDS_ON");
  (Edge_Type_dependencyOf, "DEPENDENCY_OF");
  (Edge_Type_descendant, "DESCENDANT_OF");
  (Edge_Type_describes, "DESCRIBES");
  (Edge_Type_describedBy, "DESCRIBED_BY");
  (Edge_Type_devDependency, "DEV_DEPENDENCY_OF");
  (Edge_Type_devTool, "DEV_TOOL_OF");
  (Edge_Type_distributionArtifact, "DISTRIBUTION_ARTIFACT");
  (Edge_Type_documentation, "DOCUMENTATION_OF");
  (Edge_Type_dynamicLink, "DYNAMIC_LINK");
  (Edge_Type_example, "EXAMPLE_OF");
  (Edge_Type_expandedFromArchive, "EXPANDED_FROM_ARCHIVE");
  (Edge_Type_fileAdded, "FILE_ADDED");
  (Edge_Type_fileDeleted, "FILE_DELETED");
  (Edge_Type_fileModified, "FILE_MODIFIED");
  (Edge_Type_generates, "GENERATES");
  (Edge_Type_generatedFrom, "GENERATED_FROM");
  (Edge_Type_metafile, "METAFILE_OF");
  (Edge_Type_optionalComponent, "OPTIONAL_COMPONENT_OF");
  (Edge_Type_optionalDependency, "OPTIONAL_DEPENDENCY_OF");
  (Edge_Type_other, "OTHER");
  (Edge_Type_packages, "PACKAGE_OF");
  (Edge_Type_patch, "PATCH_APPLIED");
  (Edge_Type_prerequisite, "HAS_PREREQUISITE");
  (Edge_Type_prerequisiteFor, "PREREQUISITE_FOR");
  (Edge_Type_providedDependency, "PROVIDED_DEPENDENCY_OF");
  (Edge_Type_requirementFor, "REQUIREMENT_DESCRIPTION_FOR");
  (Edge_Type_runtimeDependency, "RUNTIME_DEPENDENCY_OF");
  (Edge_Type_specificationFor, "SPECIFICATION_FOR");
  (Edge_Type_staticLink, "STATIC_LINK");
  (Edge_Type_test, "TEST_OF");
  (Edge_Type_testCase, "TEST_CASE_OF");
  (Edge_Type_testDependency, "TEST_DEPENDENCY_OF");
  (Edge_Type_testTool, "TEST_TOOL_OF");
  (Edge_Type_variant, "VARIANT_OF")
].

Definition spdx23_checksum_names : list (Z * string) := [
  (HashAlgorithm_MD5, "MD5");
  (HashAlgorithm_SHA1, "SHA1");
  (HashAlgorithm_SHA256, "SHA256");
  (HashAlgorithm_SHA384, "SHA384");
  (HashAlgorithm_SHA512, "SHA512");
  (HashAlgorithm_SHA3_256, "SHA3-256");
  (HashAlgorithm_SHA3_384, "SHA3-384");
  (HashAlgorithm_SHA3_512, "SHA3-512");
  (HashAlgorithm_BLAKE2B_256, "BLAKE2b-256");
  (HashAlgorithm_BLAKE2B_384, "BLAKE2b-384");
  (HashAlgorithm_BLAKE2B_512, "BLAKE2b-512");
  (HashAlgorithm_BLAKE3, "BLAKE3");
  (HashAlgorithm_ADLER32, "ADLER32");
  (HashAlgorithm_MD4, "MD4");
  (HashAlgorithm_MD6, "MD6");
  (HashAlgorithm_SHA224, "SHA224");
  (HashAlgorithm_MD2, "MD2")
].

Definition cdx_hash_alg_names : list (Z * string) := [
  (HashAlgorithm_MD5, "MD5");
  (HashAlgorithm_SHA1, "SHA-1");
  (HashAlgorithm_SHA256, "SHA-256");
  (HashAlgorithm_SHA384, "SHA-384");
  (HashAlgorithm_SHA512, "SHA-512");
  (HashAlgorithm_SHA3_256, "SHA3-256");
  (HashAlgorithm_SHA3_384, "SHA3-384");
  (HashAlgorithm_SHA3_512, "SHA3-512");
  (HashAlgorithm_BLAKE2B_256, "BLAKE2b-256");
  (HashAlgorithm_BLAKE2B_384, "BLAKE2b-384");
  (HashAlgorithm_BLAKE2B_512, "BLAKE2b-512");
  (HashAlgorithm_BLAKE3, "BLAKE3")
].

Definition pair_eqb (x y : Z * string) : bool := (Z.eqb (fst x) (fst y) && String.eqb (snd x) (snd y))%bool.
Definition tab_incl (a b : list (Z * string)) : bool := forallb (fun x => existsb (pair_eqb x) b) a.

Lemma pair_eqb_eq x y : pair_eqb x y = true <-> x = y.
Proof.
  destruct x as [a s], y as [b t]; unfold pair_eqb; cbn [fst snd].
  rewrite Bool.andb_true_iff, Z.eqb_eq, String.eqb_eq. split.
  - intros [-> ->]; reflexivity.
  - intros H; inversion H; auto.
Qed.

Lemma tab_incl_spec a b : tab_incl a b = true -> forall x, In x a -> In x b.
Proof.
  unfold tab_incl; rewrite forallb_forall. intros H x Hx. specialize (H x Hx).
  apply existsb_exists in H. destruct H as [y [Hy He]]. apply pair_eqb_eq in He. subst. exact Hy.
Qed.

(* every relationship type is written under its SPDX 2.3 name (clause 11.1); PATCH_FOR is the one SPDX 2.3
   relationship the graph model has no type for *)
Theorem relationship_names_are_spdx23 : forall t s, In (t, s) edge_to_spdx2_tab <-> In (t, s) spdx23_relationship_names.
Proof.
  assert (H1 : tab_incl edge_to_spdx2_tab spdx23_relationship_names = true) by (vm_compute; reflexivity).
  assert (H2 : tab_incl spdx23_relationship_names edge_to_spdx2_tab = true) by (vm_compute; reflexivity).
  intros t s; split; [apply (tab_incl_spec _ _ H1) | apply (tab_incl_spec _ _ H2)].
Qed.

(* every checksum algorithm the code writes to SPDX is written under its SPDX 2.3 name; the one SPDX
   algorithm the code has no mapping for is MD2 (the "16 shared" of the property text) *)
Theorem checksum_names_are_spdx23 :
  (forall a s, In (a, s) hash_to_spdx_tab -> In (a, s) spdx23_checksum_names) /\
  (forall a s, In (a, s) spdx23_checksum_names -> In (a, s) hash_to_spdx_tab \/ (a, s) = (HashAlgorithm_MD2, "MD2")).
Proof.
  assert (H1 : tab_incl hash_to_spdx_tab spdx23_checksum_names = true) by (vm_compute; reflexivity).
  assert (H2 : tab_incl spdx23_checksum_names ((HashAlgorithm_MD2, "MD2") :: hash_to_spdx_tab) = true) by (vm_compute; reflexivity).
  split; intros a s H; [exact (tab_incl_spec _ _ H1 _ H)|].
  destruct (tab_incl_spec _ _ H2 _ H) as [E|E]; [right; symmetry; exact E | left; exact E].
Qed.

Theorem hash_names_are_cyclonedx : forall a s, In (a, s) hash_to_cdx_tab <-> In (a, s) cdx_hash_alg_names.
Proof.
  assert (H1 : tab_incl hash_to_cdx_tab cdx_hash_alg_names = true) by (vm_compute; reflexivity).
  assert (H2 : tab_incl cdx_hash_alg_names hash_to_cdx_tab = true) by (vm_compute; reflexivity).
  intros a s; split; [apply (tab_incl_spec _ _ H1) | apply (tab_incl_spec _ _ H2)].
Qed.

(* package identifiers as SPDX 2.3 external references (Annex F): category and type per identifier kind *)
Definition spdx23_identifier_refs : list (Z * (string * string)) := [
  (SoftwareIdentifierType_PURL, ("PACKAGE-MANAGER", "purl"));
  (SoftwareIdentifierType_CPE22, ("SECURITY", "cpe22Type"));
  (SoftwareIdentifierType_CPE23, ("SECURITY", "cpe23Type"));
  (SoftwareIdentifierType_GITOID, ("PERSISTENT-ID", "gitoid"))
].

Theorem identifier_refs_are_spdx23 : forall k c t,
  In (k, (c, t)) spdx23_identifier_refs ->
  In (k, c) ident_to_spdx2_category_tab /\ In (k, t) ident_to_spdx2_type_tab /\ In (t, k) spdx_ident_type_tab.
Proof.
  intros k c t H. cbn [spdx23_identifier_refs In] in H.
  destruct H as [H|[H|[H|[H|[]]]]]; inversion H; subst; vm_compute; intuition.
Qed.
