(* C11 — Queries and value-returning operations leave their operands unchanged.  Statements only;
   proofs in Proofs/HeapFacts.v.  What a theorem can carry here: the operations that build a new
   value from their operands by copying (Copy of every message type; Union and Intersect assemble
   their result from such copies) only allocate — the heap their operands live in is extended,
   never written — so every snapshot of an operand taken after the call equals the one taken
   before, and snapshots are blind to stores outside what they reach.  Comparing, hashing,
   diffing, looking up, traversing and serializing are functions of the operand graph in the value
   models (C13, C14, C15, C16, C07); that the real code does not write while computing them is
   observed, not proved: the harness records the operands' object graph by pointer identity before
   and after every such call and the evaluator checks it is the same graph (values, shape and
   sharing; HUnchanged cases), and a race-detector build runs them concurrently on one document.
   Since round 15 there is a second, static tie: the stores the Go sources make through a receiver
   or parameter, and the calls that hand such a value on, are extracted on every run
   (Gen/Locks.v: operand_writes, operand_calls, operand_roots); no chain of such calls, however
   long, leads from an exported query or value-returning operation of pkg/sbom or of the
   serializers to a store through one of its operands (C11_readonly_operands_not_written), and a
   computation that stores only into what it allocated itself leaves every operand snapshot as it
   was (C11_own_allocations_only). *)
From Coq Require Import Lia.
From Verif Require Import Model.Base Model.Heap Gen.Locks Model.Effects Proofs.HeapFacts Proofs.EffectFacts Proofs.ParseFacts.
Open Scope list_scope.

(* copying leaves every location of the source heap as it was *)
Theorem C11_copy_does_not_write : forall h v v' h',
  dense h -> closed_heap h -> (forall m, ptr_of v = Some m -> 0 <= m < Z.of_nat (length h)) ->
  copy_value h v = (v', h') ->
  forall l c, hget h l = Some c -> hget h' l = Some c.
Proof. exact copy_does_not_write. Qed.
Print Assumptions C11_copy_does_not_write.

(* hence the operand's snapshot after the call is the snapshot before it *)
Theorem C11_operand_snapshot_unchanged : forall fuel h v v' h' w,
  dense h -> closed_heap h -> (forall m, ptr_of v = Some m -> 0 <= m < Z.of_nat (length h)) ->
  copy_value h v = (v', h') ->
  (forall l, Reach h w l -> hget h l <> None) ->
  tree_of fuel h' w = tree_of fuel h w.
Proof. exact operand_snapshot_unchanged. Qed.
Print Assumptions C11_operand_snapshot_unchanged.

(* what one caller stores into its own result cannot be seen through a shared operand *)
Theorem C11_private_stores_invisible : forall fuel h v l c,
  ~ Reach h v l -> tree_of fuel (hset h l c) v = tree_of fuel h v.
Proof. exact store_elsewhere_keeps_snapshot. Qed.
Print Assumptions C11_private_stores_invisible.

Example C11_example :
  let h := [ (0, HMsg K_Edge [HZ 5; HS "a"; HSl 1 2]); (1, HArr [HS "b"; HS "c"]) ] in
  let '(v', h') := copy_value h (HPtr 0) in
  (same_graph h [HPtr 0] h' [HPtr 0] && negb (same_graph h [HPtr 0] (hset h' 1 (HArr [HS "c"; HS "b"])) [HPtr 0]))%bool = true.
Proof. vm_compute. reflexivity. Qed.

(* no operand of a comparing, hashing, diffing, copying, look-up, traversing, uniting, intersecting or
   serializing operation, and no operand of a mutator other than its receiver, is stored through,
   directly or through any chain of calls the extracted tables contain *)
Theorem C11_readonly_operands_not_written : forall x,
  In x operand_roots -> protected_root x = true -> ~ Writes operand_writes operand_calls x.
Proof. exact readonly_operands_not_written. Qed.
Print Assumptions C11_readonly_operands_not_written.

(* a computation that allocates, and stores only into locations it allocated, leaves the snapshot of
   every earlier value as it was: the discipline the sorted copies in Equal and flatString follow *)
Theorem C11_own_allocations_only : forall fuel ops h v,
  dense h -> fresh_only (Z.of_nat (length h)) ops = true ->
  (forall l, Reach h v l -> hget h l <> None) ->
  tree_of fuel (fold_left hstep ops h) v = tree_of fuel h v.
Proof. exact fresh_only_keeps_snapshot. Qed.
Print Assumptions C11_own_allocations_only.

(* the table is not silent: every documented mutator is found to write its receiver; and sorting a
   copy is an own-allocations-only program while sorting in place is not *)
Example C11_effects_example :
  forallb (fun m => fmem m (writers operand_writes operand_calls)) mutators = true /\
  (forallb (fun f => existsb (fun r => String.eqb (fst r) f) operand_roots) readonly_ops
   && forallb (fun r => fmem r operand_roots) readonly_roots)%bool = true /\
  protected_root ("sbom.NodeList.Equal", 1) = true /\ protected_root ("sbom.NodeList.Add", 1) = true /\
  protected_root ("sbom.NodeList.Add", 0) = false /\ protected_root ("writer.Writer.WriteStream", 1) = true /\
  (let h := [ (0, HArr [HS "b"; HS "a"]) ] in
   fresh_only 1 [OAlloc (HArr [HS "b"; HS "a"]); OStore 1 (HArr [HS "a"; HS "b"])] = true /\
   fresh_only 1 [OStore 0 (HArr [HS "a"; HS "b"])] = false /\
   tree_of 3 (fold_left hstep [OAlloc (HArr [HS "b"; HS "a"]); OStore 1 (HArr [HS "a"; HS "b"])] h) (HSl 0 2) = tree_of 3 h (HSl 0 2) /\
   tree_of 3 (fold_left hstep [OStore 0 (HArr [HS "a"; HS "b"])] h) (HSl 0 2) <> tree_of 3 h (HSl 0 2)).
Proof. split; [exact mutators_write|]. split; [exact readonly_ops_present|]. vm_compute. repeat split; try reflexivity. discriminate. Qed.
