(* Model of the lookups and of GetMatchingNode (pkg/sbom/nodelist.go, node.go, identifier.go). *)
From Verif Require Import Model.Base Model.Node Model.Graph Gen.Tables.
Open Scope list_scope.

(* ---- strings.ToLower / strings.TrimSpace on ASCII ------------------------------------- *)
Definition lower_ascii (c : ascii) : ascii :=
  let n := nat_of_ascii c in
  if (Nat.leb 65 n && Nat.leb n 90)%bool then ascii_of_nat (n + 32) else c.

Fixpoint map_string (f : ascii -> ascii) (s : string) : string :=
  match s with EmptyString => EmptyString | String c r => String (f c) (map_string f r) end.

Definition to_lower (s : string) : string := map_string lower_ascii s.

Definition is_space (c : ascii) : bool :=
  let n := nat_of_ascii c in
  (Nat.eqb n 32 || (Nat.leb 9 n && Nat.leb n 13))%bool.

Fixpoint trim_left (s : string) : string :=
  match s with
  | String c r => if is_space c then trim_left r else s
  | EmptyString => EmptyString
  end.

Fixpoint rev_string (acc s : string) : string :=
  match s with EmptyString => acc | String c r => rev_string (String c acc) r end.

Definition trim_space (s : string) : string :=
  rev_string "" (trim_left (rev_string "" (trim_left s))).

(* ---- SoftwareIdentifierTypeFromString --------------------------------------------------- *)
(* exact SPDX reference types first, then the lower-cased, trimmed spelling (both tables are
   generated from the code) *)
Definition ident_type_of_string (q : string) : Z :=
  match sassoc q ident_exact_tab with
  | Some t => t
  | None => match sassoc (trim_space (to_lower q)) ident_lower_tab with
            | Some t => t
            | None => 0
            end
  end.

(* ---- plain lookups ------------------------------------------------------------------------- *)
Definition by_id (l : nodelist) (i : string) : option node := first_node i (nl_nodes l).

Definition by_name (l : nodelist) (nm : string) : list node :=
  filter (fun n => String.eqb (n_name n) nm) (nl_nodes l).

Definition by_identifier (l : nodelist) (t v : string) : list node :=
  let ty := ident_type_of_string t in
  filter (fun n => match zassoc ty (n_identifiers n) with
                   | Some v' => String.eqb v' v
                   | None => false
                   end) (nl_nodes l).

(* GetRootNodes stops as soon as it has collected as many nodes as there are distinct roots *)
Fixpoint root_nodes_go (roots : list string) (want : nat) (ns : list node) (have : nat) : list node :=
  match ns with
  | [] => []
  | n :: r =>
      if mem (n_id n) roots
      then if Nat.eqb (S have) want then [n] else n :: root_nodes_go roots want r (S have)
      else root_nodes_go roots want r have
  end.

Definition root_nodes (l : nodelist) : list node :=
  root_nodes_go (nl_root_elements l) (length (dedup (nl_root_elements l))) (nl_nodes l) 0.

(* ---- GetMatchingNode --------------------------------------------------------------------------- *)
(* n is a hash candidate for the probe's hashes th: some non-empty probe hash equals n's hash
   for that algorithm, and all algorithms both carry agree *)
Definition hash_candidate (th : list (Z * string)) (n : node) : bool :=
  existsb (fun kv => negb (String.eqb (snd kv) "") &&
                     match zassoc (fst kv) (n_hashes n) with
                     | Some v => String.eqb v (snd kv)
                     | None => false
                     end) th
  && hashes_match n th.

(* keep the first node of each identifier (foundNodes is keyed by identifier) *)
Fixpoint dedup_nodes (ns : list node) : list node :=
  match ns with
  | [] => []
  | n :: r => n :: filter (fun m => negb (String.eqb (n_id n) (n_id m))) (dedup_nodes r)
  end.

Definition matching_node (l : nodelist) (p : node) : result (option node) :=
  let found := dedup_nodes (filter (hash_candidate (n_hashes p)) (nl_nodes l)) in
  let tp := purl p in
  match found with
  | [n] => Ok (Some n)
  | [] =>
      if String.eqb tp "" then Ok None
      else match filter (fun n => String.eqb (purl n) tp) (nl_nodes l) with
           | [] => Ok None
           | [n] => Ok (Some n)
           | _ => Err
           end
  | _ =>
      if String.eqb tp "" then Err
      else match filter (fun n => String.eqb (purl n) tp) found with
           | [n] => Ok (Some n)
           | _ => Err
           end
  end.
