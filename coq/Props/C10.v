(* C10 — Intersect obeys set-intersection laws. Statements only; proofs in
   Proofs/SetLaws.v and Proofs/AttrLaws.v. All operands, ill-formed ones included. *)
From Verif Require Import Model.Base Model.Node Model.Graph Proofs.ListFacts Proofs.GraphFacts Proofs.OpsWf Proofs.SetLaws Proofs.AttrLaws.
Open Scope list_scope.

Theorem C10_nodes : forall l l2 i, Nset (intersect l l2) i <-> Nset l i /\ Nset l2 i.
Proof. exact intersect_N. Qed.
Print Assumptions C10_nodes.

(* roots: only operands' roots that survive, including all that are roots in both *)
Theorem C10_roots : forall l l2 r,
  (Rset (intersect l l2) r -> (Rset l r \/ Rset l2 r) /\ Nset (intersect l l2) r) /\
  (Rset l r -> Rset l2 r -> Nset (intersect l l2) r -> Rset (intersect l l2) r).
Proof. exact intersect_R_bounds. Qed.
Print Assumptions C10_roots.

(* edges: only operand edges whose endpoints survive, including every such edge of both *)
Theorem C10_edges : forall l l2 f t x,
  (Eset (intersect l l2) f t x ->
     (Eset l f t x \/ Eset l2 f t x) /\ Nset (intersect l l2) f /\ Nset (intersect l l2) x) /\
  (Eset l f t x -> Eset l2 f t x -> Nset (intersect l l2) f -> Nset (intersect l l2) x ->
     Eset (intersect l l2) f t x).
Proof. exact intersect_E_bounds. Qed.
Print Assumptions C10_edges.

(* idempotent on nodes, surviving roots and edges among present nodes ("those sets") *)
Theorem C10_idempotent : forall l, equiv_res (intersect l l) l.
Proof. exact intersect_idem. Qed.
Print Assumptions C10_idempotent.

Theorem C10_commutative : forall l l2, equiv (intersect l l2) (intersect l2 l).
Proof. exact intersect_comm. Qed.
Print Assumptions C10_commutative.

Theorem C10_absorption : forall l l2 i,
  (Nset (intersect l (union l l2)) i <-> Nset l i) /\ (Nset (intersect l (union l2 l)) i <-> Nset l i).
Proof. intros. split; [apply intersect_absorb|apply intersect_absorb']. Qed.
Print Assumptions C10_absorption.

Theorem C10_empty : forall l, equiv (intersect l empty_nl) empty_nl /\ equiv (intersect empty_nl l) empty_nl.
Proof. intros l. split; [exact (intersect_empty_r l)|exact (intersect_empty_l l)]. Qed.
Print Assumptions C10_empty.

(* the result is a well-formed, normalised list whatever the operands *)
Theorem C10_result_wf : forall l l2, wf (intersect l l2) /\ norm (nl_edges (intersect l l2)).
Proof. intros. split; [apply intersect_wf|apply intersect_norm]. Qed.
Print Assumptions C10_result_wf.

(* attributes of surviving nodes: second operand wins, for every schema field but id/kind;
   with duplicate identifiers the last node of each operand counts *)
Theorem C10_attr : forall l l2 n f,
  In n (nl_nodes (intersect l l2)) -> mergeable f = true ->
  exists na nb, last_node (n_id n) (nl_nodes l) = Some na /\ last_node (n_id n) (nl_nodes l2) = Some nb /\
                nget f n = if aval_nonempty (nget f nb) then nget f nb else nget f na.
Proof. exact intersect_attr_field. Qed.
Print Assumptions C10_attr.
