(* Model of pkg/sbom/node.go: Update, Augment, Copy (value level), Purl, HashesMatch.
   Every record below is built with all fields named, so a field added to the schema
   (Gen/Schema.v is regenerated from the descriptors) makes this file fail to compile
   until Update/Augment/Copy take a position on it. *)
From Verif Require Import Model.Base.

Definition pick_s (a b : string) : string := if String.eqb b "" then a else b.
Definition pick_l {A} (a b : list A) : list A := match b with [] => a | _ => b end.
Definition pick_o {A} (a b : option A) : option A := match b with None => a | _ => b end.

(* n.Update(n2): non-empty values of n2 overwrite; id and type are never touched *)
Definition update (n n2 : node) : node :=
  {| n_id := n_id n;
     n_type := n_type n;
     n_name := pick_s (n_name n) (n_name n2);
     n_version := pick_s (n_version n) (n_version n2);
     n_file_name := pick_s (n_file_name n) (n_file_name n2);
     n_url_home := pick_s (n_url_home n) (n_url_home n2);
     n_url_download := pick_s (n_url_download n) (n_url_download n2);
     n_licenses := pick_l (n_licenses n) (n_licenses n2);
     n_license_concluded := pick_s (n_license_concluded n) (n_license_concluded n2);
     n_license_comments := pick_s (n_license_comments n) (n_license_comments n2);
     n_copyright := pick_s (n_copyright n) (n_copyright n2);
     n_source_info := pick_s (n_source_info n) (n_source_info n2);
     n_comment := pick_s (n_comment n) (n_comment n2);
     n_summary := pick_s (n_summary n) (n_summary n2);
     n_description := pick_s (n_description n) (n_description n2);
     n_attribution := pick_l (n_attribution n) (n_attribution n2);
     n_suppliers := pick_l (n_suppliers n) (n_suppliers n2);
     n_originators := pick_l (n_originators n) (n_originators n2);
     n_release_date := pick_o (n_release_date n) (n_release_date n2);
     n_build_date := pick_o (n_build_date n) (n_build_date n2);
     n_valid_until_date := pick_o (n_valid_until_date n) (n_valid_until_date n2);
     n_external_references := pick_l (n_external_references n) (n_external_references n2);
     n_file_types := pick_l (n_file_types n) (n_file_types n2);
     n_identifiers := pick_l (n_identifiers n) (n_identifiers n2);
     n_hashes := pick_l (n_hashes n) (n_hashes n2);
     n_primary_purpose := pick_l (n_primary_purpose n) (n_primary_purpose n2) |}.

(* n.Augment(n2): only empty attributes of n are filled from n2 *)
Definition augment (n n2 : node) : node :=
  {| n_id := n_id n;
     n_type := n_type n;
     n_name := pick_s (n_name n2) (n_name n);
     n_version := pick_s (n_version n2) (n_version n);
     n_file_name := pick_s (n_file_name n2) (n_file_name n);
     n_url_home := pick_s (n_url_home n2) (n_url_home n);
     n_url_download := pick_s (n_url_download n2) (n_url_download n);
     n_licenses := pick_l (n_licenses n2) (n_licenses n);
     n_license_concluded := pick_s (n_license_concluded n2) (n_license_concluded n);
     n_license_comments := pick_s (n_license_comments n2) (n_license_comments n);
     n_copyright := pick_s (n_copyright n2) (n_copyright n);
     n_source_info := pick_s (n_source_info n2) (n_source_info n);
     n_comment := pick_s (n_comment n2) (n_comment n);
     n_summary := pick_s (n_summary n2) (n_summary n);
     n_description := pick_s (n_description n2) (n_description n);
     n_attribution := pick_l (n_attribution n2) (n_attribution n);
     n_suppliers := pick_l (n_suppliers n2) (n_suppliers n);
     n_originators := pick_l (n_originators n2) (n_originators n);
     n_release_date := pick_o (n_release_date n2) (n_release_date n);
     n_build_date := pick_o (n_build_date n2) (n_build_date n);
     n_valid_until_date := pick_o (n_valid_until_date n2) (n_valid_until_date n);
     n_external_references := pick_l (n_external_references n2) (n_external_references n);
     n_file_types := pick_l (n_file_types n2) (n_file_types n);
     n_identifiers := pick_l (n_identifiers n2) (n_identifiers n);
     n_hashes := pick_l (n_hashes n2) (n_hashes n);
     n_primary_purpose := pick_l (n_primary_purpose n2) (n_primary_purpose n) |}.

(* Person.Copy / ExternalReference.Copy / Node.Copy at value level: every field is
   carried over.  (Sharing is the heap model's business, Model/Heap.v.) *)
Fixpoint person_copy (p : person) : person :=
  {| p_name := p_name p; p_is_org := p_is_org p; p_email := p_email p; p_url := p_url p;
     p_phone := p_phone p; p_contacts := map person_copy (p_contacts p);
     p_contacts_nil := p_contacts_nil p |}.

Definition extref_copy (x : extref) : extref :=
  {| x_url := x_url x; x_comment := x_comment x; x_authority := x_authority x;
     x_hashes := x_hashes x; x_type := x_type x |}.

Definition node_copy (n : node) : node :=
  {| n_id := n_id n;
     n_type := n_type n;
     n_name := n_name n;
     n_version := n_version n;
     n_file_name := n_file_name n;
     n_url_home := n_url_home n;
     n_url_download := n_url_download n;
     n_licenses := n_licenses n;
     n_license_concluded := n_license_concluded n;
     n_license_comments := n_license_comments n;
     n_copyright := n_copyright n;
     n_source_info := n_source_info n;
     n_comment := n_comment n;
     n_summary := n_summary n;
     n_description := n_description n;
     n_attribution := n_attribution n;
     n_suppliers := map person_copy (n_suppliers n);
     n_originators := map person_copy (n_originators n);
     n_release_date := n_release_date n;
     n_build_date := n_build_date n;
     n_valid_until_date := n_valid_until_date n;
     n_external_references := map extref_copy (n_external_references n);
     n_file_types := n_file_types n;
     n_identifiers := n_identifiers n;
     n_hashes := n_hashes n;
     n_primary_purpose := n_primary_purpose n |}.

Definition edge_copy (e : edge) : edge :=
  {| e_type := e_type e; e_from := e_from e; e_to := e_to e |}.

(* Node.Purl: empty for FILE nodes, else identifiers[PURL] *)
Definition purl (n : node) : string :=
  if Z.eqb (n_type n) Node_NodeType_FILE then ""
  else match zassoc SoftwareIdentifierType_PURL (n_identifiers n) with Some s => s | None => "" end.

(* Node.HashesMatch(th): over the algorithms both have, all agree and there is at least one *)
Definition hashes_match (n : node) (th : list (Z * string)) : bool :=
  match n_hashes n, th with
  | [], _ | _, [] => false
  | _, _ =>
      let common := filter (fun kv => match zassoc (fst kv) (n_hashes n) with Some _ => true | None => false end) th in
      forallb (fun kv => match zassoc (fst kv) (n_hashes n) with
                         | Some v => String.eqb v (snd kv) | None => true end) common
      && negb (match common with [] => true | _ => false end)
  end.
