(* C13 — equality and checksums form a sound, order-insensitive equivalence.
   Statements only; proofs in Proofs/FlatFacts.v and Proofs/SortFacts.v.
   node_flat / edge_flat are the exact byte strings of the Go code (checked against the
   implementation's own strings on every run); Equal is string equality of them. *)
From Coq Require Import Permutation.
From Verif Require Import Model.Base Model.Node Model.Graph Model.Flat Proofs.SortFacts Proofs.FlatFacts Proofs.EdgeInj.
Open Scope list_scope.

Theorem C13_node_equal_equivalence : forall a b c,
  node_equal a a = true /\ node_equal a b = node_equal b a /\
  (node_equal a b = true -> node_equal b c = true -> node_equal a c = true).
Proof. intros. split; [apply node_equal_refl|]. split; [apply node_equal_sym|apply node_equal_trans]. Qed.
Print Assumptions C13_node_equal_equivalence.

Theorem C13_edge_equal_equivalence : forall a b c,
  edge_equal a a = true /\ edge_equal a b = edge_equal b a /\
  (edge_equal a b = true -> edge_equal b c = true -> edge_equal a c = true).
Proof. intros. split; [apply edge_equal_refl|]. split; [apply edge_equal_sym|apply edge_equal_trans]. Qed.
Print Assumptions C13_edge_equal_equivalence.

Theorem C13_list_equal_equivalence : forall sha a b c,
  nl_equal sha a a = true /\ nl_equal sha a b = nl_equal sha b a /\
  (nl_equal sha a b = true -> nl_equal sha b c = true -> nl_equal sha a c = true).
Proof. intros. split; [apply nl_equal_refl|]. split; [apply nl_equal_sym|apply nl_equal_trans]. Qed.
Print Assumptions C13_list_equal_equivalence.

(* agreement with checksum equality; SHA-256 is a parameter assumed injective on the strings
   compared (the only cryptographic assumption; stated as a premise, not an axiom) *)
Theorem C13_equal_iff_checksum : forall sha, (forall x y, sha x = sha y -> x = y) ->
  forall a b, node_equal a b = true <-> checksum sha a = checksum sha b.
Proof. exact equal_iff_checksum. Qed.
Print Assumptions C13_equal_iff_checksum.

(* order-insensitivity: any permutation of any set-valued attribute, of edge targets, of nodes,
   edges and roots *)
Theorem C13_node_order_insensitive : forall a b, node_reordered a b -> node_equal a b = true.
Proof. exact node_equal_reordered. Qed.
Print Assumptions C13_node_order_insensitive.

Theorem C13_edge_order_insensitive : forall a b,
  e_from a = e_from b -> e_type a = e_type b -> Permutation (e_to a) (e_to b) -> edge_flat a = edge_flat b.
Proof. exact edge_flat_reordered. Qed.
Print Assumptions C13_edge_order_insensitive.

Theorem C13_list_order_insensitive : forall sha a b,
  Permutation (nl_nodes a) (nl_nodes b) -> Permutation (nl_edges a) (nl_edges b) ->
  Permutation (nl_root_elements a) (nl_root_elements b) -> NoDup (ids a) -> nl_equal sha a b = true.
Proof. exact nl_equal_reordered. Qed.
Print Assumptions C13_list_order_insensitive.

Theorem C13_sort_is_canonical : forall l l', Permutation l l' -> ssort l = ssort l'.
Proof. exact ssort_perm_eq. Qed.
Print Assumptions C13_sort_is_canonical.

(* discrimination.  FULL statement:  node_equal a b = true -> every attribute of a and b carries the
   same content.  It is false of the code (C13_discriminating_refuted: the flat format's separators may
   occur inside values — known finding K1 — and for lists a node shadowed by a later node with the
   same identifier is not compared — K6).  Proved part: every schema field contributes to the string
   (no attribute is skipped), scalar attributes are rendered injectively field by field, external
   reference hashes are covered. *)
Theorem C13_scalar_fields_discriminate_partial : forall a b f,
  scalar_field f = true -> field_pairs a f = field_pairs b f -> nget f a = nget f b.
Proof. exact scalar_field_discriminates. Qed.
Print Assumptions C13_scalar_fields_discriminate_partial.

Theorem C13_extref_hashes_covered : forall x,
  x_hashes x <> [] ->
  extref_flat x <> extref_flat {| x_url := x_url x; x_comment := x_comment x; x_authority := x_authority x;
                                  x_hashes := []; x_type := x_type x |}.
Proof. exact extref_hashes_covered. Qed.
Print Assumptions C13_extref_hashes_covered.

(* edges: discrimination holds in full whenever the values are free of the format's separators (the
   source without ':', no target empty or containing '+'): equal edges then have the same source, the
   same type name and the same targets up to order.  Without the premise it fails (second part of
   C13_discriminating_refuted). *)
Theorem C13_edge_equal_discriminates : forall a b,
  nochar ":" (e_from a) = true -> nochar ":" (e_from b) = true ->
  Forall target_ok (e_to a) -> Forall target_ok (e_to b) ->
  edge_equal a b = true ->
  e_from a = e_from b /\
  enum_name Edge_Type_names (e_type a) = enum_name Edge_Type_names (e_type b) /\
  Permutation (e_to a) (e_to b).
Proof. exact edge_equal_discriminates. Qed.
Print Assumptions C13_edge_equal_discriminates.

Example C13_edge_premise_inhabited :
  nochar ":" "pkg-a" = true /\ Forall target_ok ["lib-b"; "lib-c"].
Proof. split; [reflexivity|]. repeat constructor; discriminate. Qed.

Definition nd (i : string) : node :=
  {| n_id := i; n_type := 0; n_name := ""; n_version := ""; n_file_name := ""; n_url_home := "";
     n_url_download := ""; n_licenses := []; n_license_concluded := ""; n_license_comments := "";
     n_copyright := ""; n_source_info := ""; n_comment := ""; n_summary := ""; n_description := "";
     n_attribution := []; n_suppliers := []; n_originators := []; n_release_date := None;
     n_build_date := None; n_valid_until_date := None; n_external_references := [];
     n_file_types := []; n_identifiers := []; n_hashes := []; n_primary_purpose := [] |}.

(* a populated sample node: every field of the schema yields at least one pair string *)
Definition full_node : node :=
  {| n_id := "i"; n_type := 1; n_name := "n"; n_version := "v"; n_file_name := "f"; n_url_home := "h";
     n_url_download := "d"; n_licenses := ["l"]; n_license_concluded := "c"; n_license_comments := "m";
     n_copyright := "r"; n_source_info := "s"; n_comment := "o"; n_summary := "u"; n_description := "e";
     n_attribution := ["a"];
     n_suppliers := [ {| p_name := "p"; p_is_org := true; p_email := ""; p_url := ""; p_phone := ""; p_contacts := []; p_contacts_nil := true |} ];
     n_originators := [ {| p_name := "q"; p_is_org := false; p_email := ""; p_url := ""; p_phone := ""; p_contacts := []; p_contacts_nil := true |} ];
     n_release_date := Some (1, 0); n_build_date := Some (2, 0); n_valid_until_date := Some (3, 0);
     n_external_references := [ {| x_url := "u"; x_comment := ""; x_authority := ""; x_hashes := [(3, "aa")]; x_type := 5 |} ];
     n_file_types := ["t"]; n_identifiers := [(1, "pkg:x")]; n_hashes := [(3, "bb")]; n_primary_purpose := [16] |}.

Theorem C13_every_field_contributes :
  forallb (fun f => match field_pairs full_node f with [] => false | _ => true end) nfields = true.
Proof. vm_compute. reflexivity. Qed.
Print Assumptions C13_every_field_contributes.

Theorem C13_discriminating_refuted :
  (exists a b, node_equal a b = true /\ n_name a <> n_name b) /\
  (exists a b, edge_equal a b = true /\ e_to a <> e_to b) /\
  (exists a b, nl_equal (fun s => s) a b = true /\ map n_name (nl_nodes a) <> map n_name (nl_nodes b)).
Proof.
  split; [|split].
  - exists (let n := nd "n" in {| n_id := "n"; n_type := 0; n_name := "a:protobom.protobom.Node.version:b"; n_version := ""; n_file_name := ""; n_url_home := "";
              n_url_download := ""; n_licenses := []; n_license_concluded := ""; n_license_comments := "";
              n_copyright := ""; n_source_info := ""; n_comment := ""; n_summary := ""; n_description := "";
              n_attribution := []; n_suppliers := []; n_originators := []; n_release_date := None;
              n_build_date := None; n_valid_until_date := None; n_external_references := [];
              n_file_types := []; n_identifiers := []; n_hashes := []; n_primary_purpose := [] |}),
           {| n_id := "n"; n_type := 0; n_name := "a"; n_version := "b"; n_file_name := ""; n_url_home := "";
              n_url_download := ""; n_licenses := []; n_license_concluded := ""; n_license_comments := "";
              n_copyright := ""; n_source_info := ""; n_comment := ""; n_summary := ""; n_description := "";
              n_attribution := []; n_suppliers := []; n_originators := []; n_release_date := None;
              n_build_date := None; n_valid_until_date := None; n_external_references := [];
              n_file_types := []; n_identifiers := []; n_hashes := []; n_primary_purpose := [] |}.
    split; [vm_compute; reflexivity|simpl; discriminate].
  - exists {| e_type := 5; e_from := "a"; e_to := ["b+c"] |}, {| e_type := 5; e_from := "a"; e_to := ["b"; "c"] |}.
    split; [vm_compute; reflexivity|simpl; discriminate].
  - exists {| nl_nodes := [ {| n_id := "a"; n_type := 0; n_name := "x"; n_version := ""; n_file_name := ""; n_url_home := "";
              n_url_download := ""; n_licenses := []; n_license_concluded := ""; n_license_comments := "";
              n_copyright := ""; n_source_info := ""; n_comment := ""; n_summary := ""; n_description := "";
              n_attribution := []; n_suppliers := []; n_originators := []; n_release_date := None;
              n_build_date := None; n_valid_until_date := None; n_external_references := [];
              n_file_types := []; n_identifiers := []; n_hashes := []; n_primary_purpose := [] |}; nd "a"]; nl_edges := []; nl_root_elements := [] |},
           {| nl_nodes := [nd "a"; nd "a"]; nl_edges := []; nl_root_elements := [] |}.
    split; [vm_compute; reflexivity|simpl; discriminate].
Qed.
Print Assumptions C13_discriminating_refuted.

(* non-vacuity of the reordering premise *)
Example C13_reordered_inhabited :
  exists a b, node_reordered a b /\ n_licenses a <> n_licenses b.
Proof.
  exists {| n_id := "n"; n_type := 0; n_name := ""; n_version := ""; n_file_name := ""; n_url_home := "";
            n_url_download := ""; n_licenses := ["MIT"; "Apache-2.0"]; n_license_concluded := ""; n_license_comments := "";
            n_copyright := ""; n_source_info := ""; n_comment := ""; n_summary := ""; n_description := "";
            n_attribution := []; n_suppliers := []; n_originators := []; n_release_date := None;
            n_build_date := None; n_valid_until_date := None; n_external_references := [];
            n_file_types := []; n_identifiers := []; n_hashes := []; n_primary_purpose := [] |},
         {| n_id := "n"; n_type := 0; n_name := ""; n_version := ""; n_file_name := ""; n_url_home := "";
            n_url_download := ""; n_licenses := ["Apache-2.0"; "MIT"]; n_license_concluded := ""; n_license_comments := "";
            n_copyright := ""; n_source_info := ""; n_comment := ""; n_summary := ""; n_description := "";
            n_attribution := []; n_suppliers := []; n_originators := []; n_release_date := None;
            n_build_date := None; n_valid_until_date := None; n_external_references := [];
            n_file_types := []; n_identifiers := []; n_hashes := []; n_primary_purpose := [] |}.
  split; [|simpl; discriminate].
  unfold node_reordered; simpl. repeat split; try reflexivity; try apply Permutation_refl. apply perm_swap.
Qed.
