(* C09 — Union and in-place Add obey set-union and precedence laws.
   Statements only; proofs in Proofs/SetLaws.v and Proofs/AttrLaws.v.
   Nset/Rset/Eset: node identifiers, root elements, typed edge triples of a list;
   Eres: triples between present nodes; equiv: equality of (Nset, Rset, Eres). *)
From Verif Require Import Model.Base Model.Node Model.Graph Proofs.ListFacts Proofs.GraphFacts Proofs.OpsWf Proofs.SetLaws Proofs.AttrLaws.
Open Scope list_scope.

(* exactly the nodes, the roots and (restricted to present nodes) the edges of either
   operand — for ALL operands, ill-formed ones included *)
Theorem C09_union_nodes : forall l l2 i, Nset (union l l2) i <-> Nset l i \/ Nset l2 i.
Proof. exact union_N. Qed.
Print Assumptions C09_union_nodes.

Theorem C09_union_roots : forall l l2 r, Rset (union l l2) r <-> Rset l r \/ Rset l2 r.
Proof. exact union_R. Qed.
Print Assumptions C09_union_roots.

Theorem C09_union_edges : forall l l2 f t x,
  Eset (union l l2) f t x <->
  (Eset l f t x \/ Eset l2 f t x) /\ (Nset l f \/ Nset l2 f) /\ (Nset l x \/ Nset l2 x).
Proof. exact union_E. Qed.
Print Assumptions C09_union_edges.

Theorem C09_union_idempotent : forall l, equiv (union l l) l.
Proof. exact union_idem. Qed.
Print Assumptions C09_union_idempotent.

Theorem C09_union_commutative : forall l l2, equiv (union l l2) (union l2 l).
Proof. exact union_comm. Qed.
Print Assumptions C09_union_commutative.

Theorem C09_union_identity : forall l, equiv (union l empty_nl) l /\ equiv (union empty_nl l) l.
Proof. intros l. split; [exact (union_empty_r l)|exact (union_empty_l l)]. Qed.
Print Assumptions C09_union_identity.

(* FULL statement of associativity (all operands):
     forall a b c, equiv (union (union a b) c) (union a (union b c))
   is false of the code; see C09_union_associative_refuted. Proved part: no operand has
   a dangling edge. *)
Theorem C09_union_associative_partial : forall a b c,
  edges_closed a -> edges_closed b -> edges_closed c ->
  equiv (union (union a b) c) (union a (union b c)).
Proof. exact union_assoc_partial. Qed.
Print Assumptions C09_union_associative_partial.

Definition nd (i : string) : node :=
  {| n_id := i; n_type := 0; n_name := ""; n_version := ""; n_file_name := ""; n_url_home := "";
     n_url_download := ""; n_licenses := []; n_license_concluded := ""; n_license_comments := "";
     n_copyright := ""; n_source_info := ""; n_comment := ""; n_summary := ""; n_description := "";
     n_attribution := []; n_suppliers := []; n_originators := []; n_release_date := None;
     n_build_date := None; n_valid_until_date := None; n_external_references := [];
     n_file_types := []; n_identifiers := []; n_hashes := []; n_primary_purpose := [] |}.

(* known finding K2: a dangling edge of the first operand that only the third operand
   resolves is dropped by (a ∪ b) ∪ c and kept by a ∪ (b ∪ c) *)
Definition k2_a : nodelist := {| nl_nodes := [nd "a"]; nl_edges := [ {| e_type := 5; e_from := "a"; e_to := ["c"] |} ]; nl_root_elements := [] |}.
Definition k2_c : nodelist := {| nl_nodes := [nd "c"]; nl_edges := []; nl_root_elements := [] |}.

Theorem C09_union_associative_refuted :
  exists a b c, ~ equiv (union (union a b) c) (union a (union b c)).
Proof.
  exists k2_a, empty_nl, k2_c. intros [_ [_ H]].
  assert (HR : Eres (union k2_a (union empty_nl k2_c)) "a" 5 "c").
  { split; [|split]; [| vm_compute; auto | vm_compute; auto].
    exists {| e_type := 5; e_from := "a"; e_to := ["c"] |}. vm_compute. auto. }
  apply H in HR. destruct HR as [[e [He _]] _]. vm_compute in He. exact He.
Qed.
Print Assumptions C09_union_associative_refuted.

(* the in-place variant computes the same sets *)
Theorem C09_add_same_sets : forall l l2, equiv (add l l2) (union l l2).
Proof. exact add_equiv_union. Qed.
Print Assumptions C09_add_same_sets.

(* attribute precedence, for every field of the node schema other than id and kind *)
Theorem C09_update_rule : forall f a b, mergeable f = true ->
  nget f (update a b) = if aval_nonempty (nget f b) then nget f b else nget f a.
Proof. exact update_get. Qed.
Print Assumptions C09_update_rule.

Theorem C09_union_attr : forall l l2 na nb f,
  NoDup (ids l) -> NoDup (ids l2) ->
  In na (nl_nodes l) -> In nb (nl_nodes l2) -> n_id na = n_id nb -> mergeable f = true ->
  exists n, In n (nl_nodes (union l l2)) /\ n_id n = n_id na /\
            nget f n = if aval_nonempty (nget f nb) then nget f nb else nget f na.
Proof. exact union_attr. Qed.
Print Assumptions C09_union_attr.

Theorem C09_add_attr : forall l l2 na nb f,
  NoDup (ids l) -> NoDup (ids l2) ->
  In na (nl_nodes l) -> In nb (nl_nodes l2) -> n_id na = n_id nb -> mergeable f = true ->
  exists n, In n (nl_nodes (add l l2)) /\ n_id n = n_id na /\
            nget f n = if aval_nonempty (nget f na) then nget f na else nget f nb.
Proof. exact add_attr. Qed.
Print Assumptions C09_add_attr.

(* every schema field is covered by the rule or is id/kind: the enumeration is the
   generated one, so a field added to the schema lands here *)
Example C09_fields_covered : length nfields = 26%nat /\ length (filter mergeable nfields) = 24%nat.
Proof. split; reflexivity. Qed.

(* non-vacuity of the closedness premise: a triple with shared nodes and edges *)
Example C09_assoc_premise_inhabited :
  let a := {| nl_nodes := [nd "a"; nd "b"]; nl_edges := [ {| e_type := 5; e_from := "a"; e_to := ["b"] |} ]; nl_root_elements := ["a"] |} in
  edges_closed a /\ edges_closed k2_c.
Proof.
  split; intros e He; simpl in He.
  - destruct He as [<-|[]]. simpl. split; [left; reflexivity|]. intros x [<-|[]]. right. left. reflexivity.
  - destruct He.
Qed.
