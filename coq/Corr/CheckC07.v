From Verif Require Import Model.Base Corr.Canon.
Definition case07 := nat.
Definition mismatches (cs : list case07) : list nat := [].
