// Package jsonfault enumerates schema faults of a JSON document: at every path, the value is
// replaced by null, by a value of another type, by an empty value, removed, duplicated, or made
// oversized / deeply nested.
package jsonfault

import (
	"bytes"
	"encoding/json"
	"fmt"
	"sort"
	"strings"
)

type Mutant struct {
	Path  string
	Fault string
	Data  []byte
}

type path []any // string keys and int indexes

func (p path) String() string {
	var b strings.Builder
	b.WriteString("$")
	for _, e := range p {
		switch x := e.(type) {
		case string:
			b.WriteString("." + x)
		case int:
			fmt.Fprintf(&b, "[%d]", x)
		}
	}
	return b.String()
}

func paths(v any, cur path, out *[]path) {
	*out = append(*out, append(path{}, cur...))
	switch x := v.(type) {
	case map[string]any:
		keys := make([]string, 0, len(x))
		for k := range x {
			keys = append(keys, k)
		}
		sort.Strings(keys)
		for _, k := range keys {
			paths(x[k], append(cur, k), out)
		}
	case []any:
		for i, e := range x {
			if i >= 2 { // the first two elements of every array are representative
				break
			}
			paths(e, append(cur, i), out)
		}
	}
}

func deepCopy(v any) any {
	switch x := v.(type) {
	case map[string]any:
		m := map[string]any{}
		for k, e := range x {
			m[k] = deepCopy(e)
		}
		return m
	case []any:
		a := make([]any, len(x))
		for i, e := range x {
			a[i] = deepCopy(e)
		}
		return a
	default:
		return v
	}
}

// set returns a copy of root with the value at p replaced by f(old); remove drops it.
func set(root any, p path, f func(any) (any, bool)) any {
	if len(p) == 0 {
		nv, keep := f(root)
		if !keep {
			return nil
		}
		return nv
	}
	switch x := root.(type) {
	case map[string]any:
		k := p[0].(string)
		m := map[string]any{}
		for kk, e := range x {
			m[kk] = e
		}
		if len(p) == 1 {
			nv, keep := f(x[k])
			if keep {
				m[k] = nv
			} else {
				delete(m, k)
			}
		} else {
			m[k] = set(x[k], p[1:], f)
		}
		return m
	case []any:
		i := p[0].(int)
		a := append([]any{}, x...)
		if len(p) == 1 {
			nv, keep := f(x[i])
			if keep {
				a[i] = nv
			} else {
				a = append(a[:i], a[i+1:]...)
			}
		} else {
			a[i] = set(x[i], p[1:], f)
		}
		return a
	}
	return root
}

func otherTypes(v any) []any {
	switch v.(type) {
	case string:
		return []any{float64(7), true, []any{"x"}, map[string]any{"x": "y"}}
	case float64:
		return []any{"7", false, []any{}, map[string]any{}}
	case bool:
		return []any{"true", float64(1), []any{true}}
	case []any:
		return []any{"x", float64(3), map[string]any{"0": "x"}, []any{nil}, []any{[]any{}}, []any{"x", float64(1)}}
	case map[string]any:
		return []any{"x", float64(3), []any{}, []any{map[string]any{}}}
	}
	return []any{"x", float64(1), []any{}, map[string]any{}}
}

func emptyOf(v any) (any, bool) {
	switch v.(type) {
	case string:
		return "", true
	case []any:
		return []any{}, true
	case map[string]any:
		return map[string]any{}, true
	}
	return nil, false
}

func nest(depth int) any {
	var v any = "x"
	for i := 0; i < depth; i++ {
		if i%2 == 0 {
			v = []any{v}
		} else {
			v = map[string]any{"components": v}
		}
	}
	return v
}

// Single enumerates every single fault of doc. limit bounds the number of paths visited (0 = all).
func Single(doc []byte, limit int) []Mutant {
	var out []Mutant
	Each(doc, limit, func(m Mutant) bool { out = append(out, m); return true })
	return out
}

// Each calls f for every single fault of doc (lazily: one mutant in memory at a time) until f
// returns false.
func Each(doc []byte, limit int, f func(Mutant) bool) {
	var root any
	if err := json.Unmarshal(doc, &root); err != nil {
		return
	}
	var ps []path
	paths(root, nil, &ps)
	if limit > 0 && len(ps) > limit {
		// keep an even spread
		step := float64(len(ps)) / float64(limit)
		var sel []path
		for i := 0; i < limit; i++ {
			sel = append(sel, ps[int(float64(i)*step)])
		}
		ps = sel
	}
	stop := false
	emit := func(p path, fault string, v any) {
		if stop {
			return
		}
		b, err := json.Marshal(v)
		if err == nil {
			if !f(Mutant{p.String(), fault, b}) {
				stop = true
			}
		}
	}
	for _, p := range ps {
		if len(p) == 0 || stop {
			continue
		}
		emit(p, "null", set(root, p, func(any) (any, bool) { return nil, true }))
		emit(p, "absent", set(root, p, func(any) (any, bool) { return nil, false }))
		var cur any
		set(root, p, func(o any) (any, bool) { cur = o; return o, true })
		for i, ot := range otherTypes(cur) {
			ot := ot
			emit(p, fmt.Sprintf("wrong-type-%d", i), set(root, p, func(any) (any, bool) { return ot, true }))
		}
		if e, ok := emptyOf(cur); ok {
			emit(p, "empty", set(root, p, func(any) (any, bool) { return e, true }))
		}
		if s, ok := cur.(string); ok {
			emit(p, "oversized", set(root, p, func(any) (any, bool) { return s + strings.Repeat("A", 100000), true }))
			// the same type, but without the inner structure the value usually has (separators, prefixes, fields)
			emit(p, "string-plain", set(root, p, func(any) (any, bool) { return "x", true }))
			stripped := strings.Map(func(r rune) rune {
				if strings.ContainsRune(":/@-.+?#= ()", r) {
					return -1
				}
				return r
			}, s)
			if stripped != s && stripped != "" {
				emit(p, "string-without-separators", set(root, p, func(any) (any, bool) { return stripped, true }))
			}
			if len(s) >= 2 {
				emit(p, "string-truncated", set(root, p, func(any) (any, bool) { return s[:len(s)/2], true }))
			}
			emit(p, "string-separators-only", set(root, p, func(any) (any, bool) { return ":/:@-", true }))
		}
		if a, ok := cur.([]any); ok {
			// runs of nulls (one null is the plain "null" fault of an element): at the start, in the middle, at the end
			emit(p, "two-nulls-only", set(root, p, func(any) (any, bool) { return []any{nil, nil}, true }))
			if len(a) > 0 {
				mid := len(a) / 2
				emit(p, "adjacent-nulls-inside", set(root, p, func(any) (any, bool) {
					return append(append(append([]any{}, a[:mid]...), nil, nil, nil), a[mid:]...), true
				}))
				emit(p, "adjacent-nulls-at-end", set(root, p, func(any) (any, bool) { return append(append([]any{}, a...), nil, nil), true }))
			}
		}
		if a, ok := cur.([]any); ok && len(a) > 0 {
			emit(p, "duplicated-element", set(root, p, func(any) (any, bool) { return append(append([]any{}, a...), deepCopy(a[0])), true }))
		}
		emit(p, "deep-nesting", set(root, p, func(any) (any, bool) { return nest(200), true }))
	}
}

// DuplicateMember returns doc with the member at the (object) path repeated textually, a fault that
// encoding/json values cannot express.
func DuplicateMembers(doc []byte) []Mutant {
	var out []Mutant
	// duplicate the first member of the top-level object and of the first nested object
	var root map[string]json.RawMessage
	if err := json.Unmarshal(doc, &root); err != nil {
		return nil
	}
	keys := make([]string, 0, len(root))
	for k := range root {
		keys = append(keys, k)
	}
	sort.Strings(keys)
	for _, k := range keys {
		var b bytes.Buffer
		b.WriteString("{")
		first := true
		for _, kk := range keys {
			if !first {
				b.WriteString(",")
			}
			first = false
			fmt.Fprintf(&b, "%q:%s", kk, root[kk])
		}
		fmt.Fprintf(&b, ",%q:%s}", k, root[k])
		out = append(out, Mutant{"$." + k, "duplicated-member", b.Bytes()})
		fmt.Fprintf(&b, "")
	}
	return out
}
