(* Operand writes (C11): which functions of the graph package and of the serializers store through
   the values they are given.  The tables (Gen/Locks.v: operand_writes, operand_calls, operand_roots)
   are extracted from the Go sources on every run; a root is the receiver (0) or the i-th parameter.
   A function writes through a root when its body stores to something reached from it, or hands
   something reached from it to a function that writes through the root it arrives as. *)
From Verif Require Import Model.Base Gen.Locks.
Open Scope list_scope.

Definition froot := (string * Z)%type.
Definition froot_eqb (a b : froot) : bool := (String.eqb (fst a) (fst b) && Z.eqb (snd a) (snd b))%bool.
Definition fmem (x : froot) (s : list froot) : bool := existsb (froot_eqb x) s.

Definition w_site (w : string * Z * string * string) : froot := (fst (fst (fst w)), snd (fst (fst w))).
Definition c_from (c : string * Z * string * Z) : froot := (fst (fst (fst c)), snd (fst (fst c))).
Definition c_to (c : string * Z * string * Z) : froot := (snd (fst c), snd c).

Inductive Writes (ws : list (string * Z * string * string)) (cs : list (string * Z * string * Z)) : froot -> Prop :=
  | W_direct w : In w ws -> Writes ws cs (w_site w)
  | W_call c : In c cs -> Writes ws cs (c_to c) -> Writes ws cs (c_from c).

(* the writers, computed: start from the direct ones and add callers until nothing is added *)
Definition add_callers (cs : list (string * Z * string * Z)) (s : list froot) : list froot :=
  fold_left (fun acc c => if (fmem (c_to c) acc && negb (fmem (c_from c) acc))%bool then c_from c :: acc else acc) cs s.

Fixpoint saturate (n : nat) (cs : list (string * Z * string * Z)) (s : list froot) : list froot :=
  match n with
  | O => s
  | S k => let s' := add_callers cs s in
           if Nat.eqb (length s') (length s) then s else saturate k cs s'
  end.

Definition writers (ws : list (string * Z * string * string)) (cs : list (string * Z * string * Z)) : list froot :=
  saturate (length cs) cs (map w_site ws).

(* the set is closed: it has every direct writer and every caller of a member *)
Definition closed_under (ws : list (string * Z * string * string)) (cs : list (string * Z * string * Z)) (s : list froot) : bool :=
  (forallb (fun w => fmem (w_site w) s) ws && forallb (fun c => (negb (fmem (c_to c) s) || fmem (c_from c) s)%bool) cs)%bool.

(* operations documented to modify their receiver (and only it) *)
Definition mutators : list froot :=
  [ ("sbom.Edge.AddDestinationById", 0); ("sbom.Node.AddHash", 0); ("sbom.Node.Augment", 0); ("sbom.Node.Update", 0);
    ("sbom.NodeList.Add", 0); ("sbom.NodeList.AddEdge", 0); ("sbom.NodeList.AddNode", 0); ("sbom.NodeList.AddRootNode", 0);
    ("sbom.NodeList.RelateNodeAtID", 0); ("sbom.NodeList.RelateNodeListAtID", 0); ("sbom.NodeList.RemoveNodes", 0) ].

(* the comparing, hashing, diffing, copying, look-up, traversing, uniting, intersecting and serializing
   operations of the property: none of their operands may be written.  (A function added to the library
   later is in neither list until it is put into one; the check prints the unclassified ones.) *)
Definition readonly_ops : list string :=
  [ "sbom.Document.GetRootNodes"; "sbom.Edge.Copy"; "sbom.Edge.Equal"; "sbom.Edge.PointsTo"; "sbom.ExternalReference.Copy";
    "sbom.Node.Checksum"; "sbom.Node.Copy"; "sbom.Node.Diff"; "sbom.Node.Equal"; "sbom.Node.HashesMatch"; "sbom.Node.Purl";
    "sbom.NodeList.Copy"; "sbom.NodeList.Equal"; "sbom.NodeList.GetEdgeByType"; "sbom.NodeList.GetMatchingNode";
    "sbom.NodeList.GetNodeByID"; "sbom.NodeList.GetNodesByIdentifier"; "sbom.NodeList.GetNodesByName";
    "sbom.NodeList.GetNodesByPurlType"; "sbom.NodeList.GetRootNodes"; "sbom.NodeList.Intersect";
    "sbom.NodeList.NodeDescendants"; "sbom.NodeList.NodeGraph"; "sbom.NodeList.NodeSiblings"; "sbom.NodeList.Union";
    "sbom.Person.Copy"; "sbom.Person.ToSPDX2ClientOrg"; "sbom.Person.ToSPDX2ClientString";
    "serializers.CDX.Render"; "serializers.CDX.Serialize"; "serializers.SPDX23.Render"; "serializers.SPDX23.Serialize" ].

Definition smem (x : string) (s : list string) : bool := existsb (String.eqb x) s.

(* the writer's entry points: the document they are given (root 1) is an operand of serializing; their
   receiver and options are C17's and C18's subject, not this property's *)
Definition readonly_roots : list froot :=
  [ ("writer.Writer.WriteStream", 1); ("writer.Writer.WriteStreamWithOptions", 1);
    ("writer.Writer.WriteFile", 1); ("writer.Writer.WriteFileWithOptions", 1) ].

(* must not be written: every operand of a read-only operation, and every operand of a mutator other than its receiver *)
Definition protected_root (r : froot) : bool :=
  (smem (fst r) readonly_ops || fmem r readonly_roots || (smem (fst r) (map fst mutators) && negb (fmem r mutators)))%bool.

Definition offenders_in (w : list froot) (roots : list froot) : list froot :=
  filter (fun r => (protected_root r && fmem r w)%bool) roots.

Definition offenders (ws : list (string * Z * string * string)) (cs : list (string * Z * string * Z)) (roots : list froot) : list froot :=
  let w := writers ws cs in offenders_in w roots.

(* exported functions with operands that are in neither list *)
Definition unclassified (roots : list froot) : list froot :=
  filter (fun r => negb (smem (fst r) readonly_ops || fmem r readonly_roots || smem (fst r) (map fst mutators))) roots.
