package main

import (
	"bytes"
	"fmt"
	"path/filepath"
	"regexp"
	"strings"

	cdx "github.com/CycloneDX/cyclonedx-go"
	"github.com/protobom/protobom/pkg/formats"
	"github.com/protobom/protobom/pkg/sbom"
	"github.com/spdx/tools-golang/spdx"
	"google.golang.org/protobuf/proto"

	"verifharness/coqfmt"
	"verifharness/gen"
	"verifharness/jsonfault"
	"verifharness/props"
)

func init() { runners["C05"] = runC05 }

var idSafeRe = regexp.MustCompile(`^[a-zA-Z0-9.-]+$`)

type c05Input struct {
	name    string
	data    []byte
	format  formats.Format // the format the bytes are written in
	unique  bool           // the input's own identifiers are unique (or absent)
	resolve bool           // the input's own references resolve
	light   bool           // oracle on the parse only (no re-layouts, no seam case)
	nodes   int            // number of nodes the input describes (distinct references + reference-less components); -1 unknown
}

// cdxNodeCount: distinct non-empty references plus reference-less components; -1 when an explicit
// reference could collide with a generated one.
func cdxNodeCount(b *cdx.BOM) int {
	refs := map[string]bool{}
	anon := 0
	clash := false
	var walk func(c *cdx.Component)
	walk = func(c *cdx.Component) {
		if c.BOMRef == "" {
			anon++
		} else {
			refs[c.BOMRef] = true
			if strings.HasPrefix(c.BOMRef, "protobom-") {
				clash = true
			}
		}
		if c.Components != nil {
			for i := range *c.Components {
				walk(&(*c.Components)[i])
			}
		}
	}
	if b.Metadata != nil && b.Metadata.Component != nil {
		walk(b.Metadata.Component)
	}
	if b.Components != nil {
		for i := range *b.Components {
			walk(&(*b.Components)[i])
		}
	}
	if clash && anon > 0 {
		return -1
	}
	return len(refs) + anon
}

func cdxRefsUnique(b *cdx.BOM) bool {
	seen := map[string]bool{}
	ok := true
	var walk func(c *cdx.Component)
	walk = func(c *cdx.Component) {
		if c.BOMRef != "" {
			if seen[c.BOMRef] {
				ok = false
			}
			seen[c.BOMRef] = true
		}
		if c.Components != nil {
			for i := range *c.Components {
				walk(&(*c.Components)[i])
			}
		}
	}
	if b.Metadata != nil && b.Metadata.Component != nil {
		walk(b.Metadata.Component)
	}
	if b.Components != nil {
		for i := range *b.Components {
			walk(&(*b.Components)[i])
		}
	}
	return ok
}

func spdxFacts(d *spdx.Document) (unique, resolve bool) {
	seen := map[string]bool{}
	unique, resolve = true, true
	add := func(id string) {
		if seen[id] {
			unique = false
		}
		seen[id] = true
	}
	for _, p := range d.Packages {
		add(string(p.PackageSPDXIdentifier))
	}
	for _, f := range d.Files {
		add(string(f.FileSPDXIdentifier))
	}
	for _, r := range d.Relationships {
		a, b := string(r.RefA.ElementRefID), string(r.RefB.ElementRefID)
		if r.Relationship == "DESCRIBES" && a == "DOCUMENT" {
			if !seen[b] {
				resolve = false
			}
			continue
		}
		if !seen[a] || !seen[b] {
			resolve = false
		}
	}
	return
}

// checkParsed: the C05 integrity statement on one parsed document; "" when it holds.
func checkParsed(doc *sbom.Document, in c05Input) string {
	nl := doc.NodeList
	ids := map[string]int{}
	for _, n := range nl.Nodes {
		if n == nil {
			return "a parsed node is nil"
		}
		if n.Id == "" {
			return "a parsed node has an empty identifier"
		}
		ids[n.Id]++
		if strings.HasPrefix(n.Id, "protobom-auto--") && !idSafeRe.MatchString(n.Id) {
			return fmt.Sprintf("generated identifier %q has characters outside the identifier-safe alphabet", n.Id)
		}
	}
	if in.nodes >= 0 && len(nl.Nodes) != in.nodes {
		return fmt.Sprintf("the input describes %d nodes (distinct references plus reference-less components), %d were parsed", in.nodes, len(nl.Nodes))
	}
	if in.unique {
		for id, k := range ids {
			if k > 1 {
				return fmt.Sprintf("identifier %q is carried by %d parsed nodes although the input's identifiers are unique", id, k)
			}
		}
	}
	if in.resolve {
		for _, r := range nl.RootElements {
			if ids[r] == 0 {
				return fmt.Sprintf("root element %q names no parsed node", r)
			}
		}
		for _, e := range nl.Edges {
			if e == nil {
				return "a parsed edge is nil"
			}
			if ids[e.From] == 0 {
				return fmt.Sprintf("edge source %q names no parsed node", e.From)
			}
			for _, t := range e.To {
				if ids[t] == 0 {
					return fmt.Sprintf("edge target %q (from %q) names no parsed node", t, e.From)
				}
			}
		}
	}
	return ""
}

// sameParsed: equivalent graphs with identical identifiers — the same nodes (field by field, matched
// by identifier and position among equal identifiers), the same typed edge triples, the same roots.
// The order of the edge list is not part of the graph (cleanEdges rebuilds it from a map).
func sameParsed(a, b *sbom.Document) string {
	if len(a.NodeList.Nodes) != len(b.NodeList.Nodes) {
		return fmt.Sprintf("%d nodes vs %d nodes", len(a.NodeList.Nodes), len(b.NodeList.Nodes))
	}
	byID := func(nl *sbom.NodeList) map[string][]*sbom.Node {
		m := map[string][]*sbom.Node{}
		for _, n := range nl.Nodes {
			m[n.GetId()] = append(m[n.GetId()], n)
		}
		return m
	}
	ma, mb := byID(a.NodeList), byID(b.NodeList)
	for id, as := range ma {
		bs := mb[id]
		if len(as) != len(bs) {
			return fmt.Sprintf("identifier %q: %d nodes vs %d", id, len(as), len(bs))
		}
		for i := range as {
			if !proto.Equal(as[i], bs[i]) {
				return fmt.Sprintf("node %q differs", id)
			}
		}
	}
	if !props.SameTripleSet(props.TripleSet(a.NodeList), props.TripleSet(b.NodeList)) {
		return "edge sets differ"
	}
	if !props.SameStrSet(props.RootSet(a.NodeList), props.RootSet(b.NodeList)) {
		return "root elements differ"
	}
	xa, xb := proto.Clone(a.Metadata).(*sbom.Metadata), proto.Clone(b.Metadata).(*sbom.Metadata)
	xa.Date, xb.Date = nil, nil
	if !proto.Equal(xa, xb) {
		return "metadata differs"
	}
	return ""
}

func parseDoc(data []byte, f formats.Format) (*sbom.Document, string) {
	po := parseOnce(data, f)
	if po.kind == "doc" {
		return po.doc, ""
	}
	return nil, po.kind + ": " + po.err
}

func runC05(seed int64, n int, dir string, tier string) *Report {
	g := gen.New(seed)
	rep := NewReport("C05", seed)
	rep.Rule = "n generated native CycloneDX BOMs (nesting to depth 4, bom-refs unique / absent / repeated incl. self-containment, metadata component absent or nested; encoded at spec 1.3-1.5) and n generated native SPDX 2.3 documents (identifiers unique or repeated, relationship endpoints resolving or dangling), plus the repository's real SBOMs and single-fault mutants of them that still parse; each parsed, checked for closure / non-empty and unique identifiers / safe generated identifiers, parsed again, parsed in two other JSON layouts (whitespace, member order, string escapes), parsed with the format stated; NewNodeIdentifier on n seed lists; non-trivial = parsed document with at least 3 nodes; distinct by hash"
	cf, xs, xc := newXlateCases()
	var inputs []c05Input
	for i := 0; i < n; i++ {
		o := gen.NativeOpts{MaxDepth: 4, MaxComps: 12}
		switch i % 4 {
		case 1:
			o.MissingRefs = 0.5
		case 2:
			o.DuplicateRefs = 0.3
		case 3:
			o.MissingRefs, o.DuplicateRefs = 0.3, 0.2
		}
		b := g.NativeCDX(o)
		ver := gen.Pick(g, []cdx.SpecVersion{cdx.SpecVersion1_3, cdx.SpecVersion1_4, cdx.SpecVersion1_5})
		fm := map[cdx.SpecVersion]formats.Format{cdx.SpecVersion1_3: formats.CDX13JSON, cdx.SpecVersion1_4: formats.CDX14JSON, cdx.SpecVersion1_5: formats.CDX15JSON}[ver]
		if data := gen.EncodeCDX(b, ver); data != nil {
			inputs = append(inputs, c05Input{name: fmt.Sprintf("generated-cdx-%d", i), data: data, format: fm, unique: cdxRefsUnique(b), resolve: true, nodes: cdxNodeCount(b)})
		}
		dup, dang := 0.0, 0.0
		if i == 0 {
			// a small-scope family around the identifier counter: the metadata component with 2..4 children and
			// 1..3 top-level components, every component either with a reference of its own, repeating an
			// earlier reference, or without one (every pattern in the thorough tier, a sample otherwise)
			pats := refPatterns()
			if tier != "thorough" {
				g.R.Shuffle(len(pats), func(a, b int) { pats[a], pats[b] = pats[b], pats[a] })
				pats = pats[:min(len(pats), 4*n)]
			}
			for _, pt := range pats {
				b := patternBOM(pt[0], pt[1])
				if data := gen.EncodeCDX(b, cdx.SpecVersion1_5); data != nil {
					inputs = append(inputs, c05Input{name: "pattern-cdx-" + pt[0] + "/" + pt[1], data: data, format: formats.CDX15JSON, unique: cdxRefsUnique(b), resolve: true, nodes: cdxNodeCount(b), light: true})
				}
			}
		}
		if i%3 == 1 {
			dup = 0.25
		}
		if i%3 == 2 {
			dang = 0.2
		}
		sd := g.NativeSPDX(8, dup, dang)
		u, r := spdxFacts(sd)
		if data := gen.EncodeSPDX(sd); data != nil {
			name := fmt.Sprintf("generated-spdx-%d", i)
			if i%4 == 2 && u {
				// an element whose name part itself begins with the marker (SPDXRef-SPDXRef-x): the library's
				// encoder cannot write it, so one element is renamed in the text, everywhere it is spelled
				var ids []string
				for _, pk := range sd.Packages {
					ids = append(ids, string(pk.PackageSPDXIdentifier))
				}
				for _, fl := range sd.Files {
					ids = append(ids, string(fl.FileSPDXIdentifier))
				}
				if len(ids) > 0 {
					id := gen.Pick(g, ids)
					data = bytes.ReplaceAll(data, []byte(`"SPDXRef-`+id+`"`), []byte(`"SPDXRef-SPDXRef-`+id+`"`))
					name += "-marker-in-name"
				}
			}
			inputs = append(inputs, c05Input{name: name, data: data, format: formats.SPDX23JSON, unique: u, resolve: r, nodes: len(sd.Packages) + len(sd.Files)})
		}
	}
	// the repository's real SBOMs and mutants of them that still parse (closure is required of the
	// unmutated files only: a mutant may have cut a reference)
	seeds := seedDocuments(g, tier)
	names := make([]string, 0, len(seeds))
	for k := range seeds {
		names = append(names, k)
	}
	sortStrings(names)
	for _, name := range names {
		data := seeds[name]
		fm := formats.Format("")
		if d, _ := parseDoc(data, ""); d == nil {
			continue
		}
		inputs = append(inputs, c05Input{name: name, data: data, format: fm, unique: false, resolve: true, nodes: -1})
		k := 0
		jsonfault.Each(data, n/4+1, func(m jsonfault.Mutant) bool {
			k++
			if k%5 == 0 && len(m.Data) < 40000 {
				inputs = append(inputs, c05Input{name: name + m.Path + ":" + m.Fault, data: m.Data, unique: false, resolve: false, nodes: -1})
			}
			return true
		})
	}
	seamBudget := 3 * n
	for _, in := range inputs {
		doc, why := parseDoc(in.data, "")
		info := map[string]any{"input": in.name, "bytes": len(in.data)}
		if len(in.data) < 4000 {
			info["json"] = string(in.data)
		}
		if doc == nil {
			rep.Count("rejected:" + strings.SplitN(in.name, "-", 3)[0])
			_ = why
			continue
		}
		rep.OracleEvals++
		rep.Count(fmt.Sprintf("parsed unique=%v resolve=%v", in.unique, in.resolve))
		rep.NoteInput(in.name+string(in.data[:min(len(in.data), 64)]), len(doc.NodeList.Nodes) >= 3, info)
		if msg := checkParsed(doc, in); msg != "" {
			rep.Fail(Failure{What: "a parsed graph is not well formed", Detail: msg, Input: info})
		}
		if in.light {
			continue
		}
		// twice
		if again, _ := parseDoc(in.data, ""); again == nil {
			rep.Fail(Failure{What: "parsing the same bytes again was rejected", Input: info})
		} else if d := sameParsed(doc, again); d != "" {
			rep.Fail(Failure{What: "parsing the same bytes twice gave different graphs", Detail: d, Input: info})
		}
		// other layouts of the same JSON value
		for k := 0; k < 2; k++ {
			// k = 0: whitespace and member order; k = 1: string escapes too
			lseed := g.R.Int63()
			alt, ok := gen.New(lseed).Relayout(in.data, k == 1, nil)
			if !ok {
				rep.Count("relayout:not-applicable")
				break
			}
			rep.OracleEvals++
			bad := func(data []byte) string {
				d2, why := parseDoc(data, "")
				if d2 == nil {
					return "rejected: " + why
				}
				return sameParsed(doc, d2)
			}
			d := bad(alt)
			if d == "" {
				rep.Count(fmt.Sprintf("relayout:%d:same", k))
				continue
			}
			li := map[string]any{"input": in.name, "original": info["json"], "relayout": string(alt[:min(len(alt), 4000)]), "escapes": k == 1}
			f := Failure{What: "another layout of the same JSON value did not parse to the same graph", Detail: d, Input: li}
			if k == 1 {
				// the same layout with the strings that tools-golang reads through its own UnmarshalJSON
				// (identifiers, creators, supplier, originator) left in their plain spelling
				if alt2, ok := gen.New(lseed).Relayout(in.data, true, gen.SPDXRawKeys); ok && bad(alt2) == "" {
					f.Finder = "spdx_escaped_raw_string"
				}
			}
			rep.Fail(f)
		}
		// the format stated explicitly
		if in.format != "" {
			rep.OracleEvals++
			d3, why := parseDoc(in.data, in.format)
			if d3 == nil {
				rep.Fail(Failure{What: "parsing with the format stated was rejected although auto-detection parsed", Detail: why, Input: info})
			} else if d := sameParsed(doc, d3); d != "" {
				rep.Fail(Failure{What: "parsing with the format stated differs from auto-detection", Detail: d, Input: info})
			}
		}
		// model seam
		if len(cf.Items) < seamBudget && len(in.data) < 30000 {
			if strings.Contains(string(in.data[:min(len(in.data), 400)]), "spdxVersion") || in.format == formats.SPDX23JSON {
				spdxUnserSeam(rep, xs, in.data, "c05", info)
			} else {
				cdxUnserSeam(rep, xc, in.data, "c05", info)
			}
		}
	}
	// the recorded witness of K12 (escaped spelling of a string tools-golang reads raw)
	{
		plain := `{"spdxVersion":"SPDX-2.3","dataLicense":"CC0-1.0","SPDXID":"SPDXRef-DOCUMENT","name":"x","documentNamespace":"https://example.com/ns","creationInfo":{"created":"2023-01-02T03:04:05Z","creators":["Tool: t"]},"packages":[{"SPDXID":"SPDXRef-a","name":"a","downloadLocation":"NOASSERTION"}]}`
		escaped := strings.Replace(plain, `"SPDXRef-DOCUMENT"`, `"\u0053PDXRef-DOCUMENT"`, 1)
		rep.OracleEvals++
		if dp, _ := parseDoc([]byte(plain), ""); dp != nil {
			de, why := parseDoc([]byte(escaped), "")
			if de == nil || sameParsed(dp, de) != "" {
				rep.Fail(Failure{What: "another layout of the same JSON value did not parse to the same graph", Detail: "recorded witness: " + why, Finder: "spdx_escaped_raw_string", Input: map[string]any{"original": plain, "relayout": escaped}})
			}
		}
	}
	// the public identifier generator
	seedTexts := []string{"", "auto", "node", "a", "pkg:npm/foo@1.0", "héllo wörld", "日本", "a/b c:d", "x_y", "\xff\xfe", "tab\tx", "-", ".", "A.b-9",
		// reserved words in other spellings are ordinary seed text
		"Node", "AUTO", "Auto", "NODE", "nodes", "auto ", " node", "autonode",
		// text made of separators only is still text: it sanitises to dashes
		"/", " ", ":", "--", ": /", "-/-"}
	for i := 0; i < n; i++ {
		var ss []string
		for k := g.Int(4); k > 0; k-- {
			ss = append(ss, gen.Pick(g, seedTexts))
		}
		a, b := sbom.NewNodeIdentifier(ss...), sbom.NewNodeIdentifier(ss...)
		rep.OracleEvals++
		usable := false
		for j, s := range ss {
			_ = j
			if s != "" && !((s == "auto" || s == "node") && !usable) {
				usable = true
			}
		}
		info := map[string]any{"seeds": ss, "identifier": a}
		if a == "" || !idSafeRe.MatchString(a) {
			rep.Fail(Failure{What: "NewNodeIdentifier returned an empty or unsafe identifier", Input: info})
		}
		if usable && a != b {
			rep.Fail(Failure{What: "NewNodeIdentifier is not deterministic on a usable seed", Detail: b, Input: info})
		}
		rep.Count(fmt.Sprintf("ident usable=%v", usable))
		c := fmt.Sprintf("(XI %s %s)", coqfmt.Strs(ss), coqfmt.Str(a))
		cf.Add(c)
		rep.NoteCase(c, usable, info)
	}
	rep.CasesFiles = cf.Write(filepath.Join(dir, "cases_C05"))
	rep.ShardSize = shardSize
	_ = bytes.MinRead
	return rep
}

// refPatterns: (children of the metadata component, top-level components), each a word over
// u (own reference), d (repeats an earlier reference), n (no reference).
func refPatterns() [][2]string {
	var words func(n int) []string
	words = func(n int) []string {
		if n == 0 {
			return []string{""}
		}
		var out []string
		for _, w := range words(n - 1) {
			for _, c := range "udn" {
				out = append(out, w+string(c))
			}
		}
		return out
	}
	var out [][2]string
	for cl := 2; cl <= 4; cl++ {
		for _, cw := range words(cl) {
			for tl := 1; tl <= 3; tl++ {
				for _, tw := range words(tl) {
					out = append(out, [2]string{cw, tw})
				}
			}
		}
	}
	return out
}

func patternBOM(children, top string) *cdx.BOM {
	b := cdx.NewBOM()
	b.SerialNumber = "urn:uuid:3e671687-395b-41f5-a30f-a58921a69b79"
	k := 0
	var refs []string
	mk := func(c rune) cdx.Component {
		k++
		co := cdx.Component{Type: cdx.ComponentTypeLibrary, Name: fmt.Sprintf("c%d", k)}
		switch c {
		case 'u':
			co.BOMRef = fmt.Sprintf("ref-%d", k)
			refs = append(refs, co.BOMRef)
		case 'd':
			if len(refs) > 0 {
				co.BOMRef = refs[len(refs)/2]
			} else {
				co.BOMRef = "main"
			}
		}
		return co
	}
	mc := cdx.Component{Type: cdx.ComponentTypeApplication, Name: "main", BOMRef: "main"}
	var subs []cdx.Component
	for _, c := range children {
		subs = append(subs, mk(c))
	}
	mc.Components = &subs
	b.Metadata = &cdx.Metadata{Component: &mc}
	var comps []cdx.Component
	for _, c := range top {
		comps = append(comps, mk(c))
	}
	b.Components = &comps
	return b
}
