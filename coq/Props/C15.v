(* C15 — sub-graph extraction computes bounded reachability and terminates.
   Statements only; proofs in Proofs/Reach.v.
   hop l x y      : an edge out of x names y and y is a present node
   dpath l s x k y: k hops from x to y, every node that is LEFT being the start s or a non-root
                    (so another root element may be reached but is never traversed through)
   gpath l x k y  : k hops from x to y, every node REACHED being a non-root (roots other than
                    the start are left out of the full graph); the empty identifier is not
                    traversed through (NodeSiblings refuses it — known finding K8). *)
From Coq Require Import Permutation.
From Verif Require Import Model.Base Model.Node Model.Graph Proofs.ListFacts Proofs.GraphFacts Proofs.OpsWf Proofs.SetLaws Proofs.Reach.
Open Scope list_scope.

Theorem C15_hop_is_edge : forall l x y, In y (succs l x) <-> (exists t, Eset l x t y) /\ Nset l y.
Proof. exact succs_spec. Qed.
Print Assumptions C15_hop_is_edge.

(* siblings: one hop, roots included *)
Theorem C15_siblings_nodes : forall l s l' y,
  node_siblings l s = Ok l' -> Nset l s -> (Nset l' y <-> y = s \/ hop l s y).
Proof. exact siblings_nodes. Qed.
Print Assumptions C15_siblings_nodes.

Theorem C15_siblings_edges : forall l s l' f t x,
  node_siblings l s = Ok l' -> Nset l s -> (Eset l' f t x <-> f = s /\ Eset l s t x /\ Nset l' x).
Proof. exact siblings_edges. Qed.
Print Assumptions C15_siblings_edges.

(* descendants: within the requested depth (the start node is level one) *)
Theorem C15_descendants_nodes : forall l s d y,
  Nset l s -> (Nset (node_descendants l s (S d)) y <-> exists m, (m <= d)%nat /\ dpath l s s m y).
Proof. exact descendants_nodes. Qed.
Print Assumptions C15_descendants_nodes.

Theorem C15_descendants_edges : forall l s d f t x,
  Nset l s ->
  (Eset (node_descendants l s (S d)) f t x <->
   Eset l f t x /\ Nset (node_descendants l s (S d)) f /\ Nset (node_descendants l s (S d)) x).
Proof. exact descendants_edges. Qed.
Print Assumptions C15_descendants_edges.

Theorem C15_descendants_monotone : forall l s d y,
  Nset (node_descendants l s (S d)) y -> Nset (node_descendants l s (S (S d))) y.
Proof. exact descendants_mono. Qed.
Print Assumptions C15_descendants_monotone.

(* full graph: unbounded reachability; the traversal's fuel (number of nodes) always suffices,
   on cyclic, self-referential and ill-formed lists alike *)
Theorem C15_graph_nodes : forall l s l' y,
  node_graph l s = Ok l' -> (Nset l' y <-> exists m, gpath l s m y).
Proof. exact graph_nodes. Qed.
Print Assumptions C15_graph_nodes.

Theorem C15_graph_fuel_suffices : forall l s m y,
  Nset l s -> gpath l s m y -> exists m', (m' < length (nl_nodes l))%nat /\ gpath l s m' y.
Proof. exact gpath_bounded. Qed.
Print Assumptions C15_graph_fuel_suffices.

Theorem C15_graph_edges : forall l s l' f t x,
  node_graph l s = Ok l' -> (Eset l' f t x <-> Eset l f t x /\ Nset l' f /\ Nset l' x).
Proof. exact graph_edges. Qed.
Print Assumptions C15_graph_edges.

(* the start node is the sole root of every extraction *)
Theorem C15_sole_root : forall l s,
  Nset l s ->
  (forall l', node_siblings l s = Ok l' -> nl_root_elements l' = [s]) /\
  (forall l', node_graph l s = Ok l' -> nl_root_elements l' = [s]) /\
  (forall d, nl_root_elements (node_descendants l s d) = [s]).
Proof.
  intros l s Hs. split; [|split].
  - intros l' H. exact (siblings_roots l s l' H Hs).
  - intros l' H. exact (graph_roots l s l' H).
  - intros d. exact (descendants_roots l s d Hs).
Qed.
Print Assumptions C15_sole_root.

(* results do not depend on the order of nodes, edges or roots *)
Theorem C15_order_independent : forall l l' s,
  Permutation (nl_nodes l) (nl_nodes l') -> Permutation (nl_edges l) (nl_edges l') ->
  Permutation (nl_root_elements l) (nl_root_elements l') ->
  (forall d y, Nset (node_descendants l s (S d)) y <-> Nset (node_descendants l' s (S d)) y) /\
  (forall r r' y, node_graph l s = Ok r -> node_graph l' s = Ok r' -> (Nset r y <-> Nset r' y)).
Proof.
  intros l l' s Hn He Hr. pose proof (same_members_perm l l' Hn He Hr) as Hs. split.
  - intros d y. apply descendants_order_independent. assumption.
  - intros r r' y. apply graph_order_independent. assumption.
Qed.
Print Assumptions C15_order_independent.

(* the model's results are well-formed and normalised lists (shared with C08) *)
Theorem C15_results_wf : forall l s,
  (forall l', node_siblings l s = Ok l' -> wf l' /\ norm (nl_edges l')) /\
  (forall l', node_graph l s = Ok l' -> wf l' /\ norm (nl_edges l')) /\
  (forall d, (1 <= d)%nat -> wf (node_descendants l s d)).
Proof.
  intros l s. split; [|split].
  - intros l'. apply siblings_wf.
  - intros l'. apply graph_wf.
  - intros d. apply descendants_wf.
Qed.
Print Assumptions C15_results_wf.

(* non-vacuity: a cyclic list with a root boundary; the full graph stops at the other root,
   descendants at depth 2 reaches it *)
Definition nd (i : string) : node :=
  {| n_id := i; n_type := 0; n_name := ""; n_version := ""; n_file_name := ""; n_url_home := "";
     n_url_download := ""; n_licenses := []; n_license_concluded := ""; n_license_comments := "";
     n_copyright := ""; n_source_info := ""; n_comment := ""; n_summary := ""; n_description := "";
     n_attribution := []; n_suppliers := []; n_originators := []; n_release_date := None;
     n_build_date := None; n_valid_until_date := None; n_external_references := [];
     n_file_types := []; n_identifiers := []; n_hashes := []; n_primary_purpose := [] |}.
Definition ex15 : nodelist :=
  {| nl_nodes := [nd "a"; nd "b"; nd "r"; nd "c"];
     nl_edges := [ {| e_type := 5; e_from := "a"; e_to := ["b"; "r"] |};
                   {| e_type := 10; e_from := "b"; e_to := ["a"] |};
                   {| e_type := 5; e_from := "r"; e_to := ["c"] |} ];
     nl_root_elements := ["a"; "r"] |}.
Example C15_nonvacuous :
  (exists g, node_graph ex15 "a" = Ok g /\ ids g = ["a"; "b"]) /\
  ids (node_descendants ex15 "a" 2) = ["a"; "b"; "r"] /\
  ids (node_descendants ex15 "a" 4) = ["a"; "b"; "r"].
Proof. split; [eexists; split; [vm_compute; reflexivity|vm_compute; reflexivity]|]. split; vm_compute; reflexivity. Qed.
