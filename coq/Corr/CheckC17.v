(* Correspondence evaluator for the driver registries (C17): sequential semantics of
   Register / Unregister / Get of pkg/reader and pkg/writer against Model/Conc.v. *)
From Verif Require Import Model.Base Model.Conc Corr.Canon.
Open Scope list_scope.

Record case17 := mk_case17 {
  r_init : registry;                  (* formats under test and their drivers before the sequence *)
  r_ops : list regop;
  r_outs : list (option string) }.    (* per op: the driver token a Get returned (None: error / not a Get) *)

Definition ostr_eqb := opt_eqb String.eqb.

Definition case_ok (c : case17) : bool := list_eqb ostr_eqb (reg_run (r_init c) (r_ops c)) (r_outs c).

Definition mismatches (cs : list case17) : list nat := failing case_ok cs.
