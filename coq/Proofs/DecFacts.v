(* Go's %d / strconv.Itoa as modelled by Base.dec: injective on positive numbers, no leading zero;
   hence the zero-padded identifiers the CycloneDX reader generates are distinct for distinct
   traversal positions. *)
From Coq Require Import Lia Decimal DecimalString DecimalPos DecimalFacts.
From Verif Require Import Model.Base Model.Node Model.Graph Model.Cdx.
Open Scope list_scope.

Lemma string_of_uint_inj d1 d2 : NilEmpty.string_of_uint d1 = NilEmpty.string_of_uint d2 -> d1 = d2.
Proof.
  intros H. pose proof (NilEmpty.usu d1) as H1. pose proof (NilEmpty.usu d2) as H2. rewrite H in H1. congruence.
Qed.

Lemma pos_to_uint_inj p q : Pos.to_uint p = Pos.to_uint q -> p = q.
Proof. intros H. pose proof (Unsigned.of_to p) as Hp. pose proof (Unsigned.of_to q) as Hq. rewrite H in Hp. congruence. Qed.

Lemma pos_to_uint_nonnil p : Pos.to_uint p <> Nil.
Proof. intros H. pose proof (Unsigned.of_to p) as Hp. rewrite H in Hp. discriminate. Qed.

Lemma dec_pos p : dec (Zpos p) = NilEmpty.string_of_uint (Pos.to_uint p).
Proof.
  unfold dec, NilZero.string_of_int, Z.to_int, NilZero.string_of_uint.
  destruct (Pos.to_uint p) eqn:E; try reflexivity. exfalso. exact (pos_to_uint_nonnil p E).
Qed.

Theorem dec_inj a b : 0 < a -> 0 < b -> dec a = dec b -> a = b.
Proof.
  intros Ha Hb H. destruct a as [|p|p]; try lia. destruct b as [|q|q]; try lia.
  rewrite !dec_pos in H. f_equal. apply pos_to_uint_inj, string_of_uint_inj. exact H.
Qed.

(* no leading zero *)
Lemma nzhead_no_D0 d : match nzhead d with D0 _ => False | _ => True end.
Proof. induction d; simpl; auto. Qed.

Lemma pos_to_uint_norm p : Pos.to_uint p = unorm (Pos.to_uint p).
Proof.
  pose proof (Unsigned.to_of (Pos.to_uint p)) as H. rewrite Unsigned.of_to in H. simpl in H. exact H.
Qed.

Lemma dec_pos_head p : match dec (Zpos p) with String c _ => c <> "0"%char | EmptyString => False end.
Proof.
  rewrite dec_pos. pose proof (pos_to_uint_norm p) as Hn. pose proof (nzhead_no_D0 (Pos.to_uint p)) as Hz.
  unfold unorm in Hn. destruct (nzhead (Pos.to_uint p)) eqn:E.
  - (* all zeros: impossible for a positive *)
    exfalso. pose proof (Unsigned.of_to p) as Ho. rewrite Hn in Ho. discriminate.
  - contradiction.
  - rewrite Hn. simpl. discriminate.
  - rewrite Hn. simpl. discriminate.
  - rewrite Hn. simpl. discriminate.
  - rewrite Hn. simpl. discriminate.
  - rewrite Hn. simpl. discriminate.
  - rewrite Hn. simpl. discriminate.
  - rewrite Hn. simpl. discriminate.
  - rewrite Hn. simpl. discriminate.
  - rewrite Hn. simpl. discriminate.
Qed.

(* ---- padding ----------------------------------------------------------------------------------------- *)
Fixpoint zeros (k : nat) : string := match k with O => "" | S k' => String "0" (zeros k') end.

Lemma pad9_zeros n : pad9 n = (zeros (9 - String.length (dec n)) ++ dec n)%string.
Proof. unfold pad9. induction (9 - String.length (dec n))%nat as [|k IH]; simpl; [reflexivity|]. rewrite IH. reflexivity. Qed.

Lemma append_cancel_l p s t : (p ++ s)%string = (p ++ t)%string -> s = t.
Proof. induction p as [|c r IH]; simpl; [auto|]. intros H. injection H as H. exact (IH H). Qed.

Lemma app_assoc_s a b c : ((a ++ b) ++ c)%string = (a ++ (b ++ c))%string.
Proof. induction a; simpl; [reflexivity|]. rewrite IHa. reflexivity. Qed.

Lemma zeros_plus a b : zeros (a + b) = (zeros a ++ zeros b)%string.
Proof. induction a; simpl; [reflexivity|]. rewrite IHa. reflexivity. Qed.

Lemma zeros_tail_absurd k s t : (k > 0)%nat -> s = (zeros k ++ t)%string ->
  match s with String c _ => c <> "0"%char | EmptyString => False end -> False.
Proof. intros Hk -> H. destruct k; [lia|]. simpl in H. apply H. reflexivity. Qed.

Lemma pad_inj k1 k2 s1 s2 :
  match s1 with String c _ => c <> "0"%char | EmptyString => False end ->
  match s2 with String c _ => c <> "0"%char | EmptyString => False end ->
  (zeros k1 ++ s1)%string = (zeros k2 ++ s2)%string -> s1 = s2.
Proof.
  intros H1 H2 E. destruct (Nat.lt_trichotomy k1 k2) as [Hlt|[->|Hgt]].
  - exfalso. replace k2 with (k1 + (k2 - k1))%nat in E by lia. rewrite zeros_plus, app_assoc_s in E.
    apply append_cancel_l in E. apply (zeros_tail_absurd (k2 - k1) s1 s2); [lia|exact E|exact H1].
  - exact (append_cancel_l _ _ _ E).
  - exfalso. replace k1 with (k2 + (k1 - k2))%nat in E by lia. rewrite zeros_plus, app_assoc_s in E.
    apply append_cancel_l in E. apply (zeros_tail_absurd (k1 - k2) s2 s1); [lia|symmetry; exact E|exact H2].
Qed.

(* the generated identifiers of two traversal positions coincide only if the positions do *)
Theorem auto_id_inj a b : 0 < a -> 0 < b -> auto_id a = auto_id b -> a = b.
Proof.
  intros Ha Hb H. unfold auto_id in H. apply append_cancel_l in H. rewrite !pad9_zeros in H.
  destruct a as [|p|p]; try lia. destruct b as [|q|q]; try lia.
  apply dec_inj; [lia|lia|]. exact (pad_inj _ _ _ _ (dec_pos_head p) (dec_pos_head q) H).
Qed.
