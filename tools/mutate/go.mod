module mutate
go 1.21
