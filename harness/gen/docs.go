package gen

import (
	"fmt"

	"github.com/protobom/protobom/pkg/sbom"
)

// WildDocument generates an arbitrary value of the Document message type: absent metadata or node
// list, nil list elements, unknown enum numbers, empty and duplicate identifiers, dangling edges,
// cycles, no or many roots, document types with absent parts.
func (g *G) WildDocument() *sbom.Document {
	d := &sbom.Document{}
	if g.Chance(0.9) {
		d.Metadata = &sbom.Metadata{Id: Pick(g, []string{"", "urn:uuid:1", "x"}), Name: g.Text(), Version: Pick(g, []string{"", "0", "3", "abc"}), Comment: g.Text()}
		if g.Chance(0.3) {
			d.Metadata.Date = g.Time()
		}
		for k := g.Int(3); k > 0; k-- {
			if g.Chance(0.15) {
				d.Metadata.Tools = append(d.Metadata.Tools, nil)
				continue
			}
			d.Metadata.Tools = append(d.Metadata.Tools, &sbom.Tool{Name: g.Text(), Version: g.Text(), Vendor: g.Text()})
		}
		for k := g.Int(3); k > 0; k-- {
			if g.Chance(0.15) {
				d.Metadata.Authors = append(d.Metadata.Authors, nil)
				continue
			}
			d.Metadata.Authors = append(d.Metadata.Authors, g.Person(1))
		}
		for k := g.Int(3); k > 0; k-- {
			if g.Chance(0.1) {
				d.Metadata.DocumentTypes = append(d.Metadata.DocumentTypes, nil)
				continue
			}
			dt := &sbom.DocumentType{}
			if g.Chance(0.6) {
				t := sbom.DocumentType_SBOMType(g.Int(11))
				dt.Type = &t
			}
			if g.Chance(0.6) {
				s := g.Text()
				dt.Name = &s
			}
			if g.Chance(0.5) {
				s := g.Text()
				dt.Description = &s
			}
			d.Metadata.DocumentTypes = append(d.Metadata.DocumentTypes, dt)
		}
	}
	if g.Chance(0.9) {
		sh := Shape{MaxNodes: 5, MaxEdges: 6, WellFormed: g.Chance(0.5), Richness: 0.4, OddIDs: 0.15}
		nl := g.NodeList(sh)
		// damage
		if g.Chance(0.15) && len(nl.Nodes) > 0 {
			nl.Nodes[g.Int(len(nl.Nodes))] = nil
		}
		if g.Chance(0.15) && len(nl.Edges) > 0 {
			nl.Edges[g.Int(len(nl.Edges))] = nil
		}
		for _, n := range nl.Nodes {
			if n == nil {
				continue
			}
			if g.Chance(0.1) {
				n.Type = sbom.Node_NodeType(2 + g.Int(5))
			}
			if g.Chance(0.1) && len(n.Suppliers) > 0 {
				n.Suppliers[0] = nil
			}
			if g.Chance(0.1) && len(n.Originators) > 0 {
				n.Originators[0] = nil
			}
			if g.Chance(0.1) && len(n.ExternalReferences) > 0 {
				n.ExternalReferences[0] = nil
			}
			if g.Chance(0.1) {
				n.PrimaryPurpose = append(n.PrimaryPurpose, sbom.Purpose(40+g.Int(10)))
			}
			if g.Chance(0.1) {
				n.PrimaryPurpose = append([]sbom.Purpose{sbom.Purpose(40 + g.Int(10))}, n.PrimaryPurpose...)
			}
			for _, s := range n.Suppliers {
				if s != nil && g.Chance(0.2) {
					s.Contacts = append(s.Contacts, nil)
				}
			}
		}
		switch g.Int(6) {
		case 0:
			nl.RootElements = nil
		case 1:
			nl.RootElements = []string{"nosuch"}
		case 2:
			if len(nl.Nodes) > 0 && nl.Nodes[0] != nil {
				nl.RootElements = []string{nl.Nodes[0].Id}
			}
		}
		d.NodeList = nl
	}
	return d
}

// Describe gives a short, stable description of a wild document for reports.
func Describe(d *sbom.Document) string {
	if d == nil {
		return "nil document"
	}
	s := ""
	if d.Metadata == nil {
		s += "no-metadata "
	}
	if d.NodeList == nil {
		return s + "no-nodelist"
	}
	return s + fmt.Sprintf("nodes=%d edges=%d roots=%d", len(d.NodeList.Nodes), len(d.NodeList.Edges), len(d.NodeList.RootElements))
}
