(* Correspondence evaluator for format detection (C06). *)
From Verif Require Import Model.Base Model.Sniff Corr.Canon.
Open Scope list_scope.

Record case06 := mk_case06 {
  s_decl : option decl;       (* what encoding/json decoded from the input, if it decoded *)
  s_lines : list string;      (* the input split into lines (only used when it did not decode) *)
  s_result : string;          (* reported format, "" for an error *)
  s_offset : Z }.             (* stream offset after the call *)

Definition case_ok (c : case06) : bool :=
  let '(r, st) := sniff_reader {| s_pos := 7 |} (s_decl c) (s_lines c) in
  match r with
  | Ok f => String.eqb f (s_result c)
  | Err => String.eqb (s_result c) ""
  | _ => false
  end && Z.eqb (s_pos st) (s_offset c).

Definition mismatches (cs : list case06) : list nat := failing case_ok cs.
