(* Model of format detection (pkg/formats/sniffer.go).  Decoding the top-level JSON object into
   (bomFormat, specVersion, spdxVersion) is encoding/json's job and is an input here (None = the
   bytes do not decode); everything after that is modelled: the decision on the declaration and the
   line-based fall-back for tag-value files, and the final rewind of the stream. *)
From Verif Require Import Model.Base Model.Match Gen.Tables.
Open Scope list_scope.

Definition decl := (string * string * string)%type.   (* bomFormat, specVersion, spdxVersion *)

Definition F_SPDX22JSON := "text/spdx+json;version=2.2".
Definition F_SPDX23JSON := "text/spdx+json;version=2.3".
Definition F_SPDX22TV := "text/spdx+text;version=2.2".
Definition F_SPDX23TV := "text/spdx+text;version=2.3".
Definition F_CDX13JSON := "application/vnd.cyclonedx+json;version=1.3".
Definition F_CDX14JSON := "application/vnd.cyclonedx+json;version=1.4".
Definition F_CDX15JSON := "application/vnd.cyclonedx+json;version=1.5".

(* strings.EqualFold against "cyclonedx" (ASCII folding is exact for this word) *)
Definition is_cdx (bom : string) : bool := String.eqb (to_lower bom) "cyclonedx".

Definition sniff_json (d : decl) : result string :=
  let '(bom, spec, spdx) := d in
  if is_cdx bom then
    if String.eqb spec "1.3" then Ok F_CDX13JSON
    else if String.eqb spec "1.4" then Ok F_CDX14JSON
    else if String.eqb spec "1.5" then Ok F_CDX15JSON
    else Err
  else
    if String.eqb spdx "SPDX-2.2" then Ok F_SPDX22JSON
    else if String.eqb spdx "SPDX-2.3" then Ok F_SPDX23JSON
    else Err.

(* strings.Contains *)
Fixpoint contains (needle hay : string) : bool :=
  String.prefix needle hay ||
  match hay with
  | EmptyString => false
  | String _ r => contains needle r
  end.

(* one line of the tag-value fall-back: a format is reported by a line that carries both the
   SPDXVersion tag and a known version *)
Definition sniff_line (line : string) : option string :=
  if contains "SPDXVersion:" line then
    if contains "SPDX-2.2" line then Some F_SPDX22TV
    else if contains "SPDX-2.3" line then Some F_SPDX23TV
    else None
  else None.

Fixpoint sniff_lines (lines : list string) : result string :=
  match lines with
  | [] => Err
  | l :: r => match sniff_line l with Some f => Ok f | None => sniff_lines r end
  end.

Definition sniff (d : option decl) (lines : list string) : result string :=
  match d with
  | Some t => sniff_json t
  | None => sniff_lines lines
  end.

(* the stream: its bytes stay, the read position is what detection may move *)
Record stream := mk_stream { s_pos : Z }.

(* SniffReader always seeks back to the start before returning *)
Definition sniff_reader (s : stream) (d : option decl) (lines : list string) : result string * stream :=
  (sniff d lines, {| s_pos := 0 |}).

(* accessors of a format constant, from the generated table *)
Definition fmt_info (f : string) : option (string * string * string) := sassoc f format_tab.
