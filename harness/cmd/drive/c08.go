package main

import (
	"fmt"
	"path/filepath"

	"github.com/protobom/protobom/pkg/sbom"
	"google.golang.org/protobuf/proto"

	"verifharness/coqfmt"
	"verifharness/gen"
	"verifharness/graphops"
	"verifharness/props"
)

func init() { runners["C08"] = runC08 }

var mergeOrExtract = map[graphops.Kind]bool{
	graphops.Clean: true, graphops.Add: true, graphops.Union: true, graphops.Intersect: true, graphops.Remove: true,
	graphops.Siblings: true, graphops.Graph: true, graphops.Descendants: true, graphops.ByPurlType: true,
}

// runC08: random histories of editing operations from random well-formed lists. After
// every step the real NodeList is printed (one-step refinement from observed states) and
// the property is evaluated directly: well-formedness is preserved, merge/remove/extract
// results are normalised, RemoveNodes removes exactly the named nodes.
func runC08(seed int64, n int, dir string, tier string) *Report {
	g := gen.New(seed)
	rep := NewReport("C08", seed)
	rep.Rule = "n histories of up to 6 operations from a random well-formed list (<=6 nodes, <=7 edges, ids from an 8-name pool plus odd ids; in half of the histories not normalised: parallel edges, repeated targets); removals that name no node included; one case per executed step; non-trivial = the list before the step has >=2 nodes and >=1 edge, or the argument list has; distinct by hash of the printed case"
	cf := &CasesFile{Imports: "Model.Base Model.Graph Corr.CheckC08", Type: "case08", Eval: "mismatches"}
	for h := 0; h < n; h++ {
		sh := gen.Shape{MaxNodes: 6, MaxEdges: 7, WellFormed: true, Richness: 0.3, OddIDs: 0.06}
		if h%7 == 3 {
			sh.Richness = 0.9
		}
		cur := g.NodeList(sh)
		if len(cur.Edges) > 0 && g.Chance(0.5) {
			// well-formed but not normalised, as AddEdge and RelateNodeListAtID can leave a list: a second
			// edge with the same source and type sharing a target, and a repeated target
			e := cur.Edges[g.Int(len(cur.Edges))]
			if len(e.To) > 0 {
				cur.Edges = append(cur.Edges, &sbom.Edge{Type: e.Type, From: e.From, To: []string{e.To[0], e.To[len(e.To)-1]}})
				e.To = append(e.To, e.To[0])
			}
		}
		steps := 1 + g.Int(6)
		for s := 0; s < steps; s++ {
			op := graphops.Random(g, cur, graphops.AllKinds, sh)
			before := proto.Clone(cur).(*sbom.NodeList)
			var argBefore *sbom.NodeList
			if op.L2 != nil {
				argBefore = proto.Clone(op.L2).(*sbom.NodeList)
			}
			opCoq := op.Coq() // printed before the call: arguments as given
			beforeCoq := coqfmt.NodeList(cur)
			opDesc := op.Describe()
			after, outcome, pv := op.Apply(cur)
			input := map[string]any{"before": graphops.PJ(before), "op": opDesc, "outcome": outcome, "after": graphops.PJ(after)}
			if pv != nil {
				input["panic"] = fmt.Sprint(pv)
			}
			caseCoq := fmt.Sprintf("(mk_case08 %s %s %d %s)", beforeCoq, opCoq, outcome, coqfmt.NodeList(after))
			nontrivial := (len(before.Nodes) >= 2 && len(before.Edges) >= 1) || (argBefore != nil && len(argBefore.Nodes) >= 2 && len(argBefore.Edges) >= 1)
			cf.Add(caseCoq)
			rep.NoteCase(caseCoq, nontrivial, input)
			rep.Count("op=" + string(op.Kind))
			rep.Count(fmt.Sprintf("outcome=%d", outcome))
			rep.Count(fmt.Sprintf("nodes_before=%d", len(before.Nodes)))

			// direct oracle
			rep.OracleEvals++
			if outcome == graphops.Panic {
				rep.Fail(Failure{What: "operation panicked", Detail: fmt.Sprint(pv), Input: input})
			}
			argsWF := props.WellFormed(before) == nil && (argBefore == nil || props.WellFormed(argBefore) == nil)
			if op.Kind == graphops.RelateNode {
				// the node argument itself is always a well-formed argument
			}
			if outcome == graphops.OK && argsWF {
				if err := props.WellFormed(after); err != nil {
					rep.Fail(Failure{What: "result of " + string(op.Kind) + " is not well-formed", Detail: err.Error(), Input: input, Finder: finderC08(op, before, after)})
				}
				if mergeOrExtract[op.Kind] {
					if err := props.Normalised(after); err != nil {
						rep.Fail(Failure{What: "result of " + string(op.Kind) + " is not normalised", Detail: err.Error(), Input: input})
					}
				}
			}
			if outcome == graphops.OK && op.Kind == graphops.Remove {
				rm := map[string]bool{}
				for _, i := range op.IDs {
					rm[i] = true
				}
				wantN := map[string]bool{}
				for k := range props.NodeSet(before) {
					if !rm[k] {
						wantN[k] = true
					}
				}
				wantR := map[string]bool{}
				for k := range props.RootSet(before) {
					if !rm[k] {
						wantR[k] = true
					}
				}
				wantE := props.Restrict(props.TripleSet(before), wantN)
				if !props.SameStrSet(props.NodeSet(after), wantN) {
					rep.Fail(Failure{What: "RemoveNodes: node set is not the original minus the named ids", Input: input})
				}
				if !props.SameTripleSet(props.TripleSet(after), wantE) {
					rep.Fail(Failure{What: "RemoveNodes: edges are not the original edges among surviving nodes", Input: input})
				}
				if !props.SameStrSet(props.RootSet(after), wantR) {
					rep.Fail(Failure{What: "RemoveNodes: root elements are not the original roots minus the named ids", Detail: fmt.Sprintf("roots after = %v, want %v", props.Keys(props.RootSet(after)), props.Keys(wantR)), Input: input})
				}
			}
			if outcome == graphops.Panic {
				break
			}
			cur = after
			if len(cur.Nodes) > 14 {
				break
			}
		}
	}
	rep.CasesFiles = cf.Write(filepath.Join(dir, "cases_C08"))
	rep.ShardSize = shardSize
	return rep
}

func finderC08(op *graphops.Op, before, after *sbom.NodeList) string { return "" }
