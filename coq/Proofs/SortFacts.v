(* sort.Strings as insertion sort: the result depends only on the multiset of its input. *)
From Coq Require Import Lia Permutation NArith.
From Verif Require Import Model.Base.
Open Scope list_scope.

Lemma ascii_compare_N a b : Ascii.compare a b = N.compare (N_of_ascii a) (N_of_ascii b).
Proof. reflexivity. Qed.

Lemma ascii_compare_refl a : Ascii.compare a a = Eq.
Proof. rewrite ascii_compare_N. apply N.compare_refl. Qed.

Lemma string_compare_refl s : String.compare s s = Eq.
Proof. induction s as [|c s IH]; simpl; [reflexivity|]. rewrite ascii_compare_refl. exact IH. Qed.

Lemma leb_refl s : String.leb s s = true.
Proof. unfold String.leb. rewrite string_compare_refl. reflexivity. Qed.

Lemma compare_not_gt_trans : forall a b c,
  String.compare a b <> Gt -> String.compare b c <> Gt -> String.compare a c <> Gt.
Proof.
  induction a as [|c1 a IH]; intros b c Hab Hbc.
  - destruct c; simpl; discriminate.
  - destruct b as [|c2 b]; [simpl in Hab; congruence|].
    destruct c as [|c3 c]; [simpl in Hbc; congruence|].
    simpl in *. rewrite ascii_compare_N in *.
    destruct (N.compare_spec (N_of_ascii c1) (N_of_ascii c2)) as [E12|L12|G12]; try congruence;
    destruct (N.compare_spec (N_of_ascii c2) (N_of_ascii c3)) as [E23|L23|G23]; try congruence;
    destruct (N.compare_spec (N_of_ascii c1) (N_of_ascii c3)) as [E13|L13|G13]; try discriminate; try lia.
    eapply IH; eassumption.
Qed.

Lemma leb_trans a b c : String.leb a b = true -> String.leb b c = true -> String.leb a c = true.
Proof.
  unfold String.leb. intros H1 H2.
  assert (Hab : String.compare a b <> Gt) by (destruct (String.compare a b); congruence).
  assert (Hbc : String.compare b c <> Gt) by (destruct (String.compare b c); congruence).
  pose proof (compare_not_gt_trans a b c Hab Hbc) as H. destruct (String.compare a c); congruence.
Qed.

Lemma leb_false_flip a b : String.leb a b = false -> String.leb b a = true.
Proof. intros H. destruct (String.leb_total a b) as [E|E]; congruence. Qed.

(* ---- sortedness ------------------------------------------------------------------------ *)
Inductive sorted : list string -> Prop :=
  | sorted_nil : sorted []
  | sorted_one x : sorted [x]
  | sorted_cons x y r : String.leb x y = true -> sorted (y :: r) -> sorted (x :: y :: r).

Lemma sinsert_sorted x l : sorted l -> sorted (sinsert x l).
Proof.
  induction 1 as [|y|y z r Hyz Hs IH]; simpl.
  - constructor.
  - destruct (String.leb x y) eqn:E; constructor; auto using leb_false_flip; constructor.
  - destruct (String.leb x y) eqn:E.
    + constructor; [assumption|]. constructor; assumption.
    + simpl in IH. destruct (String.leb x z) eqn:E2.
      * constructor; [apply leb_false_flip; assumption|]. constructor; assumption.
      * constructor; assumption.
Qed.

Lemma ssort_sorted l : sorted (ssort l).
Proof. induction l as [|x r IH]; simpl; [constructor|]. apply sinsert_sorted. exact IH. Qed.

Lemma sinsert_perm x l : Permutation (x :: l) (sinsert x l).
Proof.
  induction l as [|y r IH]; simpl; [apply Permutation_refl|].
  destruct (String.leb x y); [apply Permutation_refl|].
  eapply Permutation_trans; [apply perm_swap|]. constructor. exact IH.
Qed.

Lemma ssort_perm l : Permutation l (ssort l).
Proof.
  induction l as [|x r IH]; simpl; [constructor|].
  eapply Permutation_trans; [|apply sinsert_perm]. constructor. exact IH.
Qed.

Lemma sorted_head_le x l : sorted (x :: l) -> forall y, In y l -> String.leb x y = true.
Proof.
  revert x. induction l as [|z r IH]; intros x Hs y Hy; [contradiction|].
  inversion Hs as [| |? ? ? Hxz Hs']; subst. destruct Hy as [<-|Hy]; [assumption|].
  eapply leb_trans; [exact Hxz|]. apply IH; assumption.
Qed.

(* two sorted lists with the same elements (as multisets) are equal *)
Lemma sorted_perm_eq l : forall l', sorted l -> sorted l' -> Permutation l l' -> l = l'.
Proof.
  induction l as [|x r IH]; intros l' Hs Hs' Hp.
  - apply Permutation_nil in Hp. subst. reflexivity.
  - destruct l' as [|y r']; [apply Permutation_sym, Permutation_nil in Hp; discriminate|].
    assert (Hxy : x = y).
    { assert (Hx : In x (y :: r')) by (eapply Permutation_in; [exact Hp|left; reflexivity]).
      assert (Hy : In y (x :: r)) by (eapply Permutation_in; [apply Permutation_sym; exact Hp|left; reflexivity]).
      destruct Hx as [->|Hx]; [reflexivity|]. destruct Hy as [->|Hy]; [reflexivity|].
      apply String.leb_antisym.
      - apply (sorted_head_le x r Hs y Hy).
      - apply (sorted_head_le y r' Hs' x Hx). }
    subst y. f_equal. apply IH.
    + inversion Hs; subst; [constructor|assumption].
    + inversion Hs'; subst; [constructor|assumption].
    + eapply Permutation_cons_inv. exact Hp.
Qed.

Theorem ssort_perm_eq l l' : Permutation l l' -> ssort l = ssort l'.
Proof.
  intros Hp. apply sorted_perm_eq; try apply ssort_sorted.
  eapply Permutation_trans; [apply Permutation_sym, ssort_perm|].
  eapply Permutation_trans; [exact Hp|apply ssort_perm].
Qed.

Lemma ssort_idem l : ssort (ssort l) = ssort l.
Proof. apply sorted_perm_eq; try apply ssort_sorted. apply Permutation_sym, ssort_perm. Qed.
