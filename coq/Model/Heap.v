(* Object-graph model for C11 / C12: the Go values protobom hands out are graphs of mutable
   locations — message structs, slice backing arrays, maps — and "copy", "independent", "unchanged"
   are statements about those graphs.  The harness records real object graphs by pointer identity
   (harness/heapview); the definitions below are evaluated on them and are what the theorems are
   about. *)
From Verif Require Import Model.Base Gen.Tables.
Open Scope list_scope.

Definition loc := Z.

Inductive hval :=
  | HS (s : string) | HZ (z : Z) | HB (b : bool)
  | HNil                         (* nil pointer, nil slice, nil map *)
  | HEmpty                       (* empty non-nil slice: no location behind it *)
  | HPtr (l : loc)               (* pointer to a message struct (or to a boxed optional scalar) *)
  | HSl (l : loc) (len : Z)      (* slice: backing array and length *)
  | HMp (l : loc).               (* map *)

Inductive hcell :=
  | HMsg (kind : Z) (fields : list hval)
  | HArr (elems : list hval)
  | HMap (kvs : list (Z * string)).

Definition heap := list (loc * hcell).

Fixpoint hget (h : heap) (l : loc) : option hcell :=
  match h with
  | [] => None
  | (k, c) :: r => if Z.eqb k l then Some c else hget r l
  end.

Definition ptr_of (v : hval) : option loc :=
  match v with HPtr l | HSl l _ | HMp l => Some l | _ => None end.

Definition cell_vals (c : hcell) : list hval :=
  match c with HMsg _ fs => fs | HArr es => es | HMap _ => [] end.

Fixpoint nmem (l : loc) (s : list loc) : bool :=
  match s with [] => false | x :: r => (Z.eqb x l || nmem l r)%bool end.

(* ---- reachability (executable: depth-first, first-visit order, newest first) ------------------- *)
Fixpoint dfs (fuel : nat) (h : heap) (todo : list hval) (seen : list loc) : list loc :=
  match fuel with
  | O => seen
  | S f =>
      match todo with
      | [] => seen
      | v :: rest =>
          match ptr_of v with
          | Some l => if nmem l seen then dfs f h rest seen
                      else dfs f h ((match hget h l with Some c => cell_vals c | None => [] end) ++ rest) (l :: seen)
          | None => dfs f h rest seen
          end
      end
  end.

Definition hsize (h : heap) : nat := fold_right (fun kc n => (S (length (cell_vals (snd kc))) + n)%nat) O h.

Definition reach_list (h : heap) (roots : list hval) : list loc :=
  rev (dfs (S (hsize h + length roots)) h roots []).

(* ---- the two observations ---------------------------------------------------------------------- *)
(* no location is reachable from both *)
Definition separated (h : heap) (xs ys : list hval) : bool :=
  let ry := reach_list h ys in forallb (fun l => negb (nmem l ry)) (reach_list h xs).

(* canonical form of the graph under some roots: locations renumbered in first-visit order *)
Fixpoint index_of (l : loc) (order : list loc) (i : Z) : Z :=
  match order with [] => i | x :: r => if Z.eqb x l then i else index_of l r (i + 1) end.

Definition rename (order : list loc) (v : hval) : hval :=
  match v with
  | HPtr l => HPtr (index_of l order 0)
  | HSl l n => HSl (index_of l order 0) n
  | HMp l => HMp (index_of l order 0)
  | _ => v
  end.

Definition rename_cell (order : list loc) (c : hcell) : hcell :=
  match c with
  | HMsg k fs => HMsg k (map (rename order) fs)
  | HArr es => HArr (map (rename order) es)
  | HMap kvs => HMap kvs
  end.

Definition canon (h : heap) (roots : list hval) : list hval * list hcell :=
  let order := reach_list h roots in
  (map (rename order) roots,
   map (fun l => match hget h l with Some c => rename_cell order c | None => HMap [] end) order).

Definition hval_eqb (a b : hval) : bool :=
  match a, b with
  | HS x, HS y => String.eqb x y
  | HZ x, HZ y => Z.eqb x y
  | HB x, HB y => Bool.eqb x y
  | HNil, HNil => true
  | HEmpty, HEmpty => true
  | HPtr x, HPtr y => Z.eqb x y
  | HSl x n, HSl y m => (Z.eqb x y && Z.eqb n m)%bool
  | HMp x, HMp y => Z.eqb x y
  | _, _ => false
  end.

Definition hcell_eqb (a b : hcell) : bool :=
  match a, b with
  | HMsg k fs, HMsg k' fs' => (Z.eqb k k' && list_eqb hval_eqb fs fs')%bool
  | HArr es, HArr es' => list_eqb hval_eqb es es'
  | HMap kvs, HMap kvs' => list_eqb (fun x y => (Z.eqb (fst x) (fst y) && String.eqb (snd x) (snd y))%bool) kvs kvs'
  | _, _ => false
  end.

(* the same graph: same values, same shape, same sharing *)
Definition same_graph (h : heap) (roots : list hval) (h' : heap) (roots' : list hval) : bool :=
  let '(r1, c1) := canon h roots in
  let '(r2, c2) := canon h' roots' in
  (list_eqb hval_eqb r1 r2 && list_eqb hcell_eqb c1 c2)%bool.

(* ---- the copy operations as the code writes them ---------------------------------------------- *)
Definition K_Node := 1. Definition K_Edge := 2. Definition K_Person := 3. Definition K_ExtRef := 4.
Definition K_NodeList := 5. Definition K_Timestamp := 6.

Definition alloc (h : heap) (c : hcell) : loc * heap :=
  let l := Z.of_nat (length h) in (l, h ++ [(l, c)]).

(* where a Copy method deviates from a plain deep copy: Node.Copy starts suppliers, originators and
   external references from empty non-nil slices; NodeList.Copy starts nodes and edges from empty
   non-nil slices and appends the root elements to a nil slice.  Fields are named; their positions
   come from the generated table of Go struct fields. *)
Definition field_name (kind : Z) (idx : nat) : string :=
  match zassoc kind go_struct_fields with Some names => nth idx names "" | None => "" end.

Definition fix_field (kind : Z) (idx : nat) (v : hval) : hval :=
  let nm := field_name kind idx in
  if (Z.eqb kind K_Node && (String.eqb nm "Suppliers" || String.eqb nm "Originators" || String.eqb nm "ExternalReferences"))%bool then
    match v with HNil => HEmpty | _ => v end
  else if (Z.eqb kind K_NodeList && (String.eqb nm "Nodes" || String.eqb nm "Edges"))%bool then
    match v with HNil => HEmpty | _ => v end
  else if (Z.eqb kind K_NodeList && String.eqb nm "RootElements")%bool then
    match v with HEmpty => HNil | _ => v end
  else v.

Fixpoint fix_fields (kind : Z) (idx : nat) (vs : list hval) : list hval :=
  match vs with [] => [] | v :: r => fix_field kind idx v :: fix_fields kind (S idx) r end.

(* deep copy: every location reachable from the value is allocated afresh; fuel bounds the depth *)
Fixpoint dcopy (fuel : nat) (h : heap) (v : hval) : hval * heap :=
  match fuel with
  | O => (HNil, h)
  | S f =>
      let copy_list :=
        fix go (vs : list hval) (h : heap) : list hval * heap :=
          match vs with
          | [] => ([], h)
          | x :: r => let '(x', h1) := dcopy f h x in let '(r', h2) := go r h1 in (x' :: r', h2)
          end in
      match v with
      | HPtr l =>
          match hget h l with
          | Some (HMsg k fs) => let '(fs', h1) := copy_list (fix_fields k 0 fs) h in
                                let '(l', h2) := alloc h1 (HMsg k fs') in (HPtr l', h2)
          | Some (HArr es) => let '(es', h1) := copy_list es h in
                              let '(l', h2) := alloc h1 (HArr es') in (HPtr l', h2)
          | _ => (HNil, h)
          end
      | HSl l n =>
          match hget h l with
          | Some (HArr es) => let '(es', h1) := copy_list (firstn (Z.to_nat n) es) h in
                              let '(l', h2) := alloc h1 (HArr es') in (HSl l' n, h2)
          | _ => (HNil, h)
          end
      | HMp l =>
          match hget h l with
          | Some (HMap kvs) => let '(l', h1) := alloc h (HMap kvs) in (HMp l', h1)
          | _ => (HNil, h)
          end
      | _ => (v, h)
      end
  end.

Definition copy_value (h : heap) (v : hval) : hval * heap := dcopy (S (hsize h)) h v.

(* ---- value trees: what a snapshot sees (sharing is not visible in it) --------------------------- *)
Inductive tree :=
  | TLeaf (v : hval)                       (* scalar, nil or empty *)
  | TMsg (kind : Z) (fields : list tree)
  | TArr (elems : list tree)
  | TMapT (kvs : list (Z * string))
  | TCut.                                  (* fuel exhausted / dangling *)

Fixpoint tree_of (fuel : nat) (h : heap) (v : hval) : tree :=
  match fuel with
  | O => TCut
  | S f =>
      match v with
      | HPtr l => match hget h l with
                  | Some (HMsg k fs) => TMsg k (map (tree_of f h) fs)
                  | Some (HArr es) => TArr (map (tree_of f h) es)
                  | _ => TCut
                  end
      | HSl l n => match hget h l with
                   | Some (HArr es) => TArr (map (tree_of f h) (firstn (Z.to_nat n) es))
                   | _ => TCut
                   end
      | HMp l => match hget h l with Some (HMap kvs) => TMapT kvs | _ => TCut end
      | _ => TLeaf v
      end
  end.

(* a store to one location *)
Fixpoint hset (h : heap) (l : loc) (c : hcell) : heap :=
  match h with
  | [] => []
  | (k, c0) :: r => if Z.eqb k l then (k, c) :: r else (k, c0) :: hset r l c
  end.

(* ---- programs that only allocate, and store only into what they allocated ---------------------- *)
(* the shape of every query and value-returning operation: whatever it sorts, fills or appends to is a
   location it allocated itself (a copied slice, a fresh message, a new map) *)
Inductive hop := OAlloc (c : hcell) | OStore (l : loc) (c : hcell).

Definition hstep (h : heap) (o : hop) : heap :=
  match o with OAlloc c => snd (alloc h c) | OStore l c => hset h l c end.

Definition fresh_only (n0 : Z) (ops : list hop) : bool :=
  forallb (fun o => match o with OAlloc _ => true | OStore l _ => Z.leb n0 l end) ops.
