(* Correspondence evaluator for the CycloneDX translation, at two seams:
   A  Serialize: document -> native BOM (the *cdx.BOM the real serializer returns)
   B  Unserialize: decoded native BOM -> node list (and document types) of the parsed document
   plus the observation that encoding and decoding a class BOM at a spec version gives it back. *)
From Verif Require Import Model.Base Model.Node Model.Graph Model.Flat Model.Spdx Model.Cdx Corr.Canon Corr.CheckSpdx.
Open Scope list_scope.

Inductive case_cdx :=
  | CSer (d : document) (observed : option cbom)
  | CUnser (b : cbom) (observed : nodelist) (doctypes : list (string * string * option Z))
  | CChan (written decoded : cbom) (with_lifecycles : bool).

Definition clic_eqb (a b : clic) : bool :=
  String.eqb (cl_expression a) (cl_expression b) && Bool.eqb (cl_has_license a) (cl_has_license b) && String.eqb (cl_id a) (cl_id b).
Definition cxref_eqb (a b : cxref) : bool :=
  String.eqb (cx_url a) (cx_url b) && String.eqb (cx_comment a) (cx_comment b) && String.eqb (cx_type a) (cx_type b)
  && list_eqb pair_eqb (psort (cx_hashes a)) (psort (cx_hashes b)).
Definition contact_eqb (a b : string * string * string) : bool :=
  String.eqb (fst (fst a)) (fst (fst b)) && String.eqb (snd (fst a)) (snd (fst b)) && String.eqb (snd a) (snd b).

Fixpoint comp_eqb (a b : comp) : bool :=
  String.eqb (c_ref a) (c_ref b) && String.eqb (c_type a) (c_type b) && String.eqb (c_name a) (c_name b)
  && String.eqb (c_version a) (c_version b) && String.eqb (c_description a) (c_description b)
  && String.eqb (c_copyright a) (c_copyright b) && list_eqb clic_eqb (c_licenses a) (c_licenses b)
  && list_eqb pair_eqb (psort (c_hashes a)) (psort (c_hashes b))
  && list_eqb cxref_eqb (c_xrefs a) (c_xrefs b)
  && String.eqb (c_purl a) (c_purl b) && String.eqb (c_cpe a) (c_cpe b)
  && opt_eqb (fun x y => String.eqb (fst x) (fst y) && list_eqb contact_eqb (snd x) (snd y)) (c_supplier a) (c_supplier b)
  && list_eqb comp_eqb (c_sub a) (c_sub b).

Definition lc_eqb (a b : string * string * string) : bool := contact_eqb a b.
Definition dep_eqb (a b : string * list string) : bool := String.eqb (fst a) (fst b) && list_eqb String.eqb (snd a) (snd b).

Definition cbom_eqb (a b : cbom) : bool :=
  String.eqb (b_serial a) (b_serial b) && Z.eqb (b_version a) (b_version b)
  && Bool.eqb (b_has_metadata a) (b_has_metadata b) && opt_eqb comp_eqb (b_meta_comp a) (b_meta_comp b)
  && list_eqb lc_eqb (b_lifecycles a) (b_lifecycles b)
  && list_eqb comp_eqb (b_components a) (b_components b)
  && list_eqb dep_eqb (b_deps a) (b_deps b).

Definition dt_eqb (a b : string * string * option Z) : bool :=
  String.eqb (fst (fst a)) (fst (fst b)) && String.eqb (snd (fst a)) (snd (fst b)) && opt_eqb Z.eqb (snd a) (snd b).

(* the parser appends nodes and edges in traversal order; targets of an edge too *)
Definition parsed_same_cdx (a b : nodelist) : bool :=
  list_eqb node_eqb (map norm_node (nl_nodes a)) (map norm_node (nl_nodes b))
  && list_eqb edge_eqb (canon_edges (nl_edges a)) (canon_edges (nl_edges b))
  && list_eqb String.eqb (nl_root_elements a) (nl_root_elements b).

Definition strip_lifecycles (b : cbom) : cbom :=
  {| b_serial := b_serial b; b_version := b_version b; b_has_metadata := b_has_metadata b; b_meta_comp := b_meta_comp b;
     b_lifecycles := []; b_components := b_components b; b_deps := b_deps b |}.

Definition case_ok (c : case_cdx) : bool :=
  match c with
  | CSer d obs => match cdx_ser d, obs with
                  | Ok a, Some b => cbom_eqb a b
                  | Err, None => true
                  | _, _ => false
                  end
  | CUnser b obs dts => parsed_same_cdx (cdx_unser_nl b) obs && list_eqb dt_eqb (cdx_doctypes b) dts
  | CChan w dcd lc => cbom_eqb (if lc then w else strip_lifecycles w) dcd
  end.

Definition mismatches (cs : list case_cdx) : list nat := failing case_ok cs.
