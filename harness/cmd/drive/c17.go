package main

import (
	"bytes"
	"encoding/json"
	"fmt"
	"os"
	"os/exec"
	"path/filepath"
	"strings"

	"github.com/protobom/protobom/pkg/formats"
	"github.com/protobom/protobom/pkg/native"
	"github.com/protobom/protobom/pkg/native/nativefakes"
	"github.com/protobom/protobom/pkg/reader"
	"github.com/protobom/protobom/pkg/writer"

	"verifharness/coqfmt"
	"verifharness/gen"
)

func init() { runners["C17"] = runC17 }

func runC17(seed int64, n int, dir string, tier string) *Report {
	g := gen.New(seed)
	rep := NewReport("C17", seed)
	rep.Rule = "correspondence: n random sequential histories of Register/Unregister/Get on the reader and the writer driver registries (3 private formats, 3 drivers) against the registry model; oracle: the race-detector build (go build -race) of a stress program running writes, parses, JSON and tag-value detection, constructor calls with options and registry operations from 16 goroutines, every result compared with the same call made sequentially, stderr scanned for data-race reports; non-trivial = history with at least one registration followed by a lookup; distinct by hash; plus 150 fresh-process runs (1500 in the thorough tier; mostly the plain build, every 25th the race-detector build) whose very first use of the reader and writer packages is made by 64 goroutines released together (lazy initialisation)"
	cf := &CasesFile{Imports: "Model.Base Model.Conc Corr.CheckC17", Type: "case17", Eval: "mismatches"}
	fm := []formats.Format{"text/verif-r0", "text/verif-r1", "text/verif-r2"}
	for h := 0; h < n; h++ {
		useWriter := h%2 == 1
		us := []*nativefakes.FakeUnserializer{{}, {}, {}}
		ss := []*nativefakes.FakeSerializer{{}, {}, {}}
		tokenU := func(u native.Unserializer) string {
			for i, x := range us {
				if u == native.Unserializer(x) {
					return fmt.Sprintf("d%d", i)
				}
			}
			return "?"
		}
		tokenS := func(s native.Serializer) string {
			for i, x := range ss {
				if s == native.Serializer(x) {
					return fmt.Sprintf("d%d", i)
				}
			}
			return "?"
		}
		for _, f := range fm {
			reader.UnregisterUnserializer(f)
			writer.UnregisterSerializer(f)
		}
		var ops, outs []string
		var desc []string
		sawRegGet := false
		registered := map[formats.Format]bool{}
		for s := 2 + g.Int(8); s > 0; s-- {
			f := gen.Pick(g, fm)
			switch g.Int(3) {
			case 0:
				d := g.Int(3)
				if useWriter {
					writer.RegisterSerializer(f, ss[d])
				} else {
					reader.RegisterUnserializer(f, us[d])
				}
				registered[f] = true
				ops = append(ops, fmt.Sprintf("(RReg %s %s)", coqfmt.Str(string(f)), coqfmt.Str(fmt.Sprintf("d%d", d))))
				outs = append(outs, "None")
				desc = append(desc, fmt.Sprintf("register %s d%d", f, d))
			case 1:
				if useWriter {
					writer.UnregisterSerializer(f)
				} else {
					reader.UnregisterUnserializer(f)
				}
				delete(registered, f)
				ops = append(ops, fmt.Sprintf("(RUnreg %s)", coqfmt.Str(string(f))))
				outs = append(outs, "None")
				desc = append(desc, fmt.Sprintf("unregister %s", f))
			default:
				o := "None"
				if useWriter {
					if s, err := writer.GetFormatSerializer(f); err == nil {
						o = "(Some " + coqfmt.Str(tokenS(s)) + ")"
					}
				} else {
					if u, err := reader.GetFormatUnserializer(f); err == nil {
						o = "(Some " + coqfmt.Str(tokenU(u)) + ")"
					}
				}
				if registered[f] {
					sawRegGet = true
				}
				rep.OracleEvals++
				if (o != "None") != registered[f] {
					rep.Fail(Failure{What: "a registry lookup does not return the driver registered last (or an error when none is)", Input: map[string]any{"registry": map[bool]string{true: "writer", false: "reader"}[useWriter], "history": desc, "lookup": string(f)}})
				}
				ops = append(ops, fmt.Sprintf("(RGet %s)", coqfmt.Str(string(f))))
				outs = append(outs, o)
				desc = append(desc, fmt.Sprintf("get %s -> %s", f, o))
			}
		}
		c := fmt.Sprintf("(mk_case17 [] [%s] [%s])", strings.Join(ops, "; "), strings.Join(outs, "; "))
		cf.Add(c)
		rep.NoteCase(c, sawRegGet, map[string]any{"registry": map[bool]string{true: "writer", false: "reader"}[useWriter], "history": desc})
		for _, f := range fm {
			reader.UnregisterUnserializer(f)
			writer.UnregisterSerializer(f)
		}
	}

	// ---- race-detector stress ------------------------------------------------------------------
	exe, _ := os.Executable()
	stress := filepath.Join(filepath.Dir(exe), "racestress")
	if _, err := os.Stat(stress); err != nil {
		rep.Notes = append(rep.Notes, "racestress binary not built (go build -race unavailable?): concurrency stress skipped")
	} else {
		rounds, iters := 3, 150
		if tier == "thorough" {
			rounds, iters = 20, 600
		}
		for r := 0; r < rounds; r++ {
			cmd := exec.Command(stress, "-seed", fmt.Sprint(seed+int64(r)), "-workers", "16", "-iters", fmt.Sprint(iters))
			cmd.Env = append(os.Environ(), "GORACE=halt_on_error=0")
			var so, se bytes.Buffer
			cmd.Stdout, cmd.Stderr = &so, &se
			err := cmd.Run()
			rep.OracleEvals++
			var res struct {
				Problems []struct{ What, Detail string }
				Calls    map[string]int
			}
			_ = json.Unmarshal(so.Bytes(), &res)
			for k, v := range res.Calls {
				rep.Distribution["stress:"+k] += v
			}
			if strings.Contains(se.String(), "WARNING: DATA RACE") {
				rep.Fail(Failure{What: "the race detector reported a data race between concurrent calls to reader/writer/formats entry points", Detail: firstRace(se.String()), Input: map[string]any{"stress_seed": seed + int64(r), "workers": 16, "iterations": iters, "race_report": firstRace(se.String())}})
			} else if strings.Contains(se.String(), "fatal error") || (err != nil && len(res.Calls) == 0) {
				rep.Fail(Failure{What: "the concurrent stress run aborted", Detail: tail(se.String(), 1500), Input: map[string]any{"stress_seed": seed + int64(r)}})
			}
			for _, p := range res.Problems {
				rep.Fail(Failure{What: p.What, Detail: p.Detail, Input: map[string]any{"stress_seed": seed + int64(r)}})
			}
		}
	}
	// first use of the packages made concurrently, in fresh processes (lazy initialisation)
	plain := filepath.Join(filepath.Dir(exe), "stress-plain")
	if _, err := os.Stat(plain); err != nil {
		plain = stress
	}
	if _, err := os.Stat(plain); err == nil {
		// the window is a few microseconds wide: many short runs of the plain build (about 50 ms each), a
		// few of the race-detector build
		runs := 150
		if tier == "thorough" {
			runs = 1500
		}
		for r := 0; r < runs; r++ {
			bin := plain
			if r%25 == 0 {
				bin = stress
			}
			cmd := exec.Command(bin, "-mode", "firstuse", "-workers", "64")
			if r%10 == 3 {
				// a registration or removal as the first call of a fresh process, then a lookup
				cmd = exec.Command(bin, "-mode", "firstreg", "-seed", fmt.Sprint(r/10))
			}
			cmd.Env = append(os.Environ(), "GORACE=halt_on_error=0")
			var so, se bytes.Buffer
			cmd.Stdout, cmd.Stderr = &so, &se
			err := cmd.Run()
			rep.OracleEvals++
			var res struct {
				Problems []struct{ What, Detail string }
				Calls    map[string]int
			}
			_ = json.Unmarshal(so.Bytes(), &res)
			for k, v := range res.Calls {
				rep.Distribution["firstuse:"+k] += v
			}
			if strings.Contains(se.String(), "WARNING: DATA RACE") {
				rep.Fail(Failure{What: "the race detector reported a data race during a concurrent first use of the reader/writer packages", Detail: firstRace(se.String()), Input: map[string]any{"first_use_run": r}})
			} else if strings.Contains(se.String(), "fatal error") || (err != nil && len(res.Calls) == 0) {
				rep.Fail(Failure{What: "a concurrent first use aborted", Detail: tail(se.String(), 1500), Input: map[string]any{"first_use_run": r}})
			}
			for _, p := range res.Problems {
				rep.Fail(Failure{What: p.What, Detail: p.Detail, Input: map[string]any{"first_use_run": r, "goroutines": 64}})
			}
		}
	}
	rep.CasesFiles = cf.Write(filepath.Join(dir, "cases_C17"))
	rep.ShardSize = shardSize
	return rep
}

func firstRace(s string) string {
	i := strings.Index(s, "WARNING: DATA RACE")
	if i < 0 {
		return ""
	}
	e := strings.Index(s[i+10:], "==================")
	if e < 0 || e > 4000 {
		e = 4000
	}
	if i+10+e > len(s) {
		return s[i:]
	}
	return s[i : i+10+e]
}

func tail(s string, n int) string {
	if len(s) <= n {
		return s
	}
	return s[len(s)-n:]
}
