(* C16 — lookups and node matching return exactly the documented matches.
   Statements only; proofs in Proofs/MatchFacts.v. *)
From Coq Require Import Permutation.
From Verif Require Import Model.Base Model.Node Model.Graph Model.Match Gen.Tables Proofs.ListFacts Proofs.GraphFacts Proofs.OpsWf Proofs.MatchFacts.
Open Scope list_scope.

Theorem C16_by_id : forall l i,
  (forall n, by_id l i = Some n -> In n (nl_nodes l) /\ n_id n = i) /\
  (by_id l i = None <-> ~ In i (ids l)) /\
  (forall n, NoDup (ids l) -> In n (nl_nodes l) -> n_id n = i -> by_id l i = Some n).
Proof. intros l i. split; [apply by_id_some|]. split; [apply by_id_none|apply by_id_unique]. Qed.
Print Assumptions C16_by_id.

Theorem C16_by_name : forall l nm n, In n (by_name l nm) <-> In n (nl_nodes l) /\ n_name n = nm.
Proof. exact by_name_spec. Qed.
Print Assumptions C16_by_name.

Theorem C16_by_identifier : forall l t v n,
  In n (by_identifier l t v) <-> In n (nl_nodes l) /\ zassoc (ident_type_of_string t) (n_identifiers n) = Some v.
Proof. exact by_identifier_spec. Qed.
Print Assumptions C16_by_identifier.

(* the identifier-type spellings accepted, from the generated tables *)
Theorem C16_identifier_types :
  forallb (fun kv => Z.eqb (ident_type_of_string (fst kv)) (snd kv)) (ident_exact_tab ++ ident_lower_tab) = true /\
  ident_type_of_string " CPE2.3 " = SoftwareIdentifierType_CPE23 /\ ident_type_of_string "nonsense" = 0.
Proof. split; [vm_compute; reflexivity|]. split; vm_compute; reflexivity. Qed.
Print Assumptions C16_identifier_types.

Theorem C16_root_nodes : forall l n,
  NoDup (ids l) -> (In n (root_nodes l) <-> In n (nl_nodes l) /\ In (n_id n) (nl_root_elements l)).
Proof. exact root_nodes_members. Qed.
Print Assumptions C16_root_nodes.

Theorem C16_by_purl_type : forall l pt n,
  In n (nl_nodes (by_purl_type l pt)) <->
  In n (nl_nodes l) /\
  (String.prefix ("pkg:" ++ pt ++ "/")%string (purl n) || String.prefix ("pkg:/" ++ pt ++ "/")%string (purl n) = true)%bool.
Proof. exact by_purl_type_nodes. Qed.
Print Assumptions C16_by_purl_type.

(* matching follows the documented rule: hash candidates first, the package URL as fallback and
   as tie-breaker, an explicit ambiguity error otherwise *)
Theorem C16_matching_rule : forall l p, NoDup (ids l) -> matching_node l p = matching_rule l p.
Proof. exact matching_node_rule. Qed.
Print Assumptions C16_matching_rule.

Theorem C16_matching_in_list : forall l p n, matching_node l p = Ok (Some n) -> In n (nl_nodes l).
Proof. exact matching_in_list. Qed.
Print Assumptions C16_matching_in_list.

Theorem C16_matching_sound : forall l p n,
  NoDup (ids l) -> matching_node l p = Ok (Some n) ->
  (hash_candidate (n_hashes p) n = true) \/
  (purl p <> "" /\ purl n = purl p /\ forall m, In m (nl_nodes l) -> hash_candidate (n_hashes p) m = false).
Proof. exact matching_sound. Qed.
Print Assumptions C16_matching_sound.

(* FULL statement (all lists): the outcome does not depend on the order of the nodes. Proved for
   lists with unique identifiers; with repeated identifiers it is false of the code (the hash
   matches are collected in a map keyed by identifier): known finding K11. *)
Theorem C16_matching_order_independent_partial : forall l l' p,
  Permutation (nl_nodes l) (nl_nodes l') -> NoDup (ids l) -> matching_node l p = matching_node l' p.
Proof. exact matching_perm. Qed.
Print Assumptions C16_matching_order_independent_partial.

Definition nh (i nm : string) : node :=
  {| n_id := i; n_type := 0; n_name := nm; n_version := ""; n_file_name := ""; n_url_home := "";
     n_url_download := ""; n_licenses := []; n_license_concluded := ""; n_license_comments := "";
     n_copyright := ""; n_source_info := ""; n_comment := ""; n_summary := ""; n_description := "";
     n_attribution := []; n_suppliers := []; n_originators := []; n_release_date := None;
     n_build_date := None; n_valid_until_date := None; n_external_references := [];
     n_file_types := []; n_identifiers := []; n_hashes := [(1, "aa")]; n_primary_purpose := [] |}.

Theorem C16_matching_order_independent_refuted :
  exists l l' p, Permutation (nl_nodes l) (nl_nodes l') /\ matching_node l p <> matching_node l' p.
Proof.
  exists {| nl_nodes := [nh "a" "first"; nh "a" "second"]; nl_edges := []; nl_root_elements := [] |},
         {| nl_nodes := [nh "a" "second"; nh "a" "first"]; nl_edges := []; nl_root_elements := [] |},
         (nh "p" "").
  split; [apply perm_swap|]. vm_compute. discriminate.
Qed.
Print Assumptions C16_matching_order_independent_refuted.

(* non-vacuity: a list where the hash rule, the purl fallback and the ambiguity error all occur *)
Example C16_nonvacuous :
  let l := {| nl_nodes := [nh "a" "x"; nh "b" "y"]; nl_edges := []; nl_root_elements := ["b"] |} in
  NoDup (ids l) /\ matching_node l (nh "p" "") = Err /\ length (root_nodes l) = 1%nat.
Proof. split; [repeat constructor; simpl; intuition discriminate|]. split; vm_compute; reflexivity. Qed.
