(* Model of reader/writer configuration (pkg/reader, pkg/writer: New, the functional options,
   the per-call *WithOptions entry points).

   A configuration is a finite map from setting names to values.  Instances hold a REFERENCE to an
   options object, as in Go: the state is a heap of option objects, the package-level defaults
   object sits at address 0, every instance records the address of its object, and a functional
   option writes through the instance's reference. *)
From Verif Require Import Model.Base.
Open Scope list_scope.

Notation conf := (list (string * string)).

Definition aget (k : string) (c : conf) : string :=
  match sassoc k c with Some v => v | None => "" end.

(* a functional option: set one setting, or nothing at all (nil argument) *)
Inductive copt := OSet (k v : string) | ONop.

Definition apply_opt (c : conf) (o : copt) : conf :=
  match o with OSet k v => (k, v) :: c | ONop => c end.

Definition apply_opts (c : conf) (os : list copt) : conf := fold_left apply_opt os c.

Record st := mk_st { heap : list conf; insts : list nat }.

(* a call: which instance, the per-call options if any (None = the plain entry point) *)
Inductive hop :=
  | HNew (opts : list copt)
  | HCall (i : nat) (percall : option conf).

Section Lib.
  (* the documented library defaults *)
  Variable defaults : conf.

  Definition init : st := {| heap := [defaults]; insts := [] |}.

  Fixpoint set_nth (n : nat) (c : conf) (h : list conf) : list conf :=
    match h, n with
    | [], _ => []
    | _ :: r, O => c :: r
    | x :: r, S m => x :: set_nth m c r
    end.

  (* the options of a constructor write through the reference at address a, in order *)
  Definition write_through (a : nat) (opts : list copt) (h : list conf) : list conf :=
    fold_left (fun h op => set_nth a (apply_opt (nth a h []) op) h) opts h.

  (* New(opts...): a fresh object holding a copy of the defaults; each option writes through the
     instance's reference, in order *)
  Definition step (s : st) (o : hop) : st :=
    match o with
    | HNew opts =>
        let a := length (heap s) in
        let h0 := heap s ++ [defaults] in
        {| heap := write_through a opts h0;
           insts := insts s ++ [a] |}
    | HCall _ _ => s
    end.

  Definition run (h : list hop) : st := fold_left step h init.

  (* the configuration of instance i *)
  Definition config (s : st) (i : nat) : conf :=
    match nth_error (insts s) i with Some a => nth a (heap s) [] | None => [] end.

  (* the constructor options of the i-th instance created by a history *)
  Definition ctor_opts (h : list hop) : list (list copt) :=
    flat_map (fun o => match o with HNew opts => [opts] | HCall _ _ => [] end) h.

  (* effective value of setting k for a call: the call's own value when it gives one; otherwise, by
     kind of setting: 0 = the instance's value, 1 = the library default, anything else = nothing *)
  Definition effective (fallback : string -> Z) (s : st) (i : nat) (pc : option conf) (k : string) : string :=
    match pc with
    | None => aget k (config s i)
    | Some c =>
        let fb := if Z.eqb (fallback k) 0 then aget k (config s i)
                  else if Z.eqb (fallback k) 1 then aget k (nth 0 (heap s) [])
                  else "" in
        match sassoc k c with
        | Some v => if String.eqb v "" then fb else v
        | None => fb
        end
    end.
End Lib.
