package main

import (
	"bytes"
	"encoding/json"
	"fmt"
	"path/filepath"
	"strings"

	"github.com/protobom/protobom/pkg/formats"
	"github.com/protobom/protobom/pkg/reader"
	"github.com/protobom/protobom/pkg/sbom"
	"github.com/protobom/protobom/pkg/writer"

	"google.golang.org/protobuf/proto"

	"verifharness/coqfmt"
	"verifharness/gen"
	"verifharness/jsonfault"
	"verifharness/props"
)

func init() { runners["C03"] = runC03 }

func spdxRef(id string) string {
	if strings.HasPrefix(id, "SPDXRef-") {
		return id
	}
	return "SPDXRef-" + id
}

// forestContainment: parent of every contained node when containment is a forest (each node has
// at most one containing node, no node contains itself, no cycles); ok=false otherwise.
func forestContainment(nl *sbom.NodeList) (parent map[string]string, ok bool) {
	parent = map[string]string{}
	for t := range containsTriples(nl) {
		if t.From == t.To {
			return nil, false
		}
		if p, dup := parent[t.To]; dup && p != t.From {
			return nil, false
		}
		parent[t.To] = t.From
	}
	for id := range parent {
		seen := map[string]bool{}
		for x := id; ; {
			if seen[x] {
				return nil, false
			}
			seen[x] = true
			p, has := parent[x]
			if !has {
				break
			}
			x = p
		}
	}
	return parent, true
}

// spdxRelName: the SPDX 2.3 relationship name (spec section 11.1) of each edge type, written out here so
// that the output is judged against the specification's vocabulary and not against the library's own rendering.
var spdxRelName = map[sbom.Edge_Type]string{
	sbom.Edge_amends: "AMENDS",
	sbom.Edge_ancestor: "ANCESTOR_OF",
	sbom.Edge_buildDependency: "BUILD_DEPENDENCY_OF",
	sbom.Edge_buildTool: "BUILD_TOOL_OF",
	sbom.Edge_contains: "CONTAINS",
	sbom.Edge_contained_by: "CONTAINED_BY",
	sbom.Edge_copy: "COPY_OF",
	sbom.Edge_dataFile: "DATA_FILE_OF",
	sbom.Edge_dependencyManifest: "DEPENDENCY_MANIFEST_OF",
	sbom.Edge_dependsOn: "DEPENDS_ON",
	sbom.Edge_dependencyOf: "DEPENDENCY_OF",
	sbom.Edge_descendant: "DESCENDANT_OF",
	sbom.Edge_describes: "DESCRIBES",
	sbom.Edge_describedBy: "DESCRIBED_BY",
	sbom.Edge_devDependency: "DEV_DEPENDENCY_OF",
	sbom.Edge_devTool: "DEV_TOOL_OF",
	sbom.Edge_distributionArtifact: "DISTRIBUTION_ARTIFACT",
	sbom.Edge_documentation: "DOCUMENTATION_OF",
	sbom.Edge_dynamicLink: "DYNAMIC_LINK",
	sbom.Edge_example: "EXAMPLE_OF",
	sbom.Edge_expandedFromArchive: "EXPANDED_FROM_ARCHIVE",
	sbom.Edge_fileAdded: "FILE_ADDED",
	sbom.Edge_fileDeleted: "FILE_DELETED",
	sbom.Edge_fileModified: "FILE_MODIFIED",
	sbom.Edge_generates: "GENERATES",
	sbom.Edge_generatedFrom: "GENERATED_FROM",
	sbom.Edge_metafile: "METAFILE_OF",
	sbom.Edge_optionalComponent: "OPTIONAL_COMPONENT_OF",
	sbom.Edge_optionalDependency: "OPTIONAL_DEPENDENCY_OF",
	sbom.Edge_other: "OTHER",
	sbom.Edge_packages: "PACKAGE_OF",
	sbom.Edge_patch: "PATCH_APPLIED",
	sbom.Edge_prerequisite: "HAS_PREREQUISITE",
	sbom.Edge_prerequisiteFor: "PREREQUISITE_FOR",
	sbom.Edge_providedDependency: "PROVIDED_DEPENDENCY_OF",
	sbom.Edge_requirementFor: "REQUIREMENT_DESCRIPTION_FOR",
	sbom.Edge_runtimeDependency: "RUNTIME_DEPENDENCY_OF",
	sbom.Edge_specificationFor: "SPECIFICATION_FOR",
	sbom.Edge_staticLink: "STATIC_LINK",
	sbom.Edge_test: "TEST_OF",
	sbom.Edge_testCase: "TEST_CASE_OF",
	sbom.Edge_testDependency: "TEST_DEPENDENCY_OF",
	sbom.Edge_testTool: "TEST_TOOL_OF",
	sbom.Edge_variant: "VARIANT_OF",
}

// checkSPDXOutput: the C03 statement on SPDX writer output decoded with encoding/json only.
func checkSPDXOutput(d *sbom.Document, out []byte) string {
	var j struct {
		SPDXID   string `json:"SPDXID"`
		Packages []struct {
			SPDXID string `json:"SPDXID"`
		} `json:"packages"`
		Files []struct {
			SPDXID string `json:"SPDXID"`
		} `json:"files"`
		Relationships []struct {
			A string `json:"spdxElementId"`
			B string `json:"relatedSpdxElement"`
			T string `json:"relationshipType"`
		} `json:"relationships"`
	}
	if err := json.Unmarshal(out, &j); err != nil {
		return "output is not JSON: " + err.Error()
	}
	emitted := map[string]int{}
	for _, p := range j.Packages {
		emitted[p.SPDXID]++
	}
	for _, f := range j.Files {
		emitted[f.SPDXID]++
	}
	want := map[string]int{}
	for _, n := range d.NodeList.Nodes {
		want[spdxRef(n.Id)]++
	}
	for id, k := range want {
		if emitted[id] != k {
			return fmt.Sprintf("element %q: document has %d node(s), output has %d", id, k, emitted[id])
		}
	}
	for id := range emitted {
		if want[id] == 0 {
			return fmt.Sprintf("output has element %q that is no node of the document", id)
		}
	}
	rels := map[string]bool{}
	for _, r := range j.Relationships {
		rels[r.A+"|"+r.T+"|"+r.B] = true
		for _, x := range []string{r.A, r.B} {
			if x == "NONE" || x == "NOASSERTION" || x == j.SPDXID {
				continue
			}
			if emitted[x] == 0 {
				return fmt.Sprintf("relationship %s %s %s refers to %q, which was not emitted", r.A, r.T, r.B, x)
			}
		}
	}
	for _, e := range d.NodeList.Edges {
		for _, to := range e.To {
			k := spdxRef(e.From) + "|" + spdxRelName[e.Type] + "|" + spdxRef(to)
			if !rels[k] {
				return "edge not in the output: " + k
			}
		}
	}
	for _, r := range d.NodeList.RootElements {
		if !rels[j.SPDXID+"|DESCRIBES|"+spdxRef(r)] {
			return "root element not described by the output document: " + r
		}
	}
	return ""
}

type jcomp struct {
	Ref        string  `json:"bom-ref"`
	Name       string  `json:"name"`
	Components []jcomp `json:"components"`
}

// checkCDXOutput: the C03 statement on CycloneDX writer output decoded with encoding/json only.
func checkCDXOutput(d *sbom.Document, out []byte) string {
	var j struct {
		Metadata struct {
			Component *jcomp `json:"component"`
		} `json:"metadata"`
		Components   []jcomp `json:"components"`
		Dependencies []struct {
			Ref       string   `json:"ref"`
			DependsOn []string `json:"dependsOn"`
		} `json:"dependencies"`
	}
	if err := json.Unmarshal(out, &j); err != nil {
		return "output is not JSON: " + err.Error()
	}
	nl := d.NodeList
	if len(nl.Nodes) == 0 {
		return ""
	}
	emitted := map[string]int{}
	parentOf := map[string]string{}
	count := 0
	var walk func(c *jcomp, parent string)
	walk = func(c *jcomp, parent string) {
		count++
		emitted[c.Ref]++
		parentOf[c.Ref] = parent
		for i := range c.Components {
			walk(&c.Components[i], c.Ref)
		}
	}
	root := nl.RootElements[0]
	if j.Metadata.Component == nil {
		return "no metadata.component"
	}
	walk(j.Metadata.Component, "")
	for i := range j.Components {
		walk(&j.Components[i], root)
	}
	ids := map[string]int{}
	for _, n := range nl.Nodes {
		ids[n.Id]++
	}
	auto := false
	for id := range ids {
		if strings.HasPrefix(id, "protobom-") && strings.Contains(strings.Split(id, "--")[0], "-auto") {
			auto = true // written without bom-ref by design: counted, not matched by reference
		}
	}
	if count != len(ids) {
		return fmt.Sprintf("document has %d distinct nodes, output has %d components", len(ids), count)
	}
	if !auto {
		for id := range ids {
			if emitted[id] != 1 {
				return fmt.Sprintf("node %q appears %d times in the output", id, emitted[id])
			}
		}
		if parent, ok := forestContainment(nl); ok {
			for child, p := range parent {
				if child == root {
					continue
				}
				if parentOf[child] != p {
					return fmt.Sprintf("node %q is contained in %q but nested under %q in the output", child, p, parentOf[child])
				}
			}
		}
		deps := map[string]bool{}
		for _, dp := range j.Dependencies {
			if emitted[dp.Ref] == 0 {
				return fmt.Sprintf("dependency entry for %q, which was not emitted", dp.Ref)
			}
			for _, t := range dp.DependsOn {
				if emitted[t] == 0 {
					return fmt.Sprintf("dependency of %q on %q, which was not emitted", dp.Ref, t)
				}
				deps[dp.Ref+"|"+t] = true
			}
		}
		for _, e := range nl.Edges {
			if e.Type != sbom.Edge_dependsOn {
				continue
			}
			for _, t := range e.To {
				if !deps[e.From+"|"+t] {
					return fmt.Sprintf("dependency %q -> %q not in the output", e.From, t)
				}
			}
		}
	}
	return ""
}

var bothHashes = map[sbom.HashAlgorithm]bool{sbom.HashAlgorithm_MD5: true, sbom.HashAlgorithm_SHA1: true, sbom.HashAlgorithm_SHA256: true, sbom.HashAlgorithm_SHA384: true,
	sbom.HashAlgorithm_SHA512: true, sbom.HashAlgorithm_SHA3_256: true, sbom.HashAlgorithm_SHA3_384: true, sbom.HashAlgorithm_SHA3_512: true,
	sbom.HashAlgorithm_BLAKE2B_256: true, sbom.HashAlgorithm_BLAKE2B_384: true, sbom.HashAlgorithm_BLAKE2B_512: true, sbom.HashAlgorithm_BLAKE3: true}

// identityDiff: identifier, name, version, hashes and package identifiers both formats support.
func identityDiff(a, b *sbom.Node, isFileInSPDX bool) string {
	if b == nil {
		return "node missing after reading back"
	}
	if a.Name != b.Name {
		return fmt.Sprintf("name: wrote %q read %q", a.Name, b.Name)
	}
	if !isFileInSPDX && a.Version != b.Version {
		return fmt.Sprintf("version: wrote %q read %q", a.Version, b.Version)
	}
	for algo, v := range a.Hashes {
		if bothHashes[sbom.HashAlgorithm(algo)] && b.Hashes[algo] != v {
			return fmt.Sprintf("hash %v: wrote %q read %q", sbom.HashAlgorithm(algo), v, b.Hashes[algo])
		}
	}
	if !isFileInSPDX {
		for _, k := range []sbom.SoftwareIdentifierType{sbom.SoftwareIdentifierType_PURL, sbom.SoftwareIdentifierType_CPE23} {
			if v, ok := a.Identifiers[int32(k)]; ok && v != "" && b.Identifiers[int32(k)] != v {
				return fmt.Sprintf("identifier %v: wrote %q read %q", k, v, b.Identifiers[int32(k)])
			}
		}
	}
	return ""
}

var readable = map[formats.Format]bool{formats.SPDX23JSON: true, formats.CDX13JSON: true, formats.CDX14JSON: true, formats.CDX15JSON: true}

func isCDX(f formats.Format) bool { return strings.Contains(string(f), "cyclonedx") }

// wellFormedForTranslation: identifiers the formats can carry (non-empty, unique, no SPDX-special
// spellings), closed edges and roots.
func translatable(d *sbom.Document) bool {
	if d == nil || d.NodeList == nil || d.Metadata == nil || props.WellFormed(d.NodeList) != nil {
		return false
	}
	for _, n := range d.NodeList.Nodes {
		if n.Id == "" || n.Id == "DOCUMENT" || n.Id == "SPDXRef-DOCUMENT" || n.Id == "NONE" || n.Id == "NOASSERTION" || strings.ContainsAny(n.Id, ":") && false {
			return false
		}
	}
	return true
}

func runC03(seed int64, n int, dir string, tier string) *Report {
	g := gen.New(seed)
	rep := NewReport("C03", seed)
	rep.Rule = "n generated well-formed documents (several purposes, dependency edges between arbitrary nodes, DAG and cyclic shapes, one or more roots) and the documents obtained by parsing the repository's real SBOMs and single-fault mutants of them (each translated to the other format), written in every registered output format; successful output decoded with encoding/json only and checked for every node (exactly once), every expressible relationship and no dangling reference, then read back and compared on identity attributes; model seams on every document; non-trivial = document with at least 3 nodes and 2 edges; distinct by hash"
	cf, xs, xc := newXlateCases()
	type src struct {
		name string
		d    *sbom.Document
	}
	var docs []src
	for i := 0; i < n; i++ {
		var d *sbom.Document
		switch i % 3 {
		case 0:
			d = randomDocument(g)
		case 1:
			// one root, arbitrary edges among the nodes
			d = g.CDXTreeDocument(7)
			ids := props.Keys(props.NodeSet(d.NodeList))
			for k := g.Int(5); k > 0; k-- {
				d.NodeList.Edges = append(d.NodeList.Edges, &sbom.Edge{Type: gen.Pick(g, []sbom.Edge_Type{sbom.Edge_contains, sbom.Edge_dependsOn, sbom.Edge_dependsOn, sbom.Edge_other, sbom.Edge_devTool}), From: gen.Pick(g, ids), To: []string{gen.Pick(g, ids), gen.Pick(g, ids)}})
			}
			for _, nd := range d.NodeList.Nodes {
				if g.Chance(0.3) {
					nd.PrimaryPurpose = g.Purposes(3)
				}
			}
		default:
			d = g.SPDXClassDocument()
			for _, nd := range d.NodeList.Nodes {
				if g.Chance(0.3) {
					nd.PrimaryPurpose = g.Purposes(3)
				}
			}
		}
		if g.Chance(0.3) {
			g.RenameSome(d.NodeList, append(append([]string{}, gen.KeptRefLike...), gen.KeptProtobomRefLike...), 1+g.Int(3))
		}
		docs = append(docs, src{fmt.Sprintf("generated-%d", i), d})
		if i%4 == 0 {
			// one edge message per relationship, sources interleaved (what parsing SPDX or a union leaves): a
			// root containing every node, plus 5..10 single-target dependency edges in random order
			dd := sbom.NewDocument()
			dd.Metadata.Id = "urn:uuid:interleaved"
			ids := []string{"app", "liba", "libb", "libc", "libd"}
			for _, id := range ids {
				dd.NodeList.Nodes = append(dd.NodeList.Nodes, &sbom.Node{Id: id, Name: id, Version: "1", Type: sbom.Node_PACKAGE})
			}
			dd.NodeList.RootElements = []string{"app"}
			dd.NodeList.Edges = append(dd.NodeList.Edges, &sbom.Edge{Type: sbom.Edge_contains, From: "app", To: ids[1:]})
			for k := 5 + g.Int(6); k > 0; k-- {
				from, to := gen.Pick(g, ids), gen.Pick(g, ids)
				if from != to {
					dd.NodeList.Edges = append(dd.NodeList.Edges, &sbom.Edge{Type: sbom.Edge_dependsOn, From: from, To: []string{to}})
				}
			}
			docs = append(docs, src{fmt.Sprintf("generated-interleaved-%d", i), dd})
		}
	}
	seeds := seedDocuments(g, tier)
	names := make([]string, 0, len(seeds))
	for k := range seeds {
		names = append(names, k)
	}
	sortStrings(names)
	for _, name := range names {
		if len(seeds[name]) > 40000 {
			continue
		}
		if d, _ := parseDoc(seeds[name], ""); d != nil {
			docs = append(docs, src{"parsed:" + name, d})
		}
		k := 0
		jsonfault.Each(seeds[name], n/6+1, func(m jsonfault.Mutant) bool {
			k++
			if k%9 == 0 {
				if d, _ := parseDoc(m.Data, ""); d != nil {
					docs = append(docs, src{"parsed-mutant:" + name + m.Path + ":" + m.Fault, d})
				}
			}
			return true
		})
	}
	seamBudget := 4 * n
	for _, s := range docs {
		d := s.d
		if !translatable(d) {
			rep.Count("skipped:not-well-formed")
			continue
		}
		kind := strings.SplitN(s.name, ":", 2)[0]
		kind = strings.SplitN(kind, "-", 2)[0]
		if len(cf.Items) < seamBudget && !coqfmt.Lossy(d) {
			spdxSeams(rep, xs, g, d, "c03-"+kind)
			cdxSeams(rep, xc, d, "c03-"+kind, "1.5")
		}
		forest := false
		if _, ok := forestContainment(d.NodeList); ok {
			forest = true
		}
		for _, f := range allWriterFormats {
			in := map[string]any{"source": s.name, "format": string(f), "document": docJSON(d)}
			var buf bytes.Buffer
			var err error
			fin, pv := callWithTimeout(10e9, func() { err = writer.New(writer.WithFormat(f)).WriteStream(d, nopCloser{&buf}) })
			if !fin || pv != nil {
				rep.Fail(Failure{What: "a writer panicked or hung on a well-formed document", Detail: fmt.Sprint(pv), Input: in})
				continue
			}
			if err != nil {
				rep.Count(shortFmt(f) + ":write-error")
				continue
			}
			rep.OracleEvals++
			rep.Count(fmt.Sprintf("%s:written forest=%v", shortFmt(f), forest))
			rep.NoteInput(s.name+string(f), len(d.NodeList.Nodes) >= 3 && len(d.NodeList.Edges) >= 2, map[string]any{"source": s.name, "format": string(f)})
			var msg string
			if isCDX(f) {
				msg = checkCDXOutput(d, buf.Bytes())
			} else {
				msg = checkSPDXOutput(d, buf.Bytes())
			}
			if msg != "" {
				rep.Fail(Failure{What: "translation dropped or invented a node, relationship or reference", Detail: msg, Input: in})
				continue
			}
			if !readable[f] {
				rep.Count(shortFmt(f) + ":no-registered-reader")
				continue
			}
			d2, rerr := reader.New().ParseStream(bytes.NewReader(buf.Bytes()))
			if rerr != nil {
				rep.Fail(Failure{What: "the reader rejected the writer's output", Detail: rerr.Error(), Input: in})
				continue
			}
			back := map[string]*sbom.Node{}
			for _, nd := range d2.NodeList.Nodes {
				back[nd.Id] = nd
			}
			for _, nd := range d.NodeList.Nodes {
				id := nd.Id
				if isCDX(f) && strings.HasPrefix(id, "protobom-") && strings.Contains(strings.SplitN(id, "--", 2)[0], "-auto") {
					continue // the reader's own generated identifiers are written without bom-ref and regenerated on reading
				}
				if !isCDX(f) {
					id = strings.TrimPrefix(id, "SPDXRef-")
				}
				want := nd
				if rb := back[id]; rb != nil && isCDX(f) {
					cp := proto.Clone(nd).(*sbom.Node)
					if f == formats.CDX13JSON && nd.Version == "" && rb.Version == "0.0.0" {
						// CycloneDX before 1.4 requires a version: the encoder writes 0.0.0 for none
						cp.Version = "0.0.0"
					}
					if nd.Name == "" && len(d.NodeList.RootElements) == 1 && nd.Id == d.NodeList.RootElements[0] && rb.Name == d.Metadata.Name {
						// a component name is required in CycloneDX: a root node without one is written under
						// the document's name (the only case in which the document name is used)
						cp.Name = d.Metadata.Name
					}
					want = cp
				}
				diff := identityDiff(want, back[id], !isCDX(f) && nd.Type == sbom.Node_FILE)
				if diff != "" {
					rep.Fail(Failure{What: "reading the output back changed an identity attribute", Detail: "node " + nd.Id + ": " + diff, Input: in})
					break
				}
			}
		}
	}
	rep.CasesFiles = cf.Write(filepath.Join(dir, "cases_C03"))
	rep.ShardSize = shardSize
	return rep
}
