package main

import (
	"bytes"
	"encoding/json"
	"fmt"
	"os"
	"os/exec"
	"path/filepath"
	"reflect"
	"sort"
	"strings"

	"github.com/protobom/protobom/pkg/sbom"
	"github.com/protobom/protobom/pkg/writer"

	"verifharness/gen"
	"verifharness/heapview"
	"verifharness/props"
)

func init() { runners["C11"] = runC11; runners["C12"] = runC12 }

// an operation under test: operands (kept), result values (nil when the result is a scalar)
type heapOp struct {
	name     string
	operands []any
	run      func() []any // returns the value-typed results (pointers / slices), if any
	fresh    bool         // the results must share no mutable state with the operands (C12)
}

func heapOpsFor(g *gen.G, richness float64) []heapOp {
	sh := gen.Shape{MaxNodes: 4, MaxEdges: 4, WellFormed: g.Chance(0.7), Richness: richness}
	a, b := g.NodeList(sh), g.NodeList(sh)
	if len(a.Nodes) > 0 && g.Chance(0.7) {
		b = perturbed(g, a)
	}
	// edge lists with repeated (source, type) keys and spare capacity, as editing leaves behind
	for _, l := range []*sbom.NodeList{a, b} {
		if len(l.Edges) > 0 && len(l.Nodes) > 0 && g.Chance(0.5) {
			e := l.Edges[g.Int(len(l.Edges))]
			l.Edges = append(l.Edges, &sbom.Edge{Type: e.Type, From: e.From, To: []string{l.Nodes[g.Int(len(l.Nodes))].Id, "zz"}})
		}
		if g.Chance(0.5) {
			l.RootElements = append(make([]string, 0, len(l.RootElements)+3), l.RootElements...)
			for _, e := range l.Edges {
				e.To = append(make([]string, 0, len(e.To)+3), e.To...)
			}
		}
	}
	if g.Chance(0.5) {
		resetSomeLists(g, reflect.ValueOf(a), 0.25, map[uintptr]bool{})
		resetSomeLists(g, reflect.ValueOf(b), 0.25, map[uintptr]bool{})
	}
	pickNode := func(nl *sbom.NodeList) *sbom.Node {
		if len(nl.Nodes) == 0 {
			return g.Node("x", richness)
		}
		return nl.Nodes[g.Int(len(nl.Nodes))]
	}
	na, nb := pickNode(a), pickNode(b)
	id := na.Id
	var ops []heapOp
	add := func(name string, fresh bool, operands []any, run func() []any) {
		ops = append(ops, heapOp{name: name, operands: operands, run: run, fresh: fresh})
	}
	add("Node.Copy", true, []any{na}, func() []any { return []any{na.Copy()} })
	add("Node.Equal", false, []any{na, nb}, func() []any { na.Equal(nb); return nil })
	add("Node.Checksum", false, []any{na}, func() []any { _ = na.Checksum(); return nil })
	add("Node.Diff", false, []any{na, nb}, func() []any { d := na.Diff(nb); return []any{d} })
	add("Node.Purl", false, []any{na}, func() []any { _ = na.Purl(); return nil })
	add("Node.HashesMatch", false, []any{na, nb}, func() []any { na.HashesMatch(nb.Hashes); return nil })
	if len(a.Edges) > 0 {
		e := a.Edges[g.Int(len(a.Edges))]
		var e2 *sbom.Edge
		if len(b.Edges) > 0 {
			e2 = b.Edges[g.Int(len(b.Edges))]
		} else {
			e2 = e
		}
		add("Edge.Copy", true, []any{e}, func() []any { return []any{e.Copy()} })
		add("Edge.Equal", false, []any{e, e2}, func() []any { e.Equal(e2); return nil })
		add("Edge.PointsTo", false, []any{e}, func() []any { e.PointsTo(id); return nil })
	}
	if len(na.Suppliers) > 0 {
		p := na.Suppliers[0]
		add("Person.Copy", true, []any{p}, func() []any { return []any{p.Copy()} })
	} else {
		p := g.Person(2)
		add("Person.Copy", true, []any{p}, func() []any { return []any{p.Copy()} })
	}
	if len(na.ExternalReferences) > 0 {
		x := na.ExternalReferences[0]
		add("ExternalReference.Copy", true, []any{x}, func() []any { return []any{x.Copy()} })
	} else {
		x := g.ExtRef()
		add("ExternalReference.Copy", true, []any{x}, func() []any { return []any{x.Copy()} })
	}
	add("NodeList.Copy", true, []any{a}, func() []any { return []any{a.Copy()} })
	add("NodeList.Equal", false, []any{a, b}, func() []any { a.Equal(b); return nil })
	add("NodeList.Union", true, []any{a, b}, func() []any { return []any{a.Union(b)} })
	add("NodeList.Intersect", true, []any{a, b}, func() []any { return []any{a.Intersect(b)} })
	add("NodeList.GetNodeByID", false, []any{a}, func() []any { a.GetNodeByID(id); return nil })
	add("NodeList.GetNodesByName", false, []any{a}, func() []any { a.GetNodesByName(na.Name); return nil })
	add("NodeList.GetNodesByIdentifier", false, []any{a}, func() []any { a.GetNodesByIdentifier("purl", "pkg:npm/foo@1.0"); return nil })
	add("NodeList.GetMatchingNode", false, []any{a, nb}, func() []any { _, _ = a.GetMatchingNode(nb); return nil })
	add("NodeList.GetRootNodes", false, []any{a}, func() []any { a.GetRootNodes(); return nil })
	add("NodeList.GetEdgeByType", false, []any{a}, func() []any { a.GetEdgeByType(id, sbom.Edge_contains); return nil })
	add("NodeList.GetNodesByPurlType", false, []any{a}, func() []any { return []any{a.GetNodesByPurlType("npm")} })
	add("NodeList.NodeGraph", false, []any{a}, func() []any { return []any{a.NodeGraph(id)} })
	add("NodeList.NodeSiblings", false, []any{a}, func() []any { return []any{a.NodeSiblings(id)} })
	add("NodeList.NodeDescendants", false, []any{a}, func() []any { return []any{a.NodeDescendants(id, 1+g.Int(3))} })
	d := sbom.NewDocument()
	d.Metadata.Id, d.Metadata.Name = "urn:uuid:1", "doc"
	d.NodeList = a
	if len(a.RootElements) != 1 && len(a.Nodes) > 0 {
		d = sbom.NewDocument()
		d.Metadata.Id = "x"
		d.NodeList = g.CDXTreeDocument(5).NodeList
	}
	if g.Chance(0.6) && len(d.NodeList.Nodes) >= 2 {
		// edges as editing leaves them behind: repeated targets, repeated (source, type) keys, spare capacity
		d.NodeList = cloneListExact(d.NodeList)
		ids := props.Keys(props.NodeSet(d.NodeList))
		for k := 1 + g.Int(3); k > 0; k-- {
			x, y, z := gen.Pick(g, ids), gen.Pick(g, ids), gen.Pick(g, ids)
			to := gen.Pick(g, [][]string{{x, x, y}, {x, y, x, z}, {x, x}, {x, y, y, z, x}})
			to = append(make([]string, 0, len(to)+2), to...)
			d.NodeList.Edges = append(d.NodeList.Edges, &sbom.Edge{Type: gen.Pick(g, []sbom.Edge_Type{sbom.Edge_dependsOn, sbom.Edge_dependsOn, sbom.Edge_contains, sbom.Edge_other}), From: gen.Pick(g, ids), To: to})
		}
	}
	for _, f := range allWriterFormats {
		f := f
		add("serialize:"+shortFmt(f), false, []any{d}, func() []any {
			var buf bytes.Buffer
			_ = writer.New(writer.WithFormat(f)).WriteStream(d, nopCloser{&buf})
			return nil
		})
	}
	add("Document.GetRootNodes", false, []any{d}, func() []any { d.GetRootNodes(); return nil })
	return ops
}

// heapObservation: the operand graph before, the operand + result graph after.
type heapObservation struct {
	before, after       *heapview.Heap
	opsBefore, opsAfter []heapview.Val
	results             []heapview.Val
	spare               *heapview.Heap // the same operands and results, empty slices with spare capacity visible
	opsSpare, resSpare  []heapview.Val
}

// resetSomeLists leaves some empty list fields of the message (and of the messages nested in it) empty but
// owning a backing array, as `x = x[:0]` or a pre-sized make does.
func resetSomeLists(g *gen.G, v reflect.Value, p float64, seen map[uintptr]bool) {
	switch v.Kind() {
	case reflect.Ptr:
		if v.IsNil() || seen[v.Pointer()] {
			return
		}
		seen[v.Pointer()] = true
		resetSomeLists(g, v.Elem(), p, seen)
	case reflect.Struct:
		for i := 0; i < v.NumField(); i++ {
			if v.Type().Field(i).IsExported() {
				resetSomeLists(g, v.Field(i), p, seen)
			}
		}
	case reflect.Slice:
		if v.Len() == 0 && v.CanSet() && g.Chance(p) {
			v.Set(reflect.MakeSlice(v.Type(), 0, 1+g.Int(4)))
			return
		}
		for i := 0; i < v.Len(); i++ {
			resetSomeLists(g, v.Index(i), p, seen)
		}
	}
}

func observe(op heapOp) (ob heapObservation, panicked any) {
	ob.before = heapview.New()
	for _, o := range op.operands {
		ob.opsBefore = append(ob.opsBefore, ob.before.Add(o))
	}
	var res []any
	func() {
		defer func() { panicked = recover() }()
		res = op.run()
	}()
	ob.after = heapview.New()
	for _, o := range op.operands {
		ob.opsAfter = append(ob.opsAfter, ob.after.Add(o))
	}
	ob.spare = heapview.New()
	ob.spare.SpareCap = true
	for _, o := range op.operands {
		ob.opsSpare = append(ob.opsSpare, ob.spare.Add(o))
	}
	for _, r := range res {
		if r == nil || (reflect.ValueOf(r).Kind() == reflect.Ptr && reflect.ValueOf(r).IsNil()) {
			continue
		}
		ob.results = append(ob.results, ob.after.Add(r))
		ob.resSpare = append(ob.resSpare, ob.spare.Add(r))
	}
	return
}

// operandsUnchanged: order-sensitive, field-by-field snapshots and the same sharing among operands.
func operandsUnchanged(ob heapObservation) string {
	for i := range ob.opsBefore {
		x, y := ob.before.Snapshot(ob.opsBefore[i]), ob.after.Snapshot(ob.opsAfter[i])
		if x != y {
			return fmt.Sprintf("operand %d changed:\n before %s\n after  %s", i, clip(x), clip(y))
		}
	}
	return ""
}

func clip(s string) string {
	if len(s) > 1500 {
		return s[:1500] + "..."
	}
	return s
}

func sharedLocations(ob heapObservation) []string {
	if len(ob.results) == 0 {
		return nil
	}
	// on the view that also sees empty slices with spare capacity
	rr := ob.spare.Reach(ob.resSpare...)
	ro := ob.spare.Reach(ob.opsSpare...)
	var out []string
	for l := range rr {
		if ro[l] {
			c := ob.spare.Cells[l]
			switch c.K {
			case 'M':
				out = append(out, "message "+c.Kind)
			case 'A':
				out = append(out, fmt.Sprintf("array of %d", len(c.Elems)))
			case 'P':
				out = append(out, fmt.Sprintf("map of %d", len(c.KVs)))
			}
		}
	}
	sort.Strings(out)
	return out
}

func runC11(seed int64, n int, dir string, tier string) *Report {
	g := gen.New(seed)
	rep := NewReport("C11", seed)
	rep.Rule = "n rounds; per round one pair of node lists (the second often a perturbed copy of the first), nodes, edges, persons, external references taken from them and a document; every read-only or value-returning public operation (compare, checksum, diff, copy, look-ups, traversals, union, intersect, 7 serializers) run once with the operands' object graph (message structs, slice backing arrays, maps, by pointer identity) recorded before and after; non-trivial = operand graph with at least 12 locations; distinct by hash"
	cf := &CasesFile{Imports: "Model.Base Model.Heap Corr.CheckHeap", Type: "case_heap", Eval: "mismatches"}
	for i := 0; i < n; i++ {
		for _, op := range heapOpsFor(g, 0.2+0.6*g.R.Float64()) {
			ob, pv := observe(op)
			rep.OracleEvals++
			rep.Count(op.name)
			in := map[string]any{"operation": op.name, "operands": ob.before.Snapshot(ob.opsBefore[0])}
			if pv != nil {
				rep.Count("panicked:" + op.name) // totality is C07/C15's subject; the operands are still compared
			}
			if msg := operandsUnchanged(ob); msg != "" {
				rep.Fail(Failure{What: "an operation that should only read changed its operand", Detail: op.name + ": " + msg, Input: in})
			}
			c := fmt.Sprintf("(HUnchanged %s %s %s %s)", ob.before.Coq(), coqVals(ob.opsBefore), ob.after.Coq(), coqVals(ob.opsAfter))
			if len(cf.Items) < 12*n {
				cf.Add(c)
				rep.NoteCase(op.name+c[:min(len(c), 4000)], len(ob.before.Cells) >= 12, in)
			} else {
				rep.NoteInput(op.name+c[:min(len(c), 4000)], len(ob.before.Cells) >= 12, in)
			}
		}
	}
	// ---- race-detector build: the same operations, concurrently, on one shared document ----------
	exe, _ := os.Executable()
	stress := filepath.Join(filepath.Dir(exe), "racestress")
	if _, err := os.Stat(stress); err != nil {
		rep.Notes = append(rep.Notes, "racestress binary not built (go build -race unavailable?): concurrency stress skipped")
	} else {
		rounds, iters := 3, 60
		if tier == "thorough" {
			rounds, iters = 20, 300
		}
		for r := 0; r < rounds; r++ {
			cmd := exec.Command(stress, "-mode", "shared", "-seed", fmt.Sprint(seed+int64(r)), "-workers", "16", "-iters", fmt.Sprint(iters))
			cmd.Env = append(os.Environ(), "GORACE=halt_on_error=0")
			var so, se bytes.Buffer
			cmd.Stdout, cmd.Stderr = &so, &se
			err := cmd.Run()
			rep.OracleEvals++
			var res struct {
				Problems []struct{ What, Detail string }
				Calls    map[string]int
			}
			_ = json.Unmarshal(so.Bytes(), &res)
			for k, v := range res.Calls {
				rep.Distribution["concurrent:"+k] += v
			}
			if strings.Contains(se.String(), "WARNING: DATA RACE") {
				rep.Fail(Failure{What: "the race detector reported a data race between read-only operations on a shared document", Detail: firstRace(se.String()), Input: map[string]any{"stress_seed": seed + int64(r), "workers": 16, "iterations": iters}})
			} else if strings.Contains(se.String(), "fatal error") || (err != nil && len(res.Calls) == 0) {
				rep.Fail(Failure{What: "the concurrent run on a shared document aborted", Detail: tail(se.String(), 1500), Input: map[string]any{"stress_seed": seed + int64(r)}})
			}
			for _, p := range res.Problems {
				rep.Fail(Failure{What: p.What, Detail: p.Detail, Input: map[string]any{"stress_seed": seed + int64(r)}})
			}
		}
	}
	rep.CasesFiles = cf.Write(filepath.Join(dir, "cases_C11"))
	rep.ShardSize = shardSize
	return rep
}

func coqVals(vs []heapview.Val) string {
	s := "["
	for i, v := range vs {
		if i > 0 {
			s += "; "
		}
		s += heapview.CoqVal(v)
	}
	return s + "]"
}

func runC12(seed int64, n int, dir string, tier string) *Report {
	g := gen.New(seed)
	rep := NewReport("C12", seed)
	rep.Rule = "n rounds; copies of nodes, edges, persons, external references and node lists, unions and intersections: the object graph (by pointer identity) reachable from the result must be disjoint from the operands', the copy must compare equal to its source; histories of two calls sharing an operand: the first result's snapshot must not change; every mutable location of a result is then overwritten and the operands compared again; non-trivial = result graph with at least 8 locations; distinct by hash"
	cf := &CasesFile{Imports: "Model.Base Model.Heap Corr.CheckHeap", Type: "case_heap", Eval: "mismatches"}
	for i := 0; i < n; i++ {
		for _, op := range heapOpsFor(g, 0.3+0.6*g.R.Float64()) {
			if !op.fresh {
				continue
			}
			ob, pv := observe(op)
			rep.OracleEvals++
			rep.Count(op.name)
			in := map[string]any{"operation": op.name, "operands": clip(ob.before.Snapshot(ob.opsBefore[0]))}
			if pv != nil || len(ob.results) == 0 {
				rep.Count("no-result:" + op.name)
				continue
			}
			if sh := sharedLocations(ob); len(sh) > 0 {
				rep.Fail(Failure{What: "a copy or combined result shares mutable state with an operand", Detail: fmt.Sprintf("%s: shared: %v", op.name, sh), Input: in})
			}
			c := fmt.Sprintf("(HSeparate %s %s %s)", ob.spare.Coq(), coqVals(ob.opsSpare), coqVals(ob.resSpare))
			if strings.HasSuffix(op.name, ".Copy") {
				if len(cf.Items) < 6*n {
					cf.Add(c) // separation, on the view that sees spare capacity; then the copy itself against the model
					rep.NoteCase(op.name+"/separate"+c[:min(len(c), 4000)], false, in)
				}
				// against the model's deep copy
				c = fmt.Sprintf("(HCopy %s %s %s %s %s)", ob.before.Coq(), heapview.CoqVal(ob.opsBefore[0]), ob.after.Coq(), heapview.CoqVal(ob.opsAfter[0]), heapview.CoqVal(ob.results[0]))
			}
			if len(cf.Items) < 6*n {
				cf.Add(c)
				rep.NoteCase(op.name+c[:min(len(c), 4000)], len(ob.after.Reach(ob.results...)) >= 8, in)
			} else {
				rep.NoteInput(op.name+c[:min(len(c), 4000)], len(ob.after.Reach(ob.results...)) >= 8, in)
			}
		}
		// equality of copies
		nl := g.NodeList(gen.Shape{MaxNodes: 3, MaxEdges: 3, WellFormed: true, Richness: 0.8})
		for _, nd := range nl.Nodes {
			rep.OracleEvals++
			if !nd.Equal(nd.Copy()) {
				rep.Fail(Failure{What: "a copy of a node does not compare equal to its source", Input: map[string]any{"node": nd.Id}})
			}
		}
		for _, e := range nl.Edges {
			if !e.Equal(e.Copy()) {
				rep.Fail(Failure{What: "a copy of an edge does not compare equal to its source", Input: map[string]any{"edge": e.From}})
			}
		}
		if !nl.Equal(nl.Copy()) {
			rep.Fail(Failure{What: "a copy of a node list does not compare equal to its source", Input: map[string]any{"nodes": len(nl.Nodes)}})
		}
		// histories: two calls sharing an operand; then scramble the later result
		sh := gen.Shape{MaxNodes: 4, MaxEdges: 4, WellFormed: true, Richness: 0.6}
		a, b, c := g.NodeList(sh), g.NodeList(sh), g.NodeList(sh)
		if g.Chance(0.6) {
			b = perturbed(g, a)
		}
		// spare capacity in the receiver's slices, as left behind by earlier appends
		a.RootElements = append(make([]string, 0, len(a.RootElements)+4), a.RootElements...)
		for _, e := range a.Edges {
			e.To = append(make([]string, 0, len(e.To)+4), e.To...)
		}
		for _, kind := range []string{"Union", "Intersect", "Copy"} {
			call := func(x, y *sbom.NodeList) *sbom.NodeList {
				switch kind {
				case "Union":
					return x.Union(y)
				case "Intersect":
					return x.Intersect(y)
				}
				return x.Copy()
			}
			rep.OracleEvals++
			r1 := call(a, b)
			h1 := heapview.New()
			s1 := h1.Snapshot(h1.Add(r1))
			hb := heapview.New()
			sa, sb, sc := hb.Snapshot(hb.Add(a)), hb.Snapshot(hb.Add(b)), hb.Snapshot(hb.Add(c))
			r2 := call(a, c)
			scramble(reflect.ValueOf(r2), map[uintptr]bool{})
			h2 := heapview.New()
			in := map[string]any{"history": kind + "(a,b); " + kind + "(a,c); overwrite every part of the second result", "a": clip(sa)}
			if s := h2.Snapshot(h2.Add(r1)); s != s1 {
				rep.Fail(Failure{What: "a result returned by an earlier call was altered by a later call on the same operand", Detail: fmt.Sprintf("%s: before %s\n after %s", kind, clip(s1), clip(s)), Input: in})
			}
			ha := heapview.New()
			if ha.Snapshot(ha.Add(a)) != sa || ha.Snapshot(ha.Add(b)) != sb || ha.Snapshot(ha.Add(c)) != sc {
				rep.Fail(Failure{What: "overwriting a result changed an operand", Detail: kind, Input: in})
			}
			rep.Count("history:" + kind)
		}
	}
	rep.CasesFiles = cf.Write(filepath.Join(dir, "cases_C12"))
	rep.ShardSize = shardSize
	return rep
}

// scramble overwrites every mutable part reachable from v: strings, numbers, slice elements (and one
// append within capacity), map entries.
func scramble(v reflect.Value, seen map[uintptr]bool) {
	switch v.Kind() {
	case reflect.Ptr:
		if v.IsNil() || seen[v.Pointer()] {
			return
		}
		seen[v.Pointer()] = true
		scramble(v.Elem(), seen)
	case reflect.Struct:
		for i := 0; i < v.NumField(); i++ {
			if v.Type().Field(i).IsExported() {
				scramble(v.Field(i), seen)
			}
		}
	case reflect.String:
		if v.CanSet() {
			v.SetString(v.String() + "~")
		}
	case reflect.Int, reflect.Int32, reflect.Int64:
		if v.CanSet() {
			v.SetInt(v.Int() + 1)
		}
	case reflect.Bool:
		if v.CanSet() {
			v.SetBool(!v.Bool())
		}
	case reflect.Slice:
		for i := 0; i < v.Len(); i++ {
			scramble(v.Index(i), seen)
		}
		if v.CanSet() && v.Cap() > v.Len() {
			// write into the spare capacity, as an append would
			w := v.Slice(0, v.Len()+1)
			el := w.Index(v.Len())
			if el.Kind() == reflect.String {
				el.SetString("~spare")
			}
		}
	case reflect.Map:
		if v.IsNil() {
			return
		}
		for _, k := range v.MapKeys() {
			if v.Type().Elem().Kind() == reflect.String {
				v.SetMapIndex(k, reflect.ValueOf(v.MapIndex(k).String()+"~"))
			}
		}
		if v.Type().Key().Kind() == reflect.Int32 && v.Type().Elem().Kind() == reflect.String {
			v.SetMapIndex(reflect.ValueOf(int32(99)), reflect.ValueOf("~new"))
		}
	}
}
