(* Node.Diff is sound, complete, counts each differing attribute once, and is reconstructive (C14). *)
From Coq Require Import Lia Permutation.
From Verif Require Import Model.Base Model.Node Model.Graph Model.Flat Model.Diff
  Proofs.ListFacts Proofs.GraphFacts.
Open Scope list_scope.

(* ---- "same content" per kind of attribute -------------------------------------------------- *)
Definition same_strs (l l' : list string) : Prop := forall s, In s l <-> In s l'.
Definition same_enums (l l' : list Z) : Prop := forall s, In s l <-> In s l'.
Definition same_keyed {A} (key : A -> string) (l l' : list A) : Prop :=
  forall s, In s (map key l) <-> In s (map key l').
Definition same_map (m m' : list (Z * string)) : Prop := forall k, zassoc k m = zassoc k m'.
Definition same_date (d d' : option ts) : Prop := option_map unix d = option_map unix d'.

Lemma cnt_of_zero {A} (a r : list A) : cnt_of a r = 0%nat <-> a = [] /\ r = [].
Proof. destruct a, r; simpl; split; try lia; try (intros [H1 H2]; discriminate); auto. Qed.
Lemma cnt_of_le {A} (a r : list A) : (cnt_of a r <= 1)%nat.
Proof. destruct a, r; simpl; lia. Qed.

Lemma filter_nil_iff {A} (f : A -> bool) l : filter f l = [] <-> forall x, In x l -> f x = false.
Proof.
  induction l as [|x r IH]; simpl; [split; [intros _ y []|reflexivity]|].
  destruct (f x) eqn:E; split.
  - discriminate.
  - intros H. specialize (H x (or_introl eq_refl)). congruence.
  - intros H y [<-|Hy]; [assumption|]. apply IH; assumption.
  - intros H. apply IH. intros y Hy. apply H. right; assumption.
Qed.

(* strings *)
Lemma diff_s_zero a b : t_cnt (diff_s a b) = 0%nat <-> a = b.
Proof.
  unfold diff_s. destruct (String.eqb_spec a b); [simpl; tauto|].
  destruct (String.eqb b ""); simpl; split; try lia; congruence.
Qed.
Lemma diff_s_le a b : (t_cnt (diff_s a b) <= 1)%nat.
Proof. unfold diff_s. destruct (String.eqb a b); [simpl; lia|]. destruct (String.eqb b ""); simpl; lia. Qed.
Lemma diff_s_apply a b : apply_s a (t_add (diff_s a b)) (t_rem (diff_s a b)) = b.
Proof.
  unfold diff_s, apply_s, t_add, t_rem. destruct (String.eqb_spec a b) as [->|Hne]; simpl; [reflexivity|].
  destruct (String.eqb_spec b "") as [->|Hb]; simpl.
  - destruct (String.eqb_spec a ""); [congruence|reflexivity].
  - destruct (String.eqb_spec b ""); [congruence|reflexivity].
Qed.

(* node kind *)
Lemma diff_type_zero a b : t_cnt (diff_type a b) = 0%nat <-> a = b.
Proof. unfold diff_type. destruct (Z.eqb_spec a b); simpl; split; try lia; congruence. Qed.
Lemma diff_type_le a b : (t_cnt (diff_type a b) <= 1)%nat.
Proof. unfold diff_type. destruct (Z.eqb a b); simpl; lia. Qed.
Lemma diff_type_apply a b : apply_type a (t_add (diff_type a b)) (t_rem (diff_type a b)) = b.
Proof.
  unfold diff_type, apply_type, t_add, t_rem. destruct (Z.eqb_spec a b) as [->|Hne]; simpl; [reflexivity|].
  destruct (Z.eqb_spec b a); [congruence|reflexivity].
Qed.

(* string lists as sets *)
Lemma diff_strs_zero l1 l2 : t_cnt (diff_strs l1 l2) = 0%nat <-> same_strs l1 l2.
Proof.
  unfold diff_strs, t_cnt; simpl. rewrite cnt_of_zero, !filter_nil_iff. unfold same_strs. split.
  - intros [Ha Hr] s. split; intros H.
    + specialize (Hr s H). apply negb_false_iff, mem_In in Hr. exact Hr.
    + specialize (Ha s H). apply negb_false_iff, mem_In in Ha. exact Ha.
  - intros H. split; intros s Hs; apply negb_false_iff, mem_In, H; exact Hs.
Qed.
Lemma diff_strs_apply l1 l2 :
  same_strs (apply_strs l1 (t_add (diff_strs l1 l2)) (t_rem (diff_strs l1 l2))) l2.
Proof.
  unfold diff_strs, apply_strs, t_add, t_rem, same_strs; simpl. intros s.
  rewrite in_app_iff, !filter_In, !negb_true_iff, !mem_false, filter_In, negb_true_iff, mem_false.
  destruct (in_dec string_dec s l1), (in_dec string_dec s l2); tauto.
Qed.

Lemma zmem_In x l : zmem x l = true <-> In x l.
Proof.
  induction l as [|y r IH]; simpl; [split; [discriminate|tauto]|].
  rewrite orb_true_iff, Z.eqb_eq, IH. split; intros [H|H]; auto.
Qed.
Lemma zmem_false x l : zmem x l = false <-> ~ In x l.
Proof. rewrite <- zmem_In. destruct (zmem x l); split; intro H; try congruence; try (intro; congruence). Qed.

Lemma diff_enums_zero l1 l2 : t_cnt (diff_enums l1 l2) = 0%nat <-> same_enums l1 l2.
Proof.
  unfold diff_enums, t_cnt; simpl. rewrite cnt_of_zero, !filter_nil_iff. unfold same_enums. split.
  - intros [Ha Hr] s. split; intros H.
    + specialize (Hr s H). apply negb_false_iff, zmem_In in Hr. exact Hr.
    + specialize (Ha s H). apply negb_false_iff, zmem_In in Ha. exact Ha.
  - intros H. split; intros s Hs; apply negb_false_iff, zmem_In, H; exact Hs.
Qed.
Lemma diff_enums_apply l1 l2 :
  same_enums (apply_enums l1 (t_add (diff_enums l1 l2)) (t_rem (diff_enums l1 l2))) l2.
Proof.
  unfold diff_enums, apply_enums, t_add, t_rem, same_enums; simpl. intros s.
  rewrite in_app_iff, !filter_In, !negb_true_iff, !zmem_false, filter_In, negb_true_iff, zmem_false.
  destruct (in_dec Z.eq_dec s l1), (in_dec Z.eq_dec s l2); tauto.
Qed.

(* persons and external references, identified by their flat strings *)
Lemma diff_keyed_zero {A} (key : A -> string) l1 l2 :
  t_cnt (diff_keyed key l1 l2) = 0%nat <-> same_keyed key l1 l2.
Proof.
  unfold diff_keyed, t_cnt. cbn [snd]. rewrite cnt_of_zero, !filter_nil_iff. unfold same_keyed. split.
  - intros [Ha Hr] s. split; intros H; apply in_map_iff in H as [x [<- Hx]].
    + specialize (Hr x Hx). apply negb_false_iff in Hr. apply mem_In in Hr. exact Hr.
    + specialize (Ha x Hx). apply negb_false_iff in Ha. apply mem_In in Ha. exact Ha.
  - intros H. split; intros x Hx; apply negb_false_iff; apply mem_In.
    + apply (proj2 (H (key x))). apply in_map. exact Hx.
    + apply (proj1 (H (key x))). apply in_map. exact Hx.
Qed.
Lemma diff_keyed_apply {A} (key : A -> string) l1 l2 :
  same_keyed key (apply_keyed key l1 (@t_add (list A) (diff_keyed key l1 l2)) (@t_rem (list A) (diff_keyed key l1 l2))) l2.
Proof.
  unfold diff_keyed, apply_keyed, t_add, t_rem, same_keyed; cbn [fst snd]. intros s. rewrite map_app, in_app_iff. split.
  - intros [H|H]; apply in_map_iff in H as [x [<- Hx]]; apply filter_In in Hx as [Hx Hc].
    + apply negb_true_iff, mem_false in Hc.
      destruct (in_dec string_dec (key x) (map key l2)) as [Hin|Hnin]; [exact Hin|]. exfalso. apply Hc.
      apply in_map. apply filter_In. split; [exact Hx|]. apply negb_true_iff, mem_false. exact Hnin.
    + apply in_map. exact Hx.
  - intros H. apply in_map_iff in H as [y [<- Hy]].
    destruct (in_dec string_dec (key y) (map key l1)) as [Hin|Hnin].
    + left. apply in_map_iff in Hin as [x [Hk Hx]]. rewrite <- Hk. apply in_map. apply filter_In. split; [exact Hx|].
      apply negb_true_iff, mem_false. intros Hr. apply in_map_iff in Hr as [z [Hkz Hz]].
      apply filter_In in Hz as [_ Hz]. apply negb_true_iff, mem_false in Hz. apply Hz.
      rewrite Hkz, Hk. apply in_map. exact Hy.
    + right. apply in_map. apply filter_In. split; [exact Hy|]. apply negb_true_iff, mem_false. exact Hnin.
Qed.

(* dates, to the second *)
Lemma diff_date_zero d1 d2 : t_cnt (diff_date d1 d2) = 0%nat <-> same_date d1 d2.
Proof.
  unfold diff_date, same_date. destruct d1 as [x|], d2 as [y|]; simpl; try (split; [lia|discriminate]); [|tauto].
  destruct (Z.eqb_spec (unix x) (unix y)); simpl; split; try lia; congruence.
Qed.
Lemma diff_date_le d1 d2 : (t_cnt (diff_date d1 d2) <= 1)%nat.
Proof. unfold diff_date. destruct d1, d2; simpl; try lia. destruct (Z.eqb _ _); simpl; lia. Qed.
Lemma diff_date_apply d1 d2 : same_date (apply_date d1 (t_add (diff_date d1 d2)) (t_rem (diff_date d1 d2))) d2.
Proof.
  unfold diff_date, same_date, apply_date. destruct d1 as [x|], d2 as [y|]; simpl; try reflexivity.
  destruct (Z.eqb_spec (unix x) (unix y)) as [E|E]; simpl; [rewrite E|]; reflexivity.
Qed.

(* maps: association lists with unique keys (what a Go map is) *)
Definition keys_unique (m : list (Z * string)) : Prop := NoDup (map fst m).

Lemma zassoc_In k v (m : list (Z * string)) : keys_unique m -> (zassoc k m = Some v <-> In (k, v) m).
Proof.
  unfold keys_unique. induction m as [|[k' v'] r IH]; simpl; intros Hnd; [split; [discriminate|tauto]|].
  inversion Hnd as [|? ? Hk Hr]; subst. destruct (Z.eqb_spec k k') as [->|Hne].
  - split; [intros H; injection H as ->; left; reflexivity|].
    intros [H|H]; [injection H as ->; reflexivity|]. exfalso. apply Hk. apply in_map_iff. exists (k', v). auto.
  - rewrite (IH Hr). split; [auto|]. intros [H|H]; [congruence|exact H].
Qed.

Lemma zassoc_None k (m : list (Z * string)) : zassoc k m = None <-> ~ In k (map fst m).
Proof.
  induction m as [|[k' v'] r IH]; simpl; [tauto|].
  destruct (Z.eqb_spec k k') as [->|Hne]; [split; [discriminate|tauto]|].
  rewrite IH. split; [intros H [E|E]; [congruence|auto]|tauto].
Qed.

Lemma zassoc_app k (m1 m2 : list (Z * string)) :
  zassoc k (m1 ++ m2) = match zassoc k m1 with Some v => Some v | None => zassoc k m2 end.
Proof.
  induction m1 as [|[k' v'] r IH]; simpl; [reflexivity|]. destruct (Z.eqb k k'); [reflexivity|exact IH].
Qed.

Lemma keys_unique_filter f m : keys_unique m -> keys_unique (filter f m).
Proof.
  unfold keys_unique. induction m as [|kv r IH]; simpl; intros H; [constructor|].
  inversion H as [|? ? Hk Hr]; subst. destruct (f kv); simpl; [constructor|]; auto.
  intros Hin. apply Hk. apply in_map_iff in Hin as [x [Hx Hin]]. apply filter_In in Hin as [Hin _].
  apply in_map_iff. exists x. auto.
Qed.

Lemma diff_map_zero m1 m2 :
  keys_unique m1 -> keys_unique m2 -> (t_cnt (diff_map m1 m2) = 0%nat <-> same_map m1 m2).
Proof.
  intros U1 U2. unfold diff_map, t_cnt; simpl. rewrite cnt_of_zero, !filter_nil_iff. unfold same_map. split.
  - intros [Ha Hr] k. destruct (zassoc k m2) as [v2|] eqn:E2.
    + apply (zassoc_In k v2 m2 U2) in E2. specialize (Ha (k, v2) E2). simpl in Ha.
      destruct (zassoc k m1) as [v1|]; [|discriminate].
      apply negb_false_iff, String.eqb_eq in Ha. congruence.
    + destruct (zassoc k m1) as [v1|] eqn:E1; [|reflexivity].
      apply (zassoc_In k v1 m1 U1) in E1. specialize (Hr (k, v1) E1). simpl in Hr. rewrite E2 in Hr. discriminate.
  - intros H. split; intros [k v] Hin; simpl.
    + apply (zassoc_In k v m2 U2) in Hin. rewrite H, Hin. apply negb_false_iff, String.eqb_refl.
    + apply (zassoc_In k v m1 U1) in Hin. rewrite <- H, Hin. reflexivity.
Qed.

Lemma diff_map_apply m1 m2 :
  keys_unique m1 -> keys_unique m2 ->
  same_map (apply_map m1 (t_add (diff_map m1 m2)) (t_rem (diff_map m1 m2))) m2.
Proof.
  intros U1 U2. unfold diff_map, apply_map, t_add, t_rem, same_map; simpl.
  set (A := filter (fun kv => match zassoc (fst kv) m1 with Some v1 => negb (String.eqb v1 (snd kv)) | None => true end) m2).
  set (R := filter (fun kv => match zassoc (fst kv) m2 with Some _ => false | None => true end) m1).
  assert (UA : keys_unique A) by (apply keys_unique_filter; exact U2).
  intros k. rewrite zassoc_app.
  destruct (zassoc k A) as [va|] eqn:EA.
  - apply (zassoc_In k va A UA) in EA. apply filter_In in EA as [EA _].
    apply (zassoc_In k va m2 U2) in EA. congruence.
  - apply zassoc_None in EA.
    set (F := filter (fun kv => negb (zmem (fst kv) (map fst R)) && negb (zmem (fst kv) (map fst A))) m1).
    assert (UF : keys_unique F) by (apply keys_unique_filter; exact U1).
    destruct (zassoc k m2) as [v2|] eqn:E2.
    + (* k is in m2 and not among the additions: m1 has the same value *)
      apply (zassoc_In k v2 m2 U2) in E2.
      destruct (zassoc k m1) as [v1|] eqn:E1.
      * assert (v1 = v2).
        { destruct (String.eqb_spec v1 v2) as [E|E]; [exact E|]. exfalso. apply EA.
          apply in_map_iff. exists (k, v2). split; [reflexivity|]. apply filter_In. split; [exact E2|]. simpl.
          rewrite E1. apply negb_true_iff. apply String.eqb_neq. exact E. }
        subst v1. apply (zassoc_In k v2 F UF). apply filter_In. split; [apply (zassoc_In k v2 m1 U1); exact E1|]. simpl.
        apply andb_true_iff. split; apply negb_true_iff, zmem_false; [|exact EA].
        intros Hr. apply in_map_iff in Hr as [[k' v'] [Hk Hr]]. simpl in Hk. subst k'.
        apply filter_In in Hr as [_ Hr]. simpl in Hr.
        apply (zassoc_In k v2 m2 U2) in E2. rewrite E2 in Hr. discriminate.
      * exfalso. apply EA. apply in_map_iff. exists (k, v2). split; [reflexivity|]. apply filter_In. split; [exact E2|].
        simpl. rewrite E1. reflexivity.
    + (* k is not in m2: whatever m1 had is removed *)
      apply zassoc_None. intros Hin. apply in_map_iff in Hin as [[k' v'] [Hk Hin]]. simpl in Hk. subst k'.
      apply filter_In in Hin as [Hin Hc]. simpl in Hc. apply andb_true_iff in Hc as [Hc _].
      apply negb_true_iff, zmem_false in Hc. apply Hc. apply in_map_iff. exists (k, v'). split; [reflexivity|].
      apply filter_In. split; [exact Hin|]. simpl. rewrite E2. reflexivity.
Qed.

(* ---- the node level --------------------------------------------------------------------------- *)
Definition maps_unique (n : node) : Prop := keys_unique (n_identifiers n) /\ keys_unique (n_hashes n).

(* the two nodes carry the same content in schema field f *)
Definition fsame (f : nfield) (a b : node) : Prop :=
  match f with
  | NF_id => n_id a = n_id b
  | NF_type => n_type a = n_type b
  | NF_name => n_name a = n_name b
  | NF_version => n_version a = n_version b
  | NF_file_name => n_file_name a = n_file_name b
  | NF_url_home => n_url_home a = n_url_home b
  | NF_url_download => n_url_download a = n_url_download b
  | NF_licenses => same_strs (n_licenses a) (n_licenses b)
  | NF_license_concluded => n_license_concluded a = n_license_concluded b
  | NF_license_comments => n_license_comments a = n_license_comments b
  | NF_copyright => n_copyright a = n_copyright b
  | NF_source_info => n_source_info a = n_source_info b
  | NF_comment => n_comment a = n_comment b
  | NF_summary => n_summary a = n_summary b
  | NF_description => n_description a = n_description b
  | NF_attribution => same_strs (n_attribution a) (n_attribution b)
  | NF_suppliers => same_keyed person_flat (n_suppliers a) (n_suppliers b)
  | NF_originators => same_keyed person_flat (n_originators a) (n_originators b)
  | NF_release_date => same_date (n_release_date a) (n_release_date b)
  | NF_build_date => same_date (n_build_date a) (n_build_date b)
  | NF_valid_until_date => same_date (n_valid_until_date a) (n_valid_until_date b)
  | NF_external_references => same_keyed extref_flat (n_external_references a) (n_external_references b)
  | NF_file_types => same_strs (n_file_types a) (n_file_types b)
  | NF_identifiers => same_map (n_identifiers a) (n_identifiers b)
  | NF_hashes => same_map (n_hashes a) (n_hashes b)
  | NF_primary_purpose => same_enums (n_primary_purpose a) (n_primary_purpose b)
  end.

Theorem field_count_zero_iff f a b :
  maps_unique a -> maps_unique b -> (field_count f a b = 0%nat <-> fsame f a b).
Proof.
  intros [Ua1 Ua2] [Ub1 Ub2]. destruct f; simpl;
    first [apply diff_s_zero | apply diff_type_zero | apply diff_strs_zero | apply diff_enums_zero
          | apply diff_keyed_zero | apply diff_date_zero | apply diff_map_zero; assumption].
Qed.

Theorem field_count_le1 f a b : (field_count f a b <= 1)%nat.
Proof.
  destruct f; simpl;
    first [apply diff_s_le | apply diff_type_le | apply diff_date_le | apply cnt_of_le].
Qed.

Lemma nfields_complete f : In f nfields.
Proof. destruct f; simpl; tauto. Qed.

Lemma sum_zero_iff (l : list nat) : fold_right plus 0%nat l = 0%nat <-> forall x, In x l -> x = 0%nat.
Proof.
  induction l as [|x r IH]; simpl; [split; [intros _ y []|reflexivity]|]. split.
  - intros H y [<-|Hy]; [lia|]. apply IH; [lia|exact Hy].
  - intros H. rewrite (H x (or_introl eq_refl)). apply IH. intros y Hy. apply H. right; exact Hy.
Qed.

Theorem diff_total_zero_iff a b :
  maps_unique a -> maps_unique b -> (diff_total a b = 0%nat <-> forall f, fsame f a b).
Proof.
  intros Ua Ub. unfold diff_total. rewrite sum_zero_iff. split.
  - intros H f. apply (field_count_zero_iff f a b Ua Ub). apply H. apply in_map_iff. exists f. split; [reflexivity|apply nfields_complete].
  - intros H x Hx. apply in_map_iff in Hx as [f [<- _]]. apply (field_count_zero_iff f a b Ua Ub). apply H.
Qed.

(* sound and complete: no difference reported exactly when every attribute has the same content *)
Theorem diff_none_iff a b :
  maps_unique a -> maps_unique b -> (node_diff a b = None <-> forall f, fsame f a b).
Proof.
  intros Ua Ub. rewrite <- (diff_total_zero_iff a b Ua Ub). unfold node_diff.
  destruct (diff_total a b); split; try reflexivity; try discriminate.
Qed.

Lemma fsame_refl f a : fsame f a a.
Proof.
  destruct f; simpl; try reflexivity; unfold same_strs, same_enums, same_keyed, same_map, same_date; intros; tauto.
Qed.

Theorem diff_self a : maps_unique a -> node_diff a a = None.
Proof. intros U. apply (diff_none_iff a a U U). intros f. apply fsame_refl. Qed.

(* the count is the number of differing attributes, each once *)
Lemma sum_01 (l : list nat) :
  (forall x, In x l -> x <= 1)%nat ->
  fold_right plus 0%nat l = length (filter (fun x => negb (Nat.eqb x 0)) l).
Proof.
  induction l as [|x r IH]; simpl; intros H; [reflexivity|].
  assert (Hx : (x <= 1)%nat) by (apply H; left; reflexivity).
  rewrite IH by (intros y Hy; apply H; right; exact Hy).
  destruct x as [|[|x]]; simpl; lia.
Qed.

Lemma filter_map_len {A} (g : A -> nat) l :
  length (filter (fun x => negb (Nat.eqb x 0)) (map g l)) = length (filter (fun f => negb (Nat.eqb (g f) 0)) l).
Proof.
  induction l as [|f r IH]; [reflexivity|]. cbn [map filter].
  destruct (Nat.eqb (g f) 0); cbn [negb length]; rewrite IH; reflexivity.
Qed.

Theorem diff_count_spec a b d :
  node_diff a b = Some d ->
  d_count d = length (filter (fun f => negb (Nat.eqb (field_count f a b) 0)) nfields).
Proof.
  unfold node_diff. destruct (diff_total a b) as [|c] eqn:E; [discriminate|]. intros H. injection H as <-.
  cbn [d_count]. rewrite <- E. unfold diff_total. rewrite sum_01.
  - apply filter_map_len.
  - intros x Hx. apply in_map_iff in Hx as [f [<- _]]. apply field_count_le1.
Qed.

(* reconstructive: applying the reported additions and removals to the first node yields the second
   node's attributes *)
Ltac red_fields :=
  cbv beta iota delta [fsame apply_diff diff_side d_added d_removed pick
    n_id n_type n_name n_version n_file_name n_url_home n_url_download n_licenses n_license_concluded
    n_license_comments n_copyright n_source_info n_comment n_summary n_description n_attribution
    n_suppliers n_originators n_release_date n_build_date n_valid_until_date n_external_references
    n_file_types n_identifiers n_hashes n_primary_purpose].

Theorem diff_reconstruct a b d :
  maps_unique a -> maps_unique b -> node_diff a b = Some d -> forall f, fsame f (apply_diff a d) b.
Proof.
  intros [Ua1 Ua2] [Ub1 Ub2]. unfold node_diff. destruct (diff_total a b); [discriminate|].
  intros H. injection H as <-. intros f. destruct f; red_fields;
    first [apply diff_s_apply | apply diff_type_apply | apply diff_strs_apply | apply diff_enums_apply
          | apply diff_keyed_apply | apply diff_date_apply | apply diff_map_apply; assumption].
Qed.
