(* Correspondence evaluator for Node.Diff (C14). Lists of the observed Added/Removed nodes are
   compared in order (the Go code builds them in operand order); maps come sorted by key. *)
From Verif Require Import Model.Base Model.Node Model.Graph Model.Flat Model.Diff Corr.Canon.
Open Scope list_scope.

Record case14 := mk_case14 {
  g_a : node; g_b : node;
  g_nil : bool;            (* Diff returned nil *)
  g_added : node; g_removed : node; g_count : Z }.

(* map-valued results are compared after sorting by key (Go map iteration) *)
Definition norm_maps (n : node) : node :=
  {| n_id := n_id n; n_type := n_type n; n_name := n_name n; n_version := n_version n;
     n_file_name := n_file_name n; n_url_home := n_url_home n; n_url_download := n_url_download n;
     n_licenses := n_licenses n; n_license_concluded := n_license_concluded n;
     n_license_comments := n_license_comments n; n_copyright := n_copyright n;
     n_source_info := n_source_info n; n_comment := n_comment n; n_summary := n_summary n;
     n_description := n_description n; n_attribution := n_attribution n; n_suppliers := n_suppliers n;
     n_originators := n_originators n; n_release_date := n_release_date n; n_build_date := n_build_date n;
     n_valid_until_date := n_valid_until_date n; n_external_references := n_external_references n;
     n_file_types := n_file_types n; n_identifiers := kvsort (n_identifiers n);
     n_hashes := kvsort (n_hashes n); n_primary_purpose := n_primary_purpose n |}.

Definition case_ok (c : case14) : bool :=
  match node_diff (g_a c) (g_b c) with
  | None => g_nil c
  | Some d =>
      negb (g_nil c)
      && node_eqb (norm_maps (d_added d)) (norm_maps (g_added c))
      && node_eqb (norm_maps (d_removed d)) (norm_maps (g_removed c))
      && Z.eqb (Z.of_nat (d_count d)) (g_count c)
  end.

Definition mismatches (cs : list case14) : list nat := failing case_ok cs.
