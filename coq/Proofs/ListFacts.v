(* Facts about the list helpers of Model/Base.v and Model/Graph.v. *)
From Coq Require Import Lia Permutation.
From Verif Require Import Model.Base Model.Node Model.Graph.
Open Scope list_scope.

Lemma mem_In x l : mem x l = true <-> In x l.
Proof.
  unfold mem. rewrite existsb_exists. split.
  - intros [y [Hy He]]. apply String.eqb_eq in He. subst; assumption.
  - intros H. exists x. split; [assumption | apply String.eqb_refl].
Qed.

Lemma mem_false x l : mem x l = false <-> ~ In x l.
Proof.
  rewrite <- mem_In. destruct (mem x l); split; intro H; try congruence; try (intro; congruence).
Qed.

Lemma mem_app x a b : mem x (a ++ b) = mem x a || mem x b.
Proof. unfold mem. apply existsb_app. Qed.

Lemma mem_ext x a b : (forall y, In y a <-> In y b) -> mem x a = mem x b.
Proof.
  intros H. destruct (mem x b) eqn:E.
  - apply mem_In. apply H. apply mem_In. assumption.
  - apply mem_false. intros Hin. apply H in Hin. apply mem_In in Hin. congruence.
Qed.

Lemma negb_eqb_true x y : negb (String.eqb x y) = true <-> x <> y.
Proof.
  destruct (String.eqb_spec x y); simpl; split; intros; try congruence; auto.
Qed.

(* ---- dedup ---------------------------------------------------------------- *)
Lemma dedup_In x l : In x (dedup l) <-> In x l.
Proof.
  induction l as [|y r IH]; simpl; [tauto|].
  rewrite filter_In, negb_eqb_true, IH.
  destruct (string_dec y x) as [->|Hne]; [tauto|].
  split.
  - intros [H|[H _]]; auto.
  - intros [H|H]; [congruence|]. right. split; [assumption|assumption].
Qed.

Lemma NoDup_filter {A} (f : A -> bool) l : NoDup l -> NoDup (filter f l).
Proof.
  induction 1 as [|x l Hx Hl IH]; simpl; [constructor|].
  destruct (f x); [constructor|]; auto.
  rewrite filter_In. tauto.
Qed.

Lemma dedup_NoDup l : NoDup (dedup l).
Proof.
  induction l as [|y r IH]; simpl; constructor.
  - rewrite filter_In, negb_eqb_true. tauto.
  - apply NoDup_filter. assumption.
Qed.

Lemma dedup_nil_iff l : dedup l = [] <-> l = [].
Proof. destruct l; simpl; split; congruence. Qed.

Lemma filter_all_true {A} (f : A -> bool) l : (forall x, In x l -> f x = true) -> filter f l = l.
Proof.
  induction l as [|x r IH]; simpl; intros H; [reflexivity|].
  rewrite (H x (or_introl eq_refl)). f_equal. apply IH. intros y Hy. apply H. right; assumption.
Qed.

Lemma dedup_id l : NoDup l -> dedup l = l.
Proof.
  induction 1 as [|x l Hx Hl IH]; simpl; [reflexivity|].
  rewrite IH. f_equal.
  apply filter_all_true. intros y Hy.
  apply negb_eqb_true. intros ->. contradiction.
Qed.

(* ---- edge keys -------------------------------------------------------------- *)
Lemma ekey_eqb_eq k1 k2 : ekey_eqb k1 k2 = true <-> k1 = k2.
Proof.
  destruct k1 as [f1 t1], k2 as [f2 t2]. unfold ekey_eqb; simpl.
  rewrite andb_true_iff, String.eqb_eq, Z.eqb_eq. split.
  - intros [-> ->]; reflexivity.
  - intros H; inversion H; auto.
Qed.

Lemma ekey_eqb_refl k : ekey_eqb k k = true.
Proof. apply ekey_eqb_eq. reflexivity. Qed.

Lemma ekey_eqb_false k1 k2 : ekey_eqb k1 k2 = false <-> k1 <> k2.
Proof.
  rewrite <- ekey_eqb_eq. destruct (ekey_eqb k1 k2); split; intro H; try congruence; try (intro; congruence).
Qed.

Lemma ekey_dec (k1 k2 : ekey) : {k1 = k2} + {k1 <> k2}.
Proof.
  destruct (ekey_eqb k1 k2) eqn:E; [left; apply ekey_eqb_eq | right; apply ekey_eqb_false]; assumption.
Qed.

Lemma kmem_In k l : kmem k l = true <-> In k l.
Proof.
  induction l as [|k' r IH]; simpl; [split; [congruence|tauto]|].
  rewrite orb_true_iff, IH, ekey_eqb_eq. split; intros [H|H]; auto.
Qed.

Lemma kdedup_In k l : In k (kdedup l) <-> In k l.
Proof.
  induction l as [|y r IH]; simpl; [tauto|].
  rewrite filter_In, IH, negb_true_iff, ekey_eqb_false.
  destruct (ekey_dec y k) as [->|Hne]; [tauto|].
  split.
  - intros [H|[H _]]; auto.
  - intros [H|H]; [congruence|]. right. split; assumption.
Qed.

Lemma kdedup_NoDup l : NoDup (kdedup l).
Proof.
  induction l as [|y r IH]; simpl; constructor.
  - rewrite filter_In, negb_true_iff, ekey_eqb_false. tauto.
  - apply NoDup_filter. assumption.
Qed.

Lemma NoDup_app_intro {A} (l1 l2 : list A) :
  NoDup l1 -> NoDup l2 -> (forall x, In x l1 -> In x l2 -> False) -> NoDup (l1 ++ l2).
Proof.
  induction 1 as [|x l Hx Hl IH]; simpl; intros H2 Hd; [assumption|].
  constructor.
  - rewrite in_app_iff. intros [H|H]; [contradiction|]. apply (Hd x); auto.
  - apply IH; auto. intros y Hy1 Hy2. apply (Hd y); auto.
Qed.

Lemma NoDup_app_inv {A} (l1 l2 : list A) :
  NoDup (l1 ++ l2) -> NoDup l1 /\ NoDup l2 /\ (forall x, In x l1 -> In x l2 -> False).
Proof.
  induction l1 as [|x l IH]; simpl; intros H.
  - split; [constructor|]. split; [assumption|]. intros x [].
  - inversion H as [|? ? Hx Hnd]; subst. destruct (IH Hnd) as [H1 [H2 H3]].
    rewrite in_app_iff in Hx. split; [constructor; tauto|]. split; [assumption|].
    intros y [->|Hy] Hy2; [tauto|]. eapply H3; eauto.
Qed.

(* ---- flat_map producing at most one element with distinct images ------------- *)
Lemma NoDup_flat_map_inj {A B} (f : A -> list B) (key : B -> A) l :
  NoDup l ->
  (forall a b, In b (f a) -> key b = a) ->
  (forall a, NoDup (f a)) ->
  NoDup (flat_map f l).
Proof.
  intros Hnd Hkey Hf. induction Hnd as [|x l Hx Hl IH]; simpl; [constructor|].
  apply NoDup_app_intro; auto.
  intros b Hb1 Hb2. apply in_flat_map in Hb2 as [a [Ha Hb2]].
  apply Hkey in Hb1. apply Hkey in Hb2. subst. congruence.
Qed.

Lemma filter_nil_iff' {A} (f : A -> bool) l : filter f l = [] <-> forall x, In x l -> f x = false.
Proof.
  induction l as [|x r IH]; simpl; [split; [intros _ y []|reflexivity]|].
  destruct (f x) eqn:E; split.
  - discriminate.
  - intros H. specialize (H x (or_introl eq_refl)). congruence.
  - intros H y [<-|Hy]; [assumption|]. apply IH; assumption.
  - intros H. apply IH. intros y Hy. apply H. right; assumption.
Qed.
