package main

import (
	"bufio"
	"encoding/hex"
	"encoding/json"
	"fmt"
	"os"
	"os/exec"
	"path/filepath"
	"regexp"
	"sort"
	"strconv"
	"strings"
	"syscall"

	"github.com/protobom/protobom/pkg/sbom"
	"google.golang.org/protobuf/proto"

	"verifharness/coqfmt"
	"verifharness/gen"
)

func init() { runners["C20"] = runC20 }

// ---- (A) the real Store's file-system calls, via strace ---------------------------------------------
var (
	reOpen   = regexp.MustCompile(`openat\(AT_FDCWD, "([^"]*)", ([A-Z_|0-9]+)(?:, [0-7]+)?\) = (\d+)`)
	reFdCall = regexp.MustCompile(`\b(write|fsync|fdatasync|fchmod|close|ftruncate)\((\d+)`)
	reRename = regexp.MustCompile(`\brename(?:at2?)?\((?:AT_FDCWD, )?"([^"]*)", (?:AT_FDCWD, )?"([^"]*)"`)
)

// traceStore runs one real store under strace and returns the kinds of the calls that touch the
// store directory, in order: 1 create-temp(O_EXCL) 2 write 3 chmod 4 fsync 5 close 6 rename 7 open-truncate.
type killPoint struct {
	syscall string
	nth     int
	line    string
}

var reCallName = regexp.MustCompile(`^\d+\s+(\w+)\(`)

// killPoints: one real store under strace; for every file-system call from the first one that names
// the store directory on, the call's name and its occurrence number among the calls of that name
// (strace's fault injection counts per system call name). Killing the process at the entry of that
// call leaves exactly the effects of the calls before it.
func killPoints(setup func(string), base, docfile, noclobber string) []killPoint {
	d := filepath.Join(base, "probe")
	_ = os.Mkdir(d, 0o755)
	setup(d)
	defer os.RemoveAll(d)
	tf := filepath.Join(base, "probe.trace")
	cmd := exec.Command("strace", "-f", "-qq", "-o", tf,
		"-e", "trace=openat,write,fsync,fdatasync,fchmod,close,rename,renameat,renameat2,ftruncate,unlink,unlinkat",
		storechildPath(), "store", d, docfile, noclobber)
	cmd.Env = childEnv()
	if err := cmd.Run(); err != nil {
		return nil
	}
	raw, _ := os.ReadFile(tf)
	_ = os.Remove(tf)
	count := map[string]int{}
	var pts []killPoint
	started := false
	for _, line := range strings.Split(string(raw), "\n") {
		m := reCallName.FindStringSubmatch(line)
		if m == nil {
			continue
		}
		count[m[1]]++
		if strings.Contains(line, d+"/") {
			started = true
		}
		if started && !strings.Contains(line, "write(1,") {
			l := line
			if len(l) > 160 {
				l = l[:160]
			}
			pts = append(pts, killPoint{m[1], count[m[1]], l})
		}
	}
	return pts
}

// otherFS: a directory on another file system than the store, if the machine has one (/dev/shm): the
// store child's TMPDIR points there, so that anything the store stages outside its own directory is seen
// to cross a file-system boundary
var otherFS string

func setupOtherFS() {
	d := fmt.Sprintf("/dev/shm/verif-c20-tmp-%d", os.Getpid())
	if err := os.MkdirAll(d, 0o755); err == nil {
		otherFS = d
	}
}

func childEnv() []string {
	if otherFS == "" {
		return os.Environ()
	}
	return append(os.Environ(), "TMPDIR="+otherFS)
}

func killAt(kp killPoint, d, docfile, noclobber string) {
	cmd := exec.Command("strace", "-f", "-qq", "-o", "/dev/null",
		"-e", "trace="+kp.syscall,
		"-e", fmt.Sprintf("inject=%s:signal=KILL:when=%d", kp.syscall, kp.nth),
		storechildPath(), "store", d, docfile, noclobber)
	cmd.Env = childEnv()
	_ = cmd.Run()
}

func traceStore(sdir, docfile, final, noclobber string) ([]int, []string, error) {
	tf, _ := os.CreateTemp("", "verif-strace-")
	tf.Close()
	defer os.Remove(tf.Name())
	cmd := exec.Command("strace", "-f", "-qq", "-o", tf.Name(),
		"-e", "trace=openat,write,fsync,fdatasync,fchmod,close,rename,renameat,renameat2,ftruncate",
		storechildPath(), "store", sdir, docfile, noclobber)
	cmd.Env = childEnv()
	if out, err := cmd.CombinedOutput(); err != nil {
		return nil, nil, fmt.Errorf("strace: %v: %s", err, out)
	}
	f, err := os.Open(tf.Name())
	if err != nil {
		return nil, nil, err
	}
	defer f.Close()
	var kinds []int
	var lines []string
	tracked := map[string]bool{}
	sc := bufio.NewScanner(f)
	sc.Buffer(make([]byte, 1<<20), 1<<20)
	for sc.Scan() {
		line := sc.Text()
		if m := reOpen.FindStringSubmatch(line); m != nil {
			if strings.HasPrefix(m[1], sdir+"/") {
				switch {
				case strings.Contains(m[2], "O_EXCL") && m[1] == filepath.Join(sdir, final):
					kinds = append(kinds, 8) // the entry itself created and then written in place
				case strings.Contains(m[2], "O_EXCL"):
					kinds = append(kinds, 1)
				case m[1] == filepath.Join(sdir, final) && (strings.Contains(m[2], "O_WRONLY") || strings.Contains(m[2], "O_RDWR")) && !strings.Contains(m[2], "O_TRUNC"):
					kinds = append(kinds, 9) // the entry opened for writing as it is: overwritten in place, old bytes beyond the write stay
				case strings.Contains(m[2], "O_TRUNC"):
					kinds = append(kinds, 7)
				default:
					continue
				}
				tracked[m[3]] = true
				lines = append(lines, line)
			}
			continue
		}
		if m := reFdCall.FindStringSubmatch(line); m != nil && tracked[m[2]] {
			k := map[string]int{"write": 2, "fchmod": 3, "fsync": 4, "fdatasync": 4, "close": 5, "ftruncate": 7}[m[1]]
			kinds = append(kinds, k)
			lines = append(lines, line)
			if m[1] == "close" {
				delete(tracked, m[2])
			}
			continue
		}
		if m := reRename.FindStringSubmatch(line); m != nil && strings.HasPrefix(m[2], sdir+"/") {
			kinds = append(kinds, 6)
			lines = append(lines, line)
		}
	}
	return kinds, lines, nil
}

// ---- (B) post-crash listings, enumerated independently of the Coq model --------------------------------
type dfile struct {
	data   string
	synced bool
}

func prefixes(s string) []string {
	out := make([]string, 0, len(s)+1)
	for i := 0; i <= len(s); i++ {
		out = append(out, s[:i])
	}
	return out
}

func cloneDisk(d map[string]dfile) map[string]dfile {
	c := map[string]dfile{}
	for k, v := range d {
		c[k] = v
	}
	return c
}

// crashListings: every directory listing a later process may find when the storing process dies
// at a call boundary or inside its write; un-synced content survives as any prefix.
func crashListings(dk map[string]dfile, tmp, final, data string) []map[string]string {
	var disks []map[string]dfile
	cur := cloneDisk(dk)
	disks = append(disks, cloneDisk(cur))
	cur[tmp] = dfile{"", true} // create
	disks = append(disks, cloneDisk(cur))
	for _, p := range prefixes(data) { // torn write
		t := cloneDisk(cur)
		t[tmp] = dfile{p, false}
		disks = append(disks, t)
	}
	cur[tmp] = dfile{data, false} // write complete
	disks = append(disks, cloneDisk(cur))
	disks = append(disks, cloneDisk(cur)) // chmod
	cur[tmp] = dfile{data, true}          // fsync
	disks = append(disks, cloneDisk(cur))
	disks = append(disks, cloneDisk(cur)) // close
	f := cur[tmp]
	delete(cur, tmp)
	cur[final] = f // rename
	disks = append(disks, cloneDisk(cur))
	seen := map[string]bool{}
	var views []map[string]string
	for _, d := range disks {
		vs := []map[string]string{{}}
		var names []string
		for n := range d {
			names = append(names, n)
		}
		sort.Strings(names)
		for _, n := range names {
			var next []map[string]string
			opts := []string{d[n].data}
			if !d[n].synced {
				opts = prefixes(d[n].data)
			}
			for _, v := range vs {
				for _, o := range opts {
					w := map[string]string{}
					for k, x := range v {
						w[k] = x
					}
					w[n] = o
					next = append(next, w)
				}
			}
			vs = next
		}
		for _, v := range vs {
			var parts []string
			for _, n := range names {
				parts = append(parts, n+"\x00"+v[n])
			}
			key := strings.Join(parts, "\x01")
			if !seen[key] {
				seen[key] = true
				views = append(views, v)
			}
		}
	}
	return views
}

func coqView(v map[string]string) string {
	var names []string
	for n := range v {
		names = append(names, n)
	}
	sort.Strings(names)
	return coqfmt.List(names, func(n string) string { return "(" + coqfmt.Str(n) + ", " + coqfmt.Str(v[n]) + ")" })
}

func smallDoc(id, name string) (*sbom.Document, []byte) {
	d := &sbom.Document{Metadata: &sbom.Metadata{Id: id, Name: name}}
	b, _ := proto.MarshalOptions{Deterministic: true}.Marshal(d)
	return d, b
}

func runC20(seed int64, n int, dir string, tier string) *Report {
	g := gen.New(seed)
	rep := NewReport("C20", seed)
	rep.Rule = "per round (n rounds; first-time store or overwrite, random small documents): (A) one real Store run under strace, its file-system calls on the store directory compared with the model's store_ops; (B) every post-crash directory listing of the crash model (call boundaries, torn writes, un-synced prefixes) enumerated independently in Go, compared as a set with the Coq crash_states, materialised on disk and read back with the real Retrieve in a fresh process; (C) the real store process killed (strace fault injection, SIGKILL) at the k-th file-system call for every k, then Retrieve in a fresh process; the same with a 3 kB document followed by a complete store of a short one and a Retrieve; non-trivial = overwrite rounds; distinct by hash"
	cf := &CasesFile{Imports: "Model.Base Model.Store Corr.CheckC20", Type: "case20", Eval: "mismatches"}
	setupOtherFS()
	if otherFS != "" {
		defer os.RemoveAll(otherFS)
		rep.Notes = append(rep.Notes, "the store child's TMPDIR is on another file system ("+otherFS+")")
	}
	if _, err := exec.LookPath("strace"); err != nil {
		rep.Notes = append(rep.Notes, "strace not available: parts (A) and (C) skipped")
	}
	for round := 0; round < n; round++ {
		base, err := os.MkdirTemp("", "verif-c20-")
		if err != nil {
			die("%v", err)
		}
		sdir := filepath.Join(base, "store")
		_ = os.Mkdir(sdir, 0o755)
		overwrite := round%2 == 1
		noclobber := "false"
		if round%4 == 2 {
			noclobber = "true" // a first-time store that refuses to replace an entry
		}
		id := gen.Pick(g, []string{"n", "id/with/slash", "é"})
		otherID := "other"
		_, oldB := smallDoc(id, "OLD-"+strings.Repeat("o", g.Int(6)))
		_, newB := smallDoc(id, "NEW-"+strings.Repeat("n", g.Int(6)))
		if round%4 == 1 {
			// an overwrite by a document of exactly the same encoded size (a version bump, a changed hash)
			k := g.Int(6)
			_, oldB = smallDoc(id, "OLD-"+strings.Repeat("o", k))
			_, newB = smallDoc(id, "NEW-"+strings.Repeat("n", k))
		}
		_, othB := smallDoc(otherID, "other")
		final, other := entryName(id), entryName(otherID)
		docfile := filepath.Join(base, "new.pb")
		_ = os.WriteFile(docfile, newB, 0o644)
		linked := overwrite && round%4 == 3 // the existing entry is a symbolic link to a regular file holding the old document
		setup := func(d string) {
			_ = os.WriteFile(filepath.Join(d, other), othB, 0o644)
			if linked {
				_ = os.WriteFile(filepath.Join(d, "linked-"+final), oldB, 0o644)
				_ = os.Symlink("linked-"+final, filepath.Join(d, final))
			} else if overwrite {
				_ = os.WriteFile(filepath.Join(d, final), oldB, 0o644)
			}
		}
		setup(sdir)
		classify := func(d string, want string) (string, string) {
			r := runChild(false, "retrieve", d, hex.EncodeToString([]byte(want)))
			if r.Outcome != "ok" {
				return r.Outcome, r.Error
			}
			raw, _ := decodeB64(r.Doc)
			switch string(raw) {
			case string(oldB):
				return "old", ""
			case string(newB):
				return "new", ""
			case string(othB):
				return "other", ""
			}
			return "unknown-document", r.Doc
		}
		check := func(where string, d string, detail any) {
			rep.OracleEvals++
			got, e := classify(d, id)
			okSet := map[string]bool{"new": true, "err": true}
			if overwrite {
				okSet["old"] = true
			}
			if !okSet[got] {
				rep.Fail(Failure{What: "after a crash during Store, Retrieve returned neither the previous document, nor the new one, nor an error", Detail: where + ": " + got + " " + e, Input: map[string]any{"overwrite": overwrite, "id": id, "crash": detail}})
			}
			if o, e2 := classify(d, otherID); o != "other" {
				rep.Fail(Failure{What: "a crash during Store affected an entry stored under another identifier", Detail: where + ": " + o + " " + e2, Input: map[string]any{"overwrite": overwrite, "id": id, "crash": detail}})
			}
		}

		// (A) trace
		if _, err := exec.LookPath("strace"); err == nil {
			kinds, lines, err := traceStore(sdir, docfile, final, noclobber)
			if err != nil {
				rep.Notes = append(rep.Notes, err.Error())
			} else {
				c := "(CTrace " + coqfmt.List(kinds, func(k int) string { return strconv.Itoa(k) }) + ")"
				cf.Add(c)
				rep.NoteCase(c, overwrite, map[string]any{"kind": "syscall trace of a real Store", "overwrite": overwrite, "calls": lines})
				rep.Count(fmt.Sprintf("trace=%v noclobber=%s linked-entry=%v", kinds, noclobber, linked))
			}
			// search along the OBSERVED call sequence: if the entry itself is opened with O_TRUNC and
			// written in place, every prefix of the data is a possible post-crash content of the entry
			if err == nil && (containsInt(kinds, 7) || containsInt(kinds, 8)) {
				big := &sbom.Document{Metadata: &sbom.Metadata{Id: id, Name: "NEW"}, NodeList: &sbom.NodeList{Nodes: []*sbom.Node{{Id: "n1", Name: "node"}}, RootElements: []string{"n1"}}}
				bigB, _ := proto.MarshalOptions{Deterministic: true}.Marshal(big)
				for _, p := range prefixes(string(bigB)) {
					vd := filepath.Join(base, "inplace")
					_ = os.Mkdir(vd, 0o755)
					setup(vd)
					_ = os.WriteFile(filepath.Join(vd, final), []byte(p), 0o644)
					rep.OracleEvals++
					r := runChild(false, "retrieve", vd, hex.EncodeToString([]byte(id)))
					if r.Outcome == "ok" {
						raw, _ := decodeB64(r.Doc)
						if string(raw) != string(bigB) && string(raw) != string(oldB) {
							rep.Fail(Failure{What: "after a crash during Store, Retrieve returned a truncated document (neither the previous nor the new one, and no error)", Detail: fmt.Sprintf("entry written in place (open O_TRUNC or O_EXCL on the entry + write): crash after %d of %d bytes", len(p), len(bigB)), Input: map[string]any{"overwrite": overwrite, "noclobber": noclobber, "entry_is_symlink": linked, "id": id, "entry_prefix_bytes": len(p), "observed_calls": lines}})
							_ = os.RemoveAll(vd)
							break
						}
					}
					_ = os.RemoveAll(vd)
				}
			}
			// the entry overwritten in place without truncation: after a crash inside the write it holds the first
			// k bytes of the new document followed by the rest of the old one
			if err == nil && containsInt(kinds, 9) {
				mk := func(ver string) []byte {
					d := &sbom.Document{Metadata: &sbom.Metadata{Id: id, Name: "doc"}, NodeList: &sbom.NodeList{RootElements: []string{"n0"}}}
					for k := 0; k < 6; k++ {
						d.NodeList.Nodes = append(d.NodeList.Nodes, &sbom.Node{Id: fmt.Sprintf("n%d", k), Name: "node", Version: ver})
					}
					b, _ := proto.MarshalOptions{Deterministic: true}.Marshal(d)
					return b
				}
				o, nw := mk("1.0.0"), mk("2.0.0")
				for k := 1; k < len(nw); k++ {
					vd := filepath.Join(base, "mixed")
					_ = os.Mkdir(vd, 0o755)
					setup(vd)
					_ = os.WriteFile(filepath.Join(vd, final), append(append([]byte{}, nw[:k]...), o[k:]...), 0o644)
					rep.OracleEvals++
					r := runChild(false, "retrieve", vd, hex.EncodeToString([]byte(id)))
					_ = os.RemoveAll(vd)
					if r.Outcome == "ok" {
						raw, _ := decodeB64(r.Doc)
						if string(raw) != string(o) && string(raw) != string(nw) {
							rep.Fail(Failure{What: "after a crash during Store, Retrieve returned a mixture of the previous and the new document (and no error)", Detail: fmt.Sprintf("entry overwritten in place without truncation: crash after %d of %d bytes", k, len(nw)), Input: map[string]any{"overwrite": overwrite, "id": id, "new_prefix_bytes": k, "observed_calls": lines}})
							break
						}
					}
				}
			}
			if got, _ := classify(sdir, id); got != "new" {
				rep.Fail(Failure{What: "a completed Store is not readable", Detail: got, Input: map[string]any{"id": id}})
			}
		}

		// (B) model crash states, materialised
		dk := map[string]dfile{other: {string(othB), true}}
		if overwrite {
			dk[final] = dfile{string(oldB), true}
		}
		tmp := final + ".tmp-123"
		views := crashListings(dk, tmp, final, string(newB))
		var dkCoq []string
		var dkNames []string
		for nme := range dk {
			dkNames = append(dkNames, nme)
		}
		sort.Strings(dkNames)
		for _, nme := range dkNames {
			dkCoq = append(dkCoq, fmt.Sprintf("(%s, (%s, true))", coqfmt.Str(nme), coqfmt.Str(dk[nme].data)))
		}
		c := fmt.Sprintf("(CStates [%s] %s %s %s %s)", strings.Join(dkCoq, "; "), coqfmt.Str(tmp), coqfmt.Str(final), coqfmt.Str(string(newB)),
			coqfmt.List(views, coqView))
		cf.Add(c)
		rep.NoteCase(c, overwrite, map[string]any{"kind": "post-crash listings", "overwrite": overwrite, "listings": len(views), "data_bytes": len(newB)})
		rep.Count("listing_sets_compared")
		stride := 1
		if tier == "quick" && len(views) > 60 {
			stride = len(views) / 60
		}
		for vi := 0; vi < len(views); vi += stride {
			v := views[vi]
			vd := filepath.Join(base, fmt.Sprintf("view%d", vi))
			_ = os.Mkdir(vd, 0o755)
			for nme, content := range v {
				_ = os.WriteFile(filepath.Join(vd, nme), []byte(content), 0o644)
			}
			check("model crash state", vd, map[string]any{"listing": summarize(v)})
			_ = os.RemoveAll(vd)
		}

		// (C) kill the real process at the k-th file-system call
		if _, err := exec.LookPath("strace"); err == nil && (tier == "thorough" || round < 2) {
			for k, kp := range killPoints(setup, base, docfile, noclobber) {
				kd := filepath.Join(base, fmt.Sprintf("kill%d", k))
				_ = os.Mkdir(kd, 0o755)
				setup(kd)
				killAt(kp, kd, docfile, noclobber)
				check(fmt.Sprintf("process killed at the entry of %s", kp.line), kd, map[string]any{"killed_before": kp.line})
				// the natural next step after a crash: the same store again; if it reports success, the
				// document is what a retrieve returns (whatever the interrupted attempt left behind)
				rep.OracleEvals++
				if st := runChild(false, "store", kd, docfile, noclobber); st.Outcome == "ok" {
					if got, e := classify(kd, id); got != "new" {
						rep.Fail(Failure{What: "a store repeated after a crash reported success, but Retrieve does not return the document", Detail: fmt.Sprintf("first attempt killed at the entry of %s; retrieve gives %s %s", kp.line, got, e), Input: map[string]any{"overwrite": overwrite, "noclobber": noclobber, "id": id, "killed_before": kp.line}})
					}
					rep.Count("retry_after_kill:ok")
				} else {
					rep.Count("retry_after_kill:" + st.Outcome)
				}
				_ = os.RemoveAll(kd)
				rep.Count("real_kills")
			}
			// (D) the same calls made to fail instead (no space left / I/O error): the store reports an error, or
			// completes, and what a later retrieve finds is the previous or the new document or an error; the
			// process neither panics nor exits; the other entry is untouched
			for k, kp := range killPoints(setup, base, docfile, noclobber) {
				if kp.syscall == "close" && k%2 == 1 {
					continue
				}
				for _, errno := range []string{"ENOSPC", "EIO"} {
					fd := filepath.Join(base, fmt.Sprintf("fail%d%s", k, errno))
					_ = os.Mkdir(fd, 0o755)
					setup(fd)
					ino0 := inodeOf(filepath.Join(fd, final))
					cmd := exec.Command("strace", "-f", "-qq", "-o", "/dev/null", "-e", "trace="+kp.syscall,
						"-e", fmt.Sprintf("inject=%s:error=%s:when=%d", kp.syscall, errno, kp.nth),
						storechildPath(), "store", fd, docfile, noclobber)
					outb, _ := cmd.Output()
					// an entry is replaced by putting another file in its place: a store that changed what the entry
					// holds while the entry is still the same file wrote it in place, and a crash in the middle of
					// that leaves neither the previous nor the new document (whatever made the store take that path)
					if now, _ := os.ReadFile(filepath.Join(fd, final)); overwrite && !linked && ino0 != 0 && inodeOf(filepath.Join(fd, final)) == ino0 && string(now) != string(oldB) {
						rep.Fail(Failure{What: "a store changed the content of an existing entry in place (same file, new bytes) instead of replacing it atomically", Detail: fmt.Sprintf("%s failing with %s at %s; the entry is still inode %d and now holds %d bytes that are not the previous document", kp.syscall, errno, kp.line, ino0, len(now)), Input: map[string]any{"overwrite": overwrite, "id": id, "failed_call": kp.line, "errno": errno}})
					}
					co := childOut{}
					_ = json.Unmarshal([]byte(strings.TrimSpace(string(outb))), &co)
					rep.OracleEvals++
					rep.Count("io_error_injected:" + kp.syscall + ":" + co.Outcome)
					if co.Outcome != "ok" && co.Outcome != "err" {
						rep.Fail(Failure{What: "a store whose file-system call failed neither completed nor reported an error (panic or process exit)", Detail: fmt.Sprintf("%s failing with %s at %s: outcome %q %s", kp.syscall, errno, kp.line, co.Outcome, co.Error), Input: map[string]any{"overwrite": overwrite, "id": id, "failed_call": kp.line, "errno": errno}})
					}
					check(fmt.Sprintf("store with %s failing (%s) at %s", kp.syscall, errno, kp.line), fd, map[string]any{"failed_call": kp.line, "errno": errno})
					if co.Outcome == "ok" {
						if got, _ := classify(fd, id); got != "new" {
							rep.Fail(Failure{What: "a store reported success although one of its file-system calls failed and the new document is not what Retrieve returns", Detail: fmt.Sprintf("%s (%s) at %s: retrieve gives %s", kp.syscall, errno, kp.line, got), Input: map[string]any{"overwrite": overwrite, "id": id, "failed_call": kp.line, "errno": errno}})
						}
					}
					_ = os.RemoveAll(fd)
				}
			}
			// the same with a long document, followed by a complete store of a short one under the same
			// identifier: whatever the interrupted store left behind must not leak into the next entry
			_, bigB := smallDoc(id, "BIG-"+strings.Repeat("HA", 1500))
			_, shortB := smallDoc(id, "S")
			bigfile, shortfile := filepath.Join(base, "big.pb"), filepath.Join(base, "short.pb")
			_ = os.WriteFile(bigfile, bigB, 0o644)
			_ = os.WriteFile(shortfile, shortB, 0o644)
			for k, kp := range killPoints(setup, base, bigfile, noclobber) {
				kd := filepath.Join(base, fmt.Sprintf("killbig%d", k))
				_ = os.Mkdir(kd, 0o755)
				setup(kd)
				killAt(kp, kd, bigfile, noclobber)
				rep.OracleEvals++
				st := runChild(false, "store", kd, shortfile, "false")
				if st.Outcome == "ok" {
					r := runChild(false, "retrieve", kd, hex.EncodeToString([]byte(id)))
					raw, _ := decodeB64(r.Doc)
					if r.Outcome != "ok" || string(raw) != string(shortB) {
						rep.Fail(Failure{What: "after a store interrupted by a crash, a later complete store of the same identifier is not what Retrieve returns (mixed, truncated or unreadable entry)", Detail: fmt.Sprintf("killed at the entry of %s of a %d-byte store, then stored %d bytes: retrieve %s %s, %d bytes", kp.line, len(bigB), len(shortB), r.Outcome, r.Error, len(raw)), Input: map[string]any{"overwrite": overwrite, "id": id, "killed_before": kp.line}})
					}
				} else {
					rep.Count("followup_store:" + st.Outcome)
				}
				_ = os.RemoveAll(kd)
				rep.Count("real_kills_then_store")
			}
		}
		_ = os.RemoveAll(base)
	}
	rep.CasesFiles = cf.Write(filepath.Join(dir, "cases_C20"))
	rep.ShardSize = shardSize
	return rep
}

// inodeOf: the inode number of a path (not following a final symbolic link), 0 when there is none
func inodeOf(p string) uint64 {
	fi, err := os.Lstat(p)
	if err != nil {
		return 0
	}
	if st, ok := fi.Sys().(*syscall.Stat_t); ok {
		return st.Ino
	}
	return 0
}

func summarize(v map[string]string) map[string]string {
	o := map[string]string{}
	for k, x := range v {
		o[k] = fmt.Sprintf("%d bytes", len(x))
	}
	return o
}

func containsInt(xs []int, x int) bool {
	for _, y := range xs {
		if y == x {
			return true
		}
	}
	return false
}
