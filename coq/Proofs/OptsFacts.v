(* Reader and writer configuration is isolated per instance (C18). *)
From Coq Require Import Lia.
From Verif Require Import Model.Base Model.Opts.
Open Scope list_scope.

Section Lib.
  Variable defaults : conf.

  Lemma set_nth_length n c h : length (set_nth n c h) = length h.
  Proof. revert n. induction h as [|x r IH]; intros n; [destruct n; reflexivity|]. destruct n; simpl; auto. Qed.

  Lemma nth_set_nth_same n c h : (n < length h)%nat -> nth n (set_nth n c h) [] = c.
  Proof.
    revert n. induction h as [|x r IH]; intros n Hn; simpl in *; [lia|].
    destruct n; simpl; [reflexivity|]. apply IH. lia.
  Qed.

  Lemma nth_set_nth_other n m c h : n <> m -> nth m (set_nth n c h) [] = nth m h [].
  Proof.
    revert n m. induction h as [|x r IH]; intros n m Hne; [destruct n; reflexivity|].
    destruct n, m; simpl; try reflexivity; try congruence. apply IH. congruence.
  Qed.

  (* writing the options through the reference at address a touches nothing but that object *)
  Lemma write_opts a opts : forall h,
    (a < length h)%nat ->
    length (write_through a opts h) = length h /\
    nth a (write_through a opts h) [] = apply_opts (nth a h []) opts /\
    (forall m, m <> a -> nth m (write_through a opts h) [] = nth m h []).
  Proof.
    unfold write_through. induction opts as [|o r IH]; intros h Ha; cbn [fold_left apply_opts].
    - auto.
    - set (h1 := set_nth a (apply_opt (nth a h []) o) h).
      assert (L1 : length h1 = length h) by apply set_nth_length.
      assert (Hh1 : (a < length h1)%nat) by lia.
      destruct (IH h1 Hh1) as [I1 [I2 I3]]. split; [rewrite I1; exact L1|]. split.
      + rewrite I2. unfold h1. rewrite nth_set_nth_same by assumption. reflexivity.
      + intros m Hm. rewrite I3 by assumption. unfold h1. apply nth_set_nth_other. congruence.
  Qed.

  (* the invariant carried along every history *)
  Definition inv (s : st) (opts_so_far : list (list copt)) : Prop :=
    (1 <= length (heap s))%nat /\
    nth 0 (heap s) [] = defaults /\
    length (insts s) = length opts_so_far /\
    (forall i a, nth_error (insts s) i = Some a -> (1 <= a < length (heap s))%nat) /\
    (forall i os, nth_error opts_so_far i = Some os -> config s i = apply_opts defaults os).

  Lemma inv_init : inv (init defaults) [].
  Proof.
    unfold inv, init; simpl. split; [lia|]. split; [reflexivity|]. split; [reflexivity|]. split.
    - intros i a H. destruct i; discriminate.
    - intros i os H. destruct i; discriminate.
  Qed.

  Lemma nth_error_app_last {A} (l : list A) x i y :
    nth_error (l ++ [x]) i = Some y -> (nth_error l i = Some y /\ (i < length l)%nat) \/ (i = length l /\ y = x).
  Proof.
    intros H. destruct (Nat.lt_ge_cases i (length l)) as [Hlt|Hge].
    - left. rewrite nth_error_app1 in H by assumption. auto.
    - right. rewrite nth_error_app2 in H by assumption.
      destruct (i - length l)%nat as [|k] eqn:E; simpl in H.
      + injection H as <-. split; [lia|reflexivity].
      + destruct k; discriminate.
  Qed.

  Lemma inv_step s os o :
    inv s os ->
    inv (step defaults s o) (os ++ match o with HNew opts => [opts] | HCall _ _ => [] end).
  Proof.
    intros [H1 [H2 [H3 [H4 H5]]]]. destruct o as [opts|i pc]; cbn [step]; [|rewrite app_nil_r; exact (conj H1 (conj H2 (conj H3 (conj H4 H5))))].
    set (a := length (heap s)).
    set (h0 := heap s ++ [defaults]).
    assert (Ha : (a < length h0)%nat) by (unfold h0, a; rewrite app_length; simpl; lia).
    destruct (write_opts a opts h0 Ha) as [W1 [W2 W3]].
    assert (Hh0 : nth a h0 [] = defaults).
    { unfold h0, a. rewrite app_nth2 by lia. rewrite Nat.sub_diag. reflexivity. }
    assert (Lh0 : length h0 = S (length (heap s))) by (unfold h0; rewrite app_length; simpl; lia).
    unfold inv. cbn [heap insts]. fold a. fold h0. split; [rewrite W1; lia|]. split.
    - rewrite W3 by (unfold a; lia). unfold h0. rewrite app_nth1 by lia. exact H2.
    - split; [rewrite !app_length; simpl; lia|]. split.
      + intros i b Hb. apply nth_error_app_last in Hb as [[Hb _]|[_ ->]].
        * specialize (H4 i b Hb). rewrite W1, Lh0. lia.
        * rewrite W1, Lh0. unfold a. lia.
      + intros i osi Hi. unfold config. cbn [heap insts]. fold a. fold h0.
        apply nth_error_app_last in Hi as [[Hi Hlt]|[-> ->]].
        * rewrite nth_error_app1 by lia.
          destruct (nth_error (insts s) i) as [b|] eqn:Eb.
          -- specialize (H4 i b Eb). rewrite W3 by (unfold a; lia). unfold h0. rewrite app_nth1 by lia.
             specialize (H5 i osi Hi). unfold config in H5. rewrite Eb in H5. exact H5.
          -- apply nth_error_None in Eb. lia.
        * rewrite nth_error_app2 by lia. rewrite <- H3, Nat.sub_diag. simpl. rewrite W2, Hh0. reflexivity.
  Qed.

  Lemma inv_fold h : forall s os, inv s os -> inv (fold_left (step defaults) h s) (os ++ ctor_opts h).
  Proof.
    induction h as [|o r IH]; intros s os Hs.
    - simpl. rewrite app_nil_r. exact Hs.
    - specialize (IH _ _ (inv_step s os o Hs)). rewrite <- app_assoc in IH. exact IH.
  Qed.

  Lemma inv_run h : inv (run defaults h) (ctor_opts h).
  Proof. exact (inv_fold h (init defaults) [] inv_init). Qed.

  (* the configuration of an instance is a function of the library defaults and of the options
     passed to its own constructor only — for every history *)
  Theorem config_isolated h i os :
    nth_error (ctor_opts h) i = Some os -> config (run defaults h) i = apply_opts defaults os.
  Proof. intros H. destruct (inv_run h) as [_ [_ [_ [_ H5]]]]. apply H5. exact H. Qed.

  Theorem defaults_untouched h : nth 0 (heap (run defaults h)) [] = defaults.
  Proof. destruct (inv_run h) as [_ [H2 _]]. exact H2. Qed.

  Theorem new_without_options h i :
    nth_error (ctor_opts h) i = Some [] -> config (run defaults h) i = defaults.
  Proof. intros H. rewrite (config_isolated h i [] H). reflexivity. Qed.

  (* options given to a single call change nothing that outlives the call *)
  Theorem percall_local s i pc : step defaults s (HCall i pc) = s.
  Proof. reflexivity. Qed.

  Theorem percall_local_history h1 i pc h2 j :
    config (run defaults (h1 ++ HCall i pc :: h2)) j = config (run defaults (h1 ++ h2)) j.
  Proof. unfold run. rewrite !fold_left_app. simpl. reflexivity. Qed.
End Lib.
