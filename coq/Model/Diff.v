(* Model of pkg/sbom/diff.go: Node.Diff and its helpers, plus the reconstruction function the
   property speaks about (apply_diff). *)
From Verif Require Import Model.Base Model.Node Model.Graph Model.Flat.
Open Scope list_scope.

Definition triple (A : Type) := (A * A * nat)%type.
Definition t_add {A} (t : triple A) : A := fst (fst t).
Definition t_rem {A} (t : triple A) : A := snd (fst t).
Definition t_cnt {A} (t : triple A) : nat := snd t.

(* diff[T comparable] on strings *)
Definition diff_s (v1 v2 : string) : triple string :=
  if String.eqb v1 v2 then ("", "", 0%nat)
  else if String.eqb v2 "" then ("", v1, 1%nat)
  else (v2, "", 1%nat).

(* the node kind (after the fix: the old kind is recorded as removed) *)
Definition diff_type (t1 t2 : Z) : triple Z :=
  if Z.eqb t1 t2 then (0, 0, 0%nat) else (t2, t1, 1%nat).

Definition cnt_of {A} (a r : list A) : nat :=
  match a, r with [], [] => 0%nat | _, _ => 1%nat end.

(* diffSlice *)
Definition diff_strs (l1 l2 : list string) : triple (list string) :=
  let a := filter (fun s => negb (mem s l1)) l2 in
  let r := filter (fun s => negb (mem s l2)) l1 in
  (a, r, cnt_of a r).

Definition diff_enums (l1 l2 : list Z) : triple (list Z) :=
  let a := filter (fun s => negb (zmem s l1)) l2 in
  let r := filter (fun s => negb (zmem s l2)) l1 in
  (a, r, cnt_of a r).

(* diffList: elements are identified by their flat string *)
Definition diff_keyed {A} (key : A -> string) (l1 l2 : list A) : triple (list A) :=
  let a := filter (fun x => negb (mem (key x) (map key l1))) l2 in
  let r := filter (fun x => negb (mem (key x) (map key l2))) l1 in
  (a, r, cnt_of a r).

(* diffMap *)
Definition diff_map (m1 m2 : list (Z * string)) : triple (list (Z * string)) :=
  let a := filter (fun kv => match zassoc (fst kv) m1 with
                             | Some v1 => negb (String.eqb v1 (snd kv))
                             | None => true
                             end) m2 in
  let r := filter (fun kv => match zassoc (fst kv) m2 with Some _ => false | None => true end) m1 in
  (a, r, cnt_of a r).

Definition unix (d : ts) : Z := fst d + snd d / 1000000000.

(* diffDates *)
Definition diff_date (d1 d2 : option ts) : triple (option ts) :=
  match d1, d2 with
  | Some x, Some y => if Z.eqb (unix x) (unix y) then (None, None, 0%nat) else (Some y, None, 1%nat)
  | None, Some y => (Some y, None, 1%nat)
  | Some x, None => (None, Some x, 1%nat)
  | None, None => (None, None, 0%nat)
  end.

(* one schema field at a time; no wildcard: a new field must be given a diff *)
Definition pick {A} (which : bool) (t : triple A) : A := if which then t_add t else t_rem t.

Definition diff_side (which : bool) (n n2 : node) : node :=
  {| n_id := pick which (diff_s (n_id n) (n_id n2));
     n_type := pick which (diff_type (n_type n) (n_type n2));
     n_name := pick which (diff_s (n_name n) (n_name n2));
     n_version := pick which (diff_s (n_version n) (n_version n2));
     n_file_name := pick which (diff_s (n_file_name n) (n_file_name n2));
     n_url_home := pick which (diff_s (n_url_home n) (n_url_home n2));
     n_url_download := pick which (diff_s (n_url_download n) (n_url_download n2));
     n_licenses := pick which (diff_strs (n_licenses n) (n_licenses n2));
     n_license_concluded := pick which (diff_s (n_license_concluded n) (n_license_concluded n2));
     n_license_comments := pick which (diff_s (n_license_comments n) (n_license_comments n2));
     n_copyright := pick which (diff_s (n_copyright n) (n_copyright n2));
     n_source_info := pick which (diff_s (n_source_info n) (n_source_info n2));
     n_comment := pick which (diff_s (n_comment n) (n_comment n2));
     n_summary := pick which (diff_s (n_summary n) (n_summary n2));
     n_description := pick which (diff_s (n_description n) (n_description n2));
     n_attribution := pick which (diff_strs (n_attribution n) (n_attribution n2));
     n_suppliers := pick which (diff_keyed person_flat (n_suppliers n) (n_suppliers n2));
     n_originators := pick which (diff_keyed person_flat (n_originators n) (n_originators n2));
     n_release_date := pick which (diff_date (n_release_date n) (n_release_date n2));
     n_build_date := pick which (diff_date (n_build_date n) (n_build_date n2));
     n_valid_until_date := pick which (diff_date (n_valid_until_date n) (n_valid_until_date n2));
     n_external_references := pick which (diff_keyed extref_flat (n_external_references n) (n_external_references n2));
     n_file_types := pick which (diff_strs (n_file_types n) (n_file_types n2));
     n_identifiers := pick which (diff_map (n_identifiers n) (n_identifiers n2));
     n_hashes := pick which (diff_map (n_hashes n) (n_hashes n2));
     n_primary_purpose := pick which (diff_enums (n_primary_purpose n) (n_primary_purpose n2)) |}.

(* the count contributed by one schema field *)
Definition field_count (f : nfield) (n n2 : node) : nat :=
  match f with
  | NF_id => t_cnt (diff_s (n_id n) (n_id n2))
  | NF_type => t_cnt (diff_type (n_type n) (n_type n2))
  | NF_name => t_cnt (diff_s (n_name n) (n_name n2))
  | NF_version => t_cnt (diff_s (n_version n) (n_version n2))
  | NF_file_name => t_cnt (diff_s (n_file_name n) (n_file_name n2))
  | NF_url_home => t_cnt (diff_s (n_url_home n) (n_url_home n2))
  | NF_url_download => t_cnt (diff_s (n_url_download n) (n_url_download n2))
  | NF_licenses => t_cnt (diff_strs (n_licenses n) (n_licenses n2))
  | NF_license_concluded => t_cnt (diff_s (n_license_concluded n) (n_license_concluded n2))
  | NF_license_comments => t_cnt (diff_s (n_license_comments n) (n_license_comments n2))
  | NF_copyright => t_cnt (diff_s (n_copyright n) (n_copyright n2))
  | NF_source_info => t_cnt (diff_s (n_source_info n) (n_source_info n2))
  | NF_comment => t_cnt (diff_s (n_comment n) (n_comment n2))
  | NF_summary => t_cnt (diff_s (n_summary n) (n_summary n2))
  | NF_description => t_cnt (diff_s (n_description n) (n_description n2))
  | NF_attribution => t_cnt (diff_strs (n_attribution n) (n_attribution n2))
  | NF_suppliers => t_cnt (diff_keyed person_flat (n_suppliers n) (n_suppliers n2))
  | NF_originators => t_cnt (diff_keyed person_flat (n_originators n) (n_originators n2))
  | NF_release_date => t_cnt (diff_date (n_release_date n) (n_release_date n2))
  | NF_build_date => t_cnt (diff_date (n_build_date n) (n_build_date n2))
  | NF_valid_until_date => t_cnt (diff_date (n_valid_until_date n) (n_valid_until_date n2))
  | NF_external_references => t_cnt (diff_keyed extref_flat (n_external_references n) (n_external_references n2))
  | NF_file_types => t_cnt (diff_strs (n_file_types n) (n_file_types n2))
  | NF_identifiers => t_cnt (diff_map (n_identifiers n) (n_identifiers n2))
  | NF_hashes => t_cnt (diff_map (n_hashes n) (n_hashes n2))
  | NF_primary_purpose => t_cnt (diff_enums (n_primary_purpose n) (n_primary_purpose n2))
  end.

Definition diff_total (n n2 : node) : nat := fold_right plus 0%nat (map (fun f => field_count f n n2) nfields).

Record node_diff_t := mk_node_diff { d_added : node; d_removed : node; d_count : nat }.

(* Node.Diff: nil when nothing differs *)
Definition node_diff (n n2 : node) : option node_diff_t :=
  match diff_total n n2 with
  | O => None
  | c => Some {| d_added := diff_side true n n2; d_removed := diff_side false n n2; d_count := c |}
  end.

(* ---- rebuilding the second node's attributes from the first node and the diff -------------------- *)
Definition apply_s (v a r : string) : string :=
  if negb (String.eqb a "") then a else if negb (String.eqb r "") then "" else v.

Definition apply_type (v a r : Z) : Z := if Z.eqb a r then v else a.

Definition apply_strs (v a r : list string) : list string := filter (fun s => negb (mem s r)) v ++ a.
Definition apply_enums (v a r : list Z) : list Z := filter (fun s => negb (zmem s r)) v ++ a.
Definition apply_keyed {A} (key : A -> string) (v a r : list A) : list A :=
  filter (fun x => negb (mem (key x) (map key r))) v ++ a.
Definition apply_map (v a r : list (Z * string)) : list (Z * string) :=
  a ++ filter (fun kv => negb (zmem (fst kv) (map fst r)) && negb (zmem (fst kv) (map fst a))) v.
Definition apply_date (v a r : option ts) : option ts :=
  match a, r with Some _, _ => a | None, Some _ => None | None, None => v end.

Definition apply_diff (n : node) (d : node_diff_t) : node :=
  let a := d_added d in let r := d_removed d in
  {| n_id := apply_s (n_id n) (n_id a) (n_id r);
     n_type := apply_type (n_type n) (n_type a) (n_type r);
     n_name := apply_s (n_name n) (n_name a) (n_name r);
     n_version := apply_s (n_version n) (n_version a) (n_version r);
     n_file_name := apply_s (n_file_name n) (n_file_name a) (n_file_name r);
     n_url_home := apply_s (n_url_home n) (n_url_home a) (n_url_home r);
     n_url_download := apply_s (n_url_download n) (n_url_download a) (n_url_download r);
     n_licenses := apply_strs (n_licenses n) (n_licenses a) (n_licenses r);
     n_license_concluded := apply_s (n_license_concluded n) (n_license_concluded a) (n_license_concluded r);
     n_license_comments := apply_s (n_license_comments n) (n_license_comments a) (n_license_comments r);
     n_copyright := apply_s (n_copyright n) (n_copyright a) (n_copyright r);
     n_source_info := apply_s (n_source_info n) (n_source_info a) (n_source_info r);
     n_comment := apply_s (n_comment n) (n_comment a) (n_comment r);
     n_summary := apply_s (n_summary n) (n_summary a) (n_summary r);
     n_description := apply_s (n_description n) (n_description a) (n_description r);
     n_attribution := apply_strs (n_attribution n) (n_attribution a) (n_attribution r);
     n_suppliers := apply_keyed person_flat (n_suppliers n) (n_suppliers a) (n_suppliers r);
     n_originators := apply_keyed person_flat (n_originators n) (n_originators a) (n_originators r);
     n_release_date := apply_date (n_release_date n) (n_release_date a) (n_release_date r);
     n_build_date := apply_date (n_build_date n) (n_build_date a) (n_build_date r);
     n_valid_until_date := apply_date (n_valid_until_date n) (n_valid_until_date a) (n_valid_until_date r);
     n_external_references := apply_keyed extref_flat (n_external_references n) (n_external_references a) (n_external_references r);
     n_file_types := apply_strs (n_file_types n) (n_file_types a) (n_file_types r);
     n_identifiers := apply_map (n_identifiers n) (n_identifiers a) (n_identifiers r);
     n_hashes := apply_map (n_hashes n) (n_hashes a) (n_hashes r);
     n_primary_purpose := apply_enums (n_primary_purpose n) (n_primary_purpose a) (n_primary_purpose r) |}.
