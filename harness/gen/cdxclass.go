package gen

import (
	"fmt"

	"github.com/protobom/protobom/pkg/sbom"
)

// cdx-native purposes (component types CycloneDX 1.4 and 1.5 both have)
var cdxNativePurposes = []sbom.Purpose{sbom.Purpose_APPLICATION, sbom.Purpose_FRAMEWORK, sbom.Purpose_LIBRARY, sbom.Purpose_CONTAINER,
	sbom.Purpose_OPERATING_SYSTEM, sbom.Purpose_DEVICE, sbom.Purpose_FIRMWARE}

var cdxHashAlgos = []int32{1, 2, 3, 4, 5, 6, 7, 8, 9, 10, 11, 12}

// CDXClassNode: a node whose attributes CycloneDX can express.
func (g *G) CDXClassNode(id string) *sbom.Node {
	n := &sbom.Node{Id: id, Name: g.plain()}
	on := func() bool { return g.Chance(0.45) }
	if g.Chance(0.25) {
		n.Type = sbom.Node_FILE
	} else {
		n.PrimaryPurpose = []sbom.Purpose{Pick(g, cdxNativePurposes)}
		// several purposes on some nodes (the component type is that of the first); decided without a further draw
		switch n.PrimaryPurpose[0] {
		case sbom.Purpose_LIBRARY:
			n.PrimaryPurpose = append(n.PrimaryPurpose, sbom.Purpose_CONTAINER)
		case sbom.Purpose_FRAMEWORK:
			n.PrimaryPurpose = append(n.PrimaryPurpose, sbom.Purpose_OPERATING_SYSTEM, sbom.Purpose_LIBRARY)
		}
	}
	if on() {
		n.Version = g.plain()
	}
	if on() {
		n.Description = g.plain()
	}
	if on() {
		n.Copyright = g.plain()
	}
	if on() {
		lics := []string{"MIT", "Apache-2.0", "BSD-3-Clause", "GPL-2.0-only"}
		g.R.Shuffle(len(lics), func(i, j int) { lics[i], lics[j] = lics[j], lics[i] })
		k := 1
		if g.Chance(0.3) {
			k += 1 + g.Int(2)
		}
		n.Licenses = lics[:k]
	}
	if on() {
		n.Hashes = map[int32]string{}
		for k := 1 + g.Int(2); k > 0; k-- {
			n.Hashes[Pick(g, cdxHashAlgos)] = Pick(g, []string{"aa", "bb", "0123abcd"})
		}
	}
	if on() {
		n.Identifiers = map[int32]string{}
		if g.Chance(0.7) {
			n.Identifiers[1] = "pkg:npm/foo@1.0"
		}
		if g.Chance(0.5) {
			n.Identifiers[3] = "cpe:2.3:a:x:y:1:*:*:*:*:*:*:*"
		}
	}
	if on() {
		for k := 1 + g.Int(2); k > 0; k-- {
			e := &sbom.ExternalReference{Url: fmt.Sprintf("https://e.example/%d", g.Int(3)),
				Type: Pick(g, []sbom.ExternalReference_ExternalReferenceType{sbom.ExternalReference_VCS, sbom.ExternalReference_WEBSITE, sbom.ExternalReference_ISSUE_TRACKER, sbom.ExternalReference_OTHER, sbom.ExternalReference_DOCUMENTATION, sbom.ExternalReference_BOM})}
			if g.Chance(0.4) {
				e.Comment = g.plain()
			}
			if g.Chance(0.3) {
				e.Hashes = map[int32]string{Pick(g, cdxHashAlgos): "cc"}
			}
			n.ExternalReferences = append(n.ExternalReferences, e)
		}
	}
	return n
}

// CDXTreeDocument: one root, the other nodes form a containment tree under it (random depth and
// fan-out); the stored edge list is a random permutation, a parent's children may be spread over
// several contains edges.
func (g *G) CDXTreeDocument(maxNodes int) *sbom.Document {
	d := sbom.NewDocument()
	d.Metadata.Id = Pick(g, []string{"urn:uuid:3e671687-395b-41f5-a30f-a58921a69b79", "urn:uuid:11111111-2222-3333-4444-555555555555"})
	d.Metadata.Version = Pick(g, []string{"1", "2", "7"})
	nn := 1 + g.Int(maxNodes)
	ids := make([]string, nn)
	for i := range ids {
		ids[i] = fmt.Sprintf("c%d", i)
	}
	g.R.Shuffle(nn, func(i, j int) { ids[i], ids[j] = ids[j], ids[i] })
	for _, id := range ids {
		d.NodeList.Nodes = append(d.NodeList.Nodes, g.CDXClassNode(id))
	}
	root := d.NodeList.Nodes[g.Int(nn)].Id
	d.NodeList.RootElements = []string{root}
	// random tree: attach every other node to a node already in the tree
	inTree := []string{root}
	type pc struct{ p, c string }
	var pairs []pc
	for _, n := range d.NodeList.Nodes {
		if n.Id == root {
			continue
		}
		var p string
		if g.Chance(0.5) {
			p = inTree[len(inTree)-1] // deepen
		} else {
			p = Pick(g, inTree)
		}
		pairs = append(pairs, pc{p, n.Id})
		inTree = append(inTree, n.Id)
	}
	g.R.Shuffle(len(pairs), func(i, j int) { pairs[i], pairs[j] = pairs[j], pairs[i] })
	// group some pairs of the same parent into one edge, keep others separate
	used := make([]bool, len(pairs))
	for i, x := range pairs {
		if used[i] {
			continue
		}
		e := &sbom.Edge{Type: sbom.Edge_contains, From: x.p, To: []string{x.c}}
		used[i] = true
		for j := i + 1; j < len(pairs); j++ {
			if !used[j] && pairs[j].p == x.p && g.Chance(0.5) {
				e.To = append(e.To, pairs[j].c)
				used[j] = true
			}
		}
		d.NodeList.Edges = append(d.NodeList.Edges, e)
	}
	g.R.Shuffle(len(d.NodeList.Edges), func(i, j int) {
		d.NodeList.Edges[i], d.NodeList.Edges[j] = d.NodeList.Edges[j], d.NodeList.Edges[i]
	})
	// the node list in any order too: so far every parent precedes its children in it
	g.R.Shuffle(len(d.NodeList.Nodes), func(i, j int) {
		d.NodeList.Nodes[i], d.NodeList.Nodes[j] = d.NodeList.Nodes[j], d.NodeList.Nodes[i]
	})
	if g.Chance(0.5) {
		for k := 1 + g.Int(3); k > 0; k-- {
			if g.Chance(0.35) {
				// a custom lifecycle: a name (and perhaps a description) instead of one of the defined phases
				nm := Pick(g, []string{"customer-acceptance", "staging", "x"})
				dt := &sbom.DocumentType{Name: &nm}
				if g.Chance(0.5) {
					ds := Pick(g, []string{"signed off by QA", "d"})
					dt.Description = &ds
				}
				d.Metadata.DocumentTypes = append(d.Metadata.DocumentTypes, dt)
				continue
			}
			t := sbom.DocumentType_SBOMType(1 + g.Int(5))
			ds := ""
			d.Metadata.DocumentTypes = append(d.Metadata.DocumentTypes, &sbom.DocumentType{Type: &t, Name: nil, Description: &ds})
		}
	}
	if g.Chance(0.3) {
		// identifiers that resemble the reader's generated ones without being reserved
		g.RenameSome(d.NodeList, KeptRefLike, 1+g.Int(3))
	}
	return d
}
